(** Every interleaving of structured actor programs yields a well-formed stream. *)
From NL Require Import Events.Grammar Events.GrammarProofs Events.Emitter.
From Coq Require Import Permutation.
Open Scope Z_scope.

(** ------------------------------------------------------------------ one actor vs its trace automaton *)

Definition started (a : actor) : Prop := match a_pc a with AInit _ _ => False | _ => True end.

Definition lt_all (o : option Z) (x : Z) : Prop := match o with Some y => y < x | None => True end.

(** the stack of the recogniser that corresponds to a program point *)
Definition pc_phase (a : actor) (ph : phase) : Prop :=
  match a_pc a with
  | AInit _ _ | AGotTrace _ _ => ph = PNone
  | AIdle _ | AGotCall _ _ _ _ => ph = PIdle
  | AInCall _ _ => ph = PCall (a_c a)
  | ALoop ps had _ => ph = PLoop (a_c a) had /\ (ps = [] -> had = true)
  | AGotPrompt _ _ _ _ => exists had, ph = PLoop (a_c a) had
  | AInPrompt _ _ _ => ph = PPrompt (a_c a) (a_p a)
  | AAfterLoop _ => ph = PAfter (a_c a)
  | ADone => ph = PDone
  end.

Definition linv (a : actor) (ts : tstate) (cc cp : Z) : Prop :=
  pc_phase a (t_ph ts) /\ lt_all (t_lc ts) cc /\ lt_all (t_lp ts) cp /\
  match a_pc a with
  | AGotCall _ _ _ _ => lt_opt (t_lc ts) (a_c a) = true /\ a_c a < cc
  | AGotPrompt _ _ _ _ => lt_opt (t_lp ts) (a_p a) = true /\ a_p a < cp
  | _ => True
  end.

Lemma lt_all_mono o x y : lt_all o x -> x <= y -> lt_all o y.
Proof. destruct o; simpl; intros; auto; lia. Qed.

Lemma lt_all_opt o x : lt_all o x -> lt_opt o x = true.
Proof. destruct o; simpl; auto. intros. apply Z.ltb_lt. assumption. Qed.

Lemma linv_mono a ts cc cp cc' cp' : linv a ts cc cp -> cc <= cc' -> cp <= cp' -> linv a ts cc' cp'.
Proof.
  intros (H1 & H2 & H3 & H4) Hc Hp. repeat split; eauto using lt_all_mono.
  destruct (a_pc a); auto; destruct H4; split; auto; lia.
Qed.

Ltac tstep_ok :=
  unfold tstep, pstep; simpl; rewrite ?Z.eqb_refl; simpl; rewrite ?Z.eqb_refl; simpl.

Lemma astep_put r ct cc cp a a' e ts :
  astep r ct cc cp a = (a', EPut e) -> linv a ts cc cp ->
  started a /\ ev_trace e = a_t a /\ a_t a' = a_t a /\ started a' /\
  exists ts', tstep r (a_t a) ts e = Some ts' /\ linv a' ts' cc cp.
Proof.
  unfold astep, linv, pc_phase, started. destruct a as [pc0 t c p]. simpl.
  destruct ts as [ph lc lp]. simpl.
  destruct pc0 as [pl k|pl k|k|fid info loop k|loop k|ps had k|txt cmd ps k|cmd ps k|k|]; simpl.
  - intros H; inv H.
  - intros H (Hp & Hc & Hq & _). inv H. simpl. repeat split; auto.
    eexists. split; [tstep_ok; reflexivity|]. simpl. auto.
  - destruct k as [|[fid info loop|txt] k]; intros H (Hp & Hc & Hq & _); inv H; simpl; repeat split; auto.
    + eexists. split; [tstep_ok; reflexivity|]. simpl. auto.
    + eexists. split; [tstep_ok; reflexivity|]. simpl. auto.
  - intros H (Hp & Hc & Hq & Hl & Hlt). inv H. simpl. repeat split; auto.
    eexists. split; [tstep_ok; rewrite Hl; reflexivity|]. simpl. auto.
  - destruct loop as [[q qs]|]; intros H (Hp & Hc & Hq & _); inv H; simpl; repeat split; auto.
    + eexists. split; [tstep_ok; reflexivity|]. simpl. repeat split; auto. discriminate.
    + eexists. split; [tstep_ok; reflexivity|]. simpl. auto.
  - destruct ps as [|[txt cmd] ps]; intros H ([Hp Hh] & Hc & Hq & _); inv H; simpl; repeat split; auto.
    rewrite Hh by reflexivity.
    eexists. split; [tstep_ok; reflexivity|]. simpl. auto.
  - intros H ([had Hp] & Hc & Hq & Hl & Hlt). inv H. simpl. repeat split; auto.
    eexists. split; [destruct had; tstep_ok; rewrite Hl; reflexivity|]. simpl. auto.
  - intros H (Hp & Hc & Hq & _). inv H. simpl. repeat split; auto.
    eexists. split; [tstep_ok; reflexivity|]. simpl. repeat split; auto.
  - intros H (Hp & Hc & Hq & _). inv H. simpl. repeat split; auto.
    eexists. split; [tstep_ok; reflexivity|]. simpl. auto.
  - intros H; inv H.
Qed.

Lemma astep_take_c r ct cc cp a a' ts :
  astep r ct cc cp a = (a', ETakeC) -> linv a ts cc cp ->
  a_t a' = a_t a /\ (started a -> started a') /\ started a /\ linv a' ts (cc + 1) cp /\
  a_c a' = cc /\ (match a_pc a with AGotCall _ _ _ _ => False | _ => True end) /\
  (match a_pc a' with AGotCall _ _ _ _ => True | _ => False end) /\ a_p a' = a_p a /\
  (match a_pc a with AGotPrompt _ _ _ _ => False | _ => True end) /\
  (match a_pc a' with AGotPrompt _ _ _ _ => False | _ => True end).
Proof.
  unfold astep, linv, pc_phase, started. destruct a as [pc0 t c p]. simpl.
  destruct pc0 as [pl k|pl k|k|fid info loop k|loop k|ps had k|txt cmd ps k|cmd ps k|k|]; simpl;
    try (intros H; inv H; fail).
  - destruct k as [|[fid info loop|txt] k]; intros H (Hp & Hc & Hq & _); inv H; simpl.
    repeat split; auto; try (eapply lt_all_mono; eauto; lia); try lia. apply lt_all_opt. assumption.
  - destruct loop as [[q qs]|]; intros H; inv H.
  - destruct ps as [|[txt cmd] ps]; intros H; inv H.
Qed.

Lemma astep_take_p r ct cc cp a a' ts :
  astep r ct cc cp a = (a', ETakeP) -> linv a ts cc cp ->
  a_t a' = a_t a /\ (started a -> started a') /\ started a /\ linv a' ts cc (cp + 1) /\
  a_p a' = cp /\ (match a_pc a with AGotPrompt _ _ _ _ => False | _ => True end) /\
  (match a_pc a' with AGotPrompt _ _ _ _ => True | _ => False end) /\ a_c a' = a_c a /\
  (match a_pc a with AGotCall _ _ _ _ => False | _ => True end) /\
  (match a_pc a' with AGotCall _ _ _ _ => False | _ => True end).
Proof.
  unfold astep, linv, pc_phase, started. destruct a as [pc0 t c p]. simpl.
  destruct pc0 as [pl k|pl k|k|fid info loop k|loop k|ps had k|txt cmd ps k|cmd ps k|k|]; simpl;
    try (intros H; inv H; fail).
  - destruct k as [|[fid info loop|txt] k]; intros H; inv H.
  - destruct loop as [[q qs]|]; intros H; inv H.
  - destruct ps as [|[txt cmd] ps]; intros H ([Hp Hh] & Hc & Hq & _); inv H; simpl.
    repeat split; eauto; try (eapply lt_all_mono; eauto; lia); try lia. apply lt_all_opt. assumption.
Qed.

Lemma astep_take_t r ct cc cp a a' :
  astep r ct cc cp a = (a', ETakeT) ->
  ~ started a /\ started a' /\ a_t a' = ct /\
  (forall ts, t_ph ts = PNone -> lt_all (t_lc ts) cc -> lt_all (t_lp ts) cp -> linv a' ts cc cp) /\
  (match a_pc a' with AGotCall _ _ _ _ | AGotPrompt _ _ _ _ => False | _ => True end) /\
  (match a_pc a with AGotCall _ _ _ _ | AGotPrompt _ _ _ _ => False | _ => True end).
Proof.
  unfold astep, linv, pc_phase, started. destruct a as [pc0 t c p]. simpl.
  destruct pc0 as [pl k|pl k|k|fid info loop k|loop k|ps had k|txt cmd ps k|cmd ps k|k|]; simpl;
    try (intros H; inv H; fail).
  - intros H. inv H. simpl. repeat split; auto.
  - destruct k as [|[fid info loop|txt] k]; intros H; inv H.
  - destruct loop as [[q qs]|]; intros H; inv H.
  - destruct ps as [|[txt cmd] ps]; intros H; inv H.
Qed.

Lemma astep_none r ct cc cp a a' : astep r ct cc cp a = (a', ENone) -> a' = a.
Proof.
  unfold astep. destruct a as [pc0 t c p]. simpl.
  destruct pc0 as [pl k|pl k|k|fid info loop k|loop k|ps had k|txt cmd ps k|cmd ps k|k|]; simpl; intros H.
  all: try (destruct k as [|[fid0 info0 loop0|txt0] k]); try (destruct loop as [[q qs]|]);
    try (destruct ps as [|[txt1 cmd1] ps]); simpl in H; inv H; try reflexivity.
Qed.

(** ------------------------------------------------------------------ the system vs the recogniser *)

Lemma nth_set_nth_same {A} : forall (l : list A) i x a, nth_error l i = Some a -> nth_error (set_nth l i x) i = Some x.
Proof. induction l as [|y l IH]; intros [|i] x a H; simpl in *; try discriminate; eauto. Qed.

Lemma nth_set_nth_other {A} : forall (l : list A) i j x, i <> j -> nth_error (set_nth l i x) j = nth_error l j.
Proof.
  induction l as [|y l IH]; intros [|i] [|j] x H; simpl; auto; try congruence.
Qed.

Definition rel (g : gstate) (s : sys) : Prop :=
  (forall i a, nth_error (s_actors s) i = Some a -> started a ->
     linv a (lookup g (a_t a)) (s_cc s) (s_cp s) /\ a_t a < s_ct s) /\
  (forall i j a b, i <> j -> nth_error (s_actors s) i = Some a -> nth_error (s_actors s) j = Some b ->
     started a -> started b -> a_t a <> a_t b) /\
  (forall t, s_ct s <= t -> lookup g t = t0).

Lemma step_rel r g s i s' oe : rel g s -> step r s i = (s', oe) ->
  match oe with
  | Some e => exists g', gstep r g e = Some g' /\ rel g' s'
  | None => rel g s'
  end.
Proof.
  intros (R1 & R2 & R3) Hst. unfold step in Hst.
  destruct (nth_error (s_actors s) i) as [a|] eqn:En.
  2:{ inv Hst. split; [|split]; auto. }
  destruct (astep r (s_ct s) (s_cc s) (s_cp s) a) as [a' eff] eqn:Ea.
  assert (Hsame : nth_error (set_nth (s_actors s) i a') i = Some a') by (eapply nth_set_nth_same; eauto).
  destruct eff; inv Hst.
  - (* nothing *) split; [|split]; auto.
  - (* take a trace number *)
    destruct (astep_take_t _ _ _ _ _ _ Ea) as (Hns & Hs' & Ht' & Hl & _).
    split; [|split]; simpl.
    + intros j b Hj Hb. destruct (Nat.eq_dec i j) as [<- | Hij].
      * rewrite Hsame in Hj. inv Hj. split; [|lia]. rewrite Ht'. rewrite R3 by lia. apply Hl; simpl; auto.
      * rewrite nth_set_nth_other in Hj by assumption. destruct (R1 _ _ Hj Hb) as [H1 H2]. split; auto. lia.
    + intros j k b c Hjk Hj Hk Hb Hc.
      destruct (Nat.eq_dec i j) as [<- | Hij]; destruct (Nat.eq_dec i k) as [<- | Hik]; try congruence.
      * rewrite Hsame in Hj. inv Hj. rewrite nth_set_nth_other in Hk by assumption.
        destruct (R1 _ _ Hk Hc) as [_ H2]. lia.
      * rewrite Hsame in Hk. inv Hk. rewrite nth_set_nth_other in Hj by assumption.
        destruct (R1 _ _ Hj Hb) as [_ H2]. lia.
      * rewrite nth_set_nth_other in Hj, Hk by assumption. exact (R2 j k b c Hjk Hj Hk Hb Hc).
    + intros t Ht. apply R3. lia.
  - (* take a trace-call number *)
    assert (Hst : started a \/ ~ started a) by (unfold started; destruct (a_pc a); auto).
    destruct Hst as [Hsa | Hns].
    2:{ exfalso. unfold astep in Ea. unfold started in Hns. destruct (a_pc a); try (apply Hns; exact I). inv Ea. }
    destruct (R1 _ _ En Hsa) as [Hl Hlt].
    destruct (astep_take_c _ _ _ _ _ _ _ Ea Hl) as (Ht' & Hs' & _ & Hl' & _).
    split; [|split]; simpl.
    + intros j b Hj Hb. destruct (Nat.eq_dec i j) as [<- | Hij].
      * rewrite Hsame in Hj. inv Hj. rewrite Ht'. auto.
      * rewrite nth_set_nth_other in Hj by assumption. destruct (R1 _ _ Hj Hb) as [H1 H2]. split; auto.
        eapply linv_mono; eauto; lia.
    + intros j k b c Hjk Hj Hk Hb Hc.
      destruct (Nat.eq_dec i j) as [<- | Hij]; destruct (Nat.eq_dec i k) as [<- | Hik]; try congruence.
      * rewrite Hsame in Hj. inv Hj. rewrite nth_set_nth_other in Hk by assumption. rewrite Ht'. exact (R2 i k a c Hjk En Hk Hsa Hc).
      * rewrite Hsame in Hk. inv Hk. rewrite nth_set_nth_other in Hj by assumption. rewrite Ht'. exact (R2 j i b a Hjk Hj En Hb Hsa).
      * rewrite nth_set_nth_other in Hj, Hk by assumption. exact (R2 j k b c Hjk Hj Hk Hb Hc).
    + assumption.
  - (* take a prompt number *)
    assert (Hst : started a \/ ~ started a) by (unfold started; destruct (a_pc a); auto).
    destruct Hst as [Hsa | Hns].
    2:{ exfalso. unfold astep in Ea. unfold started in Hns. destruct (a_pc a); try (apply Hns; exact I). inv Ea. }
    destruct (R1 _ _ En Hsa) as [Hl Hlt].
    destruct (astep_take_p _ _ _ _ _ _ _ Ea Hl) as (Ht' & Hs' & _ & Hl' & _).
    split; [|split]; simpl.
    + intros j b Hj Hb. destruct (Nat.eq_dec i j) as [<- | Hij].
      * rewrite Hsame in Hj. inv Hj. rewrite Ht'. auto.
      * rewrite nth_set_nth_other in Hj by assumption. destruct (R1 _ _ Hj Hb) as [H1 H2]. split; auto.
        eapply linv_mono; eauto; lia.
    + intros j k b c Hjk Hj Hk Hb Hc.
      destruct (Nat.eq_dec i j) as [<- | Hij]; destruct (Nat.eq_dec i k) as [<- | Hik]; try congruence.
      * rewrite Hsame in Hj. inv Hj. rewrite nth_set_nth_other in Hk by assumption. rewrite Ht'. exact (R2 i k a c Hjk En Hk Hsa Hc).
      * rewrite Hsame in Hk. inv Hk. rewrite nth_set_nth_other in Hj by assumption. rewrite Ht'. exact (R2 j i b a Hjk Hj En Hb Hsa).
      * rewrite nth_set_nth_other in Hj, Hk by assumption. exact (R2 j k b c Hjk Hj Hk Hb Hc).
    + assumption.
  - (* put an event *)
    assert (Hst : started a \/ ~ started a) by (unfold started; destruct (a_pc a); auto).
    destruct Hst as [Hsa | Hns].
    2:{ exfalso. unfold astep in Ea. unfold started in Hns. destruct (a_pc a); try (apply Hns; exact I). inv Ea. }
    destruct (R1 _ _ En Hsa) as [Hl Hlt].
    destruct (astep_put _ _ _ _ _ _ _ _ Ea Hl) as (_ & Hev & Ht' & Hs' & ts' & Hts & Hl').
    exists (update g (a_t a) ts'). split.
    + unfold gstep. rewrite Hev, Hts. reflexivity.
    + split; [|split]; simpl.
      * intros j b Hj Hb. destruct (Nat.eq_dec i j) as [<- | Hij].
        -- rewrite Hsame in Hj. inv Hj. rewrite Ht', lookup_update_same. auto.
        -- rewrite nth_set_nth_other in Hj by assumption. destruct (R1 _ _ Hj Hb) as [H1 H2]. split; auto.
           rewrite lookup_update_other; auto. intros E. symmetry in E. revert E. eapply R2; eauto.
      * intros j k b c Hjk Hj Hk Hb Hc.
        destruct (Nat.eq_dec i j) as [<- | Hij]; destruct (Nat.eq_dec i k) as [<- | Hik]; try congruence.
        -- rewrite Hsame in Hj. inv Hj. rewrite nth_set_nth_other in Hk by assumption. rewrite Ht'. exact (R2 i k a c Hjk En Hk Hsa Hc).
        -- rewrite Hsame in Hk. inv Hk. rewrite nth_set_nth_other in Hj by assumption. rewrite Ht'. exact (R2 j i b a Hjk Hj En Hb Hsa).
        -- rewrite nth_set_nth_other in Hj, Hk by assumption. exact (R2 j k b c Hjk Hj Hk Hb Hc).
      * intros t Ht. rewrite lookup_update_other; [apply R3; assumption | lia].
Qed.

Lemma run_rel r : forall sched g s, rel g s ->
  exists g', grun r g (snd (run r s sched)) = Some g' /\ rel g' (fst (run r s sched)).
Proof.
  induction sched as [|i sched IH]; intros g s H; simpl.
  - eauto.
  - destruct (step r s i) as [s1 oe] eqn:Es. pose proof (step_rel _ _ _ _ _ _ H Es) as Hs.
    destruct (run r s1 sched) as [s2 es] eqn:Er.
    destruct oe as [e|]; simpl.
    + destruct Hs as (g1 & Hg1 & Hr1). rewrite Hg1. specialize (IH _ _ Hr1). rewrite Er in IH. exact IH.
    + specialize (IH _ _ Hs). rewrite Er in IH. exact IH.
Qed.

Lemma rel_init ps : rel [] (init_sys ps).
Proof.
  split; [|split]; simpl.
  - intros i a Hn Hs. exfalso. apply nth_error_In in Hn. apply in_map_iff in Hn. destruct Hn as (p & <- & _). exact Hs.
  - intros i j a b _ Hn _ Hs. exfalso. apply nth_error_In in Hn. apply in_map_iff in Hn. destruct Hn as (p & <- & _). exact Hs.
  - reflexivity.
Qed.

(** ------------------------------------------------------------------ numbers: taken once, put once *)

Definition pendC (a : actor) : list Z := match a_pc a with AGotCall _ _ _ _ => [a_c a] | _ => [] end.
Definition pendP (a : actor) : list Z := match a_pc a with AGotPrompt _ _ _ _ => [a_p a] | _ => [] end.

Lemma astep_pendC r ct cc cp a a' eff : astep r ct cc cp a = (a', eff) ->
  match eff with
  | ETakeC => pendC a = [] /\ pendC a' = [cc]
  | EPut e => (call_starts [e] = pendC a /\ pendC a' = [] /\ pendC a <> []) \/ (call_starts [e] = [] /\ pendC a' = pendC a)
  | _ => pendC a' = pendC a
  end.
Proof.
  unfold astep, pendC. destruct a as [pc0 t c p]. simpl.
  destruct pc0 as [pl k|pl k|k|fid info loop k|loop k|ps had k|txt cmd ps k|cmd ps k|k|]; simpl; intros H.
  all: try (destruct k as [|[fid0 info0 loop0|txt0] k]); try (destruct loop as [[q qs]|]);
    try (destruct ps as [|[txt1 cmd1] ps]); simpl in H; inv H; simpl; auto.
  all: left; repeat split; auto; discriminate.
Qed.

Lemma astep_pendP r ct cc cp a a' eff : astep r ct cc cp a = (a', eff) ->
  match eff with
  | ETakeP => pendP a = [] /\ pendP a' = [cp]
  | EPut e => (prompt_starts [e] = pendP a /\ pendP a' = [] /\ pendP a <> []) \/ (prompt_starts [e] = [] /\ pendP a' = pendP a)
  | _ => pendP a' = pendP a
  end.
Proof.
  unfold astep, pendP. destruct a as [pc0 t c p]. simpl.
  destruct pc0 as [pl k|pl k|k|fid info loop k|loop k|ps had k|txt cmd ps k|cmd ps k|k|]; simpl; intros H.
  all: try (destruct k as [|[fid0 info0 loop0|txt0] k]); try (destruct loop as [[q qs]|]);
    try (destruct ps as [|[txt1 cmd1] ps]); simpl in H; inv H; simpl; auto.
  all: left; repeat split; auto; discriminate.
Qed.

Lemma set_nth_split {A} : forall (l : list A) i a x, nth_error l i = Some a ->
  exists l1 l2, l = l1 ++ a :: l2 /\ set_nth l i x = l1 ++ x :: l2.
Proof.
  induction l as [|y l IH]; intros [|i] a x H; simpl in *; try discriminate.
  - inv H. exists [], l. auto.
  - destruct (IH _ _ x H) as (l1 & l2 & -> & ->). exists (y :: l1), l2. auto.
Qed.

Section Numbers.
  Variable r : Z.
  (** one kind of number: its counter, who holds a taken-but-not-yet-put number, where it shows in the stream *)
  Variable cnt : sys -> Z.
  Variable pend : actor -> list Z.
  Variable starts : list event -> list Z.
  Hypothesis starts_cons : forall e es, starts (e :: es) = starts [e] ++ starts es.
  Hypothesis starts_nil : starts [] = [].
  Hypothesis step_kind : forall s i s' oe, step r s i = (s', oe) ->
    (s' = s /\ oe = None) \/
    exists l1 a a' l2, s_actors s = l1 ++ a :: l2 /\ s_actors s' = l1 ++ a' :: l2 /\
      let out := match oe with Some e => starts [e] | None => [] end in
      ((pend a = [] /\ pend a' = [cnt s] /\ cnt s' = cnt s + 1 /\ out = []) \/
       (exists x, pend a = [x] /\ pend a' = [] /\ cnt s' = cnt s /\ out = [x]) \/
       (pend a' = pend a /\ cnt s' = cnt s /\ out = [])).

  Definition pending (s : sys) : list Z := flat_map pend (s_actors s).

  Lemma numbers_fresh : forall sched s,
    NoDup (pending s) -> (forall x, In x (pending s) -> x < cnt s) ->
    NoDup (starts (snd (run r s sched))) /\
    forall x, In x (starts (snd (run r s sched))) -> In x (pending s) \/ cnt s <= x.
  Proof.
    induction sched as [|i sched IH]; intros s Hnd Hlt; simpl.
    - rewrite starts_nil. split; [constructor | intros x []].
    - destruct (step r s i) as [s1 oe] eqn:Es. destruct (run r s1 sched) as [s2 es] eqn:Er. simpl.
      specialize (IH s1). rewrite Er in IH. simpl in IH.
      destruct (step_kind _ _ _ _ Es) as [[-> ->] | (l1 & a & a' & l2 & Hl & Hl' & Hk)]; [auto|].
      unfold pending in *. rewrite Hl in Hnd, Hlt |- *. rewrite Hl' in IH.
      rewrite !flat_map_app in *. simpl in *.
      destruct Hk as [(Ha & Ha' & Hc & Ho) | [(x & Ha & Ha' & Hc & Ho) | (Ha' & Hc & Ho)]].
      + (* take *)
        rewrite Ha in *. rewrite Ha', Hc in IH. simpl in *.
        assert (Hout : starts (match oe with Some e => e :: es | None => es end) = starts es).
        { destruct oe; auto. rewrite starts_cons, Ho. reflexivity. }
        rewrite Hout. destruct IH as [IH1 IH2].
        * apply (Permutation_NoDup (Permutation_middle _ _ _)). constructor; auto.
          intros Hin. apply Hlt in Hin. lia.
        * intros y Hy. apply in_app_or in Hy. destruct Hy as [Hy | [<- | Hy]]; [| lia |].
          -- assert (y < cnt s) by (apply Hlt, in_or_app; auto). lia.
          -- assert (y < cnt s) by (apply Hlt, in_or_app; auto). lia.
        * split; auto. intros y Hy. destruct (IH2 y Hy) as [Hin | Hge]; [|right; lia].
          apply in_app_or in Hin. destruct Hin as [Hin | [<- | Hin]]; [left; apply in_or_app; auto | right; lia | left; apply in_or_app; auto].
      + (* put *)
        rewrite Ha in *. rewrite Ha', Hc in IH. simpl in *.
        assert (Hout : starts (match oe with Some e => e :: es | None => es end) = x :: starts es).
        { destruct oe; [rewrite starts_cons, Ho; reflexivity | discriminate]. }
        rewrite Hout. pose proof (NoDup_remove _ _ _ Hnd) as [Hnd' Hnx].
        destruct IH as [IH1 IH2]; auto.
        * intros y Hy. apply Hlt. apply in_app_or in Hy. apply in_or_app. simpl. tauto.
        * split.
          -- constructor; auto. intros Hin. destruct (IH2 _ Hin) as [H | H]; [contradiction|].
             assert (x < cnt s) by (apply Hlt, in_or_app; simpl; auto). lia.
          -- intros y [<- | Hy]; [left; apply in_or_app; simpl; auto|].
             destruct (IH2 _ Hy) as [H | H]; [left | right; auto].
             apply in_app_or in H. apply in_or_app. simpl. tauto.
      + (* other *)
        rewrite Ha', Hc in IH.
        assert (Hout : starts (match oe with Some e => e :: es | None => es end) = starts es).
        { destruct oe; auto. rewrite starts_cons, Ho. reflexivity. }
        rewrite Hout. apply IH; auto.
  Qed.
End Numbers.

Lemma step_kind_C r s i s' oe : step r s i = (s', oe) ->
  (s' = s /\ oe = None) \/
  exists l1 a a' l2, s_actors s = l1 ++ a :: l2 /\ s_actors s' = l1 ++ a' :: l2 /\
    let out := match oe with Some e => call_starts [e] | None => [] end in
    ((pendC a = [] /\ pendC a' = [s_cc s] /\ s_cc s' = s_cc s + 1 /\ out = []) \/
     (exists x, pendC a = [x] /\ pendC a' = [] /\ s_cc s' = s_cc s /\ out = [x]) \/
     (pendC a' = pendC a /\ s_cc s' = s_cc s /\ out = [])).
Proof.
  unfold step. destruct (nth_error (s_actors s) i) as [a|] eqn:En; [|intros H; inv H; auto].
  destruct (astep r (s_ct s) (s_cc s) (s_cp s) a) as [a' eff] eqn:Ea.
  pose proof (astep_pendC _ _ _ _ _ _ _ Ea) as Hp.
  destruct (set_nth_split _ _ _ a' En) as (l1 & l2 & Hl & Hl').
  destruct eff; intros H; inv H; auto; right; exists l1, a, a', l2; simpl; (split; [assumption|]); (split; [assumption|]).
  - right. right. auto.
  - left. tauto.
  - right. right. auto.
  - destruct Hp as [(H1 & H2 & H3) | (H1 & H2)].
    + right. left. destruct (pendC a) as [|x [|? ?]] eqn:E; try congruence.
      * exists x. auto.
      * unfold pendC in E. destruct (a_pc a); discriminate.
    + right. right. auto.
Qed.

Lemma step_kind_P r s i s' oe : step r s i = (s', oe) ->
  (s' = s /\ oe = None) \/
  exists l1 a a' l2, s_actors s = l1 ++ a :: l2 /\ s_actors s' = l1 ++ a' :: l2 /\
    let out := match oe with Some e => prompt_starts [e] | None => [] end in
    ((pendP a = [] /\ pendP a' = [s_cp s] /\ s_cp s' = s_cp s + 1 /\ out = []) \/
     (exists x, pendP a = [x] /\ pendP a' = [] /\ s_cp s' = s_cp s /\ out = [x]) \/
     (pendP a' = pendP a /\ s_cp s' = s_cp s /\ out = [])).
Proof.
  unfold step. destruct (nth_error (s_actors s) i) as [a|] eqn:En; [|intros H; inv H; auto].
  destruct (astep r (s_ct s) (s_cc s) (s_cp s) a) as [a' eff] eqn:Ea.
  pose proof (astep_pendP _ _ _ _ _ _ _ Ea) as Hp.
  destruct (set_nth_split _ _ _ a' En) as (l1 & l2 & Hl & Hl').
  destruct eff; intros H; inv H; auto; right; exists l1, a, a', l2; simpl; (split; [assumption|]); (split; [assumption|]).
  - right. right. auto.
  - right. right. auto.
  - left. tauto.
  - destruct Hp as [(H1 & H2 & H3) | (H1 & H2)].
    + right. left. destruct (pendP a) as [|x [|? ?]] eqn:E; try congruence.
      * exists x. auto.
      * unfold pendP in E. destruct (a_pc a); discriminate.
    + right. right. auto.
Qed.

Lemma pending_init f ps : (forall p, f (init_actor p) = []) -> pending f (init_sys ps) = [].
Proof.
  intros H. unfold pending, init_sys. simpl. induction ps as [|p ps IH]; simpl; auto. rewrite H, IH. reflexivity.
Qed.

(** ------------------------------------------------------------------ the theorem *)

Theorem emitter_prefix r ps sched : wf_prefix r (emitted r ps sched) = true.
Proof.
  apply wf_prefix_unfold. rewrite !nodupb_spec. unfold emitted. split; [|split].
  - destruct (run_rel r sched _ _ (rel_init ps)) as (g' & Hg & _). eauto.
  - apply (numbers_fresh r s_cc pendC call_starts).
    + intros e es. unfold call_starts. simpl. rewrite app_nil_r. reflexivity.
    + reflexivity.
    + apply step_kind_C.
    + rewrite pending_init by reflexivity. constructor.
    + rewrite pending_init by reflexivity. intros x [].
  - apply (numbers_fresh r s_cp pendP prompt_starts).
    + intros e es. unfold prompt_starts. simpl. rewrite app_nil_r. reflexivity.
    + reflexivity.
    + apply step_kind_P.
    + rewrite pending_init by reflexivity. constructor.
    + rewrite pending_init by reflexivity. intros x [].
Qed.

Lemma rel_all_done g s : rel g s -> all_finished s = true ->
  (forall t, In t (map fst g) -> exists a, In a (s_actors s) /\ started a /\ a_t a = t) ->
  all_done g = true.
Proof.
  intros (R1 & _ & _) Hf Hk. apply all_done_spec. intros t.
  destruct (in_dec Z.eq_dec t (map fst g)) as [Hin | Hn].
  - destruct (Hk _ Hin) as (a & Ha & Hs & <-). apply In_nth_error in Ha. destruct Ha as [i Hi].
    destruct (R1 _ _ Hi Hs) as [(Hp & _) _].
    unfold all_finished in Hf. rewrite forallb_forall in Hf. specialize (Hf a (nth_error_In _ _ Hi)).
    unfold pc_phase in Hp. destruct (a_pc a); try discriminate. rewrite Hp. reflexivity.
  - rewrite lookup_notin by assumption. reflexivity.
Qed.

(** every trace the recogniser knows belongs to a started actor *)
Definition keys_ok (g : gstate) (s : sys) : Prop :=
  forall t, In t (map fst g) -> exists a, In a (s_actors s) /\ started a /\ a_t a = t.

Lemma astep_started r ct cc cp a a' eff : astep r ct cc cp a = (a', eff) ->
  (started a -> started a' /\ a_t a' = a_t a) /\
  (forall e, eff = EPut e -> started a /\ ev_trace e = a_t a).
Proof.
  unfold astep, started. destruct a as [pc0 t c p]. simpl.
  destruct pc0 as [pl k|pl k|k|fid info loop k|loop k|ps had k|txt cmd ps k|cmd ps k|k|]; simpl; intros H.
  all: try (destruct k as [|[fid0 info0 loop0|txt0] k]); try (destruct loop as [[q qs]|]);
    try (destruct ps as [|[txt1 cmd1] ps]); simpl in H; inv H; simpl; split; auto;
    try (intros e He; inv He; simpl; auto); try (intros []).
Qed.

Lemma update_keys : forall g k v t, In t (map fst (update g k v)) -> t = k \/ In t (map fst g).
Proof.
  induction g as [|[k' v'] g IH]; intros k v t H; simpl in *.
  - destruct H as [<- | []]. auto.
  - destruct (k =? k') eqn:E; simpl in H.
    + apply Z.eqb_eq in E. subst. destruct H; auto.
    + destruct H as [H | H]; auto. apply IH in H. tauto.
Qed.

Lemma step_keys r g s i s' oe g' : keys_ok g s -> step r s i = (s', oe) ->
  match oe with Some e => gstep r g e = Some g' | None => g' = g end -> keys_ok g' s'.
Proof.
  intros HK Hst Hg. unfold step in Hst.
  destruct (nth_error (s_actors s) i) as [a|] eqn:En.
  2:{ inv Hst. simpl in Hg. subst g'. exact HK. }
  destruct (astep r (s_ct s) (s_cc s) (s_cp s) a) as [a' eff] eqn:Ea.
  destruct (astep_started _ _ _ _ _ _ _ Ea) as [Hs He].
  destruct (set_nth_split _ _ _ a' En) as (l1 & l2 & Hl & Hl').
  assert (Hmove : forall t, (exists b, In b (s_actors s) /\ started b /\ a_t b = t) ->
                            exists b, In b (l1 ++ a' :: l2) /\ started b /\ a_t b = t).
  { intros t (b & Hb & Hsb & Htb). rewrite Hl in Hb. apply in_app_or in Hb. destruct Hb as [Hb | [<- | Hb]].
    - exists b. split; [apply in_or_app; auto | auto].
    - destruct (Hs Hsb) as [H1 H2]. exists a'. split; [apply in_or_app; simpl; auto | split; auto; congruence].
    - exists b. split; [apply in_or_app; simpl; auto | auto]. }
  destruct eff; inv Hst; simpl in Hg; try subst g'; try exact HK; unfold keys_ok; simpl; try rewrite Hl'; try (intros t Ht; apply Hmove, HK, Ht).
  destruct (He e eq_refl) as [Hsa Hev].
  destruct (gstep_inv _ _ _ _ Hg) as (s1 & _ & ->).
  intros t Ht. apply update_keys in Ht. destruct Ht as [-> | Ht]; [|apply Hmove, HK, Ht].
  destruct (Hs Hsa) as [H1 H2]. exists a'. split; [apply in_or_app; simpl; auto | split; auto; congruence].
Qed.

Lemma run_rel2 r : forall sched g s, rel g s -> keys_ok g s ->
  exists g', grun r g (snd (run r s sched)) = Some g' /\ rel g' (fst (run r s sched)) /\ keys_ok g' (fst (run r s sched)).
Proof.
  induction sched as [|i sched IH]; intros g s H HK; simpl.
  - eauto.
  - destruct (step r s i) as [s1 oe] eqn:Es. pose proof (step_rel _ _ _ _ _ _ H Es) as Hs.
    destruct (run r s1 sched) as [s2 es] eqn:Er.
    destruct oe as [e|]; simpl.
    + destruct Hs as (g1 & Hg1 & Hr1). rewrite Hg1.
      assert (HK1 : keys_ok g1 s1) by (eapply step_keys; eauto).
      specialize (IH _ _ Hr1 HK1). rewrite Er in IH. exact IH.
    + assert (HK1 : keys_ok g s1) by (eapply (step_keys r g s i s1 None g); eauto).
      specialize (IH _ _ Hs HK1). rewrite Er in IH. exact IH.
Qed.

(** C09, emitter: every interleaving of structured actor programs that lets every actor finish
    yields a well-formed stream *)
Theorem emitter_wf r ps sched : finished r ps sched = true -> WF r (emitted r ps sched).
Proof.
  intros Hf. apply recogniser_correct. apply wf_unfold.
  pose proof (emitter_prefix r ps sched) as Hp. apply wf_prefix_unfold in Hp. destruct Hp as [_ Hn].
  split; [|exact Hn].
  destruct (run_rel2 r sched [] (init_sys ps) (rel_init ps)) as (g' & Hg & Hr & HK).
  { intros t []. }
  exists g'. split; [exact Hg|]. eapply rel_all_done; eauto.
Qed.
