(** TIE of the hand-written emitter model (Events/Emitter.v) to the code of /repo.

    Gen/EmitterSkel.v holds the statement trees of Repeater (repeat.py), Factory._context and
    TraceCallHandler (local_.py), TaskAndThreadKeeper / TaskOrThreadToTraceMapper (concurrency.py),
    CmdloopHook / PromptFunc (pdb_/factory.py), CustomizedPdb.cmdloop (pdb_/custom.py), the counters
    of count.py and the registration order, REGENERATED from the source at every check
    (translate/emitter_skeleton.py, fail closed).  Events/Interp.v gives them a semantics driven by
    the same structured actor programs and schedules as the model.  This file proves, for EVERY list
    of programs and EVERY schedule, that the interpreter of the regenerated code and the model are
    in lock step and emit the same stream ([sim], [tie_same_stream]); hence the theorems of
    Events/EmitterProofs.v hold of the regenerated code ([tie_prefix], [tie_wf]).  Direct facts:
    the end event of every bracket is put in a `finally` and carries the numbers read at entry
    ([tie_end_in_finally_*]); the counters are per run, one object each ([tie_counters_per_run]);
    the current trace call is kept per trace ([tie_current_call_per_trace]); a command loop
    entered outside a trace call of the current trace is refused ([tie_stray_cmdloop_refused]).

    LABELS.  [sim] / [tie_same_stream] is a genuine simulation over the regenerated trees; the states
    [K_*] used by its invariant are `Eval vm_compute` of the interpreter itself (self-referential: the
    content is the equality of the two streams, not the control points).  [tie_counters_per_run] is
    reflexivity on facts computed by the translator, which also drive the interpreter.  The translator
    additionally PINS source shapes that no theorem speaks about (listed in harness/props/c09.py).
    EXCEPTIONS.  The interpreter behind [sim] raises nothing but an explicit `raise` (caught by the
    `try/except` of that name) and a failing `assert`; `try: a finally: b` is a-then-b there.
    [tie_end_in_finally_*] and [tie_handler_removes_in_finally] run each generator-based hook on its own
    with an exception THROWN INTO it at its first yield ([gexec]); removing or dedenting any of the four
    try/finally blocks, or the try/except of CustomizedPdb.cmdloop, changes the generated term and breaks
    one of these theorems (resp. [tie_stray_cmdloop_refused]).  Not covered: exceptions raised by a hook's
    own statements, by the entry of a later-stacked context manager, by hook.prompt; KeyboardInterrupt
    through catch() in _context; the unwinding order of apluggy's stack (trusted).

    Method.  The dicts and sets of the plugins are keyed by the trace number or by the task.
    Part A (locality) shows once and for all, for the interpreter, that a step of actor i which only
    looks at / writes entries under its own keys (the interpreter logs them) runs exactly as it
    does in a store where all keys of a kind are identified -- and there the step can be computed
    symbolically by [vm_compute] from the regenerated trees.  Part B computes, from the regenerated
    trees, the state of an actor at each program point of the model; part C is the simulation. *)
From NL Require Import Events.Grammar Events.GrammarProofs Events.Emitter Events.EmitterProofs Events.Syntax Gen.EmitterSkel Events.Interp.
From Coq Require Import String Lia.
Open Scope string_scope.
Open Scope list_scope.
Open Scope Z_scope.

(** ================================================================== names of the dicts / sets *)
Fixpoint expr_maps (e : expr) : list string :=
  match e with
  | EField a _ | ENot a | EIsNone a => expr_maps a
  | EMk _ fs => flat_map (fun p => match p with (_, a) => expr_maps a end) fs
  | ETuple es => flat_map expr_maps es
  | EMapGet m k | EMapIdx m k | EIn k m => m :: expr_maps k
  | ELet _ a b | EIfNone _ a b => expr_maps a ++ expr_maps b
  | _ => []
  end.

Fixpoint stmt_maps (s : stmt) : list string :=
  match s with
  | SSeq a b | STry a b => stmt_maps a ++ stmt_maps b
  | STryExcept a _ | SWithFun _ a | SWithOpaque a => stmt_maps a
  | SLet _ e | SPut e | SSend _ e | SSetAttr _ e => expr_maps e
  | SWithHook _ args _ b => flat_map (fun p => expr_maps (snd p)) args ++ stmt_maps b
  | SCallHook _ args => flat_map (fun p => expr_maps (snd p)) args
  | SCall _ args => flat_map expr_maps args
  | SIf c a b => expr_maps c ++ stmt_maps a ++ stmt_maps b
  | SMapSet m k v => m :: expr_maps k ++ expr_maps v
  | SMapDel m k | SSetAdd m k | SSetRemove m k => m :: expr_maps k
  | SAssertEq a b => expr_maps a ++ expr_maps b
  | SAssertTrue e => expr_maps e
  | _ => []
  end.

Fixpoint dedup (l : list string) : list string :=
  match l with [] => [] | x :: r => if existsb (String.eqb x) r then dedup r else x :: dedup r end.

(** every dict / set the regenerated code mentions *)
Definition NAMES : list string :=
  Eval vm_compute in dedup (flat_map (fun p => stmt_maps (f_body (snd p))) funs ++ flat_map (fun p => expr_maps (snd p)) hook_exprs).

(** what a store holds under one key *)
Definition view (st : store) (k : key) : list (option value) := map (fun m => st m k) NAMES.

(** ================================================================== part A: locality *)
(** all keys of a kind identified *)
Definition keqk (a b : key) : bool :=
  match a, b with KNum _, KNum _ => true | KTask _, KTask _ => true | _, _ => false end.

Section Locality.
Variables (i : nat) (t : Z).

Definition own (k : key) : Prop := k = KTask i \/ k = KNum t.
Definition ownk (p : string * key) : Prop := In (fst p) NAMES /\ own (snd p).
(** a log entry is fine: an own entry of a known dict / set; an assert that holds *)
Definition ownp (e : lentry) : Prop :=
  match e with
  | LK m k => In m NAMES /\ own k
  | LEq a b => veqb a b = true
  | LTrue v => truthy v = Some true
  end.

Lemma ownp_lks l : Forall ownp (lks l) -> Forall ownk l.
Proof. unfold lks. induction l as [ | [m k] l IH]; simpl; intros H; constructor; inversion H; subst; auto. Qed.
Definition uniform (L : store) : Prop := forall m k k', keqk k k' = true -> L m k = L m k'.
Definition agree (st L : store) : Prop := forall m k, In m NAMES -> own k -> st m k = L m k.
Definition frame (st st' : store) : Prop := forall m k, ~ (In m NAMES /\ own k) -> st' m k = st m k.

Lemma key_eqb_eq a b : key_eqb a b = true <-> a = b.
Proof.
  destruct a, b; simpl; split; intros H; try discriminate; try congruence.
  - apply Z.eqb_eq in H. congruence.
  - inversion H. apply Z.eqb_refl.
  - apply Nat.eqb_eq in H. congruence.
  - inversion H. apply Nat.eqb_refl.
Qed.

Lemma own_keq k k' : own k -> own k' -> key_eqb k' k = keqk k' k.
Proof.
  intros [-> | ->] [-> | ->]; simpl; auto using Nat.eqb_refl, Z.eqb_refl.
Qed.

Lemma agree_upd st L m k v : In m NAMES -> own k -> agree st L -> agree (upd key_eqb st m k v) (upd keqk L m k v).
Proof.
  intros Hm Hk Ha m' k' Hm' Hk'. unfold upd. rewrite (own_keq _ _ Hk Hk').
  destruct (String.eqb m' m && keqk k' k); auto.
Qed.

Lemma keqk_trans a b c : keqk a b = true -> keqk a c = keqk b c.
Proof. destruct a, b, c; simpl; congruence. Qed.

Lemma uniform_upd L m k v : uniform L -> uniform (upd keqk L m k v).
Proof.
  intros Hu m' k1 k2 H. unfold upd. rewrite (keqk_trans _ _ k H). rewrite (Hu m' k1 k2 H). reflexivity.
Qed.

Lemma frame_upd st m k v : In m NAMES -> own k -> frame st (upd key_eqb st m k v).
Proof.
  intros Hm Hk m' k' Hn. unfold upd.
  destruct (String.eqb m' m) eqn:Em; simpl; auto.
  apply String.eqb_eq in Em. subst m'.
  destruct (key_eqb k' k) eqn:Ek; auto.
  apply key_eqb_eq in Ek. subst k'. exfalso. apply Hn. split; assumption.
Qed.

Lemma frame_refl st : frame st st.
Proof. intros m k _. reflexivity. Qed.

Lemma frame_trans a b c : frame a b -> frame b c -> frame a c.
Proof. intros H1 H2 m k Hn. rewrite (H2 m k Hn). apply H1. assumption. Qed.

Lemma Forall_flat_map_in {A B} (P : B -> Prop) (f : A -> list B) l x :
  Forall P (flat_map f l) -> In x l -> Forall P (f x).
Proof.
  induction l as [ | y l IH]; simpl; intros H Hin; [contradiction | ].
  apply Forall_app in H. destruct H as [H1 H2]. destruct Hin as [-> | Hin]; auto.
Qed.

(** [eval] and [ekeys] see the same thing in both stores when the entries looked at are own entries *)
Local Opaque hook_exprs.
Lemma eval_agree r st L at_ : agree st L -> forall n e x,
  Forall ownk (ekeys n (mkC r i L at_) e x) ->
  eval n (mkC r i st at_) e x = eval n (mkC r i L at_) e x /\
  ekeys n (mkC r i st at_) e x = ekeys n (mkC r i L at_) e x.
Proof.
  intros Ha. induction n as [ | n IH]; intros e x Hf; [split; reflexivity | ].
  destruct x; simpl in *; try (split; reflexivity).
  - (* EHook *) destruct (alookup hook_exprs h); [apply IH; assumption | split; reflexivity].
  - (* EField *) destruct (IH _ _ Hf) as [E1 E2]. rewrite E1, E2. split; reflexivity.
  - (* EMk *)
    assert (H : forall p, In p fs -> eval n (mkC r i st at_) e (snd p) = eval n (mkC r i L at_) e (snd p) /\
                                    ekeys n (mkC r i st at_) e (snd p) = ekeys n (mkC r i L at_) e (snd p)).
    { intros p Hp. apply IH. exact (Forall_flat_map_in _ _ _ _ Hf Hp). }
    split.
    + f_equal. apply map_ext_in. intros p Hp. f_equal. apply H. assumption.
    + clear Hf. induction fs as [ | p fs IHf]; simpl; auto.
      rewrite (proj2 (H p (or_introl eq_refl))). f_equal. apply IHf. intros q Hq. apply H. right. assumption.
  - (* ETuple *)
    assert (H : forall p, In p es -> eval n (mkC r i st at_) e p = eval n (mkC r i L at_) e p /\
                                    ekeys n (mkC r i st at_) e p = ekeys n (mkC r i L at_) e p).
    { intros p Hp. apply IH. exact (Forall_flat_map_in _ _ _ _ Hf Hp). }
    split.
    + f_equal. apply map_ext_in. intros p Hp. apply H. assumption.
    + clear Hf. induction es as [ | p es IHf]; simpl; auto.
      rewrite (proj2 (H p (or_introl eq_refl))). f_equal. apply IHf. intros q Hq. apply H. right. assumption.
  - (* EMapGet *)
    apply Forall_app in Hf. destruct Hf as [H1 H2]. destruct (IH _ _ H1) as [E1 E2]. rewrite E1, E2.
    destruct (to_key (eval n (mkC r i L at_) e x)) as [kk | ]; [ | split; reflexivity].
    inversion H2 as [ | ? ? [Hm Hk] _]; subst. simpl in Hm, Hk. rewrite (Ha _ _ Hm Hk). split; reflexivity.
  - (* EMapIdx *)
    apply Forall_app in Hf. destruct Hf as [H1 H2]. destruct (IH _ _ H1) as [E1 E2]. rewrite E1, E2.
    destruct (to_key (eval n (mkC r i L at_) e x)) as [kk | ]; [ | split; reflexivity].
    inversion H2 as [ | ? ? [Hm Hk] _]; subst. simpl in Hm, Hk. rewrite (Ha _ _ Hm Hk). split; reflexivity.
  - (* EIn *)
    apply Forall_app in Hf. destruct Hf as [H1 H2]. destruct (IH _ _ H1) as [E1 E2]. rewrite E1, E2.
    destruct (to_key (eval n (mkC r i L at_) e x)) as [kk | ]; [ | split; reflexivity].
    inversion H2 as [ | ? ? [Hm Hk] _]; subst. simpl in Hm, Hk. rewrite (Ha _ _ Hm Hk). split; reflexivity.
  - (* ENot *) destruct (IH _ _ Hf) as [E1 E2]. rewrite E1, E2. split; reflexivity.
  - (* EIsNone *) destruct (IH _ _ Hf) as [E1 E2]. rewrite E1, E2. split; reflexivity.
  - (* ELet *)
    apply Forall_app in Hf. destruct Hf as [H1 H2]. destruct (IH _ _ H1) as [E1 E2]. rewrite E1, E2.
    destruct (IH _ _ H2) as [E3 E4]. rewrite E3, E4. split; reflexivity.
  - (* EIfNone *)
    apply Forall_app in Hf. destruct Hf as [H1 H2]. destruct (IH _ _ H1) as [E1 E2]. rewrite E1, E2.
    match type of H2 with Forall _ (match ?v with _ => _ end) => destruct v end; try (split; reflexivity);
      destruct (IH _ _ H2) as [E3 E4]; rewrite E3, E4; split; reflexivity.
Qed.

Local Transparent hook_exprs.

Lemma Forall_app_l {A} (P : A -> Prop) l1 l2 : Forall P (l1 ++ l2) -> Forall P l1.
Proof. intros H. apply Forall_app in H. tauto. Qed.
Lemma Forall_app_r {A} (P : A -> Prop) l1 l2 : Forall P (l1 ++ l2) -> Forall P l2.
Proof. intros H. apply Forall_app in H. tauto. Qed.

Local Opaque eval ekeys EFUEL.
Lemma silent_agree r ct cc cp at_ st L a o rest a' ct' cc' cp' L' at' l :
  agree st L -> uniform L ->
  silent keqk false r i (mkSh ct cc cp L at_) a o rest = Some (a', mkSh ct' cc' cp' L' at', l) ->
  Forall ownp l ->
  exists st', silent key_eqb true r i (mkSh ct cc cp st at_) a o rest = Some (a', mkSh ct' cc' cp' st' at', l) /\
              agree st' L' /\ uniform L' /\ frame st st'.
Proof.
  intros Ha Hu Hs Hl. unfold silent, ctx_of in *. cbn [sh_st sh_attrs sh_ct sh_cc sh_cp] in *.
  assert (EA : forall x, Forall ownp (lks (ekeys EFUEL (mkC r i L at_) (ia_env a) x)) ->
               eval EFUEL (mkC r i st at_) (ia_env a) x = eval EFUEL (mkC r i L at_) (ia_env a) x /\
               ekeys EFUEL (mkC r i st at_) (ia_env a) x = ekeys EFUEL (mkC r i L at_) (ia_env a) x).
  { intros x Hx. apply (eval_agree r st L at_ Ha EFUEL (ia_env a)). apply ownp_lks. exact Hx. }
  destruct o; try discriminate Hs.
  - (* OLet *) inversion Hs; subst. destruct (EA _ Hl) as [E1 E2]. rewrite E1, E2.
    exists st. repeat split; auto using frame_refl.
  - (* OConst *) inversion Hs; subst. exists st. repeat split; auto using frame_refl.
  - (* OMapSet *)
    destruct (to_key (eval EFUEL (mkC r i L at_) (ia_env a) k)) as [kk | ] eqn:Ek; [ | discriminate Hs].
    inversion Hs; subst. clear Hs.
    pose proof (Forall_app_l _ _ _ Hl) as H1. pose proof (Forall_app_r _ _ _ Hl) as H23.
    pose proof (Forall_app_l _ _ _ H23) as H2. pose proof (Forall_app_r _ _ _ H23) as H3.
    destruct (EA _ H1) as [E1 E2]. destruct (EA _ H2) as [E3 E4]. rewrite E1, E2, E3, E4, Ek.
    inversion H3 as [ | ? ? Hmk _]; subst. cbn [ownp] in Hmk. destruct Hmk as [Hm Hk].
    eexists. split; [reflexivity | ]. unfold set_st; simpl.
    repeat split; auto using agree_upd, uniform_upd, frame_upd.
  - (* OMapDel *)
    destruct (to_key (eval EFUEL (mkC r i L at_) (ia_env a) k)) as [kk | ] eqn:Ek; [ | discriminate Hs].
    destruct (L m kk) eqn:El; [ | discriminate Hs].
    inversion Hs; subst. clear Hs.
    pose proof (Forall_app_l _ _ _ Hl) as H1. pose proof (Forall_app_r _ _ _ Hl) as H3.
    destruct (EA _ H1) as [E1 E2]. rewrite E1, E2, Ek.
    inversion H3 as [ | ? ? Hmk _]; subst. cbn [ownp] in Hmk. destruct Hmk as [Hm Hk].
    rewrite (Ha _ _ Hm Hk), El.
    eexists. split; [reflexivity | ]. unfold set_st; simpl.
    repeat split; auto using agree_upd, uniform_upd, frame_upd.
  - (* OSetAttr *) inversion Hs; subst. destruct (EA _ Hl) as [E1 E2]. rewrite E1, E2.
    exists st. repeat split; auto using frame_refl.
  - (* OAssertEq: logged only on the left; evaluated on the right, and the log says it holds *)
    cbn [andb] in Hs. inversion Hs; subst. clear Hs.
    pose proof (Forall_app_l _ _ _ Hl) as H1. pose proof (Forall_app_r _ _ _ Hl) as H23.
    pose proof (Forall_app_l _ _ _ H23) as H2. pose proof (Forall_app_r _ _ _ H23) as H3.
    destruct (EA _ H1) as [E1 E2]. destruct (EA _ H2) as [E3 E4]. rewrite E1, E2, E3, E4.
    inversion H3 as [ | ? ? Hv _]; subst. cbn [ownp] in Hv. rewrite Hv. cbn [andb negb].
    exists st. repeat split; auto using frame_refl.
  - (* OAssertTrue *)
    cbn [andb] in Hs. inversion Hs; subst. clear Hs.
    pose proof (Forall_app_l _ _ _ Hl) as H1. pose proof (Forall_app_r _ _ _ Hl) as H3.
    destruct (EA _ H1) as [E1 E2]. rewrite E1, E2.
    inversion H3 as [ | ? ? Hv _]; subst. cbn [ownp] in Hv. rewrite Hv. cbn [andb negb].
    exists st. repeat split; auto using frame_refl.
  - (* OJmpUnless *)
    destruct (truthy (eval EFUEL (mkC r i L at_) (ia_env a) c)) as [[ | ] | ] eqn:Et; try discriminate Hs;
      inversion Hs; subst; destruct (EA _ Hl) as [E1 E2]; rewrite E1, E2, Et;
      exists st; repeat split; auto using frame_refl.
  - (* OJmp *) inversion Hs; subst. exists st. repeat split; auto using frame_refl.
  - (* ORaise *) destruct (drop_to_endtry exc rest); [ | discriminate Hs]. inversion Hs; subst.
    exists st. repeat split; auto using frame_refl.
  - (* OEndTry *) inversion Hs; subst. exists st. repeat split; auto using frame_refl.
  - (* OClear *) inversion Hs; subst. exists st. repeat split; auto using frame_refl.
Qed.

Lemma settle_log : forall fuel keq sb r sh a lg a' sh' ok lg',
  settle fuel keq sb r i sh a lg = (a', sh', ok, lg') -> exists more, lg' = lg ++ more.
Proof.
  induction fuel as [ | fuel IH]; intros keq sb r sh a lg a' sh' ok lg' H; simpl in H.
  - inversion H. exists []. rewrite app_nil_r. reflexivity.
  - destruct (ia_ops a) as [ | o rest]; [inversion H; exists []; rewrite app_nil_r; reflexivity | ].
    destruct (is_visible o || is_driver o); [inversion H; exists []; rewrite app_nil_r; reflexivity | ].
    destruct (silent keq sb r i sh a o rest) as [[[a1 sh1] l] | ]; [ | inversion H; exists []; rewrite app_nil_r; reflexivity].
    apply IH in H. destruct H as [more ->]. exists (l ++ more). rewrite app_assoc. reflexivity.
Qed.

Lemma settle_agree : forall fuel r a lg ct cc cp at_ st L a' ct' cc' cp' L' at' lg',
  agree st L -> uniform L ->
  settle fuel keqk false r i (mkSh ct cc cp L at_) a lg = (a', mkSh ct' cc' cp' L' at', true, lg') ->
  Forall ownp lg' ->
  exists st', settle fuel key_eqb true r i (mkSh ct cc cp st at_) a lg = (a', mkSh ct' cc' cp' st' at', true, lg') /\
              agree st' L' /\ uniform L' /\ frame st st'.
Proof.
  induction fuel as [ | fuel IH]; intros r a lg ct cc cp at_ st L a' ct' cc' cp' L' at' lg' Ha Hu H Hl; simpl in H |- *.
  - inversion H.
  - destruct (ia_ops a) as [ | o rest].
    + inversion H; subst. exists st. repeat split; auto using frame_refl.
    + destruct (is_visible o || is_driver o).
      * inversion H; subst. exists st. repeat split; auto using frame_refl.
      * destruct (silent keqk false r i (mkSh ct cc cp L at_) a o rest) as [[[a1 [ct1 cc1 cp1 L1 at1]] l] | ] eqn:Es; [ | inversion H].
        destruct (settle_log _ _ _ _ _ _ _ _ _ _ _ H) as [more Hm].
        assert (Hl1 : Forall ownp l). { subst lg'. apply Forall_app_l in Hl. apply Forall_app_r in Hl. exact Hl. }
        destruct (silent_agree _ _ _ _ _ _ _ _ _ _ _ _ _ _ _ _ _ Ha Hu Es Hl1) as (st1 & E1 & Ha1 & Hu1 & Hf1).
        rewrite E1.
        destruct (IH _ _ _ _ _ _ _ _ _ _ _ _ _ _ _ _ Ha1 Hu1 H Hl) as (st2 & E2 & Ha2 & Hu2 & Hf2).
        exists st2. repeat split; auto. eapply frame_trans; eauto.
Qed.

Local Opaque SFUEL.
Lemma run1_log : forall fuel keq sb r sh a lg a' sh' eff lg',
  run1 fuel keq sb r i sh a lg = (a', sh', eff, lg') -> exists more, lg' = lg ++ more.
Proof.
  induction fuel as [ | fuel IH]; intros keq sb r sh a lg a' sh' eff lg' H; simpl in H.
  - inversion H. exists []. rewrite app_nil_r. reflexivity.
  - destruct (ia_ops a) as [ | o rest]; [inversion H; exists []; rewrite app_nil_r; reflexivity | ].
    destruct (is_visible o).
    + destruct (visible r i sh a o rest) as [[[a1 sh1] e1] l1].
      destruct (settle SFUEL keq sb r i sh1 a1 (lg ++ l1)) as [[[a2 sh2] ok] l2] eqn:Es.
      apply settle_log in Es. destruct Es as [more ->]. inversion H; subst.
      exists (l1 ++ more). rewrite app_assoc. reflexivity.
    + destruct (expand o).
      * eapply IH; eauto.
      * destruct (silent keq sb r i sh a o rest) as [[[a1 sh1] l] | ]; [ | inversion H; exists []; rewrite app_nil_r; reflexivity].
        apply IH in H. destruct H as [more ->]. exists (l ++ more). rewrite app_assoc. reflexivity.
Qed.

(** THE LOCALITY THEOREM: a step of actor i that does not crash and only touches own entries *)
Theorem run1_agree : forall fuel r a lg ct cc cp at_ st L a' ct' cc' cp' L' at' eff lg',
  agree st L -> uniform L ->
  run1 fuel keqk false r i (mkSh ct cc cp L at_) a lg = (a', mkSh ct' cc' cp' L' at', eff, lg') ->
  eff <> ICrash -> Forall ownp lg' ->
  exists st', run1 fuel key_eqb true r i (mkSh ct cc cp st at_) a lg = (a', mkSh ct' cc' cp' st' at', eff, lg') /\
              agree st' L' /\ uniform L' /\ frame st st'.
Proof.
  induction fuel as [ | fuel IH]; intros r a lg ct cc cp at_ st L a' ct' cc' cp' L' at' eff lg' Ha Hu H Hne Hl;
    simpl in H |- *.
  - inversion H; subst. congruence.
  - destruct (ia_ops a) as [ | o rest].
    + inversion H; subst. exists st. repeat split; auto using frame_refl.
    + destruct (is_visible o) eqn:Ev.
      * (* the visible action *)
        destruct (visible r i (mkSh ct cc cp L at_) a o rest) as [[[a1 [ct1 cc1 cp1 L1 at1]] e1] l1] eqn:Evis.
        destruct (settle SFUEL keqk false r i (mkSh ct1 cc1 cp1 L1 at1) a1 (lg ++ l1)) as [[[a2 sh2] ok] l2] eqn:Es.
        destruct ok; [ | inversion H; subst; congruence].
        injection H as Ea Esh Eeff Elg. subst a2 sh2 e1 l2.
        destruct (settle_log _ _ _ _ _ _ _ _ _ _ _ Es) as [more Hm].
        assert (Hl1 : Forall ownp l1). { subst lg'. apply Forall_app_l in Hl. apply Forall_app_r in Hl. exact Hl. }
        assert (Evis' : visible r i (mkSh ct cc cp st at_) a o rest = (a1, mkSh ct1 cc1 cp1 st at1, eff, l1) /\ L1 = L).
        { unfold visible in *. destruct o; try discriminate Ev.
          - destruct (fst (counter_decl c)); destruct c; cbn [sh_ct sh_cc sh_cp sh_st sh_attrs] in *;
              injection Evis as <- <- <- <- <- <- <- <-; split; reflexivity.
          - unfold ctx_of in *. cbn [sh_st sh_attrs] in *.
            injection Evis as <- <- <- <- <- <- <- <-.
            destruct (eval_agree r st L at_ Ha EFUEL (ia_env a) e (ownp_lks _ Hl1)) as [E1 E2]. rewrite E1, E2. split; reflexivity. }
        destruct Evis' as [Evis' ->]. rewrite Evis'.
        destruct (settle_agree _ _ _ _ _ _ _ _ _ _ _ _ _ _ _ _ _ Ha Hu Es Hl) as (st2 & E2 & Ha2 & Hu2 & Hf2).
        rewrite E2. exists st2. repeat split; auto.
      * destruct (expand o) as [l | ].
        -- eapply IH; eauto.
        -- destruct (silent keqk false r i (mkSh ct cc cp L at_) a o rest) as [[[a1 [ct1 cc1 cp1 L1 at1]] l] | ] eqn:Es;
             [ | inversion H; subst; congruence].
           destruct (run1_log _ _ _ _ _ _ _ _ _ _ _ H) as [more Hm].
           assert (Hl1 : Forall ownp l). { subst lg'. apply Forall_app_l in Hl. apply Forall_app_r in Hl. exact Hl. }
           destruct (silent_agree _ _ _ _ _ _ _ _ _ _ _ _ _ _ _ _ _ Ha Hu Es Hl1) as (st1 & E1 & Ha1 & Hu1 & Hf1).
           rewrite E1.
           destruct (IH _ _ _ _ _ _ _ _ _ _ _ _ _ _ _ _ _ Ha1 Hu1 H Hne Hl) as (st2 & E2 & Ha2 & Hu2 & Hf2).
           exists st2. repeat split; auto. eapply frame_trans; eauto.
Qed.

Local Transparent eval ekeys EFUEL SFUEL.
End Locality.

(** ================================================================== part B: the states of an actor, computed *)
(** a store given by what it holds under the task key and under the trace-number key *)
Definition lk (l : list (option value)) (m : string) : option value :=
  match alookup (combine NAMES l) m with Some ov => ov | None => None end.
Definition Lof (vt vn : list (option value)) : store :=
  fun m k => match k with KTask _ => lk vt m | KNum _ => lk vn m end.

Lemma uniform_Lof vt vn : uniform (Lof vt vn).
Proof. intros m k k' H. destruct k, k'; simpl in H; try discriminate; reflexivity. Qed.

Lemma alookup_combine_map {A} (f : string -> A) : forall l m, In m l -> alookup (combine l (map f l)) m = Some (f m).
Proof.
  induction l as [ | x l IH]; simpl; intros m H; [contradiction | ].
  destruct (String.eqb m x) eqn:E; [apply String.eqb_eq in E; subst; reflexivity | ].
  destruct H as [-> | H]; [rewrite String.eqb_refl in E; discriminate | auto].
Qed.

Lemma agree_Lof i t st : agree i t st (Lof (view st (KTask i)) (view st (KNum t))).
Proof.
  intros m k Hm [-> | ->]; unfold Lof, lk, view; rewrite alookup_combine_map by assumption; reflexivity.
Qed.

Lemma view_agree i t st L : agree i t st L -> uniform L ->
  view st (KTask i) = view L (KTask 0) /\ view st (KNum t) = view L (KNum 0).
Proof.
  intros Ha Hu. unfold view. split; apply map_ext_in; intros m Hm.
  - rewrite (Ha m (KTask i) Hm (or_introl eq_refl)). apply Hu. reflexivity.
  - rewrite (Ha m (KNum t) Hm (or_intror eq_refl)). apply Hu. reflexivity.
Qed.

(** the device: the step computed in the store where all keys of a kind are one *)
Definition dev (r : Z) (i : nat) (ct cc cp : Z) (vt vn : list (option value)) (a : iactor) : iactor * shared * ieff * klog :=
  run1 RFUEL keqk false r i (mkSh ct cc cp (Lof vt vn) []) a [].

Lemma step_via_device r i t ct cc cp st a a' ct' cc' cp' L' at' eff lg :
  run1 RFUEL keqk false r i (mkSh ct cc cp (Lof (view st (KTask i)) (view st (KNum t))) []) a [] = (a', mkSh ct' cc' cp' L' at', eff, lg) ->
  eff <> ICrash -> Forall (ownp i t) lg ->
  exists st', run1 RFUEL key_eqb true r i (mkSh ct cc cp st []) a [] = (a', mkSh ct' cc' cp' st' at', eff, lg) /\
     view st' (KTask i) = view L' (KTask 0) /\ view st' (KNum t) = view L' (KNum 0) /\ frame i t st st'.
Proof.
  intros Hd Hne Hl.
  destruct (run1_agree i t RFUEL r a [] ct cc cp [] st (Lof (view st (KTask i)) (view st (KNum t))) a' ct' cc' cp' L' at' eff lg
              (agree_Lof i t st) (uniform_Lof _ _) Hd Hne Hl) as (st' & E & Ha & Hu & Hf).
  exists st'. destruct (view_agree _ _ _ _ Ha Hu) as [V1 V2].
  split; [exact E | ]. split; [exact V1 | ]. split; [exact V2 | exact Hf].
Qed.

Definition dK (x : iactor * shared * ieff * klog) : iactor := fst (fst (fst x)).
Definition dSh (x : iactor * shared * ieff * klog) : shared := snd (fst (fst x)).
Definition dEff (x : iactor * shared * ieff * klog) : ieff := snd (fst x).
Definition dLog (x : iactor * shared * ieff * klog) : klog := snd x.
Definition dVT x := view (sh_st (dSh x)) (KTask 0).
Definition dVN x := view (sh_st (dSh x)) (KNum 0).

Definition ia0 (ops : list op) : iactor := mkIA ops [] (start_of CTrace) (start_of CCall) (start_of CPrompt).
Definition NONE : list (option value) := Eval vm_compute in map (fun _ => None) NAMES.

Definition K_init (pl : Z) (k : list item) : iactor := ia0 [ODrvStart pl; ODrvItems k].
Definition K_idle (k : list item) : iactor := ia0 [ODrvItems k].
Definition K_done : iactor := ia0 [].

Definition X_gt r i pl k t := dev r i t 0 0 NONE NONE (K_init pl k).
Definition K_gottrace := Eval vm_compute in fun r i pl k t => dK (X_gt r i pl k t).
Definition VT_gottrace := Eval vm_compute in fun t => dVT (X_gt 0 0%nat 0 [] t).
Definition X_st r i pl k t := dev r i 0 0 0 (VT_gottrace t) NONE (K_gottrace r i pl k t).
Definition VT_run := Eval vm_compute in fun t => dVT (X_st 0 0%nat 0 [] t).

Definition X_gc r i t fid info loop k c := dev r i 0 c 0 (VT_run t) NONE (K_idle (ICall fid info loop :: k)).
Definition K_gotcall := Eval vm_compute in fun r i t fid info loop k c => dK (X_gc r i t fid info loop k c).
Definition VN_call := Eval vm_compute in fun fid info c => dVN (X_gc 0 0%nat 0 fid info None [] c).
Definition X_ic r i t fid info loop k c := dev r i 0 0 0 (VT_run t) (VN_call fid info c) (K_gotcall r i t fid info loop k c).
Definition K_incall := Eval vm_compute in fun r i t fid info loop k c => dK (X_ic r i t fid info loop k c).
Definition X_lp r i t fid info q qs k c := dev r i 0 0 0 (VT_run t) (VN_call fid info c) (K_incall r i t fid info (Some (q, qs)) k c).
Definition K_loop' := Eval vm_compute in fun r i t fid info q qs k c => dK (X_lp r i t fid info q qs k c).
Definition K_loop r i t fid info (ps : list prompt) k c : iactor :=
  let a := K_loop' r i t fid info (0, 0) [] k c in
  mkIA (ODrvPrompts ps :: tl (ia_ops a)) (ia_env a) (ia_t0 a) (ia_c0 a) (ia_p0 a).
Definition X_gp r i t fid info txt cmd ps k c p :=
  dev r i 0 0 p (VT_run t) (VN_call fid info c) (K_loop r i t fid info ((txt, cmd) :: ps) k c).
Definition K_gotprompt := Eval vm_compute in fun r i t fid info txt cmd ps k c p => dK (X_gp r i t fid info txt cmd ps k c p).
Definition X_ip r i t fid info txt cmd ps k c p :=
  dev r i 0 0 0 (VT_run t) (VN_call fid info c) (K_gotprompt r i t fid info txt cmd ps k c p).
Definition K_inprompt := Eval vm_compute in fun r i t fid info txt cmd ps k c p => dK (X_ip r i t fid info txt cmd ps k c p).
Definition X_ep r i t fid info txt cmd ps k c p :=
  dev r i 0 0 0 (VT_run t) (VN_call fid info c) (K_inprompt r i t fid info txt cmd ps k c p).
Definition X_al r i t fid info k c := dev r i 0 0 0 (VT_run t) (VN_call fid info c) (K_loop r i t fid info [] k c).
Definition K_afterloop := Eval vm_compute in fun r i t fid info k c => dK (X_al r i t fid info k c).
Definition X_e2 r i t fid info k c := dev r i 0 0 0 (VT_run t) (VN_call fid info c) (K_afterloop r i t fid info k c).
Definition X_e1 r i t fid info k c := dev r i 0 0 0 (VT_run t) (VN_call fid info c) (K_incall r i t fid info None k c).
Definition X_out r i t txt k := dev r i 0 0 0 (VT_run t) NONE (K_idle (IOut txt :: k)).
Definition X_end r i t := dev r i 0 0 0 (VT_run t) NONE (K_idle []).


(** ================================================================== part C: the simulation *)
(** what the model's program points have forgotten but the code still holds in its locals *)
Record hid := mkH { h_fid : Z; h_info : Z; h_txt : Z }.

(** the state of the code at a program point of the model: the actor (continuation + locals), what
    the dicts / sets hold under its task, and under its trace number *)
Definition KS (r : Z) (i : nat) (a : actor) (h : hid) : iactor * list (option value) * list (option value) :=
  let t := a_t a in let c := a_c a in let p := a_p a in
  let fid := h_fid h in let info := h_info h in
  match a_pc a with
  | AInit pl k => (K_init pl k, NONE, NONE)
  | AGotTrace pl k => (K_gottrace r i pl k t, VT_gottrace t, NONE)
  | AIdle k => (K_idle k, VT_run t, NONE)
  | AGotCall fid info loop k => (K_gotcall r i t fid info loop k c, VT_run t, VN_call fid info c)
  | AInCall loop k => (K_incall r i t fid info loop k c, VT_run t, VN_call fid info c)
  | ALoop ps _ k => (K_loop r i t fid info ps k c, VT_run t, VN_call fid info c)
  | AGotPrompt txt cmd ps k => (K_gotprompt r i t fid info txt cmd ps k c p, VT_run t, VN_call fid info c)
  | AInPrompt cmd ps k => (K_inprompt r i t fid info (h_txt h) cmd ps k c p, VT_run t, VN_call fid info c)
  | AAfterLoop k => (K_afterloop r i t fid info k c, VT_run t, VN_call fid info c)
  | ADone => (K_done, VT_run t, NONE)
  end.

Definition Ract (r : Z) (i : nat) (a : actor) (ia : iactor) (st : store) : Prop :=
  exists h, ia = fst (fst (KS r i a h)) /\ view st (KTask i) = snd (fst (KS r i a h)) /\
            (started a -> view st (KNum (a_t a)) = snd (KS r i a h)).

Ltac vm_lhs :=
  lazymatch goal with
  | |- ?L = ?R => let v := eval vm_compute in L in unify R v; vm_cast_no_check (@eq_refl _ v)
  end.

Ltac own_log :=
  repeat (apply Forall_cons || apply Forall_nil);
  cbn [ownp];
  first [ split; [simpl; tauto | (left; reflexivity) || (right; reflexivity)]
        | cbn [veqb truthy]; rewrite ?Z.eqb_refl, ?Nat.eqb_refl, ?String.eqb_refl; reflexivity ].

Definition eff_ok (eff : effect) (ieff : ieff) (ct cc cp ct' cc' cp' : Z) : Prop :=
  match eff with
  | Emitter.ENone => ieff = INone /\ ct' = ct /\ cc' = cc /\ cp' = cp
  | ETakeT => ieff = ITake CTrace /\ ct' = ct + 1 /\ cc' = cc /\ cp' = cp
  | ETakeC => ieff = ITake CCall /\ ct' = ct /\ cc' = cc + 1 /\ cp' = cp
  | ETakeP => ieff = ITake CPrompt /\ ct' = ct /\ cc' = cc /\ cp' = cp + 1
  | EPut e => (exists v, ieff = IPut v /\ to_event v = Some e) /\ ct' = ct /\ cc' = cc /\ cp' = cp
  end.

(** one case of the step: run the device from the computed state, transfer by locality *)
Ltac devstep r i t ct cc cp st HT HN :=
  let st' := fresh "st'" in let E := fresh "E" in let V1 := fresh "V1" in let V2 := fresh "V2" in let Hf := fresh "Hf" in
  lazymatch goal with
  | |- exists _ _ _ _ _ _ _, run1 _ _ _ _ _ _ ?K _ = _ /\ _ =>
      edestruct (step_via_device r i t ct cc cp st K) as (st' & E & V1 & V2 & Hf)
  end;
  [ rewrite HT, HN; vm_lhs | discriminate | own_log | ];
  (match type of V1 with _ = ?R => let v := eval vm_compute in R in change R with v in V1 end);
  (match type of V2 with _ = ?R => let v := eval vm_compute in R in change R with v in V2 end);
  eexists _, st', _, _, _, _, _; split; [exact E | ].

Ltac ract_goal h V1 V2 :=
  exists h; unfold KS; cbn [a_pc a_t a_c a_p fst snd h_fid h_info h_txt];
  split; [reflexivity | split; [rewrite V1; reflexivity | intros _; rewrite V2; reflexivity]].

Lemma local_step r i a ia st ct cc cp a' eff :
  Ract r i a ia st -> view st (KNum ct) = NONE ->
  astep r ct cc cp a = (a', eff) ->
  exists ia' st' ct' cc' cp' ieff lg,
    run1 RFUEL key_eqb true r i (mkSh ct cc cp st []) ia [] = (ia', mkSh ct' cc' cp' st' [], ieff, lg) /\
    Ract r i a' ia' st' /\ frame i (a_t a') st st' /\ eff_ok eff ieff ct cc cp ct' cc' cp'.
Proof.
  intros (h & HK & HT & HN) Hfresh Hst. destruct a as [pc t c p]. destruct h as [hfid hinfo htxt].
  unfold astep in Hst. unfold KS in *. cbn [a_pc a_t a_c a_p h_fid h_info h_txt fst snd] in *.
  destruct pc as [pl k | pl k | k | fid info loop k | loop k | ps had k | txt cmd ps k | cmd ps k | k | ];
    cbn [fst snd] in *; subst ia.
  - (* AInit: the trace number is taken *)
    inversion Hst; subst; clear Hst. clear HN.
    devstep r i ct ct cc cp st HT Hfresh.
    split; [ | split; [exact Hf | repeat split; reflexivity]].
    ract_goal (mkH 0 0 0) V1 V2.
  - (* AGotTrace: OnStartTrace *)
    inversion Hst; subst; clear Hst. specialize (HN I).
    devstep r i t ct cc cp st HT HN.
    split; [ | split; [exact Hf | ]].
    + ract_goal (mkH 0 0 0) V1 V2.
    + repeat split; try reflexivity. eexists. split; [reflexivity | ]. cbn. rewrite ?Z.eqb_refl. reflexivity.
  - (* AIdle *)
    specialize (HN I).
    destruct k as [ | [fid info loop | txt] k]; inversion Hst; subst; clear Hst.
    + (* the end: OnEndTrace *)
      devstep r i t ct cc cp st HT HN.
      split; [ | split; [exact Hf | ]].
      * ract_goal (mkH 0 0 0) V1 V2.
      * repeat split; try reflexivity. eexists. split; [reflexivity | ]. cbn. reflexivity.
    + (* a trace call: the trace-call number is taken *)
      devstep r i t ct cc cp st HT HN.
      split; [ | split; [exact Hf | repeat split; reflexivity]].
      ract_goal (mkH 0 0 0) V1 V2.
    + (* stdout *)
      devstep r i t ct cc cp st HT HN.
      split; [ | split; [exact Hf | ]].
      * ract_goal (mkH 0 0 0) V1 V2.
      * repeat split; try reflexivity. eexists. split; [reflexivity | ]. cbn. reflexivity.
  - (* AGotCall: OnStartTraceCall *)
    inversion Hst; subst; clear Hst. specialize (HN I).
    devstep r i t ct cc cp st HT HN.
    split; [ | split; [exact Hf | ]].
    + ract_goal (mkH fid info 0) V1 V2.
    + repeat split; try reflexivity. eexists. split; [reflexivity | ]. cbn. rewrite ?Z.eqb_refl. reflexivity.
  - (* AInCall *)
    specialize (HN I).
    destruct loop as [[q qs] | ]; inversion Hst; subst; clear Hst.
    + (* the command loop is entered: OnStartCmdloop *)
      devstep r i t ct cc cp st HT HN.
      split; [ | split; [exact Hf | ]].
      * ract_goal (mkH hfid hinfo 0) V1 V2.
      * repeat split; try reflexivity. eexists. split; [reflexivity | ]. cbn. reflexivity.
    + (* no command loop: OnEndTraceCall *)
      devstep r i t ct cc cp st HT HN.
      split; [ | split; [exact Hf | ]].
      * ract_goal (mkH 0 0 0) V1 V2.
      * repeat split; try reflexivity. eexists. split; [reflexivity | ]. cbn. reflexivity.
  - (* ALoop *)
    specialize (HN I).
    destruct ps as [ | [txt cmd] ps]; inversion Hst; subst; clear Hst.
    + (* no more commands: OnEndCmdloop *)
      devstep r i t ct cc cp st HT HN.
      split; [ | split; [exact Hf | ]].
      * ract_goal (mkH hfid hinfo 0) V1 V2.
      * repeat split; try reflexivity. eexists. split; [reflexivity | ]. cbn. reflexivity.
    + (* a prompt: the prompt number is taken *)
      devstep r i t ct cc cp st HT HN.
      split; [ | split; [exact Hf | repeat split; reflexivity]].
      ract_goal (mkH hfid hinfo 0) V1 V2.
  - (* AGotPrompt: OnStartPrompt *)
    inversion Hst; subst; clear Hst. specialize (HN I).
    devstep r i t ct cc cp st HT HN.
    split; [ | split; [exact Hf | ]].
    + ract_goal (mkH hfid hinfo txt) V1 V2.
    + repeat split; try reflexivity. eexists. split; [reflexivity | ]. cbn. reflexivity.
  - (* AInPrompt: OnEndPrompt *)
    inversion Hst; subst; clear Hst. specialize (HN I).
    devstep r i t ct cc cp st HT HN.
    split; [ | split; [exact Hf | ]].
    + ract_goal (mkH hfid hinfo 0) V1 V2.
    + repeat split; try reflexivity. eexists. split; [reflexivity | ]. cbn. reflexivity.
  - (* AAfterLoop: OnEndTraceCall *)
    inversion Hst; subst; clear Hst. specialize (HN I).
    devstep r i t ct cc cp st HT HN.
    split; [ | split; [exact Hf | ]].
    + ract_goal (mkH 0 0 0) V1 V2.
    + repeat split; try reflexivity. eexists. split; [reflexivity | ]. cbn. reflexivity.
  - (* ADone *)
    inversion Hst; subst; clear Hst.
    exists K_done, st, ct, cc, cp, INone, []. split; [reflexivity | ].
    split; [ | split; [apply frame_refl | repeat split; reflexivity]].
    exists (mkH 0 0 0). cbn. repeat split; assumption.
Qed.

(** ---- the system *)
Lemma view_frame i t st st' k : frame i t st st' -> ~ own i t k -> view st' k = view st k.
Proof. intros Hf Hk. unfold view. apply map_ext. intros m. apply Hf. tauto. Qed.

Lemma astep_started_after r ct cc cp a a' eff : astep r ct cc cp a = (a', eff) -> started a'.
Proof.
  unfold astep, started. destruct a as [pc t c p]. cbn [a_pc a_t a_c a_p].
  destruct pc as [pl k | pl k | k | fid info loop k | loop k | ps had k | txt cmd ps k | cmd ps k | k | ];
    try (destruct k as [ | [? ? ? | ?] k]); try (destruct loop as [[? ?] | ]); try (destruct ps as [ | [? ?] ps]);
    intros H; inversion H; subst; exact I.
Qed.

Lemma nth_set_nth_id {A} : forall (l : list A) i a, nth_error l i = Some a -> set_nth l i a = l.
Proof. induction l as [ | y l IH]; intros [ | i] a H; simpl in *; try discriminate; [inversion H; reflexivity | f_equal; auto]. Qed.

Definition Rsys (r : Z) (si : isys) (s : sys) : Prop :=
  let st := sh_st (is_sh si) in
  sh_ct (is_sh si) = s_ct s /\ sh_cc (is_sh si) = s_cc s /\ sh_cp (is_sh si) = s_cp s /\ sh_attrs (is_sh si) = [] /\
  (forall i, match nth_error (is_actors si) i, nth_error (s_actors s) i with
             | Some ia, Some a => Ract r i a ia st
             | None, None => True
             | _, _ => False
             end) /\
  (forall t, s_ct s <= t -> view st (KNum t) = NONE) /\
  (exists g, rel g s).

Lemma step_sim r si s i : Rsys r si s ->
  snd (istep r si i) = snd (step r s i) /\ Rsys r (fst (istep r si i)) (fst (step r s i)).
Proof.
  intros (Hct & Hcc & Hcp & Hat & Hact & Hfresh & g & Hrel).
  unfold istep, step. pose proof (Hact i) as Hi.
  destruct (nth_error (is_actors si) i) as [ia | ] eqn:Eia; destruct (nth_error (s_actors s) i) as [a | ] eqn:Ea; try contradiction.
  2:{ simpl. split; [reflexivity | ]. repeat split; auto. exists g. assumption. }
  destruct (astep r (s_ct s) (s_cc s) (s_cp s) a) as [a' eff] eqn:Est.
  destruct si as [acts [ct cc cp st at_]]. cbn [is_sh is_actors sh_ct sh_cc sh_cp sh_st sh_attrs] in *. subst ct cc cp at_.
  destruct (local_step r i a ia st _ _ _ a' eff Hi (Hfresh _ (Z.le_refl _)) Est)
    as (ia' & st' & ct' & cc' & cp' & ieff & lg & Erun & HR' & Hf & Heff).
  rewrite Erun.
  (* the model's next state and what [rel] says about it *)
  pose proof (step_rel r g s i) as Hsr. unfold step in Hsr. rewrite Ea, Est in Hsr.
  pose proof (astep_started_after _ _ _ _ _ _ _ Est) as Hs'.
  assert (Hsame : nth_error (set_nth (s_actors s) i a') i = Some a') by (eapply nth_set_nth_same; eauto).
  assert (Hsamei : nth_error (set_nth acts i ia') i = Some ia') by (eapply nth_set_nth_same; eauto).
  (* everything but the counters and the emitted event is the same in the four cases *)
  assert (Hgen : forall ct2 cc2 cp2 g2, rel g2 (mkS (set_nth (s_actors s) i a') ct2 cc2 cp2) -> s_ct s <= ct2 ->
            (forall j, match nth_error (set_nth acts i ia') j, nth_error (set_nth (s_actors s) i a') j with
                       | Some ib, Some b => Ract r j b ib st'
                       | None, None => True
                       | _, _ => False
                       end) /\
            (forall t, ct2 <= t -> view st' (KNum t) = NONE)).
  { intros ct2 cc2 cp2 g2 (R1 & R2 & R3) Hle. cbn [s_actors s_ct s_cc s_cp] in *.
    destruct (R1 i a' Hsame Hs') as [_ Hlt].
    split.
    - intros j. destruct (Nat.eq_dec i j) as [<- | Hij].
      + rewrite Hsame, Hsamei. exact HR'.
      + rewrite !nth_set_nth_other by assumption. pose proof (Hact j) as Hj.
        destruct (nth_error acts j) as [ib | ] eqn:Eib; destruct (nth_error (s_actors s) j) as [b | ] eqn:Eb; auto.
        destruct Hj as (h & HK & HT & HN). exists h. split; [exact HK | ]. split.
        * rewrite <- HT. apply (view_frame i (a_t a')); [exact Hf | ]. intros [H | H]; [inversion H; congruence | discriminate H].
        * intros Hsb. rewrite <- (HN Hsb). apply (view_frame i (a_t a')); [exact Hf | ].
          intros [H | H]; [discriminate H | ]. inversion H as [Ht].
          assert (Hb : nth_error (set_nth (s_actors s) i a') j = Some b) by (rewrite nth_set_nth_other by assumption; exact Eb).
          exact (R2 i j a' b Hij Hsame Hb Hs' Hsb (eq_sym Ht)).
    - intros t Ht. rewrite (view_frame i (a_t a') st st' (KNum t) Hf).
      + apply Hfresh. lia.
      + intros [H | H]; [discriminate H | ]. inversion H. lia. }
  destruct eff; cbn [eff_ok] in Heff.
  - (* nothing: the actor has finished *)
    destruct Heff as (-> & -> & -> & ->).
    pose proof (astep_none _ _ _ _ _ _ Est) as ->.
    cbn [fst snd]. split; [reflexivity | ].
    destruct (Hgen (s_ct s) (s_cc s) (s_cp s) g) as [G1 G2].
    { rewrite (nth_set_nth_id _ _ _ Ea). destruct s; exact Hrel. } { lia. }
    rewrite (nth_set_nth_id _ _ _ Ea) in G1.
    repeat split; auto. exists g. exact Hrel.
  - destruct Heff as (-> & -> & -> & ->). specialize (Hsr _ _ Hrel eq_refl). cbn in Hsr.
    cbn [fst snd]. split; [reflexivity | ].
    destruct (Hgen _ _ _ g Hsr) as [G1 G2]; [lia | ].
    repeat split; auto. exists g. exact Hsr.
  - destruct Heff as (-> & -> & -> & ->). specialize (Hsr _ _ Hrel eq_refl). cbn in Hsr.
    cbn [fst snd]. split; [reflexivity | ].
    destruct (Hgen _ _ _ g Hsr) as [G1 G2]; [lia | ].
    repeat split; auto. exists g. exact Hsr.
  - destruct Heff as (-> & -> & -> & ->). specialize (Hsr _ _ Hrel eq_refl). cbn in Hsr.
    cbn [fst snd]. split; [reflexivity | ].
    destruct (Hgen _ _ _ g Hsr) as [G1 G2]; [lia | ].
    repeat split; auto. exists g. exact Hsr.
  - destruct Heff as ((v & -> & Hev) & -> & -> & ->). specialize (Hsr _ _ Hrel eq_refl). cbn in Hsr.
    destruct Hsr as (g' & _ & Hsr).
    cbn [fst snd]. split; [exact Hev | ].
    destruct (Hgen _ _ _ g' Hsr) as [G1 G2]; [lia | ].
    repeat split; auto. exists g'. exact Hsr.
Qed.

(** THE TIE: for every schedule, from related states, the interpreter of the regenerated code and the
    model emit the same events and stay related *)
Theorem sim_from r : forall sched si s, Rsys r si s ->
  snd (irun r si sched) = snd (run r s sched) /\ Rsys r (fst (irun r si sched)) (fst (run r s sched)).
Proof.
  induction sched as [ | i sched IH]; intros si s H; simpl; [split; [reflexivity | exact H] | ].
  destruct (step_sim r si s i H) as [He Hr].
  destruct (istep r si i) as [si1 oe]. destruct (step r s i) as [s1 oe']. cbn [fst snd] in *. subst oe'.
  destruct (IH _ _ Hr) as [He2 Hr2].
  destruct (irun r si1 sched) as [si2 es]. destruct (run r s1 sched) as [s2 es']. cbn [fst snd] in *. subst es'.
  split; [reflexivity | exact Hr2].
Qed.

(** the counters of the regenerated code start where the model's do *)
Lemma starts_are_model_starts : start_of CTrace = 1 /\ start_of CCall = 1 /\ start_of CPrompt = 1 /\ counter_step = 1.
Proof. repeat split; reflexivity. Qed.

Lemma Rsys_init r ps : Rsys r (iinit ps) (init_sys ps).
Proof.
  unfold Rsys, iinit, init_sys. cbn [is_sh is_actors sh_ct sh_cc sh_cp sh_st sh_attrs s_ct s_cc s_cp s_actors].
  repeat split; try reflexivity.
  - intros i. rewrite !nth_error_map. destruct (nth_error ps i) as [p | ]; simpl; [ | exact I].
    exists (mkH 0 0 0). repeat split.
  - exists []. apply rel_init.
Qed.

Theorem sim r ps sched :
  iemitted r ps sched = emitted r ps sched /\ Rsys r (fst (irun r (iinit ps) sched)) (fst (run r (init_sys ps) sched)).
Proof. apply sim_from. apply Rsys_init. Qed.

(** ================================================================== corollaries on the regenerated code *)
Theorem tie_same_stream r ps sched : iemitted r ps sched = emitted r ps sched.
Proof. apply sim. Qed.

(** at any moment (a kill) the stream of the regenerated code is accepted by the prefix recogniser *)
Theorem tie_prefix r ps sched : wf_prefix r (iemitted r ps sched) = true.
Proof. rewrite tie_same_stream. apply emitter_prefix. Qed.

Definition fin_i (ia : iactor) : bool := match ia_ops ia with [] => true | _ => false end.
Definition fin_m (a : actor) : bool := match a_pc a with ADone => true | _ => false end.

Lemma Ract_fin r i a ia st : Ract r i a ia st -> fin_i ia = fin_m a.
Proof.
  intros (h & -> & _). destruct a as [pc t c p]. unfold fin_m, KS. cbn [a_pc a_t a_c a_p].
  destruct pc; reflexivity.
Qed.

Lemma forallb_rel {A B} (P : nat -> B -> A -> Prop) (f : A -> bool) (g : B -> bool) :
  (forall i b a, P i b a -> f a = g b) ->
  forall (l1 : list A) (l2 : list B) n,
    (forall i, match nth_error l1 i, nth_error l2 i with
               | Some a, Some b => P (n + i)%nat b a | None, None => True | _, _ => False end) ->
    forallb f l1 = forallb g l2.
Proof.
  intros Hfg. induction l1 as [ | a l1 IH]; intros [ | b l2] n H; simpl; auto.
  - specialize (H O). simpl in H. contradiction.
  - specialize (H O). simpl in H. contradiction.
  - f_equal.
    + pose proof (H O) as H0. simpl in H0. eapply Hfg; eauto.
    + apply (IH l2 (S n)). intros i. specialize (H (S i)). simpl in H. rewrite <- plus_n_Sm in H. exact H.
Qed.

Theorem tie_finished r ps sched : ifinished r ps sched = finished r ps sched.
Proof.
  unfold ifinished, finished, all_finished.
  destruct (sim r ps sched) as [_ (_ & _ & _ & _ & Hact & _)].
  apply (forallb_rel (fun i a ia => Ract r i a ia (sh_st (is_sh (fst (irun r (iinit ps) sched))))) fin_i fin_m) with (n := O).
  - intros i b a H. eapply Ract_fin; eauto.
  - exact Hact.
Qed.

(** when every thread / task has ended, the stream of the regenerated code is well formed *)
Theorem tie_wf r ps sched : ifinished r ps sched = true -> WF r (iemitted r ps sched).
Proof. rewrite tie_finished, tie_same_stream. apply emitter_wf. Qed.

(** ================================================================== direct facts *)

(** ---- (1) the end event is put in a `finally` and carries the numbers read at entry.
    A generator-based context manager run on its own.  [thrown]: the body of the `with` raises, the
    exception is thrown into the generator at its first yield.  [hk after name]: what the first-result
    hook [name] answers before ([after] = false) / after the first yield -- the two are unrelated. *)
Fixpoint oeval (n : nat) (hk : string -> value) (r : Z) (e : env) (x : expr) : value :=
  match n with
  | O => VBad
  | S n =>
    match x with
    | EVar v => vget e v
    | Syntax.ENone => VNone
    | EStr s => VStr s
    | EBool b => VBool b
    | ERunNo => VNum r
    | EHook h => hk h
    | EField a f => field (oeval n hk r e a) f
    | EMk cls fs => VObj cls (map (fun p => (fst p, oeval n hk r e (snd p))) fs)
    | _ => VBad
    end
  end.

(** [gr_sets]: the entries of dicts / sets written (Some v) or removed (None), latest first *)
Record gres := mkGR { gr_env : env; gr_puts : list value; gr_after : bool; gr_raised : bool;
                      gr_sets : list (string * value * option value) }.

Fixpoint gexec (thrown : bool) (sent : value) (hk : bool -> string -> value) (r : Z) (s : stmt) (g : gres) : gres :=
  if gr_raised g then g else
  let ev := oeval EFUEL (hk (gr_after g)) r (gr_env g) in
  match s with
  | SSkip => g
  | SSeq a b => gexec thrown sent hk r b (gexec thrown sent hk r a g)
  | SLet x e => mkGR (eset (gr_env g) x (ev e)) (gr_puts g) (gr_after g) false (gr_sets g)
  | SPut e => mkGR (gr_env g) (gr_puts g ++ [ev e]) (gr_after g) false (gr_sets g)
  | SYield x =>
      if gr_after g then g                                  (* the second yield: the `with` block is left *)
      else if thrown then mkGR (gr_env g) (gr_puts g) true true (gr_sets g)
      else mkGR (match x with Some v => eset (gr_env g) v sent | None => gr_env g end) (gr_puts g) true false (gr_sets g)
  | STry a b =>
      let g1 := gexec thrown sent hk r a g in
      let g2 := gexec thrown sent hk r b (mkGR (gr_env g1) (gr_puts g1) (gr_after g1) false (gr_sets g1)) in
      mkGR (gr_env g2) (gr_puts g2) (gr_after g2) (gr_raised g1 || gr_raised g2) (gr_sets g2)
  | SSetAdd m k => mkGR (gr_env g) (gr_puts g) (gr_after g) false ((m, ev k, Some (VBool true)) :: gr_sets g)
  | SMapSet m k v => mkGR (gr_env g) (gr_puts g) (gr_after g) false ((m, ev k, Some (ev v)) :: gr_sets g)
  | SSetRemove m k | SMapDel m k => mkGR (gr_env g) (gr_puts g) (gr_after g) false ((m, ev k, None) :: gr_sets g)
  | _ => mkGR (gr_env g) (gr_puts g ++ [VBad]) (gr_after g) true (gr_sets g)
  end.

Definition gen_res (thrown : bool) (sent : value) (hk : bool -> string -> value) (r : Z) (f : func) (args : list value) : gres :=
  gexec thrown sent hk r (f_body f) (mkGR (combine (f_params f) args) [] false false []).

Definition gen_run (thrown : bool) (sent : value) (hk : bool -> string -> value) (r : Z) (f : func) (args : list value) : list value :=
  gr_puts (gen_res thrown sent hk r f args).

(** class and numbers of an event *)
Definition nums (v : value) : string * list value :=
  match v with
  | VObj cls fs => (cls, [vget fs "run_no"; vget fs "trace_no"; vget fs "trace_call_no"; vget fs "prompt_no"])
  | _ => ("", [])
  end.

Theorem tie_end_in_finally_trace_call : forall thrown sent hk r tci,
  map nums (gen_run thrown sent hk r f_Repeater_on_trace_call [tci]) =
  [("OnStartTraceCall", [VNum r; hk false "current_trace_no"; field tci "trace_call_no"; VBad]);
   ("OnEndTraceCall", [VNum r; hk false "current_trace_no"; field tci "trace_call_no"; VBad])].
Proof. intros [ | ] sent hk r tci; reflexivity. Qed.

Theorem tie_end_in_finally_cmdloop : forall thrown sent hk r,
  map nums (gen_run thrown sent hk r f_Repeater_on_cmdloop []) =
  [("OnStartCmdloop", [VNum r; hk false "current_trace_no"; hk false "current_trace_call_no"; VBad]);
   ("OnEndCmdloop", [VNum r; hk false "current_trace_no"; hk false "current_trace_call_no"; VBad])].
Proof. intros [ | ] sent hk r; reflexivity. Qed.

Theorem tie_end_in_finally_prompt : forall thrown sent hk r pn txt,
  map nums (gen_run thrown sent hk r f_Repeater_on_prompt [pn; txt]) =
  [("OnStartPrompt", [VNum r; hk false "current_trace_no"; field (hk false "current_trace_call_info") "trace_call_no"; pn]);
   ("OnEndPrompt", [VNum r; hk false "current_trace_no"; field (hk false "current_trace_call_info") "trace_call_no"; pn])].
Proof. intros [ | ] sent hk r pn txt; reflexivity. Qed.

(** the command sent into on_prompt is the one OnEndPrompt carries; '' when the prompt was interrupted *)
Theorem tie_end_prompt_command : forall sent hk r pn txt,
  map (fun v => match v with VObj _ fs => alookup fs "command" | _ => None end) (gen_run false sent hk r f_Repeater_on_prompt [pn; txt])
    = [None; Some sent] /\
  map (fun v => match v with VObj _ fs => alookup fs "command" | _ => None end) (gen_run true sent hk r f_Repeater_on_prompt [pn; txt])
    = [None; Some (VStr "")].
Proof. intros; split; reflexivity. Qed.

(** TraceCallHandler.on_trace_call: what it records on entry (the trace is on a trace call; its
    TraceCallInfo) it removes in `finally` -- whether the trace function returns or raises, and under the
    key read at ENTRY: every dict / set it wrote under that key ends removed, nothing else is touched *)
Definition last_write (sets : list (string * value * option value)) (m : string) : option (value * option value) :=
  match filter (fun e => String.eqb (fst (fst e)) m) sets with
  | (_, k, v) :: _ => Some (k, v)
  | [] => None
  end.

Theorem tie_handler_removes_in_finally : forall thrown sent hk r tci,
  let g := gen_res thrown sent hk r f_TraceCallHandler_on_trace_call [tci] in
  let names := dedup (map (fun e => fst (fst e)) (gr_sets g)) in
  gr_puts g = [] /\ names <> [] /\
  forallb (fun m => match last_write (gr_sets g) m with
                    | Some (_, None) => true
                    | _ => false end) names = true /\
  map (fun e => snd (fst e)) (gr_sets g) = map (fun _ => hk false "current_trace_no") (gr_sets g) /\
  (* on entry both the membership and the info are recorded *)
  List.length (filter (fun e => match snd e with Some _ => true | None => false end) (gr_sets g)) =
  List.length (filter (fun e => match snd e with Some _ => false | None => true end) (gr_sets g)).
Proof. intros [ | ] sent hk r tci; vm_compute; repeat split; try reflexivity; discriminate. Qed.

(** ---- (2) the counters: ONE object per run for each of the three kinds of number, first value 1 *)
Theorem tie_counters_per_run :
  counter_decl CTrace = (PerRun, 1) /\ counter_decl CCall = (PerRun, 1) /\ counter_decl CPrompt = (PerRun, 1) /\
  counter_step = 1 /\ other_queue_out_putters = 0%nat.
Proof. repeat split; reflexivity. Qed.

(** ---- (3) the current trace call is kept PER TRACE: in every reachable state, whatever the other
    threads / tasks are doing, the first-result hooks answer thread / task i with ITS trace number,
    whether IT is on a trace call, and ITS trace-call number *)
Definition in_call (a : actor) : bool :=
  match a_pc a with
  | AGotCall _ _ _ _ | AInCall _ _ | ALoop _ _ _ | AGotPrompt _ _ _ _ | AInPrompt _ _ _ | AAfterLoop _ => true
  | _ => false
  end.

Lemma reach r ps sched i a :
  nth_error (s_actors (fst (run r (init_sys ps) sched))) i = Some a ->
  exists ia, nth_error (is_actors (fst (irun r (iinit ps) sched))) i = Some ia /\
             Ract r i a ia (sh_st (is_sh (fst (irun r (iinit ps) sched)))) /\
             sh_attrs (is_sh (fst (irun r (iinit ps) sched))) = [].
Proof.
  intros Ha. destruct (sim r ps sched) as [_ (_ & _ & _ & Hat & Hact & _)].
  specialize (Hact i). rewrite Ha in Hact.
  destruct (nth_error (is_actors (fst (irun r (iinit ps) sched))) i) as [ia | ]; [ | contradiction].
  exists ia. repeat split; assumption.
Qed.

Lemma hook_eval_local r i t st h :
  Forall (ownk i t) (ekeys EFUEL (mkC r i (Lof (view st (KTask i)) (view st (KNum t))) []) [] (EHook h)) ->
  eval EFUEL (mkC r i st []) [] (EHook h) = eval EFUEL (mkC r i (Lof (view st (KTask i)) (view st (KNum t))) []) [] (EHook h).
Proof. intros H. apply (eval_agree i t r st _ [] (agree_Lof i t st) EFUEL [] (EHook h) H). Qed.

Ltac hook_local r i t HT HN :=
  rewrite (hook_eval_local r i t); rewrite ?HT, ?HN; [reflexivity | own_log].

Theorem tie_current_call_per_trace r ps sched i a :
  nth_error (s_actors (fst (run r (init_sys ps) sched))) i = Some a -> started a ->
  let sh := is_sh (fst (irun r (iinit ps) sched)) in
  eval EFUEL (ctx_of r i sh) [] (EHook "current_trace_no") = VNum (a_t a) /\
  eval EFUEL (ctx_of r i sh) [] (EHook "is_on_trace_call") = VBool (in_call a) /\
  eval EFUEL (ctx_of r i sh) [] (EHook "current_trace_call_no") = (if in_call a then VNum (a_c a) else VNone).
Proof.
  intros Ha Hs sh. destruct (reach r ps sched i a Ha) as (ia & _ & (h & _ & HT & HN) & Hat).
  unfold ctx_of. fold sh in HT, HN, Hat. rewrite Hat. specialize (HN Hs).
  destruct a as [pc t c p]. unfold in_call, KS in *. cbn [a_pc a_t a_c a_p fst snd] in *.
  destruct pc; try contradiction; cbn [fst snd] in HT, HN;
    (split; [hook_local r i t HT HN | split; hook_local r i t HT HN]).
Qed.

(** ---- (4) the guard of the command-loop hook: Pdb's command loop entered by a thread / task that is
    NOT on a trace call of its own (whatever the others are on) is refused -- the whole of
    CustomizedPdb.cmdloop() runs through without a visible action and without reading a command *)
Lemma settle_via_device r i t ct cc cp st a a' ct' cc' cp' L' at' lg :
  settle SFUEL keqk false r i (mkSh ct cc cp (Lof (view st (KTask i)) (view st (KNum t))) []) a [] = (a', mkSh ct' cc' cp' L' at', true, lg) ->
  Forall (ownp i t) lg ->
  exists st', settle SFUEL key_eqb true r i (mkSh ct cc cp st []) a [] = (a', mkSh ct' cc' cp' st' at', true, lg) /\
     view st' (KTask i) = view L' (KTask 0) /\ view st' (KNum t) = view L' (KNum 0) /\ frame i t st st'.
Proof.
  intros Hd Hl.
  destruct (settle_agree i t SFUEL r a [] ct cc cp [] st (Lof (view st (KTask i)) (view st (KNum t))) a' ct' cc' cp' L' at' lg
              (agree_Lof i t st) (uniform_Lof _ _) Hd Hl) as (st' & E & Ha & Hu & Hf).
  exists st'. destruct (view_agree _ _ _ _ Ha Hu) as [V1 V2].
  split; [exact E | ]. split; [exact V1 | ]. split; [exact V2 | exact Hf].
Qed.

Definition stray_cmdloop (ps : list prompt) (k : list item) : iactor :=
  ia0 (fst CMDLOOP_OPS ++ ODrvPrompts ps :: snd CMDLOOP_OPS ++ [ODrvItems k]).

Theorem tie_stray_cmdloop_refused r ps sched i a k qs :
  nth_error (s_actors (fst (run r (init_sys ps) sched))) i = Some a -> a_pc a = AIdle k ->
  let sh := is_sh (fst (irun r (iinit ps) sched)) in
  exists sh' lg, settle SFUEL key_eqb true r i sh (stray_cmdloop qs k) [] = (K_idle k, sh', true, lg) /\
                 view (sh_st sh') (KTask i) = view (sh_st sh) (KTask i) /\ view (sh_st sh') (KNum (a_t a)) = view (sh_st sh) (KNum (a_t a)).
Proof.
  intros Ha Hpc sh. destruct (reach r ps sched i a Ha) as (ia & _ & (h & _ & HT & HN) & Hat).
  fold sh in HT, HN, Hat. destruct a as [pc t c p]. cbn [a_pc a_t] in *. subst pc.
  unfold KS in HT, HN. cbn [a_pc a_t a_c a_p fst snd] in HT, HN. specialize (HN I).
  destruct sh as [ct cc cp st at_]. cbn [sh_st sh_attrs] in *. subst at_.
  edestruct (settle_via_device r i t ct cc cp st (stray_cmdloop qs k)) as (st' & E & V1 & V2 & Hf);
    [rewrite HT, HN; vm_lhs | own_log | ].
  eexists _, _. split; [exact E | ]. cbn [sh_st]. rewrite V1, V2, HT, HN. split; reflexivity.
Qed.

(** non-vacuity: the interpreter of the regenerated code runs the example of Props/C09.v *)
Example tie_example :
  let progs := [mkProg 10 [ICall 5 7 None; IOut 4; ICall 5 7 (Some ((0, 9), [(0, 8)]))];
                mkProg 11 [ICall 6 8 (Some ((0, 9), []))]] in
  let sched := [0; 1; 1; 0; 0; 1; 0; 1; 0; 0; 1; 1; 0; 1; 0; 0; 1; 1; 0; 0; 0; 0; 1; 0; 0; 0; 0; 1; 0; 1; 0; 1; 0]%nat in
  ifinished 1 progs sched = true /\
  iemitted 1 progs sched =
  [StartTrace 1 2 11; StartTrace 1 1 10; StartTraceCall 1 1 1 5 7; StartTraceCall 1 2 2 6 8;
   EndTraceCall 1 1 1; WriteStdout 1 1 4; StartCmdloop 1 2 2; StartPrompt 1 2 2 1 0;
   StartTraceCall 1 1 3 5 7; StartCmdloop 1 1 3; EndPrompt 1 2 2 1 9; EndCmdloop 1 2 2;
   StartPrompt 1 1 3 2 0; EndPrompt 1 1 3 2 9; EndTraceCall 1 2 2; StartPrompt 1 1 3 3 0;
   EndPrompt 1 1 3 3 8; EndCmdloop 1 1 3; EndTraceCall 1 1 3; EndTrace 1 2; EndTrace 1 1].
Proof. vm_compute. split; reflexivity. Qed.
