(** C09 -- model of the emitter in the subprocess.  Definitions only; proofs in
    Events/EmitterProofs.v.

    An *actor* is a thread or asyncio task traced by Nextline.  What it does is a
    STRUCTURED program: Python's `with` blocks (context-manager hooks of
    nextline/spawned/plugin/plugins/repeat.py: the start event is put on entry, the end
    event in `finally`) make every trace call / command loop / prompt a bracket, and
    sys.settrace never nests trace calls of one thread/task.
      prog  = start-trace payload + list of items
      item  = ICall fid info loop | IOut txt          (a trace call | a line on stdout)
      loop  = None | Some (first prompt, further prompts)   (Pdb.cmdloop reads >= 1 command)
      prompt = (prompt text, command that answers it)
    Numbers come from three shared counters (nextline/count.py: itertools.count(1)):
      TaskOrThreadToTraceMapper._counter, Factory.trace_call_no_counter, PromptFunc.counter.
    Taking a number and putting the event that carries it are TWO steps (`trace_call_no =
    counter()` ... `queue_out.put(event)`); other actors may run in between.
    The scheduler (GIL switches, event loop) is the label sequence: [Step i] lets actor i
    perform its next step. *)
From NL Require Import Events.Grammar.
Open Scope Z_scope.

Notation prompt := (Z * Z)%type.

Inductive item :=
| ICall (fid info : Z) (loop : option (prompt * list prompt))
| IOut (txt : Z).

Record prog := mkProg { p_pl : Z; p_items : list item }.

(** program point of an actor *)
Inductive pc :=
| AInit (pl : Z) (k : list item)                          (* nothing done yet *)
| AGotTrace (pl : Z) (k : list item)                      (* trace_no = counter() done *)
| AIdle (k : list item)                                   (* OnStartTrace put; between items *)
| AGotCall (fid info : Z) (loop : option (prompt * list prompt)) (k : list item)   (* trace_call_no = counter() *)
| AInCall (loop : option (prompt * list prompt)) (k : list item)                   (* OnStartTraceCall put *)
| ALoop (ps : list prompt) (had : bool) (k : list item)   (* OnStartCmdloop put *)
| AGotPrompt (txt cmd : Z) (ps : list prompt) (k : list item)                      (* prompt_no = counter() *)
| AInPrompt (cmd : Z) (ps : list prompt) (k : list item)  (* OnStartPrompt put *)
| AAfterLoop (k : list item)                              (* OnEndCmdloop put *)
| ADone.                                                  (* OnEndTrace put *)

Record actor := mkA { a_pc : pc; a_t : Z; a_c : Z; a_p : Z }.

Record sys := mkS { s_actors : list actor; s_ct : Z; s_cc : Z; s_cp : Z }.

Definition init_actor (p : prog) : actor := mkA (AInit (p_pl p) (p_items p)) 0 0 0.
Definition init_sys (ps : list prog) : sys := mkS (map init_actor ps) 1 1 1.

Inductive effect := ENone | ETakeT | ETakeC | ETakeP | EPut (e : event).

(** one step of an actor, given the current counter values *)
Definition astep (r : Z) (ct cc cp : Z) (a : actor) : actor * effect :=
  let t := a_t a in let c := a_c a in let p := a_p a in
  match a_pc a with
  | AInit pl k => (mkA (AGotTrace pl k) ct c p, ETakeT)
  | AGotTrace pl k => (mkA (AIdle k) t c p, EPut (StartTrace r t pl))
  | AIdle [] => (mkA ADone t c p, EPut (EndTrace r t))
  | AIdle (IOut txt :: k) => (mkA (AIdle k) t c p, EPut (WriteStdout r t txt))
  | AIdle (ICall fid info loop :: k) => (mkA (AGotCall fid info loop k) t cc p, ETakeC)
  | AGotCall fid info loop k => (mkA (AInCall loop k) t c p, EPut (StartTraceCall r t c fid info))
  | AInCall None k => (mkA (AIdle k) t c p, EPut (EndTraceCall r t c))
  | AInCall (Some (q, qs)) k => (mkA (ALoop (q :: qs) false k) t c p, EPut (StartCmdloop r t c))
  | ALoop ((txt, cmd) :: ps) had k => (mkA (AGotPrompt txt cmd ps k) t c cp, ETakeP)
  | ALoop [] _ k => (mkA (AAfterLoop k) t c p, EPut (EndCmdloop r t c))
  | AGotPrompt txt cmd ps k => (mkA (AInPrompt cmd ps k) t c p, EPut (StartPrompt r t c p txt))
  | AInPrompt cmd ps k => (mkA (ALoop ps true k) t c p, EPut (EndPrompt r t c p cmd))
  | AAfterLoop k => (mkA (AIdle k) t c p, EPut (EndTraceCall r t c))
  | ADone => (a, ENone)
  end.

Fixpoint set_nth {A} (l : list A) (n : nat) (x : A) : list A :=
  match l, n with
  | [], _ => []
  | _ :: r, O => x :: r
  | a :: r, S n => a :: set_nth r n x
  end.

(** label [i]: actor i performs its next step (no-op if there is no such actor or it is done) *)
Definition step (r : Z) (s : sys) (i : nat) : sys * option event :=
  match nth_error (s_actors s) i with
  | None => (s, None)
  | Some a =>
    let '(a', eff) := astep r (s_ct s) (s_cc s) (s_cp s) a in
    let acts := set_nth (s_actors s) i a' in
    match eff with
    | ENone => (s, None)
    | ETakeT => (mkS acts (s_ct s + 1) (s_cc s) (s_cp s), None)
    | ETakeC => (mkS acts (s_ct s) (s_cc s + 1) (s_cp s), None)
    | ETakeP => (mkS acts (s_ct s) (s_cc s) (s_cp s + 1), None)
    | EPut e => (mkS acts (s_ct s) (s_cc s) (s_cp s), Some e)
    end
  end.

(** the stream put on the outgoing queue under schedule [sched], and the final state *)
Fixpoint run (r : Z) (s : sys) (sched : list nat) : sys * list event :=
  match sched with
  | [] => (s, [])
  | i :: rest =>
    let '(s1, oe) := step r s i in
    let '(s2, es) := run r s1 rest in
    (s2, match oe with Some e => e :: es | None => es end)
  end.

Definition emitted (r : Z) (ps : list prog) (sched : list nat) : list event :=
  snd (run r (init_sys ps) sched).

Definition all_finished (s : sys) : bool :=
  forallb (fun a => match a_pc a with ADone => true | _ => false end) (s_actors s).

Definition finished (r : Z) (ps : list prog) (sched : list nat) : bool :=
  all_finished (fst (run r (init_sys ps) sched)).

(** ---- for the correspondence check ---- *)

Definition event_eqb (a b : event) : bool :=
  match a, b with
  | StartTrace r t x, StartTrace r' t' x' => (r =? r') && (t =? t') && (x =? x')
  | EndTrace r t, EndTrace r' t' => (r =? r') && (t =? t')
  | StartTraceCall r t c f i, StartTraceCall r' t' c' f' i' => (r =? r') && (t =? t') && (c =? c') && (f =? f') && (i =? i')
  | EndTraceCall r t c, EndTraceCall r' t' c' => (r =? r') && (t =? t') && (c =? c')
  | StartCmdloop r t c, StartCmdloop r' t' c' => (r =? r') && (t =? t') && (c =? c')
  | EndCmdloop r t c, EndCmdloop r' t' c' => (r =? r') && (t =? t') && (c =? c')
  | StartPrompt r t c p x, StartPrompt r' t' c' p' x' => (r =? r') && (t =? t') && (c =? c') && (p =? p') && (x =? x')
  | EndPrompt r t c p x, EndPrompt r' t' c' p' x' => (r =? r') && (t =? t') && (c =? c') && (p =? p') && (x =? x')
  | WriteStdout r t x, WriteStdout r' t' x' => (r =? r') && (t =? t') && (x =? x')
  | _, _ => false
  end.

Fixpoint events_eqb (a b : list event) : bool :=
  match a, b with
  | [], [] => true
  | x :: a, y :: b => event_eqb x y && events_eqb a b
  | _, _ => false
  end.

(** a case: run number, the structured programs extracted from a real stream (one per trace,
    in the order the trace numbers were taken), the schedule reconstructed from it, the real
    stream.  The model must emit exactly the real stream and leave every actor finished. *)
Fixpoint emit_bad_from (n : nat) (cases : list (Z * list prog * list nat * list event)) : list nat :=
  match cases with
  | [] => []
  | (r, ps, sched, es) :: rest =>
    if events_eqb (emitted r ps sched) es && finished r ps sched
    then emit_bad_from (S n) rest else n :: emit_bad_from (S n) rest
  end.
