(** Proofs about Events/Grammar.v: the recogniser [wf] decides the grammar [WF];
    prefix closure. *)
From NL Require Import Events.Grammar.
Open Scope Z_scope.

Ltac inv H := inversion H; subst; clear H.

Ltac crush_eqs :=
  repeat match goal with
  | H : (if ?b then _ else _) = Some _ |- _ => let E := fresh "E" in destruct b eqn:E; [|discriminate H]
  | H : Some _ = Some _ |- _ => inv H
  | H : (_ && _) = true |- _ => apply andb_true_iff in H; destruct H
  | H : (_ =? _) = true |- _ => apply Z.eqb_eq in H; subst
  end.

(** ------------------------------------------------------------------ phase automaton *)

Definition nums (r t : Z) (e : event) : Prop := ev_run e = r /\ ev_trace e = t.

Lemma pstep_nums r t ph e ph' : pstep r t ph e = Some ph' -> nums r t e.
Proof.
  unfold pstep, nums. destruct (ev_run e =? r) eqn:E1, (ev_trace e =? t) eqn:E2; simpl; try discriminate.
  intros _. split; apply Z.eqb_eq; assumption.
Qed.

Lemma pstep_core r t ph e : nums r t e -> pstep r t ph e = pcore ph e.
Proof. intros [H1 H2]. unfold pstep. rewrite H1, H2, !Z.eqb_refl. reflexivity. Qed.

Lemma pcore_not_none ph e ph' : pcore ph e = Some ph' -> ph' <> PNone.
Proof.
  destruct ph, e; simpl; intros H; try discriminate; crush_eqs; try discriminate.
  all: destruct had; try discriminate; crush_eqs; discriminate.
Qed.

Lemma pstep_not_none r t ph e ph' : pstep r t ph e = Some ph' -> ph' <> PNone.
Proof.
  intros H. pose proof (pstep_nums _ _ _ _ _ H) as Hn. rewrite pstep_core in H by assumption.
  eapply pcore_not_none; eauto.
Qed.

Lemma prun_app r t : forall a ph b,
  prun r t ph (a ++ b) = match prun r t ph a with Some ph' => prun r t ph' b | None => None end.
Proof.
  induction a as [|e a IH]; intros ph b; simpl; auto.
  destruct (pstep r t ph e); auto.
Qed.

Lemma prun_nums r t : forall l ph ph', prun r t ph l = Some ph' -> Forall (nums r t) l.
Proof.
  induction l as [|e l IH]; intros ph ph' H; simpl in H; constructor.
  - destruct (pstep r t ph e) eqn:E; [|discriminate]. eapply pstep_nums; eauto.
  - destruct (pstep r t ph e) eqn:E; [|discriminate]. eapply IH; eauto.
Qed.

Lemma prun_done r t : forall l ph', prun r t PDone l = Some ph' -> l = [] /\ ph' = PDone.
Proof.
  destruct l as [|e l]; simpl; intros ph' H.
  - inv H. auto.
  - unfold pstep in H. destruct ((ev_run e =? r) && (ev_trace e =? t)); [|discriminate].
    destruct e; simpl in H; discriminate.
Qed.

Lemma prun_to_none r t : forall l ph, prun r t ph l = Some PNone -> ph = PNone /\ l = [].
Proof.
  induction l as [|e l IH]; intros ph H; simpl in H.
  - inv H. auto.
  - destruct (pstep r t ph e) eqn:E; [|discriminate].
    apply IH in H. destruct H as [-> _]. exfalso. eapply pstep_not_none; eauto.
Qed.

(** grammar => automaton *)

Ltac step_ok :=
  repeat (progress (simpl; unfold pstep; simpl; rewrite ?Z.eqb_refl; simpl)).

Lemma Prompts_run r t c l : Prompts r t c l ->
  forall b k, prun r t (PLoop c b) (l ++ k) = prun r t (PLoop c true) k.
Proof.
  induction 1; intros b k; destruct b.
  - step_ok. reflexivity.
  - step_ok. reflexivity.
  - step_ok. apply IHPrompts.
  - step_ok. apply IHPrompts.
Qed.

Lemma Call_run r t l : Call r t l -> forall k, prun r t PIdle (l ++ k) = prun r t PIdle k.
Proof.
  destruct 1; intros k.
  - step_ok. reflexivity.
  - step_ok. rewrite <- app_assoc. rewrite (Prompts_run _ _ _ _ H). step_ok. reflexivity.
Qed.

Lemma Calls_run r t l : Calls r t l -> forall k, prun r t PIdle (l ++ k) = prun r t PIdle k.
Proof.
  induction 1; intros k; simpl; auto.
  rewrite <- app_assoc, (Call_run _ _ _ H). apply IHCalls.
Qed.

Definition inside (ph : phase) : Prop :=
  match ph with PNone | PDone => False | _ => True end.

Lemma strip_cons e l : strip (e :: l) = if is_stdout e then strip l else e :: strip l.
Proof. unfold strip. simpl. destruct (is_stdout e); reflexivity. Qed.

Lemma pcore_stdout ph e : is_stdout e = true -> inside ph -> pcore ph e = Some ph.
Proof. destruct e; simpl; try discriminate. intros _. destruct ph as [| |?|? []|? ?|?|]; simpl; intros H; try contradiction; reflexivity. Qed.

Lemma strip_run r t : forall body ph,
  inside ph -> Forall (nums r t) body ->
  prun r t ph (strip body) = Some PIdle -> prun r t ph body = Some PIdle.
Proof.
  induction body as [|e body IH]; intros ph Hin Hn H; simpl; auto.
  inv Hn. rewrite strip_cons in H. rewrite pstep_core by assumption.
  destruct (is_stdout e) eqn:Es.
  - rewrite pcore_stdout by assumption. auto.
  - simpl in H. rewrite pstep_core in H by assumption.
    destruct (pcore ph e) as [ph1|] eqn:E; [|discriminate].
    apply IH; auto.
    destruct ph1; simpl; auto.
    + eapply pcore_not_none; eauto.
    + apply prun_done in H. destruct H; discriminate.
Qed.

(** automaton => grammar *)

Definition Shape (r t : Z) (ph : phase) (s : list event) : Prop :=
  match ph with
  | PIdle => Calls r t s
  | PCall c => forall fid info, exists a b,
      s = a ++ b /\ Call r t (StartTraceCall r t c fid info :: a) /\ Calls r t b
  | PLoop c had => exists a b,
      s = a ++ EndCmdloop r t c :: EndTraceCall r t c :: b /\
      (Prompts r t c a \/ (had = true /\ a = [])) /\ Calls r t b
  | PPrompt c p => exists cmd a b,
      s = EndPrompt r t c p cmd :: a ++ EndCmdloop r t c :: EndTraceCall r t c :: b /\
      (Prompts r t c a \/ a = []) /\ Calls r t b
  | PAfter c => exists b, s = EndTraceCall r t c :: b /\ Calls r t b
  | PNone => True
  | PDone => False
  end.

Lemma run_shape r t : forall k ph, prun r t ph k = Some PIdle -> Shape r t ph (strip k).
Proof.
  induction k as [|e k IH]; intros ph H; simpl in H.
  - inv H. simpl. constructor.
  - destruct (pstep r t ph e) as [ph1|] eqn:E; [|discriminate].
    specialize (IH _ H). pose proof (pstep_nums _ _ _ _ _ E) as [Hr Ht].
    rewrite pstep_core in E by (split; assumption).
    rewrite strip_cons.
    destruct ph, e; simpl in E, Hr, Ht; try discriminate; subst; simpl is_stdout; cbv iota.
    all: try (destruct had; try discriminate).
    all: crush_eqs; simpl in IH |- *; auto.
    + (* PIdle, EndTrace *) contradiction.
    + (* PIdle, StartTraceCall *)
      destruct (IH fid info) as (a & b & -> & Hc & Hb).
      change (StartTraceCall r t c fid info :: a ++ b) with ((StartTraceCall r t c fid info :: a) ++ b).
      constructor; assumption.
    + (* PCall, EndTraceCall *)
      intros fid info. exists [EndTraceCall r t c0], (strip k). repeat split; auto. constructor.
    + (* PCall, StartCmdloop *)
      intros fid info. destruct IH as (a & b & Hs & [Hp | [Hf _]] & Hb); [|discriminate].
      exists (StartCmdloop r t c0 :: a ++ [EndCmdloop r t c0; EndTraceCall r t c0]), b.
      split; [|split; auto].
      * rewrite Hs. simpl. rewrite <- app_assoc. reflexivity.
      * constructor. assumption.
    + (* PLoop true, EndCmdloop *)
      destruct IH as (b & Hs & Hb). exists [], b. rewrite Hs. repeat split; auto.
    + (* PLoop true, StartPrompt *)
      destruct IH as (cmd & a & b & Hs & Hp & Hb).
      exists (StartPrompt r t c0 p txt :: EndPrompt r t c0 p cmd :: a), b.
      split; [rewrite Hs; reflexivity|]. split; auto. left.
      destruct Hp as [Hp | ->]; constructor; assumption.
    + (* PLoop false, StartPrompt *)
      destruct IH as (cmd & a & b & Hs & Hp & Hb).
      exists (StartPrompt r t c0 p txt :: EndPrompt r t c0 p cmd :: a), b.
      split; [rewrite Hs; reflexivity|]. split; auto. left.
      destruct Hp as [Hp | ->]; constructor; assumption.
    + (* PPrompt, EndPrompt *)
      destruct IH as (a & b & Hs & Hp & Hb). exists cmd, a, b. rewrite Hs. split; auto. split; auto.
      destruct Hp as [Hp | [_ ->]]; auto.
    + (* PAfter, EndTraceCall *)
      exists (strip k). auto.
Qed.

Lemma run_done_split r t : forall l ph,
  prun r t ph l = Some PDone -> ph <> PDone ->
  exists body, l = body ++ [EndTrace r t] /\ prun r t ph body = Some PIdle.
Proof.
  induction l as [|e l IH]; intros ph H Hne; simpl in H.
  - inv H. contradiction.
  - destruct (pstep r t ph e) as [ph1|] eqn:E; [|discriminate].
    assert (Hd : ph1 = PDone \/ ph1 <> PDone) by (destruct ph1; auto; right; discriminate).
    destruct Hd as [-> | Hd].
    + apply prun_done in H. destruct H as [-> _].
      pose proof (pstep_nums _ _ _ _ _ E) as [Hr Ht].
      rewrite pstep_core in E by (split; assumption).
      exists []. destruct ph as [| |?|? []|? ?|?|], e; simpl in E, Hr, Ht; try discriminate; subst; crush_eqs; try discriminate.
      split; reflexivity.
    + destruct (IH _ H Hd) as (body & -> & Hb). exists (e :: body). split; auto.
      simpl. rewrite E. assumption.
Qed.

Theorem prun_Trace r t l : prun r t PNone l = Some PDone <-> Trace r t l.
Proof.
  split.
  - intros H. destruct l as [|e l]; simpl in H; [discriminate|].
    destruct (pstep r t PNone e) as [ph1|] eqn:E; [|discriminate].
    pose proof (pstep_nums _ _ _ _ _ E) as [Hr Ht].
    rewrite pstep_core in E by (split; assumption).
    destruct e; simpl in E, Hr, Ht; try discriminate. inv E.
    destruct (run_done_split _ _ _ _ H) as (body & -> & Hb); [discriminate|].
    exists pl, body. split; auto. split.
    + eapply prun_nums; eauto.
    + apply (run_shape _ _ _ _ Hb).
  - intros (pl & body & -> & Hn & Hc).
    step_ok. rewrite prun_app.
    rewrite (strip_run r t body PIdle); simpl; auto.
    + step_ok. reflexivity.
    + pose proof (Calls_run _ _ _ Hc []) as H. rewrite app_nil_r in H. exact H.
Qed.

Lemma prun_none_nil r t l : prun r t PNone l = Some PNone <-> l = [].
Proof.
  split.
  - intros H. apply prun_to_none in H. tauto.
  - intros ->. reflexivity.
Qed.

(** ------------------------------------------------------------------ numbers *)

Fixpoint sorted_from (o : option Z) (l : list Z) : Prop :=
  match l with
  | [] => True
  | x :: r => lt_opt o x = true /\ sorted_from (Some x) r
  end.

Lemma sorted_from_spec : forall l o,
  sorted_from o l <->
  (match o with Some x => Forall (Z.lt x) l | None => True end) /\ StronglySorted Z.lt l.
Proof.
  induction l as [|y l IH]; intros o; simpl.
  - split; [intros _; split; [destruct o; constructor | constructor] | auto].
  - rewrite IH. split.
    + intros (Hlt & Hf & Hs). split.
      * destruct o as [x|]; auto. simpl in Hlt. apply Z.ltb_lt in Hlt. constructor; auto.
        eapply Forall_impl; [|exact Hf]. simpl. intros; lia.
      * constructor; auto.
    + intros (Ho & Hs). inv Hs. split; [|split; auto].
      destruct o as [x|]; simpl; auto. inv Ho. apply Z.ltb_lt. assumption.
Qed.

Lemma sorted_from_none l : sorted_from None l <-> increasing l.
Proof. rewrite sorted_from_spec. unfold increasing. tauto. Qed.

Lemma call_starts_cons e l : call_starts (e :: l) =
  match e with StartTraceCall _ _ c _ _ => c :: call_starts l | _ => call_starts l end.
Proof. unfold call_starts. simpl. destruct e; reflexivity. Qed.

Lemma prompt_starts_cons e l : prompt_starts (e :: l) =
  match e with StartPrompt _ _ _ p _ => p :: prompt_starts l | _ => prompt_starts l end.
Proof. unfold prompt_starts. simpl. destruct e; reflexivity. Qed.

Lemma trace_starts_cons e l : trace_starts (e :: l) =
  match e with StartTrace _ t _ => t :: trace_starts l | _ => trace_starts l end.
Proof. unfold trace_starts. simpl. destruct e; reflexivity. Qed.

Lemma trun_ph r t : forall l s s', trun r t s l = Some s' -> prun r t (t_ph s) l = Some (t_ph s').
Proof.
  induction l as [|e l IH]; intros s s' H; simpl in H |- *.
  - inv H. reflexivity.
  - unfold tstep in H. destruct (pstep r t (t_ph s) e) as [ph1|]; [|discriminate].
    destruct e; try (apply IH in H; exact H).
    + destruct (lt_opt (t_lc s) c); [|discriminate]. apply IH in H. exact H.
    + destruct (lt_opt (t_lp s) p); [|discriminate]. apply IH in H. exact H.
Qed.

Lemma trun_spec r t : forall l s,
  (exists s', trun r t s l = Some s') <->
  ((exists ph', prun r t (t_ph s) l = Some ph') /\
   sorted_from (t_lc s) (call_starts l) /\ sorted_from (t_lp s) (prompt_starts l)).
Proof.
  induction l as [|e l IH]; intros s.
  - simpl. split; [intros _; repeat split; eauto | eauto].
  - rewrite call_starts_cons, prompt_starts_cons. cbn [trun prun]. unfold tstep.
    destruct (pstep r t (t_ph s) e) as [ph1|].
    2:{ split; [intros [? H]; discriminate | intros [[? H] _]; discriminate]. }
    destruct e; try (rewrite IH; simpl; tauto).
    + destruct (lt_opt (t_lc s) c) eqn:El.
      * rewrite IH. simpl. tauto.
      * split; [intros [? H]; discriminate | intros (_ & [H _] & _); simpl in H; congruence].
    + destruct (lt_opt (t_lp s) p) eqn:El.
      * rewrite IH. simpl. tauto.
      * split; [intros [? H]; discriminate | intros (_ & _ & [H _]); simpl in H; congruence].
Qed.

Lemma nodupb_spec l : nodupb l = true <-> NoDup l.
Proof.
  induction l as [|x l IH]; simpl.
  - split; [constructor | auto].
  - rewrite andb_true_iff, negb_true_iff, IH. split.
    + intros [Hx Hl]. constructor; auto. intros Hin.
      assert (existsb (Z.eqb x) l = true) by (apply existsb_exists; exists x; split; auto; apply Z.eqb_refl).
      congruence.
    + intros H. inv H. split; auto.
      destruct (existsb (Z.eqb x) l) eqn:E; auto.
      apply existsb_exists in E. destruct E as (y & Hy & Hxy). apply Z.eqb_eq in Hxy. subst. contradiction.
Qed.

(** ------------------------------------------------------------------ all traces *)

Lemma lookup_update_same : forall g t s, lookup (update g t s) t = s.
Proof.
  induction g as [|[t' s'] g IH]; intros t s; simpl.
  - rewrite Z.eqb_refl. reflexivity.
  - destruct (t =? t') eqn:E; simpl; rewrite ?Z.eqb_refl, ?E; auto.
Qed.

Lemma lookup_update_other : forall g t t' s, t' <> t -> lookup (update g t s) t' = lookup g t'.
Proof.
  induction g as [|[t1 s1] g IH]; intros t t' s Hne; simpl.
  - apply Z.eqb_neq in Hne. rewrite Hne. reflexivity.
  - destruct (t =? t1) eqn:E; simpl.
    + apply Z.eqb_eq in E. subst. apply Z.eqb_neq in Hne. rewrite Hne. reflexivity.
    + destruct (t' =? t1); auto.
Qed.

Lemma proj_cons t e es : proj t (e :: es) = if ev_trace e =? t then e :: proj t es else proj t es.
Proof. reflexivity. Qed.

Lemma gstep_inv r g e g1 : gstep r g e = Some g1 ->
  exists s1, tstep r (ev_trace e) (lookup g (ev_trace e)) e = Some s1 /\ g1 = update g (ev_trace e) s1.
Proof.
  unfold gstep. destruct (tstep r (ev_trace e) (lookup g (ev_trace e)) e) as [s1|]; [|discriminate].
  intros H. inv H. eauto.
Qed.

Lemma grun_proj r : forall es g g', grun r g es = Some g' ->
  forall t, trun r t (lookup g t) (proj t es) = Some (lookup g' t).
Proof.
  induction es as [|e es IH]; intros g g' H t; simpl in H.
  - inv H. reflexivity.
  - destruct (gstep r g e) as [g1|] eqn:E; [|discriminate].
    destruct (gstep_inv _ _ _ _ E) as (s1 & Hs & ->).
    rewrite proj_cons. destruct (ev_trace e =? t) eqn:Et.
    + apply Z.eqb_eq in Et. subst t. simpl. rewrite Hs.
      rewrite <- (lookup_update_same g (ev_trace e) s1) at 1. apply IH. assumption.
    + apply Z.eqb_neq in Et. rewrite <- (lookup_update_other g (ev_trace e) t s1) by auto.
      apply IH. assumption.
Qed.

Lemma grun_complete r : forall es g,
  (forall t, exists s', trun r t (lookup g t) (proj t es) = Some s') ->
  exists g', grun r g es = Some g'.
Proof.
  induction es as [|e es IH]; intros g H; simpl.
  - eauto.
  - destruct (H (ev_trace e)) as (s' & Hs). rewrite proj_cons, Z.eqb_refl in Hs. simpl in Hs.
    destruct (tstep r (ev_trace e) (lookup g (ev_trace e)) e) as [s1|] eqn:E; [|discriminate].
    unfold gstep. rewrite E. apply IH. intros t.
    destruct (Z.eq_dec t (ev_trace e)) as [-> | Hne].
    + rewrite lookup_update_same. eauto.
    + rewrite lookup_update_other by auto. specialize (H t). rewrite proj_cons in H.
      destruct (ev_trace e =? t) eqn:Et; [apply Z.eqb_eq in Et; congruence | exact H].
Qed.

Lemma lookup_notin : forall g t, ~ In t (map fst g) -> lookup g t = t0.
Proof.
  induction g as [|[t' s] g IH]; intros t H; simpl in *; auto.
  destruct (t =? t') eqn:E; [apply Z.eqb_eq in E; subst; tauto | apply IH; tauto].
Qed.

Lemma all_done_spec g : all_done g = true <-> forall t, final_ph (t_ph (lookup g t)) = true.
Proof.
  unfold all_done. rewrite forallb_forall. split.
  - intros H t. destruct (in_dec Z.eq_dec t (map fst g)) as [Hin | Hn].
    + apply H. assumption.
    + rewrite lookup_notin by assumption. reflexivity.
  - intros H t _. apply H.
Qed.

Lemma tstep_ph r t s e s1 : tstep r t s e = Some s1 -> pstep r t (t_ph s) e = Some (t_ph s1).
Proof.
  unfold tstep. destruct (pstep r t (t_ph s) e) as [ph1|]; [|discriminate].
  destruct e; intros H; try (inv H; reflexivity).
  - destruct (lt_opt (t_lc s) c); inv H. reflexivity.
  - destruct (lt_opt (t_lp s) p); inv H. reflexivity.
Qed.

Lemma grun_runs r : forall es g g', grun r g es = Some g' -> Forall (fun e => ev_run e = r) es.
Proof.
  induction es as [|e es IH]; intros g g' H; simpl in H; constructor.
  - destruct (gstep r g e) as [g1|] eqn:E; [|discriminate].
    destruct (gstep_inv _ _ _ _ E) as (s1 & Hs & _). apply tstep_ph in Hs. apply pstep_nums in Hs. apply Hs.
  - destruct (gstep r g e) as [g1|] eqn:E; [|discriminate]. eapply IH; eauto.
Qed.

(** trace numbers are unique: a start is accepted only for a trace that has no state yet *)
Lemma grun_trace_starts r : forall es g g', grun r g es = Some g' ->
  NoDup (trace_starts es) /\ forall t, In t (trace_starts es) -> t_ph (lookup g t) = PNone.
Proof.
  induction es as [|e es IH]; intros g g' H; simpl in H.
  - split; [constructor | intros t []].
  - destruct (gstep r g e) as [g1|] eqn:E; [|discriminate].
    destruct (gstep_inv _ _ _ _ E) as (s1 & Hs & ->).
    destruct (IH _ _ H) as [Hnd Hin]. pose proof (tstep_ph _ _ _ _ _ Hs) as Hp.
    pose proof (pstep_not_none _ _ _ _ _ Hp) as Hnn.
    assert (Hother : forall t, In t (trace_starts es) -> t <> ev_trace e).
    { intros t Ht ->. apply Hin in Ht. rewrite lookup_update_same in Ht. contradiction. }
    rewrite trace_starts_cons.
    assert (Hrest : forall t, In t (trace_starts es) -> t_ph (lookup g t) = PNone).
    { intros t Ht. rewrite <- (lookup_update_other g (ev_trace e) t s1); auto. }
    destruct e; try (split; assumption).
    simpl in *. split.
    + constructor; auto. intros Ht. apply (Hother _ Ht). reflexivity.
    + intros t' [<- | Ht']; auto.
      pose proof (pstep_nums _ _ _ _ _ Hp) as Hn. rewrite pstep_core in Hp by assumption.
      destruct (t_ph (lookup g t)) as [| |?|? []|? ?|?|]; simpl in Hp; try discriminate. reflexivity.
Qed.

(** ------------------------------------------------------------------ main theorems *)

Lemma wf_unfold r es :
  wf r es = true <->
  (exists g, grun r [] es = Some g /\ all_done g = true) /\
  nodupb (call_starts es) = true /\ nodupb (prompt_starts es) = true.
Proof.
  unfold wf. rewrite !andb_true_iff. destruct (grun r [] es) as [g|].
  - split; [intros [[H1 H2] H3]; eauto 6 | intros [(g' & Hg & Hd) [H2 H3]]; inv Hg; auto].
  - split; [intros [[H _] _]; discriminate | intros [(g' & Hg & _) _]; discriminate].
Qed.

Lemma wf_prefix_unfold r es :
  wf_prefix r es = true <->
  (exists g, grun r [] es = Some g) /\
  nodupb (call_starts es) = true /\ nodupb (prompt_starts es) = true.
Proof.
  unfold wf_prefix. rewrite !andb_true_iff. destruct (grun r [] es) as [g|].
  - split; [intros [[_ H2] H3]; eauto | intros [_ [H2 H3]]; auto].
  - split; [intros [[H _] _]; discriminate | intros [(g' & Hg) _]; discriminate].
Qed.

Theorem recogniser_correct r es : wf r es = true <-> WF r es.
Proof.
  rewrite wf_unfold, !nodupb_spec. split.
  - intros [(g & Hg & Hd) [Hc Hp]].
    rewrite all_done_spec in Hd.
    pose proof (grun_proj _ _ _ _ Hg) as Hproj. simpl in Hproj.
    split; [eapply grun_runs; eauto|].
    split; [|split; [apply (grun_trace_starts _ _ _ _ Hg)|split; [assumption|split; [assumption|]]]].
    + intros t. specialize (Hproj t). specialize (Hd t). apply trun_ph in Hproj. simpl in Hproj.
      destruct (t_ph (lookup g t)); try discriminate.
      * left. apply prun_none_nil in Hproj. assumption.
      * right. apply prun_Trace. assumption.
    + intros t. specialize (Hproj t).
      assert (He : exists s', trun r t t0 (proj t es) = Some s') by eauto.
      apply trun_spec in He. simpl in He. rewrite !sorted_from_none in He. tauto.
  - intros (Hr & Htr & _ & Hc & Hp & Hinc).
    assert (Hall : forall t, exists s', trun r t (lookup [] t) (proj t es) = Some s').
    { intros t. apply trun_spec. simpl. rewrite !sorted_from_none. split; [|apply Hinc].
      destruct (Htr t) as [-> | Ht]; [eexists; reflexivity|].
      apply prun_Trace in Ht. eauto. }
    destruct (grun_complete _ _ _ Hall) as (g & Hg).
    split; [|auto]. exists g. split; auto. apply all_done_spec. intros t.
    pose proof (grun_proj _ _ _ _ Hg t) as Hproj. simpl in Hproj. apply trun_ph in Hproj. simpl in Hproj.
    destruct (Htr t) as [E | Ht].
    + rewrite E in Hproj. simpl in Hproj. injection Hproj as <-. reflexivity.
    + apply prun_Trace in Ht. rewrite Ht in Hproj. injection Hproj as <-. reflexivity.
Qed.

(** ---- prefixes ---- *)

Lemma grun_app r : forall a g b,
  grun r g (a ++ b) = match grun r g a with Some g' => grun r g' b | None => None end.
Proof.
  induction a as [|e a IH]; intros g b; simpl; auto.
  destruct (gstep r g e); auto.
Qed.

Lemma NoDup_app_l {A} (a b : list A) : NoDup (a ++ b) -> NoDup a.
Proof.
  induction a as [|x a IH]; simpl; intros H; [constructor|].
  inv H. constructor; auto. intros Hin. apply H2. apply in_or_app. auto.
Qed.

Lemma call_starts_app a b : call_starts (a ++ b) = call_starts a ++ call_starts b.
Proof. unfold call_starts. apply flat_map_app. Qed.
Lemma prompt_starts_app a b : prompt_starts (a ++ b) = prompt_starts a ++ prompt_starts b.
Proof. unfold prompt_starts. apply flat_map_app. Qed.
Lemma trace_starts_app a b : trace_starts (a ++ b) = trace_starts a ++ trace_starts b.
Proof. unfold trace_starts. apply flat_map_app. Qed.

Lemma wf_prefix_app r a b : wf_prefix r (a ++ b) = true -> wf_prefix r a = true.
Proof.
  rewrite !wf_prefix_unfold, !nodupb_spec, call_starts_app, prompt_starts_app, grun_app.
  intros [(g & Hg) [Hc Hp]]. split; [|split; eapply NoDup_app_l; eauto].
  destruct (grun r [] a) as [g'|]; [eauto | discriminate].
Qed.

Lemma wf_wf_prefix r es : wf r es = true -> wf_prefix r es = true.
Proof.
  rewrite wf_unfold, wf_prefix_unfold. intros [(g & Hg & _) H]. eauto.
Qed.

Theorem prefix_closed r es : WF r es -> forall n, wf_prefix r (firstn n es) = true.
Proof.
  intros H n. apply recogniser_correct, wf_wf_prefix in H.
  rewrite <- (firstn_skipn n es) in H. eapply wf_prefix_app; eauto.
Qed.

Theorem prefix_sound r es : WFP r es -> wf_prefix r es = true.
Proof.
  intros [rest H]. apply recogniser_correct, wf_wf_prefix in H. eapply wf_prefix_app; eauto.
Qed.
