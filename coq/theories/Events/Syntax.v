(** Abstract syntax of the fragments of /repo that emit the event stream of the subprocess (C09).
    Hand-written; the TERMS of these types are regenerated from the source at every check by
    translate/emitter_skeleton.py into Gen/EmitterSkel.v, and Events/Tie.v interprets them.

    Sources: nextline/spawned/plugin/plugins/repeat.py (Repeater), local_.py (Factory._context,
    TraceCallHandler), concurrency.py (TaskAndThreadKeeper.filtered/_on_start/_on_end,
    TaskOrThreadToTraceMapper), pdb_/factory.py (CmdloopHook, PromptFunc), pdb_/custom.py
    (CustomizedPdb.cmdloop), nextline/count.py, plugins/__init__.py (registration order).
    Statements the stream does not depend on (logging whose arguments call nothing, typing, docstrings,
    timestamps) have no constructor: the translator drops them. *)
From Coq Require Import List String ZArith Bool.
Import ListNotations.

(** the three counters of nextline/count.py that number the stream *)
Inductive ctype := CTrace | CCall | CPrompt.

(** where the counter OBJECT is created: once per run (shared by all traces) or once per trace *)
Inductive scope := PerRun | PerTrace.

Inductive expr :=
| EVar (x : string)                     (* a local variable or a parameter *)
| ENone                                 (* None *)
| EBool (b : bool)                      (* True / False *)
| EStr (s : string)                     (* a string literal *)
| ERunNo                                (* self._run_no   (Repeater.init: run_arg.run_no) *)
| EAttr (a : string)                    (* self.<a>: an instance attribute of a plugin object (shared by all traces) *)
| EHook (h : string)                    (* hook.hook.<h>(): a first-result hook implemented in the tracked files *)
| EHookExt (h : string)                 (* hook.hook.<h>(..): a first-result hook implemented elsewhere (thread/task numbers, the command) *)
| ECurrent                              (* current_task_or_thread() *)
| EField (e : expr) (f : string)        (* <e>.<f> *)
| EMk (cls : string) (fs : list (string * expr))   (* <cls>(f=e, ...) *)
| ETuple (es : list expr)               (* (e, ...) *)
| EMapGet (m : string) (k : expr)       (* self.<m>.get(<k>) *)
| EMapIdx (m : string) (k : expr)       (* self.<m>[<k>] *)
| EIn (k : expr) (m : string)           (* <k> in self.<m> *)
| ENot (e : expr)                       (* not <e> *)
| EIsNone (e : expr)                    (* <e> is None *)
| ELet (x : string) (e1 e2 : expr)      (* x = e1; ... return e2   (body of a first-result hook) *)
| EIfNone (x : string) (e1 e2 : expr).  (* if (x := e1) is None: return None; return e2 *)

Inductive stmt :=
| SSkip
| SSeq (a b : stmt)
| SLet (x : string) (e : expr)          (* x = e *)
| SNext (x : string) (c : ctype)        (* x = <counter c>() *)
| SPut (e : expr)                       (* self._queue_out.put(e) *)
| STry (body fin : stmt)                (* try: body finally: fin *)
| STryExcept (body : stmt) (exc : string)   (* try: body except <exc>: <logging only> *)
| SYield (x : option string)            (* yield / x = yield   (generator-based context manager) *)
| SWithHook (h : string) (args : list (string * expr)) (ctx : option string) (body : stmt)
                                        (* with [(ctx := ] hook.with_.<h>(args) [)]: body *)
| SWithFun (f : string) (body : stmt)   (* with <f>(): body,  f returns a context manager (SReturnWith) *)
| SWithOpaque (body : stmt)             (* with catch({KeyboardInterrupt: ..}): body   (only filters exceptions) *)
| SReturnWith (h : string)              (* return hook.with_.<h>() *)
| SCallHook (h : string) (args : list (string * expr))   (* hook.hook.<h>(args): every implementation *)
| SCall (f : string) (args : list expr) (* self.<f>(args) *)
| SIf (c : expr) (a b : stmt)
| SRaise (exc : string)
| SSend (ctx : string) (e : expr)       (* <ctx>.gen.send(e) *)
| SBody                                 (* where the environment runs: super().cmdloop(), the command is read *)
| SMapSet (m : string) (k v : expr)     (* self.<m>[k] = v *)
| SMapDel (m : string) (k : expr)       (* del self.<m>[k] *)
| SSetAdd (m : string) (k : expr)       (* self.<m>.add(k) *)
| SSetRemove (m : string) (k : expr)    (* self.<m>.remove(k) *)
| SSetAttr (a : string) (e : expr)      (* self.<a> = e *)
| SAssertEq (a b : expr)                (* assert a == b      (raises AssertionError otherwise) *)
| SAssertTrue (e : expr)                (* assert e *)
| SExt (tag : string).                  (* a call into machinery that is not translated (named by the translator:
                                           the done-callback registration of C18, the thread/task numbering of C06) *)

(** a translated function: its parameters (without self) and its body *)
Record func := mkF { f_params : list string; f_body : stmt }.
