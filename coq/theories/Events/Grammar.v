(** C09 -- the event stream of one run of the subprocess: event type, the
    grammar as a declarative specification [WF], and an executable recogniser
    [wf] (single pass, one stack automaton per trace + number bookkeeping).
    Definitions only; the proofs are in Events/GrammarProofs.v.

    The nine kinds mirror nextline/events.py (OnStartTrace ... OnWriteStdout;
    OnStartRun/OnEndRun are produced by the main process, not by the
    subprocess).  Numbers are kept, the payload is abstracted to the [Z]
    fields that the main-process registrars copy or compare (C11):
      pl    thread_no/task_no of OnStartTrace
      fid   frame_object_id of OnStartTraceCall
      info  (file_name, line_no, event) of OnStartTraceCall
      txt   prompt_text of OnStartPrompt / text of OnWriteStdout
      cmd   command of OnEndPrompt *)
From Coq Require Export List ZArith Bool Arith Lia Sorted.
Export ListNotations.
Open Scope Z_scope.

Inductive event :=
| StartTrace (r t : Z) (pl : Z)
| EndTrace (r t : Z)
| StartTraceCall (r t c : Z) (fid info : Z)
| EndTraceCall (r t c : Z)
| StartCmdloop (r t c : Z)
| EndCmdloop (r t c : Z)
| StartPrompt (r t c p : Z) (txt : Z)
| EndPrompt (r t c p : Z) (cmd : Z)
| WriteStdout (r t : Z) (txt : Z).

Definition ev_run (e : event) : Z :=
  match e with
  | StartTrace r _ _ | EndTrace r _ | StartTraceCall r _ _ _ _ | EndTraceCall r _ _
  | StartCmdloop r _ _ | EndCmdloop r _ _ | StartPrompt r _ _ _ _ | EndPrompt r _ _ _ _
  | WriteStdout r _ _ => r
  end.

Definition ev_trace (e : event) : Z :=
  match e with
  | StartTrace _ t _ | EndTrace _ t | StartTraceCall _ t _ _ _ | EndTraceCall _ t _
  | StartCmdloop _ t _ | EndCmdloop _ t _ | StartPrompt _ t _ _ _ | EndPrompt _ t _ _ _
  | WriteStdout _ t _ => t
  end.

Definition is_stdout (e : event) : bool :=
  match e with WriteStdout _ _ _ => true | _ => false end.

(** the events of trace [t], in stream order *)
Definition proj (t : Z) (es : list event) : list event :=
  filter (fun e => ev_trace e =? t) es.

(** the stream without its OnWriteStdout events *)
Definition strip (es : list event) : list event :=
  filter (fun e => negb (is_stdout e)) es.

(** numbers handed out, in stream order *)
Definition trace_starts (es : list event) : list Z :=
  flat_map (fun e => match e with StartTrace _ t _ => [t] | _ => [] end) es.
Definition call_starts (es : list event) : list Z :=
  flat_map (fun e => match e with StartTraceCall _ _ c _ _ => [c] | _ => [] end) es.
Definition prompt_starts (es : list event) : list Z :=
  flat_map (fun e => match e with StartPrompt _ _ _ p _ => [p] | _ => [] end) es.

(** ------------------------------------------------------------------
    The grammar (declarative).  All events of one derivation carry the
    same run number [r] and trace number [t]; a start and its end carry
    the same trace-call / prompt number. *)

(** one or more prompt start/end pairs of trace call [c] *)
Inductive Prompts (r t c : Z) : list event -> Prop :=
| Prompts_one p txt cmd :
    Prompts r t c [StartPrompt r t c p txt; EndPrompt r t c p cmd]
| Prompts_cons p txt cmd l :
    Prompts r t c l ->
    Prompts r t c (StartPrompt r t c p txt :: EndPrompt r t c p cmd :: l).

(** one trace call, optionally containing ONE command loop *)
Inductive Call (r t : Z) : list event -> Prop :=
| Call_plain c fid info :
    Call r t [StartTraceCall r t c fid info; EndTraceCall r t c]
| Call_loop c fid info l :
    Prompts r t c l ->
    Call r t (StartTraceCall r t c fid info :: StartCmdloop r t c :: l
              ++ [EndCmdloop r t c; EndTraceCall r t c]).

Inductive Calls (r t : Z) : list event -> Prop :=
| Calls_nil : Calls r t []
| Calls_app l l' : Call r t l -> Calls r t l' -> Calls r t (l ++ l').

(** the events of one trace: its start first, its end last, in between
    (OnWriteStdout events anywhere in between, put aside) a sequence of
    trace calls *)
Definition Trace (r t : Z) (l : list event) : Prop :=
  exists pl body,
    l = StartTrace r t pl :: body ++ [EndTrace r t] /\
    Forall (fun e => ev_run e = r /\ ev_trace e = t) body /\
    Calls r t (strip body).

Definition increasing (l : list Z) : Prop := StronglySorted Z.lt l.

(** THE property: the stream [es] of run [r] is well formed *)
Definition WF (r : Z) (es : list event) : Prop :=
  (* every event carries the run's number *)
  Forall (fun e => ev_run e = r) es /\
  (* per trace: nothing, or start, calls, end (so: every start has exactly one
     matching end with the same numbers, nothing before the start or after the end) *)
  (forall t, proj t es = [] \/ Trace r t (proj t es)) /\
  (* trace, trace-call and prompt numbers are unique within the run *)
  NoDup (trace_starts es) /\ NoDup (call_starts es) /\ NoDup (prompt_starts es) /\
  (* and increase within each trace (the trace number is constant within a trace) *)
  (forall t, increasing (call_starts (proj t es)) /\ increasing (prompt_starts (proj t es))).

(** a stream cut anywhere (the subprocess was killed) *)
Definition WFP (r : Z) (es : list event) : Prop := exists rest, WF r (es ++ rest).

(** ------------------------------------------------------------------
    The recogniser (executable). *)

(** the stack of one trace: what is open *)
Inductive phase :=
| PNone                       (* not started *)
| PIdle                       (* started, no trace call open *)
| PCall (c : Z)               (* in trace call c, no command loop yet *)
| PLoop (c : Z) (had : bool)  (* in the command loop of c; had = a prompt was completed *)
| PPrompt (c p : Z)           (* prompt p open *)
| PAfter (c : Z)              (* command loop of c closed, trace call still open *)
| PDone.                      (* ended *)

Definition pcore (ph : phase) (e : event) : option phase :=
  match ph, e with
  | PNone, StartTrace _ _ _ => Some PIdle
  | PIdle, EndTrace _ _ => Some PDone
  | PIdle, StartTraceCall _ _ c _ _ => Some (PCall c)
  | PCall c, EndTraceCall _ _ c' => if c =? c' then Some PIdle else None
  | PCall c, StartCmdloop _ _ c' => if c =? c' then Some (PLoop c false) else None
  | PLoop c _, StartPrompt _ _ c' p _ => if c =? c' then Some (PPrompt c p) else None
  | PPrompt c p, EndPrompt _ _ c' p' _ =>
      if (c =? c') && (p =? p') then Some (PLoop c true) else None
  | PLoop c true, EndCmdloop _ _ c' => if c =? c' then Some (PAfter c) else None
  | PAfter c, EndTraceCall _ _ c' => if c =? c' then Some PIdle else None
  | PIdle, WriteStdout _ _ _ => Some PIdle
  | PCall c, WriteStdout _ _ _ => Some (PCall c)
  | PLoop c b, WriteStdout _ _ _ => Some (PLoop c b)
  | PPrompt c p, WriteStdout _ _ _ => Some (PPrompt c p)
  | PAfter c, WriteStdout _ _ _ => Some (PAfter c)
  | _, _ => None
  end.

Definition pstep (r t : Z) (ph : phase) (e : event) : option phase :=
  if (ev_run e =? r) && (ev_trace e =? t) then pcore ph e else None.

Fixpoint prun (r t : Z) (ph : phase) (l : list event) : option phase :=
  match l with
  | [] => Some ph
  | e :: l' => match pstep r t ph e with Some ph' => prun r t ph' l' | None => None end
  end.

(** per-trace state: the stack + the last trace-call / prompt number seen *)
Record tstate := mkT { t_ph : phase; t_lc : option Z; t_lp : option Z }.
Definition t0 : tstate := mkT PNone None None.

Definition lt_opt (o : option Z) (x : Z) : bool :=
  match o with None => true | Some y => y <? x end.

Definition tstep (r t : Z) (s : tstate) (e : event) : option tstate :=
  match pstep r t (t_ph s) e with
  | None => None
  | Some ph' =>
    match e with
    | StartTraceCall _ _ c _ _ =>
        if lt_opt (t_lc s) c then Some (mkT ph' (Some c) (t_lp s)) else None
    | StartPrompt _ _ _ p _ =>
        if lt_opt (t_lp s) p then Some (mkT ph' (t_lc s) (Some p)) else None
    | _ => Some (mkT ph' (t_lc s) (t_lp s))
    end
  end.

Fixpoint trun (r t : Z) (s : tstate) (l : list event) : option tstate :=
  match l with
  | [] => Some s
  | e :: l' => match tstep r t s e with Some s' => trun r t s' l' | None => None end
  end.

(** all traces: association list in order of first appearance *)
Notation gstate := (list (Z * tstate)).

Fixpoint lookup (g : gstate) (t : Z) : tstate :=
  match g with
  | [] => t0
  | (t', s) :: g' => if t =? t' then s else lookup g' t
  end.

Fixpoint update (g : gstate) (t : Z) (s : tstate) : gstate :=
  match g with
  | [] => [(t, s)]
  | (t', s') :: g' => if t =? t' then (t, s) :: g' else (t', s') :: update g' t s
  end.

Definition gstep (r : Z) (g : gstate) (e : event) : option gstate :=
  let t := ev_trace e in
  match tstep r t (lookup g t) e with
  | Some s => Some (update g t s)
  | None => None
  end.

Fixpoint grun (r : Z) (g : gstate) (es : list event) : option gstate :=
  match es with
  | [] => Some g
  | e :: es' => match gstep r g e with Some g' => grun r g' es' | None => None end
  end.

Definition final_ph (ph : phase) : bool :=
  match ph with PDone | PNone => true | _ => false end.

Definition all_done (g : gstate) : bool :=
  forallb (fun t => final_ph (t_ph (lookup g t))) (map fst g).

Fixpoint nodupb (l : list Z) : bool :=
  match l with
  | [] => true
  | x :: r => negb (existsb (Z.eqb x) r) && nodupb r
  end.

(** complete stream of run [r] *)
Definition wf (r : Z) (es : list event) : bool :=
  match grun r [] es with Some g => all_done g | None => false end
  && nodupb (call_starts es) && nodupb (prompt_starts es).

(** truncated stream of run [r] *)
Definition wf_prefix (r : Z) (es : list event) : bool :=
  match grun r [] es with Some _ => true | None => false end
  && nodupb (call_starts es) && nodupb (prompt_starts es).

(** the state of the recogniser after [es] (for the theorems of C11) *)
Definition gstate_of (r : Z) (es : list event) : gstate :=
  match grun r [] es with Some g => g | None => [] end.

(** ---- for the correspondence check: indices of cases where [f] disagrees ---- *)
Fixpoint bad_from {A} (f : A -> bool) (n : nat) (cases : list (A * bool)) : list nat :=
  match cases with
  | [] => []
  | (i, o) :: r => if Bool.eqb (f i) o then bad_from f (S n) r else n :: bad_from f (S n) r
  end.
