(** C09 -- the prefix recogniser is complete: every stream it accepts can be completed to a
    well-formed stream, by closing what is open (prompt, command loop, trace call, trace) in
    stack order, trace by trace.  A command loop that has not yet asked a prompt gets one
    prompt with a fresh number. *)
From NL Require Import Events.Grammar Events.GrammarProofs.
Open Scope Z_scope.

Definition close_trace (r t : Z) (s : tstate) (pf : Z) : list event :=
  match t_ph s with
  | PNone | PDone => []
  | PIdle => [EndTrace r t]
  | PCall c => [EndTraceCall r t c; EndTrace r t]
  | PLoop c true => [EndCmdloop r t c; EndTraceCall r t c; EndTrace r t]
  | PLoop c false =>
      [StartPrompt r t c pf 0; EndPrompt r t c pf 0; EndCmdloop r t c; EndTraceCall r t c; EndTrace r t]
  | PPrompt c p => [EndPrompt r t c p 0; EndCmdloop r t c; EndTraceCall r t c; EndTrace r t]
  | PAfter c => [EndTraceCall r t c; EndTrace r t]
  end.

Fixpoint close_all (r : Z) (g : gstate) (pf : Z) : list event :=
  match g with
  | [] => []
  | (t, s) :: g' => close_trace r t s pf ++ close_all r g' (pf + 1)
  end.

(** a number above every number of the list *)
Definition fresh (l : list Z) : Z := 1 + fold_right Z.max 0 l.

Definition completion (r : Z) (es : list event) : list event :=
  close_all r (gstate_of r es) (fresh (prompt_starts es)).

Lemma fresh_gt l : forall x, In x l -> x < fresh l.
Proof.
  unfold fresh. intros x H.
  assert (Hle : x <= fold_right Z.max 0 l).
  { induction l as [|y l IH]; [destruct H|]. cbn [fold_right]. destruct H as [-> | H].
    - apply Z.le_max_l.
    - etransitivity; [apply IH; assumption | apply Z.le_max_r]. }
  lia.
Qed.

Lemma close_trace_run r t s pf : lt_opt (t_lp s) pf = true ->
  exists s', trun r t s (close_trace r t s pf) = Some s' /\ final_ph (t_ph s') = true.
Proof.
  destruct s as [ph lc lp]. unfold close_trace. simpl. intros Hlt.
  destruct ph as [| |c|c []|c p|c|]; simpl;
    repeat (progress (unfold tstep, pstep; simpl; rewrite ?Z.eqb_refl, ?Hlt; simpl));
    eexists; split; reflexivity.
Qed.

Lemma close_trace_traces r t s pf : Forall (fun e => ev_trace e = t) (close_trace r t s pf).
Proof.
  unfold close_trace. destruct (t_ph s) as [| |c|c []|c p|c|]; repeat constructor.
Qed.

Lemma close_trace_prompts r t s pf :
  prompt_starts (close_trace r t s pf) = [] \/ prompt_starts (close_trace r t s pf) = [pf].
Proof. unfold close_trace. destruct (t_ph s) as [| |c|c []|c p|c|]; simpl; auto. Qed.

Lemma close_trace_calls r t s pf : call_starts (close_trace r t s pf) = [].
Proof. unfold close_trace. destruct (t_ph s) as [| |c|c []|c p|c|]; reflexivity. Qed.

Lemma proj_same t t' : forall l, Forall (fun e => ev_trace e = t') l -> proj t l = if t' =? t then l else [].
Proof.
  induction l as [|e l IH]; intros H; [destruct (t' =? t); reflexivity|].
  inv H. rewrite proj_cons, IH by assumption. destruct (ev_trace e =? t); reflexivity.
Qed.

Lemma proj_app' t a b : proj t (a ++ b) = proj t a ++ proj t b.
Proof. unfold proj. apply filter_app. Qed.

(** per trace, the completion is the closing sequence of that trace (with some fresh number) *)
Lemma proj_close_all r : forall g pf t, NoDup (map fst g) ->
  (~ In t (map fst g) -> proj t (close_all r g pf) = []) /\
  (In t (map fst g) -> exists k, 0 <= k /\ proj t (close_all r g pf) = close_trace r t (lookup g t) (pf + k)).
Proof.
  induction g as [|[t' s] g IH]; intros pf t Hnd; simpl.
  - split; [reflexivity | intros []].
  - inv Hnd. rewrite proj_app', (proj_same t t' _ (close_trace_traces r t' s pf)).
    destruct (IH (pf + 1) t H2) as [IHn IHi]. split.
    + intros Hn. destruct (t' =? t) eqn:E; [apply Z.eqb_eq in E; subst; tauto|].
      apply IHn. tauto.
    + intros [-> | Hin].
      * rewrite !Z.eqb_refl. rewrite (proj1 (IH (pf + 1) t H2)) by assumption.
        exists 0. rewrite app_nil_r, Z.add_0_r. split; [lia | reflexivity].
      * assert (Hne : t' <> t) by (intros ->; contradiction).
        apply Z.eqb_neq in Hne. rewrite Hne. rewrite Z.eqb_sym, Hne.
        destruct (IHi Hin) as (k & Hk & ->). exists (1 + k). split; [lia|]. rewrite app_nil_l. f_equal. lia.
Qed.

Lemma update_keys_eq : forall g t s,
  map fst (update g t s) = if existsb (Z.eqb t) (map fst g) then map fst g else map fst g ++ [t].
Proof.
  induction g as [|[t' s'] g IH]; intros t s; simpl; auto.
  destruct (t =? t') eqn:E; simpl.
  - apply Z.eqb_eq in E. subst. reflexivity.
  - rewrite IH. destruct (existsb (Z.eqb t) (map fst g)); reflexivity.
Qed.

Lemma update_nodup g t s : NoDup (map fst g) -> NoDup (map fst (update g t s)).
Proof.
  intros H. rewrite update_keys_eq. destruct (existsb (Z.eqb t) (map fst g)) eqn:E; auto.
  clear s. induction H; simpl in *.
  - constructor; [intros [] | constructor].
  - apply orb_false_iff in E. destruct E as [E1 E2]. constructor; auto.
    intros Hin. apply in_app_or in Hin. destruct Hin as [Hin | [<- | []]]; [contradiction|].
    rewrite Z.eqb_refl in E1. discriminate.
Qed.

Lemma grun_nodup r : forall es g g', grun r g es = Some g' -> NoDup (map fst g) -> NoDup (map fst g').
Proof.
  induction es as [|e es IH]; intros g g' H Hnd; simpl in H.
  - inv H. assumption.
  - destruct (gstep r g e) as [g1|] eqn:E; [|discriminate].
    destruct (gstep_inv _ _ _ _ E) as (s1 & _ & ->). eapply IH; eauto. apply update_nodup. assumption.
Qed.

Lemma trun_lp r t : forall l s s', trun r t s l = Some s' ->
  forall x, t_lp s' = Some x -> t_lp s = Some x \/ In x (prompt_starts l).
Proof.
  induction l as [|e l IH]; intros s s' H x Hx; simpl in H.
  - inv H. auto.
  - destruct (tstep r t s e) as [s1|] eqn:E; [|discriminate].
    destruct (IH _ _ H _ Hx) as [H1 | H1].
    + unfold tstep in E. destruct (pstep r t (t_ph s) e) as [ph1|]; [|discriminate].
      rewrite prompt_starts_cons.
      destruct e; try (inv E; simpl in H1; auto; fail).
      * destruct (lt_opt (t_lc s) c); inv E. simpl in H1. auto.
      * destruct (lt_opt (t_lp s) p); inv E. simpl in H1. inv H1. right. left. reflexivity.
    + right. rewrite prompt_starts_cons. destruct e; auto. right. assumption.
Qed.

Lemma prompt_starts_proj t : forall es x, In x (prompt_starts (proj t es)) -> In x (prompt_starts es).
Proof.
  induction es as [|e es IH]; intros x H; [exact H|].
  rewrite proj_cons in H. rewrite prompt_starts_cons.
  destruct (ev_trace e =? t).
  - rewrite prompt_starts_cons in H. destruct e; auto. destruct H as [<- | H]; [left; reflexivity | right; auto].
  - destruct e; auto. right. auto.
Qed.

Lemma close_all_numbers r : forall g pf,
  call_starts (close_all r g pf) = [] /\
  NoDup (prompt_starts (close_all r g pf)) /\
  forall x, In x (prompt_starts (close_all r g pf)) -> pf <= x.
Proof.
  induction g as [|[t s] g IH]; intros pf; simpl.
  - repeat split; [constructor | intros x []].
  - destruct (IH (pf + 1)) as (Hc & Hnd & Hge).
    rewrite call_starts_app, prompt_starts_app, close_trace_calls, Hc.
    split; [reflexivity|].
    destruct (close_trace_prompts r t s pf) as [-> | ->]; simpl.
    + split; auto. intros x Hx. specialize (Hge _ Hx). lia.
    + split.
      * constructor; auto. intros Hin. specialize (Hge _ Hin). lia.
      * intros x [<- | Hx]; [lia | specialize (Hge _ Hx); lia].
Qed.

Lemma NoDup_app_disjoint {A} (a b : list A) :
  NoDup a -> NoDup b -> (forall x, In x a -> ~ In x b) -> NoDup (a ++ b).
Proof.
  induction 1; simpl; intros Hb Hd; auto.
  constructor.
  - intros Hin. apply in_app_or in Hin. destruct Hin as [Hin | Hin]; [contradiction|].
    apply (Hd x); auto.
  - apply IHNoDup; auto.
Qed.

Theorem completion_wf r es : wf_prefix r es = true -> WF r (es ++ completion r es).
Proof.
  intros Hwf. apply recogniser_correct. apply wf_unfold.
  apply wf_prefix_unfold in Hwf. destruct Hwf as [(g & Hg) [Hc Hp]].
  apply nodupb_spec in Hc. apply nodupb_spec in Hp.
  unfold completion, gstate_of. rewrite Hg.
  set (pf := fresh (prompt_starts es)). set (rest := close_all r g pf).
  assert (Hnd : NoDup (map fst g)) by (eapply grun_nodup; eauto; constructor).
  (* every trace: its part of the completion is accepted and leaves it ended *)
  assert (Htr : forall t, exists s', trun r t (lookup g t) (proj t rest) = Some s' /\ final_ph (t_ph s') = true).
  { intros t. destruct (proj_close_all r g pf t Hnd) as [Hn Hi].
    destruct (in_dec Z.eq_dec t (map fst g)) as [Hin | Hnin].
    - destruct (Hi Hin) as (k & Hk & Hpr). unfold rest. rewrite Hpr. apply close_trace_run.
      destruct (t_lp (lookup g t)) as [x|] eqn:El; simpl; auto. apply Z.ltb_lt.
      pose proof (grun_proj _ _ _ _ Hg t) as Hproj. simpl in Hproj.
      destruct (trun_lp _ _ _ _ _ Hproj _ El) as [H0 | Hx]; [discriminate|].
      apply prompt_starts_proj in Hx. pose proof (fresh_gt _ _ Hx). unfold pf. lia.
    - unfold rest. rewrite (Hn Hnin). simpl. rewrite lookup_notin by assumption. eexists. split; reflexivity. }
  destruct (close_all_numbers r g pf) as (Hcs & Hpn & Hpg).
  split; [|split].
  - rewrite grun_app, Hg.
    destruct (grun_complete r rest g) as (g' & Hg'); [intros t; destruct (Htr t) as (s' & Hs & _); eauto|].
    exists g'. split; auto. apply all_done_spec. intros t.
    destruct (Htr t) as (s' & Hs & Hf). pose proof (grun_proj _ _ _ _ Hg' t) as Hproj.
    rewrite Hs in Hproj. inv Hproj. assumption.
  - apply nodupb_spec. rewrite call_starts_app. fold rest in Hcs. rewrite Hcs, app_nil_r. assumption.
  - apply nodupb_spec. rewrite prompt_starts_app. apply NoDup_app_disjoint; auto.
    intros x Hx Hx'. apply Hpg in Hx'. pose proof (fresh_gt _ _ Hx). unfold pf in *. lia.
Qed.

Theorem prefix_complete r es : wf_prefix r es = true -> WFP r es.
Proof. intros H. exists (completion r es). apply completion_wf. assumption. Qed.
