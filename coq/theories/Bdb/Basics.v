(** Basic facts about Bdb/Model.v: what one event can do to the state, and that the
    command policy is consulted only when a prompt is produced. *)
From NL Require Import Bdb.Model.
Open Scope Z_scope.

(** the frames with a WithContext-wrapped trace function never grow except by an accepted call *)
Definition status_ext (s s' : list (Z * tstatus)) : Prop :=
  forall f, lookup f s' = Some Wrapped -> lookup f s = Some Wrapped.

Lemma status_ext_refl : forall s, status_ext s s.
Proof. intros s f H; exact H. Qed.

Lemma apply_cmd_status : forall k st e r, status_ext (s_status st) (s_status (apply_cmd k st e r)).
Proof.
  intros k st e r. unfold apply_cmd. destruct (curframe st e) as [[[cur cl] cp] cg].
  destruct k; simpl; try apply status_ext_refl.
  - destruct r; simpl; try apply status_ext_refl.
    destruct (e_par e) as [p|]; simpl; try apply status_ext_refl.
    destruct (lookup p (s_status st)) eqn:L; simpl; try apply status_ext_refl.
    intros f H. simpl in H. destruct (Z.eqb f p) eqn:E; [discriminate | exact H].
  - destruct cg; simpl; apply status_ext_refl.
Qed.

Lemma apply_cmd_info : forall k st e r, s_info (apply_cmd k st e r) = s_info st.
Proof.
  intros k st e r. unfold apply_cmd. destruct (curframe st e) as [[[cur cl] cp] cg].
  destruct k; simpl; try reflexivity. destruct cg; reflexivity.
Qed.

Lemma apply_cmd_filter : forall k st e r, s_filter (apply_cmd k st e r) = s_filter st.
Proof.
  intros k st e r. unfold apply_cmd. destruct (curframe st e) as [[[cur cl] cp] cg].
  destruct k; simpl; try reflexivity. destruct cg; reflexivity.
Qed.

Lemma apply_cmd_bot : forall k st e r, botframe (s_dbg (apply_cmd k st e r)) = botframe (s_dbg st).
Proof.
  intros k st e r. unfold apply_cmd. destruct (curframe st e) as [[[cur cl] cp] cg].
  destruct k; simpl; try reflexivity. destruct cg; reflexivity.
Qed.

Lemma interaction_spec : forall pol i w r st e st' op,
  interaction pol i w r st e = (st', op) ->
  status_ext (s_status st) (s_status st') /\ s_info st' = s_info st /\ s_filter st' = s_filter st /\
  botframe (s_dbg st') = botframe (s_dbg st) /\
  match op with
  | Some p => w = true /\ p = mkP i (e_kind e) (e_line e) (e_fid e)
  | None => w = false /\ st' = st
  end.
Proof.
  intros pol i w r st e st' op H. unfold interaction in H. destruct w; inversion H; subst; clear H.
  - repeat split.
    + apply (apply_cmd_status _ (mkS (s_dbg st) (s_status st) (s_info st) (s_filter st) (S (s_nprompt st)))).
    + rewrite apply_cmd_info; reflexivity.
    + rewrite apply_cmd_filter; reflexivity.
    + rewrite apply_cmd_bot; reflexivity.
  - repeat split. apply status_ext_refl.
Qed.

(** a prompt is produced exactly when the policy is consulted *)
Lemma interaction_indep : forall pol1 pol2 i w r st e st',
  interaction pol1 i w r st e = (st', None) -> interaction pol2 i w r st e = (st', None).
Proof. intros. unfold interaction in *. destruct w; [discriminate | exact H]. Qed.

Lemma interaction_prompt_indep : forall pol1 pol2 i w r st e st1 p,
  interaction pol1 i w r st e = (st1, Some p) -> exists st2, interaction pol2 i w r st e = (st2, Some p).
Proof. intros. unfold interaction in *. destruct w; [| discriminate]. inversion H; subst. eexists; reflexivity. Qed.

(** ---- what a dispatch_* can do *)
Definition disp_ok (i : nat) (w : bool) (st : state) (e : event) (r : state * option prompt) : Prop :=
  status_ext (s_status st) (s_status (fst r)) /\ s_info (fst r) = s_info st /\ s_filter (fst r) = s_filter st /\
  botframe (s_dbg (fst r)) = botframe (s_dbg st) /\
  (forall p, snd r = Some p -> w = true /\ p = mkP i (e_kind e) (e_line e) (e_fid e)).

Lemma disp_ok_id : forall i w st e, disp_ok i w st e (st, None).
Proof. intros. unfold disp_ok; simpl. repeat split; try apply status_ext_refl; intros; discriminate. Qed.

Lemma disp_ok_inter : forall pol i w r st e, disp_ok i w st e (interaction pol i w r st e).
Proof.
  intros pol i w r st e. destruct (interaction pol i w r st e) as [st' op] eqn:H.
  apply interaction_spec in H. destruct H as (H1 & H2 & H3 & H4 & H5).
  unfold disp_ok; simpl. split; [exact H1|]. split; [exact H2|]. split; [exact H3|]. split; [exact H4|].
  intros q Hq; subst op; destruct H5; auto.
Qed.

Lemma dispatch_line_ok : forall pol i w st e, disp_ok i w st e (dispatch_line pol i w st e).
Proof.
  intros. unfold dispatch_line. destruct (stop_here _ _ _); [apply disp_ok_inter | apply disp_ok_id].
Qed.

Lemma dispatch_exception_ok : forall pol i w st e, disp_ok i w st e (dispatch_exception pol i w st e).
Proof.
  intros. unfold dispatch_exception.
  destruct (stop_here _ _ _).
  - destruct (_ && _ && _); [apply disp_ok_id | apply disp_ok_inter].
  - destruct (stopframe (s_dbg st)); [| apply disp_ok_id].
    destruct (_ && _ && _); [apply disp_ok_inter | apply disp_ok_id].
Qed.

Lemma dispatch_return_ok : forall pol i w st e, disp_ok i w st e (dispatch_return pol i w st e).
Proof.
  intros. unfold dispatch_return.
  destruct (_ || _); [| apply disp_ok_id].
  destruct (_ && _); [apply disp_ok_id |].
  pose proof (disp_ok_inter pol i w true st e) as H.
  destruct (interaction pol i w true st e) as [st' p].
  destruct (_ && _); [| exact H].
  unfold disp_ok in *; simpl in *. exact H.
Qed.

Lemma dispatch_call_ok : forall pol i st e st' op tr,
  dispatch_call pol i st e = (st', op, tr) ->
  status_ext (s_status st) (s_status st') /\ s_info st' = s_info st /\ s_filter st' = s_filter st /\
  (forall p, op = Some p -> p = mkP i (e_kind e) (e_line e) (e_fid e)).
Proof.
  intros pol i st e st' op tr H. unfold dispatch_call in H.
  destruct (botframe (s_dbg st)).
  - destruct (negb _).
    + inversion H; subst. repeat split; try apply status_ext_refl; intros; discriminate.
    + destruct (_ && _).
      * inversion H; subst. repeat split; try apply status_ext_refl; intros; discriminate.
      * pose proof (disp_ok_inter pol i true false st e) as D.
        destruct (interaction pol i true false st e) as [s2 p2]. inversion H; subst; clear H.
        destruct D as (D1 & D2 & D3 & D4 & D5). simpl in *. repeat split; auto.
        intros p Hp. apply D5 in Hp. tauto.
  - inversion H; subst. simpl. repeat split; try apply status_ext_refl; intros; discriminate.
Qed.

(** ---- one event *)
Lemma step_facts : forall c pol i st e st' op tc,
  step c pol i st e = (st', op, tc) ->
  (forall p, op = Some p -> p = mkP i (e_kind e) (e_line e) (e_fid e) /\
     match e_kind e with
     | KCall => fst (rejected c e (s_filter st)) = false
     | _ => lookup (e_fid e) (s_status st) = Some Wrapped
     end) /\
  (forall f, lookup f (s_status st') = Some Wrapped ->
     lookup f (s_status st) = Some Wrapped \/
     (f = e_fid e /\ e_kind e = KCall /\ fst (rejected c e (s_filter st)) = false)).
Proof.
  intros c pol i st e st' op tc H. unfold step in H.
  destruct (e_kind e) eqn:K.
  - (* call *)
    cbv zeta in H. destruct (rejected c e _) as [rej fs] eqn:R.
    change (s_filter {| s_dbg := s_dbg st; s_status := s_status st; s_info := (e_fid e, (e_par e, e_gen e)) :: s_info st;
                        s_filter := s_filter st; s_nprompt := s_nprompt st |}) with (s_filter st) in R.
    cbn [fst]. destruct rej.
    + inversion H; subst; clear H. split; [intros; discriminate | intros f Hf; left; exact Hf].
    + match type of H with context[dispatch_call ?a ?b ?s ?ev] =>
        pose proof (dispatch_call_ok a b s ev) as D; destruct (dispatch_call a b s ev) as [[s2 p2] tr] end.
      specialize (D _ _ _ eq_refl). destruct D as (D1 & D2 & D3 & D5). cbn [s_status] in D1.
      inversion H; subst; clear H. split.
      * intros p Hp. split; [rewrite (D5 p Hp); rewrite K; reflexivity | reflexivity].
      * intros f Hf. destruct tr.
        { simpl in Hf. destruct (Z.eqb f (e_fid e)) eqn:E.
          - right. apply Z.eqb_eq in E. auto.
          - left. apply D1; exact Hf. }
        left. apply D1; exact Hf.
  - destruct (lookup (e_fid e) (s_status st)) as [t|] eqn:L.
    + pose proof (dispatch_line_ok pol i (match t with Wrapped => true | Raw => false end) st e) as D.
      destruct (dispatch_line _ _ _ _ _) as [s2 p2]. inversion H; subst; clear H.
      destruct D as (D1 & D2 & D3 & D4 & D5). simpl in *. split.
      * intros p Hp. destruct (D5 p Hp) as [W E]. rewrite K in E. split; auto. destruct t; [reflexivity | discriminate].
      * intros f Hf. left. apply D1; exact Hf.
    + inversion H; subst. split; [intros; discriminate | intros f Hf; left; exact Hf].
  - destruct (lookup (e_fid e) (s_status st)) as [t|] eqn:L.
    + pose proof (dispatch_return_ok pol i (match t with Wrapped => true | Raw => false end) st e) as D.
      destruct (dispatch_return _ _ _ _ _) as [s2 p2]. inversion H; subst; clear H.
      destruct D as (D1 & D2 & D3 & D4 & D5). simpl in *. split.
      * intros p Hp. destruct (D5 p Hp) as [W E]. rewrite K in E. split; auto. destruct t; [reflexivity | discriminate].
      * intros f Hf. left. apply D1; exact Hf.
    + inversion H; subst. split; [intros; discriminate | intros f Hf; left; exact Hf].
  - destruct (lookup (e_fid e) (s_status st)) as [t|] eqn:L.
    + pose proof (dispatch_exception_ok pol i (match t with Wrapped => true | Raw => false end) st e) as D.
      destruct (dispatch_exception _ _ _ _ _) as [s2 p2]. inversion H; subst; clear H.
      destruct D as (D1 & D2 & D3 & D4 & D5). simpl in *. split.
      * intros p Hp. destruct (D5 p Hp) as [W E]. rewrite K in E. split; auto. destruct t; [reflexivity | discriminate].
      * intros f Hf. left. apply D1; exact Hf.
    + inversion H; subst. split; [intros; discriminate | intros f Hf; left; exact Hf].
Qed.
