(** all-next, in the words of the property (consequences of the refinement in NextMode.v):
    while a non-generator frame [f] is being stepped -- from a prompt in [f] to the next event of [f] --
    nothing is prompted (nothing inside the calls it makes), that next event is prompted if it is a line,
    and after the prompt of its return the next line of a frame stepped before (a caller) is prompted. *)
From NL Require Import Bdb.Model Bdb.Basics Bdb.NextMode.
Open Scope Z_scope.
Open Scope list_scope.

Fixpoint nfinal (c : cfg) (i : nat) (s : nspec) (evs : list event) : nspec :=
  match evs with [] => s | e :: r => nfinal c (S i) (fst (next_step c i s e)) r end.

Lemma spec_app : forall c a b i s,
  next_spec_from c i s (a ++ b) = next_spec_from c i s a ++ next_spec_from c (i + List.length a) (nfinal c i s a) b.
Proof.
  induction a as [|e r IH]; intros b i s; simpl.
  - rewrite Nat.add_0_r. reflexivity.
  - destruct (next_step c i s e) as [s' p]. simpl. rewrite IH.
    replace (S i + List.length r)%nat with (i + S (List.length r))%nat by lia.
    destruct p; reflexivity.
Qed.

Lemma nfinal_app : forall c a b i s,
  nfinal c i s (a ++ b) = nfinal c (i + List.length a) (nfinal c i s a) b.
Proof.
  induction a as [|e r IH]; intros b i s; simpl.
  - rewrite Nat.add_0_r. reflexivity.
  - rewrite IH. replace (S i + List.length r)%nat with (i + S (List.length r))%nat by lia. reflexivity.
Qed.

Lemma spec_idx_range : forall c evs i s p,
  In p (next_spec_from c i s evs) -> (i <= p_idx p < i + List.length evs)%nat.
Proof.
  induction evs as [|e r IH]; intros i s p H; simpl in H; [contradiction|].
  destruct (next_step c i s e) as [s' q] eqn:NS.
  assert (Q : forall x, q = Some x -> p_idx x = i).
  { intros x Hx. subst q. unfold next_step in NS.
    destruct (e_kind e); cbv zeta in NS;
      repeat match type of NS with
             | context[let '(_, _) := ?t in _] => destruct t
             | context[if ?b then _ else _] => destruct b
             | context[match ?o with Some _ => _ | None => _ end] => destruct o
             end; inversion NS; subst; reflexivity. }
  simpl. destruct q as [x|].
  - destruct H as [H|H]; [subst x; rewrite (Q p eq_refl); lia|]. apply IH in H. lia.
  - apply IH in H. lia.
Qed.

Definition traced_in (s : nspec) (f : Z) : bool := existsb (Z.eqb f) (n_traced s).

(** what a prompt tells about the state after it *)
Lemma prompt_state : forall c i s e s' p,
  next_step c i s e = (s', Some p) ->
  p = mkP i (e_kind e) (e_line e) (e_fid e) /\ traced_in s' (e_fid e) = true /\
  n_sf s' = (match e_kind e with KReturn => None | _ => Some (e_fid e) end) /\ n_info s' = (match e_kind e with KCall => (e_fid e, e_gen e) :: n_info s | _ => n_info s end).
Proof.
  intros c i s e s' p H. unfold next_step, traced_in in *. destruct (e_kind e) eqn:K; cbv zeta in H.
  - destruct (rejected c e (n_fs s)) as [rej fs']. destruct rej; [discriminate|].
    destruct (negb (n_bot s)); [discriminate|]. destruct (negb _); [discriminate|]. destruct (_ && _); [discriminate|].
    inversion H; subst. simpl. rewrite Z.eqb_refl. auto.
  - destruct (existsb _ _) eqn:T; [|discriminate]. cbn [andb] in H. destruct (stops _ _ _); [|discriminate].
    inversion H; subst. simpl. auto.
  - destruct (existsb _ _) eqn:T; [|discriminate]. cbn [andb] in H. destruct (stops _ _ _); [|discriminate].
    destruct (_ && _); [discriminate|]. inversion H; subst. simpl. auto.
  - destruct (existsb _ _) eqn:T; [|discriminate]. destruct (stops _ _ _).
    + destruct (_ && _ && _); [discriminate|]. inversion H; subst. simpl. auto.
    + destruct (n_sf s); [|discriminate]. destruct (_ && _ && _); [|discriminate]. inversion H; subst. simpl. auto.
Qed.

(** the set of traced frames only grows *)
Lemma traced_mono : forall c i s e f, traced_in s f = true -> traced_in (fst (next_step c i s e)) f = true.
Proof.
  intros c i s e f H. unfold next_step, traced_in in *. destruct (e_kind e); cbv zeta.
  - destruct (rejected c e (n_fs s)) as [rej fs']. destruct rej; [exact H|].
    destruct (negb (n_bot s)); [simpl; rewrite H; apply orb_true_r|].
    destruct (negb _); [exact H|]. destruct (_ && _); simpl; rewrite H; apply orb_true_r.
  - destruct (_ && _); exact H.
  - destruct (_ && _); [destruct (_ && _)|]; exact H.
  - destruct (existsb (Z.eqb (e_fid e)) (n_traced s)); [|exact H]. destruct (stops _ _ _).
    + destruct (_ && _ && _); exact H.
    + destruct (n_sf s); [|exact H]. destruct (_ && _ && _); exact H.
Qed.

Lemma traced_mono_run : forall c evs i s f, traced_in s f = true -> traced_in (nfinal c i s evs) f = true.
Proof.
  induction evs as [|e r IH]; intros i s f H; simpl; [exact H|]. apply IH. apply traced_mono. exact H.
Qed.

(** while [f] (not a generator) is being stepped, an event of another frame changes nothing and is not prompted *)
Lemma other_frame : forall c i s e f,
  n_sf s = Some f -> ginfo (n_info s) f = false -> e_fid e <> f ->
  snd (next_step c i s e) = None /\ n_sf (fst (next_step c i s e)) = Some f /\ ginfo (n_info (fst (next_step c i s e))) f = false.
Proof.
  intros c i s e f SF G NE. apply Z.eqb_neq in NE. unfold next_step. rewrite SF.
  assert (ST : stops (Some f) (e_fid e) (e_line e) = false) by (unfold stops; rewrite NE; reflexivity).
  rewrite ST. destruct (e_kind e); cbv zeta.
  - assert (G' : ginfo ((e_fid e, e_gen e) :: n_info s) f = false).
    { unfold ginfo in *. simpl. rewrite Z.eqb_sym, NE. exact G. }
    destruct (rejected c e (n_fs s)) as [rej fs']. destruct rej; [simpl; auto|].
    destruct (negb (n_bot s)); simpl; auto.
  - rewrite andb_false_r. simpl; auto.
  - rewrite andb_false_r. simpl; auto.
  - destruct (existsb (Z.eqb (e_fid e)) (n_traced s)); [|simpl; auto]. rewrite NE, G. simpl. auto.
Qed.

Lemma other_frames_run : forall c mid i s f,
  n_sf s = Some f -> ginfo (n_info s) f = false -> (forall e, In e mid -> e_fid e <> f) ->
  next_spec_from c i s mid = [] /\ n_sf (nfinal c i s mid) = Some f.
Proof.
  induction mid as [|e r IH]; intros i s f SF G NE; simpl; [auto|].
  destruct (other_frame c i s e f SF G (NE e (or_introl eq_refl))) as (O1 & O2 & O3).
  destruct (next_step c i s e) as [s' p]. simpl in *. subst p.
  apply IH; auto.
Qed.

Section Stepped.
Variable c : cfg.
Variables pre mid post : list event.
Variables ei ej : event.
Variable f : Z.
Let evs := pre ++ ei :: mid ++ ej :: post.
Hypothesis SIMPLE : forall e, In e evs -> simple_tb e.
Hypothesis FI : e_fid ei = f.
Hypothesis FJ : e_fid ej = f.
Hypothesis MID : forall e, In e mid -> e_fid e <> f.        (* ej is the next event of frame f *)
Hypothesis NOTGEN : forall e, In e (pre ++ [ei]) -> e_kind e = KCall -> e_fid e = f -> e_gen e = false.
Hypothesis NOTRET : e_kind ei <> KReturn.
Hypothesis PROMPTED : In (List.length pre) (map p_idx (prompts c (all Next) evs)).

Lemma info_not_gen : forall l i s,
  ginfo (n_info s) f = false -> (forall e, In e l -> e_kind e = KCall -> e_fid e = f -> e_gen e = false) ->
  ginfo (n_info (nfinal c i s l)) f = false.
Proof.
  induction l as [|e r IH]; intros i s G H; simpl; [exact G|].
  apply IH; [| intros x Hx; apply H; right; exact Hx].
  unfold next_step. destruct (e_kind e) eqn:K; cbv zeta.
  - assert (G' : ginfo ((e_fid e, e_gen e) :: n_info s) f = false).
    { unfold ginfo in *. simpl. destruct (Z.eqb f (e_fid e)) eqn:E; [|exact G].
      apply Z.eqb_eq in E. apply H; [left; reflexivity | exact K | symmetry; exact E]. }
    destruct (rejected c e (n_fs s)) as [rej fs']. destruct rej; [exact G'|].
    destruct (negb (n_bot s)); [exact G'|]. destruct (negb _); [exact G'|]. destruct (_ && _); exact G'.
  - destruct (_ && _); exact G.
  - destruct (_ && _); [destruct (_ && _)|]; exact G.
  - destruct (existsb (Z.eqb (e_fid e)) (n_traced s)); [|exact G]. destruct (stops _ _ _).
    + destruct (_ && _ && _); exact G.
    + destruct (n_sf s); [|exact G]. destruct (_ && _ && _); exact G.
Qed.

(** the state right after the prompt at [ei] *)
Lemma after_prompt :
  stream_traced c = true /\
  let s1 := nfinal c 0%nat (n_init c) (pre ++ [ei]) in
  n_sf s1 = Some f /\ traced_in s1 f = true /\ ginfo (n_info s1) f = false /\
  prompts c (all Next) evs =
    next_spec_from c 0%nat (n_init c) (pre ++ [ei]) ++
    next_spec_from c (S (List.length pre)) s1 (mid ++ ej :: post).
Proof.
  assert (T : stream_traced c = true).
  { destruct (stream_traced c) eqn:T; [reflexivity|]. unfold prompts, run in PROMPTED. rewrite T in PROMPTED. simpl in PROMPTED. contradiction. }
  split; [exact T|]. cbv zeta.
  assert (EQ : prompts c (all Next) evs =
               next_spec_from c 0%nat (n_init c) (pre ++ [ei]) ++
               next_spec_from c (S (List.length pre)) (nfinal c 0%nat (n_init c) (pre ++ [ei])) (mid ++ ej :: post)).
  { rewrite (next_refines c evs SIMPLE). unfold next_spec. rewrite T. unfold evs.
    replace (pre ++ ei :: mid ++ ej :: post) with ((pre ++ [ei]) ++ mid ++ ej :: post) by (rewrite <- app_assoc; reflexivity).
    rewrite spec_app. rewrite app_length. cbn [List.length]. rewrite Nat.add_0_l.
    replace (List.length pre + 1)%nat with (S (List.length pre)) by lia. reflexivity. }
  rewrite EQ in PROMPTED.
  rewrite nfinal_app in *. rewrite (spec_app c pre [ei]) in PROMPTED. rewrite Nat.add_0_l in *.
  set (s0 := nfinal c 0 (n_init c) pre) in *.
  assert (G0 : ginfo (n_info s0) f = false).
  { apply info_not_gen; [reflexivity|]. intros x Hx. apply NOTGEN. apply in_or_app; left; exact Hx. }
  cbn [nfinal next_spec_from] in *.
  destruct (next_step c (List.length pre) s0 ei) as [s1 p] eqn:NS. cbn [fst] in *.
  rewrite !map_app in PROMPTED. apply in_app_or in PROMPTED.
  assert (P : exists x, p = Some x).
  { destruct PROMPTED as [H|H].
    - apply in_app_or in H. destruct H as [H|H].
      + apply in_map_iff in H. destruct H as (x & Hx & IN). apply spec_idx_range in IN. lia.
      + destruct p as [x|]; [eauto | simpl in H; contradiction].
    - apply in_map_iff in H. destruct H as (x & Hx & IN). apply spec_idx_range in IN. lia. }
  destruct P as [x Px]. subst p.
  destruct (prompt_state _ _ _ _ _ _ NS) as (P1 & P2 & P3 & P4). rewrite FI in *.
  split; [destruct (e_kind ei); try exact P3; contradiction|]. split; [exact P2|]. split; [|exact EQ].
  rewrite P4. destruct (e_kind ei) eqn:K; try exact G0.
  unfold ginfo. simpl. rewrite Z.eqb_refl. apply NOTGEN; [apply in_or_app; right; left; reflexivity | exact K | exact FI].
Qed.

(** nothing is prompted between the prompt in [f] and the next event of [f]: nothing inside the calls [f] makes *)
Theorem next_nothing_inside : forall k,
  (List.length pre < k < S (List.length pre) + List.length mid)%nat ->
  ~ In k (map p_idx (prompts c (all Next) evs)).
Proof.
  intros k RANGE H. destruct after_prompt as (T & SF & TR & G & EQ). cbv zeta in *.
  rewrite EQ in H. rewrite map_app in H. apply in_app_or in H. destruct H as [H|H].
  - apply in_map_iff in H. destruct H as (x & Hx & IN). apply spec_idx_range in IN. rewrite app_length in IN. simpl in IN. lia.
  - rewrite spec_app in H. destruct (other_frames_run c mid (S (List.length pre)) _ f SF G MID) as [E _].
    rewrite E in H. cbn [app] in H. apply in_map_iff in H. destruct H as (x & Hx & IN). apply spec_idx_range in IN. lia.
Qed.

(** the next event of [f], if it is a line, is prompted: every line of the frame being stepped *)
Theorem next_line_prompted :
  e_kind ej = KLine -> 0 <= e_line ej ->
  In (S (List.length pre) + List.length mid)%nat (map p_idx (prompts c (all Next) evs)).
Proof.
  intros KJ LJ. destruct after_prompt as (T & SF & TR & G & EQ). cbv zeta in *.
  rewrite EQ. rewrite map_app. apply in_or_app. right.
  rewrite spec_app. destruct (other_frames_run c mid (S (List.length pre)) _ f SF G MID) as [E SF'].
  rewrite E. simpl app. simpl next_spec_from.
  set (s2 := nfinal c (S (List.length pre)) (nfinal c 0 (n_init c) (pre ++ [ei])) mid) in *.
  assert (TR2 : traced_in s2 f = true) by (apply traced_mono_run; exact TR).
  unfold next_step at 1. rewrite KJ, FJ. unfold traced_in in TR2. rewrite TR2, SF'. unfold stops. rewrite Z.eqb_refl.
  apply Z.leb_le in LJ. rewrite LJ. simpl. left. reflexivity.
Qed.
End Stepped.

Lemma prompted_traced : forall c l i s p,
  In p (next_spec_from c i s l) -> traced_in (nfinal c i s l) (p_fid p) = true.
Proof.
  induction l as [|e r IH]; intros i s p H; simpl in H; [contradiction|].
  simpl. destruct (next_step c i s e) as [s' q] eqn:NS. simpl.
  destruct q as [x|]; [destruct H as [E|H] |]; try (apply IH; exact H).
  subst x. destruct (prompt_state _ _ _ _ _ _ NS) as (P1 & P2 & _). rewrite P1. simpl.
  apply traced_mono_run. exact P2.
Qed.

(** after the prompt of a return the debugger stops at the very next line of any frame it has a trace
    function in -- in particular of the caller, if it was prompted before *)
Theorem next_after_return : forall c pre ei ej post p,
  (forall e, In e (pre ++ ei :: ej :: post) -> simple_tb e) ->
  e_kind ei = KReturn -> In (List.length pre) (map p_idx (prompts c (all Next) (pre ++ ei :: ej :: post))) ->
  e_kind ej = KLine ->
  In p (prompts c (all Next) (pre ++ ei :: ej :: post)) -> p_fid p = e_fid ej -> (p_idx p < List.length pre)%nat ->
  In (S (List.length pre)) (map p_idx (prompts c (all Next) (pre ++ ei :: ej :: post))).
Proof.
  intros c pre ei ej post p SIMPLE KI PR KJ INP PG LT.
  assert (T : stream_traced c = true).
  { destruct (stream_traced c) eqn:T; [reflexivity|]. unfold prompts, run in PR. rewrite T in PR. simpl in PR. contradiction. }
  rewrite (next_refines c _ SIMPLE) in *. unfold next_spec in *. rewrite T in *.
  rewrite spec_app in *. rewrite Nat.add_0_l in *.
  set (s0 := nfinal c 0 (n_init c) pre) in *.
  (* the frame of ej has a trace function at s0: it was prompted in pre *)
  assert (TG : traced_in s0 (e_fid ej) = true).
  { apply in_app_or in INP. destruct INP as [INP|INP].
    - rewrite <- PG. apply prompted_traced. exact INP.
    - apply spec_idx_range in INP. lia. }
  (* the return event ei was prompted *)
  simpl next_spec_from in *.
  destruct (next_step c (List.length pre) s0 ei) as [s1 q] eqn:NS.
  rewrite map_app in PR. apply in_app_or in PR.
  assert (Q : exists x, q = Some x).
  { destruct PR as [H|H].
    - apply in_map_iff in H. destruct H as (x & Hx & IN). apply spec_idx_range in IN. simpl in IN. lia.
    - destruct q as [x|]; [eauto|]. apply in_map_iff in H. destruct H as (x & Hx & IN).
      change (match next_step c (S (List.length pre)) s1 ej with (s', pp) =>
              match pp with Some x0 => x0 :: next_spec_from c (S (S (List.length pre))) s' post
                          | None => next_spec_from c (S (S (List.length pre))) s' post end end)
        with (next_spec_from c (S (List.length pre)) s1 (ej :: post)) in IN.
      apply spec_idx_range in IN. lia. }
  destruct Q as [x Qx]. subst q.
  destruct (prompt_state _ _ _ _ _ _ NS) as (P1 & P2 & P3 & P4). rewrite KI in P3.
  assert (TG1 : traced_in s1 (e_fid ej) = true).
  { replace s1 with (fst (next_step c (List.length pre) s0 ei)) by (rewrite NS; reflexivity). apply traced_mono. exact TG. }
  rewrite map_app. apply in_or_app. right. simpl. right.
  unfold next_step at 1. rewrite KJ. unfold traced_in in TG1. rewrite TG1, P3. simpl. left. reflexivity.
Qed.
