(** Abstract syntax of the fragments of CPython's bdb.py and of /repo that decide where the
    spawned child prompts (C05).  Hand-written; the TERMS of these types are regenerated at
    every check by translate/bdb_funs.py into Gen/BdbFuns.v, and Bdb/Tie.v interprets them
    over the debugger state and raw-event type of Bdb/Model.v.

    Part 1 (methods of bdb.Bdb and of CustomizedPdb): an untyped expression / statement
    language, one [method] per Python `def`.
    Part 2 (custom.py cmdloop, factory.py CmdloopHook): the exception plumbing around the
    command loop.
    Part 3 (filter.py, global_.py, plugins/__init__.py): the `filter` hook implementations,
    the global trace function and the registration program. *)
From Coq Require Import List ZArith String Bool.
Import ListNotations.

(** ---- Part 1 *)

(** attributes of the debugger object that the stop logic reads and writes *)
Inductive attr := AStopframe | AReturnframe | ABotframe | AStoplineno | AQuitting | AFrameReturning | ASkip | ABreaks.

Inductive excname := XStopIteration | XGeneratorExit.

Inductive cmpop := OIs | OIsNot | OEq | ONotEq | OGtE | OGt | OLtE | OLt.

Inductive exp :=
| ENone                              (* None *)
| EBool (b : bool)                   (* True / False *)
| EInt (z : Z)                       (* an integer literal *)
| EStr (s : string)                  (* a string literal *)
| EVar (x : string)                  (* a parameter or a local variable *)
| ESelf (a : attr)                   (* self.<a> *)
| ETraceDispatch                     (* self.trace_dispatch (the bound method, as a value) *)
| EBack (e : exp)                    (* <e>.f_back *)
| ELineno (e : exp)                  (* <e>.f_lineno *)
| EGenFlags (e : exp)                (* <e>.f_code.co_flags & GENERATOR_AND_COROUTINE_FLAGS *)
| EFTrace (e : exp)                  (* <e>.f_trace *)
| EIndex (e : exp) (k : nat)         (* <e>[k] *)
| EExc (x : excname)                 (* StopIteration / GeneratorExit *)
| EAdd (a b : exp)                   (* a + b *)
| ENot (e : exp)                     (* not e *)
| EAnd (a b : exp)                   (* a and b *)
| EOr (a b : exp)                    (* a or b *)
| ECmp (o : cmpop) (a b : exp)       (* a <o> b *)
| EIn (a : exp) (l : list excname)   (* a in (X, Y) *)
| ECall (m : string) (args : list exp)   (* self.<m>(args) *)
| EOpaque.                           (* an expression the stop logic must never evaluate (the argument of
                                        is_skipped_module: skip is None) *)

Inductive stmt :=
| SSkip
| SSeq (a b : stmt)
| SIf (c : exp) (a b : stmt)
| SReturn (e : exp)                  (* return e   (a bare `return` is `return None`) *)
| SRaiseBdbQuit                      (* raise BdbQuit *)
| SExpr (e : exp)                    (* an expression statement (a method call) *)
| SSetSelf (a : attr) (e : exp)      (* self.<a> = e *)
| SSetLocal (x : string) (e : exp)   (* x = e *)
| SSetFTrace (f : exp) (e : exp)     (* <f>.f_trace = e *)
| STryFinally (a b : stmt).          (* try: a finally: b *)

(** a `def`: parameters (without self) with their default values, body *)
Record method := mkM { m_name : string; m_params : list (string * option exp); m_body : stmt }.

(** ---- Part 2 *)

(** CustomizedPdb.cmdloop *)
Inductive cstmt :=
| CSkip
| CSeq (a b : cstmt)
| CTryExceptNotOnTraceCall (body : cstmt) (handler : stmt)   (* try: body except NotOnTraceCall: handler *)
| CWithCmdloopHook (body : cstmt)                            (* with self._cmdloop_hook(): body *)
| CSuperCmdloop.                                             (* super().cmdloop(intro=intro) *)

(** factory.py CmdloopHook.cmdloop *)
Inductive hstmt :=
| HIfNotOnTraceCallRaise       (* if not hook.hook.is_on_trace_call(): raise NotOnTraceCall *)
| HReturnOnCmdloop.            (* return hook.with_.on_cmdloop() *)

(** ---- Part 3 *)

(** string-valued expressions of the filter plugins *)
Inductive sv :=
| XCoName           (* trace_args[0].f_code.co_name *)
| XModName          (* trace_args[0].f_globals.get('__name__') *)
| XScriptName       (* _script.__name__ *)
| XStr (s : string)
| XNone.

Inductive fcond :=
| CEq (a b : sv)                 (* a == b *)
| CIsNone (a : sv)               (* a is None *)
| CNot (c : fcond)
| CSkipMatch (a : sv)            (* self._match_any_(a), _match_any_ = lru_cache(partial(match_any, patterns=modules_to_skip)) *)
| CFirstAdded                    (* self._first_module_added *)
| CEnteringHere                  (* self._entering_thread == threading.current_thread() *)
| CTraced                        (* current_task_or_thread() in self._traced_tasks_and_threads *)
| CMatchMods (a : sv)            (* match_any(a, self._modules_to_trace) *)
| CInMods (a : sv)               (* a in self._modules_to_trace *)
| CCallSelf (m : string).        (* self.<m>(trace_args) used as a condition *)

Inductive fret :=
| FRNone                         (* return None / bare return *)
| FRBool (b : bool)              (* return True / False *)
| FROrNone (c : fcond)           (* return <c> or None *)
| FRCond (c : fcond).            (* return <c> *)

Inductive fstmt :=
| FSkip
| FSeq (a b : fstmt)
| FIf (c : fcond) (a b : fstmt)
| FReturn (r : fret)
| FCallSelf (m : string)         (* self.<m>(trace_args) *)
| FSetFirstAdded (b : bool)      (* self._first_module_added = <b> *)
| FTracedAdd                     (* self._traced_tasks_and_threads.add(current_task_or_thread()) *)
| FModsAdd (a : sv).             (* self._modules_to_trace.add(a) *)

(** a plugin class: name, its `filter` hook implementation if it has one (with the trylast
    marker of the hookimpl decorator), its helper methods *)
Record fclass := mkFC { fc_name : string; fc_filter : option (bool * fstmt); fc_helpers : list (string * fstmt) }.

(** plugins/__init__.py register(hook, run_arg) *)
Inductive rstmt :=
| RSkip
| RSeq (a b : rstmt)
| RRegister (cls : string)               (* hook.register(<cls>) *)
| RIfTraceModules (a b : rstmt).         (* if run_arg.trace_modules: a else: b *)

(** GlobalTraceFunc.global_trace_func *)
Inductive gexp :=
| GHookFilter                    (* self._hook.hook.filter(trace_args=(frame, event, arg)) *)
| GNone
| GLocalTraceFunc.               (* self._hook.hook.local_trace_func(frame=frame, event=event, arg=arg) *)
Inductive gstmt :=
| GIf (c : gexp) (a : list gstmt)
| GReturn (e : gexp)
| GFiltered.                     (* self._hook.hook.filtered(trace_args=(frame, event, arg)) *)

(** utils.py WithContext._local_trace: `if next_trace := next_trace(frame, event, arg): return _local_trace`, `return None` *)
Inductive wexp := WNextTrace | WLocalTrace | WNone.
Inductive wstmt :=
| WAssertNextTrace                       (* assert next_trace *)
| WIfAssignNextTrace (a : list wstmt)    (* if next_trace := next_trace(frame, event, arg): a *)
| WReturn (e : wexp).
