(** Which trace options are in force for a run: the glue from the public options
    (Nextline(...) constructor, then reset(...) calls) to the RunArg the child receives.
    Mirrors nextline/plugin/plugins/argument.py RunArgComposer.init / reset / compose_run_arg:
    an option given to reset() (not None) replaces the current value, an absent one leaves it. *)
From Coq Require Import List Bool.
Import ListNotations.

(** one option over a history of resets: [None] = not given *)
Definition upd {A} (cur : A) (given : option A) : A := match given with Some v => v | None => cur end.
Definition in_force {A} (init : A) (hist : list (option A)) : A := fold_left upd hist init.

(** the values after the constructor and after each reset (what every compose_run_arg returns) *)
Fixpoint in_force_all {A} (cur : A) (hist : list (option A)) : list A :=
  cur :: match hist with [] => [] | g :: r => in_force_all (upd cur g) r end.

(** specification independent of the fold: the last value explicitly given, else the initial one *)
Fixpoint last_given {A} (hist : list (option A)) : option A :=
  match hist with
  | [] => None
  | g :: r => match last_given r with Some v => Some v | None => g end
  end.

Theorem opts_last_given : forall {A} (hist : list (option A)) (init : A),
  in_force init hist = match last_given hist with Some v => v | None => init end.
Proof.
  intros A hist. unfold in_force. induction hist as [|g r IH]; intros init; simpl; [reflexivity|].
  rewrite IH. destruct (last_given r); [reflexivity|]. destruct g; reflexivity.
Qed.

(** correspondence: (initial threads, initial modules, history of (threads, modules) given, observed per run) *)
Definition ob (z : nat) : option bool := match z with 0 => None | 1 => Some false | _ => Some true end.
Fixpoint bb_eqb (a b : list (bool * bool)) : bool :=
  match a, b with
  | [], [] => true
  | (x1, y1) :: r1, (x2, y2) :: r2 => Bool.eqb x1 x2 && Bool.eqb y1 y2 && bb_eqb r1 r2
  | _, _ => false
  end.
Definition opt_case := (bool * bool * list (nat * nat) * list (bool * bool))%type.
Definition case_ok (k : opt_case) : bool :=
  let '(t0, m0, hist, obs) := k in
  bb_eqb (combine (in_force_all t0 (map (fun h => ob (fst h)) hist)) (in_force_all m0 (map (fun h => ob (snd h)) hist))) obs.
Fixpoint bad_from (n : nat) (cases : list opt_case) : list nat :=
  match cases with [] => [] | k :: r => if case_ok k then bad_from (S n) r else n :: bad_from (S n) r end.
