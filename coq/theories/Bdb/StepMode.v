(** all-step: the debugger stays in step mode; the prompted line events are exactly the line events of
    frames that had an accepted call event. *)
From NL Require Import Bdb.Model Bdb.Basics Bdb.Filters.
Open Scope Z_scope.
Open Scope list_scope.

(** the specification looks at the filter chain only (no debugger state) *)
Fixpoint step_spec (c : cfg) (i : nat) (fs : fstate) (acc : list Z) (evs : list event) : list nat :=
  match evs with
  | [] => []
  | e :: r =>
      match e_kind e with
      | KCall => let '(rej, fs') := rejected c e fs in step_spec c (S i) fs' (if rej then acc else e_fid e :: acc) r
      | KLine => if existsb (Z.eqb (e_fid e)) acc then i :: step_spec c (S i) fs acc r else step_spec c (S i) fs acc r
      | _ => step_spec c (S i) fs acc r
      end
  end.

Definition stepmode (d : dbg) : Prop := stopframe d = None /\ returnframe d = None /\ stoplineno d = 0.

Definition same_wrapped (s s' : list (Z * tstatus)) : Prop :=
  forall f, lookup f s' = Some Wrapped <-> lookup f s = Some Wrapped.

Definition is_line (p : prompt) : bool := match p_kind p with KLine => true | _ => false end.

Lemma stop_here_stepmode : forall d f l, stepmode d -> stop_here d f l = true.
Proof. intros d f l (H & _ & _). unfold stop_here. rewrite H. reflexivity. Qed.

Lemma inter_step : forall i w r st e st' op,
  interaction (all Step) i w r st e = (st', op) ->
  stepmode (s_dbg st) ->
  stepmode (s_dbg st') /\ s_filter st' = s_filter st /\ same_wrapped (s_status st) (s_status st') /\
  op = if w then Some (mkP i (e_kind e) (e_line e) (e_fid e)) else None.
Proof.
  intros i w r st e st' op H M. unfold interaction in H. destruct w.
  - inversion H; subst; clear H. unfold all, apply_cmd.
    destruct (curframe _ e) as [[[cur cl] cp] cg]. simpl.
    split; [unfold stepmode; simpl; auto|]. split; [reflexivity|]. split; [|reflexivity].
    destruct r; [| intros f; tauto].
    destruct (e_par e) as [p|]; [| intros f; tauto].
    destruct (lookup p (s_status st)) eqn:L; [intros f; tauto|].
    intros f. simpl. destruct (Z.eqb f p) eqn:E.
    + apply Z.eqb_eq in E. subst f. rewrite L. split; discriminate.
    + tauto.
  - inversion H; subst. split; [exact M|]. split; [reflexivity|]. split; [intros f; tauto | reflexivity].
Qed.

Definition inv (st : state) (acc : list Z) : Prop :=
  stepmode (s_dbg st) /\ forall f, lookup f (s_status st) = Some Wrapped <-> existsb (Z.eqb f) acc = true.

Lemma existsb_eqb_refl : forall f acc, existsb (Z.eqb f) (f :: acc) = true.
Proof. intros. simpl. rewrite Z.eqb_refl. reflexivity. Qed.

Lemma step_stepmode : forall c i st e st' op tc acc,
  step c (all Step) i st e = (st', op, tc) -> inv st acc ->
  match e_kind e with
  | KCall => let '(rej, fs') := rejected c e (s_filter st) in
             s_filter st' = fs' /\ inv st' (if rej then acc else e_fid e :: acc) /\
             (forall p, op = Some p -> is_line p = false)
  | KLine => s_filter st' = s_filter st /\ inv st' acc /\
             op = if existsb (Z.eqb (e_fid e)) acc then Some (mkP i KLine (e_line e) (e_fid e)) else None
  | _ => s_filter st' = s_filter st /\ inv st' acc /\ (forall p, op = Some p -> is_line p = false)
  end.
Proof.
  intros c i st e st' op tc acc H [M W]. unfold step in H.
  destruct (e_kind e) eqn:K.
  - cbv zeta in H. cbn [s_filter] in H. destruct (rejected c e (s_filter st)) as [rej fs] eqn:R. cbv iota beta.
    destruct rej.
    + inversion H; subst; clear H. simpl. split; [reflexivity|]. split; [split; [exact M | exact W]|]. intros; discriminate.
    + unfold dispatch_call in H. cbn [s_dbg] in H.
      destruct (botframe (s_dbg st)) eqn:B.
      * rewrite stop_here_stepmode in H by exact M. cbn [negb] in H.
        destruct M as (M1 & M2 & M3). rewrite M1 in H. cbn [andb] in H.
        match type of H with context[interaction ?a ?b ?c0 ?d ?s ?ev] =>
          destruct (interaction a b c0 d s ev) as [s2 p2] eqn:I end.
        apply inter_step in I; [| unfold stepmode; simpl; auto].
        destruct I as (I1 & I2 & I3 & I4). inversion H; subst; clear H. simpl.
        split; [exact I2|]. split.
        { split; [exact I1|]. intros f. simpl. destruct (Z.eqb f (e_fid e)) eqn:E.
          - split; auto.
          - rewrite (I3 f). simpl. apply W. }
        intros p Hp. inversion Hp; subst. unfold is_line; simpl. rewrite K. reflexivity.
      * inversion H; subst; clear H. simpl. split; [reflexivity|]. split.
        { split.
          - destruct M as (M1 & M2 & M3). unfold stepmode; simpl; auto.
          - intros f. simpl. destruct (Z.eqb f (e_fid e)) eqn:E; [split; auto | apply W]. }
        intros; discriminate.
  - destruct (lookup (e_fid e) (s_status st)) as [t|] eqn:L.
    + unfold dispatch_line in H. rewrite stop_here_stepmode in H by exact M.
      match type of H with context[interaction ?a ?b ?c0 ?d ?s ?ev] =>
        destruct (interaction a b c0 d s ev) as [s2 p2] eqn:I end.
      apply inter_step in I; [| exact M]. destruct I as (I1 & I2 & I3 & I4). inversion H; subst; clear H.
      split; [exact I2|]. split.
      { split; [exact I1|]. intros f. rewrite (I3 f). apply W. }
      rewrite K. destruct t.
      * apply W in L. rewrite L. reflexivity.
      * destruct (existsb (Z.eqb (e_fid e)) acc) eqn:X; [| reflexivity]. apply W in X. rewrite L in X. discriminate.
    + inversion H; subst; clear H. split; [reflexivity|]. split; [split; [exact M | exact W]|].
      destruct (existsb (Z.eqb (e_fid e)) acc) eqn:X; [| reflexivity]. apply W in X. rewrite L in X. discriminate.
  - destruct (lookup (e_fid e) (s_status st)) as [t|] eqn:L.
    + unfold dispatch_return in H. rewrite stop_here_stepmode in H by exact M. cbn [orb] in H.
      destruct M as (M1 & M2 & M3). rewrite M1 in H. cbn [andb] in H.
      match type of H with context[interaction ?a ?b ?c0 ?d ?s ?ev] =>
        destruct (interaction a b c0 d s ev) as [s2 p2] eqn:I end.
      apply inter_step in I; [| unfold stepmode; auto]. destruct I as (I1 & I2 & I3 & I4).
      destruct I1 as (J1 & J2 & J3). rewrite J1 in H. cbn [oeqb andb] in H.
      inversion H; subst; clear H.
      split; [exact I2|]. split.
      { split; [unfold stepmode; auto|]. intros f. rewrite (I3 f). apply W. }
      intros p Hp. destruct t; inversion Hp; subst. unfold is_line; simpl. rewrite K. reflexivity.
    + inversion H; subst; clear H. split; [reflexivity|]. split; [split; [exact M | exact W]|]. intros; discriminate.
  - destruct (lookup (e_fid e) (s_status st)) as [t|] eqn:L.
    + unfold dispatch_exception in H. rewrite stop_here_stepmode in H by exact M.
      destruct (e_gen e && x_stopiter (e_x e) && x_tbnone (e_x e)).
      * inversion H; subst; clear H. split; [reflexivity|]. split; [split; [exact M | exact W]|]. intros; discriminate.
      * match type of H with context[interaction ?a ?b ?c0 ?d ?s ?ev] =>
          destruct (interaction a b c0 d s ev) as [s2 p2] eqn:I end.
        apply inter_step in I; [| exact M]. destruct I as (I1 & I2 & I3 & I4). inversion H; subst; clear H.
        split; [exact I2|]. split.
        { split; [exact I1|]. intros f. rewrite (I3 f). apply W. }
        intros p Hp. destruct t; inversion Hp; subst. unfold is_line; simpl. rewrite K. reflexivity.
    + inversion H; subst; clear H. split; [reflexivity|]. split; [split; [exact M | exact W]|]. intros; discriminate.
Qed.

Lemma run_from_step_lines : forall c evs i st acc,
  inv st acc ->
  map p_idx (filter is_line (fst (run_from c (all Step) i st evs))) = step_spec c i (s_filter st) acc evs.
Proof.
  induction evs as [|e r IH]; intros i st acc INV; [reflexivity|].
  simpl. destruct (step c (all Step) i st e) as [[st' op] tc] eqn:S0.
  pose proof (step_stepmode _ _ _ _ _ _ _ _ S0 INV) as F.
  destruct (run_from c (all Step) (S i) st' r) as [ps tcs] eqn:R.
  destruct (e_kind e) eqn:K.
  - destruct (rejected c e (s_filter st)) as [rej fs']. destruct F as (F1 & F2 & F3).
    specialize (IH (S i) st' _ F2). rewrite R, F1 in IH. simpl in IH. rewrite <- IH.
    destruct op as [p|]; simpl; [rewrite (F3 p eq_refl)|]; reflexivity.
  - destruct F as (F1 & F2 & F3). specialize (IH (S i) st' _ F2). rewrite R, F1 in IH. simpl in IH. rewrite <- IH.
    subst op. destruct (existsb (Z.eqb (e_fid e)) acc); simpl; reflexivity.
  - destruct F as (F1 & F2 & F3). specialize (IH (S i) st' _ F2). rewrite R, F1 in IH. simpl in IH. rewrite <- IH.
    destruct op as [p|]; simpl; [rewrite (F3 p eq_refl)|]; reflexivity.
  - destruct F as (F1 & F2 & F3). specialize (IH (S i) st' _ F2). rewrite R, F1 in IH. simpl in IH. rewrite <- IH.
    destruct op as [p|]; simpl; [rewrite (F3 p eq_refl)|]; reflexivity.
Qed.

Theorem step_lines : forall c evs,
  stream_traced c = true ->
  map p_idx (filter (fun p => match p_kind p with KLine => true | _ => false end) (prompts c (all Step) evs))
  = step_spec c 0%nat (s_filter (init c)) [] evs.
Proof.
  intros c evs T. unfold prompts, run. rewrite T.
  apply (run_from_step_lines c evs 0%nat (init c) []).
  split; [unfold stepmode; simpl; auto|]. intros f. simpl. split; discriminate.
Qed.

(** ---- the same specification written with the event's own attributes only ([accept_attr], Filters.v):
    no plugin, no registration order, no pluggy *)
Fixpoint step_spec_attr (c : cfg) (i : nat) (fs : fstate) (acc : list Z) (evs : list event) : list nat :=
  match evs with
  | [] => []
  | e :: r =>
      match e_kind e with
      | KCall => let '(ok, fs') := accept_attr c e fs in step_spec_attr c (S i) fs' (if ok then e_fid e :: acc else acc) r
      | KLine => if existsb (Z.eqb (e_fid e)) acc then i :: step_spec_attr c (S i) fs acc r else step_spec_attr c (S i) fs acc r
      | _ => step_spec_attr c (S i) fs acc r
      end
  end.

Lemma step_spec_attr_eq : forall c evs i fs acc, step_spec c i fs acc evs = step_spec_attr c i fs acc evs.
Proof.
  induction evs as [|e r IH]; intros i fs acc; [reflexivity|]. simpl.
  destruct (e_kind e); try (rewrite IH; reflexivity).
  rewrite filter_complete. destruct (accept_attr c e fs) as [ok fs']. simpl. destruct ok; simpl; apply IH.
Qed.

(** module tracing off: no state at all -- the lines of the frames entered by a call in the script module, not in a lambda *)
Fixpoint script_lines (i : nat) (acc : list Z) (evs : list event) : list nat :=
  match evs with
  | [] => []
  | e :: r =>
      match e_kind e with
      | KCall => script_lines (S i) (if (match e_mc e with MScript => negb (e_lam e) | _ => false end) then e_fid e :: acc else acc) r
      | KLine => if existsb (Z.eqb (e_fid e)) acc then i :: script_lines (S i) acc r else script_lines (S i) acc r
      | _ => script_lines (S i) acc r
      end
  end.

Lemma step_spec_attr_off : forall c evs i fs acc,
  c_modules c = false -> step_spec_attr c i fs acc evs = script_lines i acc evs.
Proof.
  induction evs as [|e r IH]; intros i fs acc M; [reflexivity|]. simpl.
  destruct (e_kind e); try (apply IH; exact M).
  - unfold accept_attr. rewrite M. apply IH; exact M.
  - destruct (existsb _ _); rewrite IH; auto.
Qed.

Theorem step_lines_attr : forall c evs,
  stream_traced c = true ->
  map p_idx (filter (fun p => match p_kind p with KLine => true | _ => false end) (prompts c (all Step) evs))
  = step_spec_attr c 0%nat (s_filter (init c)) [] evs.
Proof. intros c evs T. rewrite step_lines by exact T. apply step_spec_attr_eq. Qed.

Theorem step_lines_off : forall c evs,
  stream_traced c = true -> c_modules c = false ->
  map p_idx (filter (fun p => match p_kind p with KLine => true | _ => false end) (prompts c (all Step) evs))
  = script_lines 0%nat [] evs.
Proof. intros c evs T M. rewrite step_lines_attr by exact T. apply step_spec_attr_off. exact M. Qed.
