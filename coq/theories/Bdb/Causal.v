(** The debugger is a transducer over a stream fixed in advance: the policy's commands change the
    debugger state only.  Formally: the run over [evs ++ later] is the run over [evs] followed by a run
    over [later] from the state reached -- nothing the commands do reaches back into [evs] or alters
    which events come next (they are the argument [later], universally quantified). *)
From NL Require Import Bdb.Model.
Open Scope list_scope.

Fixpoint final (c : cfg) (pol : policy) (i : nat) (st : state) (evs : list event) : state :=
  match evs with
  | [] => st
  | e :: r => let '(st', _, _) := step c pol i st e in final c pol (S i) st' r
  end.

Lemma run_from_app : forall c pol a b i st,
  run_from c pol i st (a ++ b) =
  (fst (run_from c pol i st a) ++ fst (run_from c pol (i + List.length a) (final c pol i st a) b),
   snd (run_from c pol i st a) ++ snd (run_from c pol (i + List.length a) (final c pol i st a) b)).
Proof.
  induction a as [|e r IH]; intros b i st; simpl.
  - rewrite Nat.add_0_r. destruct (run_from c pol i st b); reflexivity.
  - destruct (step c pol i st e) as [[st' p] tc]. rewrite IH.
    replace (S i + List.length r)%nat with (i + S (List.length r))%nat by lia.
    destruct (run_from c pol (S i) st' r) as [ps tcs]. simpl.
    destruct p; destruct tc; reflexivity.
Qed.

Theorem commands_do_not_feed_back : forall c pol evs later,
  exists rest_p rest_c,
    prompts c pol (evs ++ later) = prompts c pol evs ++ rest_p /\
    trace_calls c pol (evs ++ later) = trace_calls c pol evs ++ rest_c.
Proof.
  intros c pol evs later. unfold prompts, trace_calls, run. destruct (stream_traced c).
  - rewrite run_from_app. simpl. eexists; eexists; split; reflexivity.
  - exists [], []. split; reflexivity.
Qed.
