(** Tie of the filter chain of Bdb/Model.v to the source (part of the tie described in Bdb/Tie.v; a file of its own
    so that a change of filter.py / plugins/__init__.py / global_.py / utils.py is reported by these obligations
    without waiting for the debugger part): theorems about [filter_classes], [register_prog], [global_trace_prog],
    [local_trace_prog], [sys_trace_thread_guarded] of the REGENERATED Gen/BdbFuns.v, interpreted by Bdb/Interp.v. *)
From NL Require Import Bdb.Interp Gen.BdbFuns.
Open Scope Z_scope.
Open Scope string_scope.

(** ---- the filter chain *)
Definition fname_str (f : fname) : string :=
  match f with
  | FilterLambda => "FilterLambda" | FilterMainScript => "FilterMainScript"
  | FilterByModuleName => "FilterByModuleName" | FilerByModule => "FilerByModule"
  end.

(** each `filter` implementation, interpreted, is the model's [run_filter] *)
Lemma tie_filter_class : forall f c e s,
  match find_class (fname_str f) filter_classes with
  | Some k => run_class c e k s
  | None => None
  end = Some (run_filter c f e s).
Proof.
  intros. destruct s as [fi tr mo]. destruct f; cbn.
  - unfold dec_FilterLambda, obs_of; cbn. destruct (e_lam e); reflexivity.
  - unfold dec_FilterMainScript, obs_of, is_script; cbn. destruct (e_mc e); reflexivity.
  - unfold dec_FilterByModuleName, obs_of, is_skip; cbn. destruct (e_mc e); reflexivity.
  - unfold filer_by_module; cbn.
    destruct fi; cbn.
    + destruct tr; cbn; [reflexivity|]. destruct (existsb (Z.eqb (e_mod e)) mo); reflexivity.
    + destruct (c_entering c); cbn.
      * destruct (existsb (Z.eqb (e_mod e)) mo) eqn:X; cbn.
        -- destruct tr; cbn; [reflexivity|]. rewrite X. reflexivity.
        -- destruct tr; cbn; [reflexivity|]. rewrite Z.eqb_refl. reflexivity.
      * destruct tr; cbn; [reflexivity|]. destruct (existsb (Z.eqb (e_mod e)) mo); reflexivity.
Qed.

Definition class_of (f : fname) : option fclass := find_class (fname_str f) filter_classes.

Lemma run_class_eq : forall f k c e s, class_of f = Some k -> run_class c e k s = Some (run_filter c f e s).
Proof.
  intros f k c e s H. pose proof (tie_filter_class f c e s) as T. unfold class_of in H. rewrite H in T. exact T.
Qed.

Lemma ifirst_result_eq : forall c e fs ks,
  Forall2 (fun f k => class_of f = Some k) fs ks ->
  forall s, ifirst_result c e ks s = Some (first_result c fs e s).
Proof.
  intros c e fs ks F. induction F as [|f k fs ks H F IH]; intro s; cbn [ifirst_result first_result].
  - reflexivity.
  - rewrite (run_class_eq f k c e s H). destruct (run_filter c f e s) as [[b|] s1]; [reflexivity|]. apply IH.
Qed.

(** register(hook, run_arg), interpreted: the plugins implementing `filter`, in registration order, with trylast *)
Definition iregistered (modules : bool) : list (fclass * bool) :=
  impls filter_classes (registered_names modules register_prog).

(** the two translators agree on the registration order (Gen/ChildHookOrder.v is what Bdb/Model.v uses) *)
Lemma tie_registered : forall c,
  map (fun kt => (fc_name (fst kt), snd kt)) (iregistered (c_modules c))
  = map (fun ft => (fname_str (fst ft), snd ft)) (registered c).
Proof. intro c. unfold registered. destruct (c_modules c); reflexivity. Qed.

(** pluggy's LIFO / trylast-last order over the interpreted registration = the model's call order *)
Lemma tie_call_order : forall c,
  Forall2 (fun f k => class_of f = Some k) (call_order (registered c)) (pluggy_order (iregistered (c_modules c))).
Proof. intro c. unfold registered. destruct (c_modules c); repeat constructor. Qed.

(** the firstresult hook `filter` over the regenerated classes and registration program = the model's chain *)
Lemma tie_first_result : forall c e s,
  ichain filter_classes register_prog c e s = Some (first_result c (call_order (registered c)) e s).
Proof. intros. unfold ichain. apply ifirst_result_eq. apply tie_call_order. Qed.

(** GlobalTraceFunc.global_trace_func: rejected iff the hook's result is truthy; the `filtered` hook runs before
    the local trace function *)
Lemma tie_rejected : forall c e s,
  irejected filter_classes register_prog global_trace_prog c e s = Some (rejected c e s).
Proof.
  intros. unfold irejected, rejected. cbn [global_trace_prog gexec FUEL]. rewrite tie_first_result.
  destruct (first_result c (call_order (registered c)) e s) as [[[|]|] s1]; reflexivity.
Qed.

(** ... stated WITHOUT the other translator and without the plugins: in terms of the event's own attributes
    (the same specification as [accept_attr] of Bdb/Filters.v -- see Bdb/TieProps.v) *)
Definition enter_first_spec (c : cfg) (m : Z) (fs : fstate) : fstate :=
  if negb (f_first fs) && c_entering c
  then mkF true (f_traced fs) (if existsb (Z.eqb m) (f_mods fs) then f_mods fs else m :: f_mods fs)
  else fs.

Definition accept_spec (c : cfg) (e : event) (fs : fstate) : bool * fstate :=
  if c_modules c then
    match e_mc e with
    | MSkip => (false, fs)
    | _ => if e_lam e then (false, fs)
           else let fs1 := enter_first_spec c (e_mod e) fs in
                if f_traced fs1 then (true, fs1)
                else if existsb (Z.eqb (e_mod e)) (f_mods fs1) then (true, mkF (f_first fs1) true (f_mods fs1))
                else (false, fs1)
    end
  else (match e_mc e with MScript => negb (e_lam e) | _ => false end, fs).

Lemma tie_rejected_spec : forall c e s,
  irejected filter_classes register_prog global_trace_prog c e s
  = Some (negb (fst (accept_spec c e s)), snd (accept_spec c e s)).
Proof.
  intros. unfold irejected, ichain, accept_spec. destruct s as [fi tr mo].
  destruct (c_modules c); cbn.
  - unfold is_skip. destruct (e_mc e); cbn; try reflexivity;
      (destruct (e_lam e); cbn; [reflexivity|]);
      unfold enter_first_spec; cbn;
      (destruct fi; cbn;
       [ destruct tr; cbn; [reflexivity|]; destruct (existsb (Z.eqb (e_mod e)) mo); reflexivity
       | destruct (c_entering c); cbn;
         [ destruct (existsb (Z.eqb (e_mod e)) mo) eqn:X; cbn;
           [ destruct tr; cbn; [reflexivity|]; rewrite X; reflexivity
           | destruct tr; cbn; [reflexivity|]; rewrite Z.eqb_refl; reflexivity ]
         | destruct tr; cbn; [reflexivity|]; destruct (existsb (Z.eqb (e_mod e)) mo); reflexivity ] ]).
  - unfold is_script. destruct (e_lam e); destruct (e_mc e); reflexivity.
Qed.

(** a frame whose code name is <lambda> is rejected, whatever the configuration and the filter state *)
Lemma tie_lambda_rejected : forall c e s,
  e_lam e = true -> exists s1, irejected filter_classes register_prog global_trace_prog c e s = Some (true, s1).
Proof.
  intros c e s L. rewrite tie_rejected_spec. unfold accept_spec. rewrite L.
  destruct (c_modules c); destruct (e_mc e); cbn; eexists; reflexivity.
Qed.

(** WithContext._local_trace, called with a live next_trace (a fresh closure at a call event; a closure that stayed
    on the frame -- it stays only when it returned itself, i.e. when next_trace was not None): it does not raise, and
    the frame keeps the closure iff the wrapped trace function returned non-None *)
Lemma tie_local_trace : forall r, wexec FUEL local_trace_prog true r = Some r.
Proof. destruct r; reflexivity. Qed.

Lemma tie_sys_trace : sys_trace_thread_guarded = true.
Proof. reflexivity. Qed.

