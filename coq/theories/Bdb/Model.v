(** Executable model of where the spawned child prompts.  Definitions only.

    INPUT: the raw trace-event stream of ONE thread or asyncio task -- what
    CPython delivers to the global trace function (every [KCall]) and to the
    local trace function a frame has (every [KLine]/[KReturn]/[KException] of a
    frame whose f_trace is set).  The language semantics is an input.

    Mirrors (Python 3.12.1 and /repo):
      sysmodule.c trace_trampoline  a non-None result of the trace function
                                    replaces frame.f_trace, None leaves it
      call.py sys_trace             threading.settrace only if trace_threads
      global_.py GlobalTraceFunc    truthy result of the firstresult hook
                                    `filter` = rejected
      pluggy firstresult            implementations called in LIFO order of
                                    registration, trylast ones last; the
                                    first non-None result wins
      filter.py                     dec_* GENERATED in Gen/ChildHookOrder.v,
                                    FilerByModule.filter by hand (pinned)
      local_.py / utils.py          WithContext: a fresh closure per call
                                    event around Pdb.trace_dispatch
      bdb.py                        trace_dispatch, dispatch_*, stop_here,
                                    _set_stopinfo, set_step/next/return/until
      pdb.py                        user_call/line/return/exception,
                                    interaction, get_stack (choice of curframe)
      pdb_/custom.py CustomizedPdb  botframe = None, _set_stopinfo(None, None),
                                    set_continue without sys.settrace(None)
      pdb_/factory.py CmdloopHook   no prompt outside a WithContext call
    No breakpoints are ever set: break_here / break_anywhere are false. *)
From Coq Require Export List ZArith Bool Arith Lia String.
From NL Require Export Gen.ChildHookOrder Gen.SkipList.
Export ListNotations.
Open Scope Z_scope.

Inductive kind := KCall | KLine | KReturn | KException.
Inductive mclass := MScript | MLib | MSkip | MNextline.

(** the [arg] of an exception event, as far as bdb/pdb look at it *)
Record exinfo := mkX {
  x_stopiter : bool;       (* arg[0] is StopIteration *)
  x_genexit : bool;        (* arg[0] is GeneratorExit *)
  x_tbnone : bool;         (* arg[2] is None *)
  x_tbf : option Z;        (* innermost frame of the traceback arg[2] *)
  x_tbline : Z;            (* its line *)
  x_tbpar : option Z;      (* its f_back (it may be a frame of another thread/task: the exception of a task
                              re-raised by `await`) *)
  x_tbgen : bool           (* its generator flag *)
}.
Definition noX := mkX false false false None 0 None false.

Record event := mkE {
  e_kind : kind;
  e_fid : Z;               (* frame identity *)
  e_par : option Z;        (* frame.f_back at this event *)
  e_line : Z;              (* frame.f_lineno *)
  e_mc : mclass;           (* class of frame.f_globals['__name__'] *)
  e_mod : Z;               (* identity of that module name *)
  e_lam : bool;            (* frame.f_code.co_name == '<lambda>' *)
  e_gen : bool;            (* co_flags & (CO_GENERATOR|CO_COROUTINE|CO_ASYNC_GENERATOR) *)
  e_x : exinfo
}.

Inductive cmd := Step | Next | Return | Until | Continue.

(** run configuration and environment of the stream *)
Record cfg := mkC {
  c_threads : bool;        (* run_arg.trace_threads *)
  c_modules : bool;        (* run_arg.trace_modules *)
  c_main : bool;           (* the stream runs in the main thread *)
  c_entering : bool;       (* FilerByModule: this stream adds the first module *)
  c_mods0 : list Z         (* FilerByModule._modules_to_trace contributed by other streams *)
}.

(** ---- lookup tables *)
Fixpoint lookup {A} (k : Z) (l : list (Z * A)) : option A :=
  match l with [] => None | (k', v) :: r => if Z.eqb k k' then Some v else lookup k r end.

Definition oeqb (a b : option Z) : bool :=
  match a, b with Some x, Some y => Z.eqb x y | None, None => true | _, _ => false end.

(** ---- the filter chain *)

(** pluggy: hook implementations are called in reverse order of registration,
    the trylast ones after the others (no tryfirst / wrappers here) *)
Definition call_order (regs : list (fname * bool)) : list fname :=
  rev (map fst (filter (fun r => negb (snd r)) regs)) ++ rev (map fst (filter (fun r => snd r) regs)).

Record fstate := mkF { f_first : bool; f_traced : bool; f_mods : list Z }.

(** filter.py FilerByModule.filter.  [on_cmdloop] also adds the module of every
    prompt to _modules_to_trace; inside one stream that is without effect (a
    prompt needs an accepted event, which puts the stream into
    _traced_tasks_and_threads for good); for OTHER streams it is their [c_mods0]. *)
Definition filer_by_module (c : cfg) (m : Z) (s : fstate) : option bool * fstate :=
  let s1 := if negb (f_first s) && c_entering c
            then mkF true (f_traced s) (if existsb (Z.eqb m) (f_mods s) then f_mods s else m :: f_mods s)
            else s in
  if f_traced s1 then (None, s1)
  else if existsb (Z.eqb m) (f_mods s1) then (None, mkF (f_first s1) true (f_mods s1))
  else (Some true, s1).

Definition obs_of (e : event) : obs :=
  mkObs (e_lam e) (match e_mc e with MScript => true | _ => false end)
        (match e_mc e with MSkip => true | _ => false end).

Definition run_filter (c : cfg) (f : fname) (e : event) (s : fstate) : option bool * fstate :=
  match f with
  | FilterLambda => (dec_FilterLambda (obs_of e), s)
  | FilterMainScript => (dec_FilterMainScript (obs_of e), s)
  | FilterByModuleName => (dec_FilterByModuleName (obs_of e), s)
  | FilerByModule => filer_by_module c (e_mod e) s
  end.

(** firstresult: stop at the first non-None result *)
Fixpoint first_result (c : cfg) (fs : list fname) (e : event) (s : fstate) : option bool * fstate :=
  match fs with
  | [] => (None, s)
  | f :: r => match run_filter c f e s with
              | (Some b, s') => (Some b, s')
              | (None, s') => first_result c r e s'
              end
  end.

Definition registered (c : cfg) : list (fname * bool) :=
  if c_modules c then reg_modules_on else reg_modules_off.

(** GlobalTraceFunc: `if hook.filter(...): return None` *)
Definition rejected (c : cfg) (e : event) (s : fstate) : bool * fstate :=
  match first_result c (call_order (registered c)) e s with
  | (Some true, s') => (true, s')
  | (_, s') => (false, s')
  end.

(** ---- the debugger *)
Record dbg := mkD {
  botframe : option Z;
  stopframe : option Z;
  returnframe : option Z;
  stoplineno : Z
}.

Inductive tstatus := Wrapped | Raw.
(* Wrapped: f_trace is a WithContext closure; Raw: f_trace is Pdb.trace_dispatch
   itself (set by Bdb.set_step for the caller of a returning frame) *)

Record state := mkS {
  s_dbg : dbg;
  s_status : list (Z * tstatus);               (* frames with f_trace set *)
  s_info : list (Z * (option Z * bool));       (* frame -> (f_back at its last call event, generator flag) *)
  s_filter : fstate;
  s_nprompt : nat
}.

Record prompt := mkP { p_idx : nat; p_kind : kind; p_line : Z; p_fid : Z }.

(** CustomizedPdb.__init__: botframe = None; _set_stopinfo(None, None) *)
Definition init (c : cfg) : state :=
  mkS (mkD None None None 0) [] [] (mkF false false (c_mods0 c)) 0.

Definition set_stopinfo (d : dbg) (sf rf : option Z) (ln : Z) : dbg := mkD (botframe d) sf rf ln.

(** Bdb.stop_here (skip is None) *)
Definition stop_here (d : dbg) (f : Z) (line : Z) : bool :=
  match stopframe d with
  | Some s => if Z.eqb f s then (if Z.eqb (stoplineno d) (-1) then false else Z.leb (stoplineno d) line) else false
  | None => true
  end.

Definition gen_of (st : state) (f : Z) : bool :=
  match lookup f (s_info st) with Some (_, g) => g | None => false end.
Definition parent_of (st : state) (f : Z) : option Z :=
  match lookup f (s_info st) with Some (p, _) => p | None => None end.

(** Pdb.get_stack walks f_back from the event frame; true iff it meets botframe *)
Fixpoint chain_up (fuel : nat) (info : list (Z * (option Z * bool))) (bot : option Z) (f : Z) : bool :=
  match fuel with
  | O => false
  | S n => if oeqb (Some f) bot then true
           else match lookup f info with Some (Some p, _) => chain_up n info bot p | _ => false end
  end.
Definition on_chain (st : state) (e : event) : bool :=
  if oeqb (Some (e_fid e)) (botframe (s_dbg st)) then true
  else match e_par e with
       | Some p => chain_up (S (List.length (s_info st))) (s_info st) (botframe (s_dbg st)) p
       | None => false
       end.

(** the frame Pdb.interaction selects (curframe), with its f_lineno, f_back, generator flag:
    the event frame, except at an exception event whose traceback goes deeper, when botframe
    is not on the f_back chain (get_stack then selects the innermost traceback frame) *)
Definition curframe (st : state) (e : event) : Z * Z * option Z * bool :=
  match e_kind e, x_tbf (e_x e) with
  | KException, Some t =>
      if negb (Z.eqb t (e_fid e)) && negb (on_chain st e)
      then (t, x_tbline (e_x e), x_tbpar (e_x e), x_tbgen (e_x e))
      else (e_fid e, e_line e, e_par e, e_gen e)
  | _, _ => (e_fid e, e_line e, e_par e, e_gen e)
  end.

(** the do_* commands: Bdb.set_step / set_next / set_return / set_until and the overridden set_continue *)
Definition apply_cmd (c : cmd) (st : state) (e : event) (returning : bool) : state :=
  let d := s_dbg st in
  let '(cur, curline, curpar, curgen) := curframe st e in
  match c with
  | Step =>
      (* frame_returning: give the caller a trace function if it has none *)
      let status' :=
        if returning then
          match e_par e with
          | Some p => match lookup p (s_status st) with None => (p, Raw) :: s_status st | Some _ => s_status st end
          | None => s_status st
          end
        else s_status st in
      mkS (set_stopinfo d None None 0) status' (s_info st) (s_filter st) (s_nprompt st)
  | Next => mkS (set_stopinfo d (Some cur) None 0) (s_status st) (s_info st) (s_filter st) (s_nprompt st)
  | Return =>
      if curgen then mkS (set_stopinfo d (Some cur) None (-1)) (s_status st) (s_info st) (s_filter st) (s_nprompt st)
      else mkS (set_stopinfo d curpar (Some cur) 0) (s_status st) (s_info st) (s_filter st) (s_nprompt st)
  | Until => mkS (set_stopinfo d (Some cur) (Some cur) (curline + 1)) (s_status st) (s_info st) (s_filter st) (s_nprompt st)
  | Continue => mkS (set_stopinfo d (botframe d) None (-1)) (s_status st) (s_info st) (s_filter st) (s_nprompt st)
  end.

Definition policy := nat -> event -> cmd.

(** Pdb.interaction -> cmdloop -> one prompt, answered by the policy.  Outside a WithContext call
    (wrapped = false) CmdloopHook raises NotOnTraceCall: no prompt, no command. *)
Definition interaction (pol : policy) (i : nat) (wrapped : bool) (returning : bool) (st : state) (e : event)
  : state * option prompt :=
  if wrapped then
    let n := s_nprompt st in
    let st1 := mkS (s_dbg st) (s_status st) (s_info st) (s_filter st) (S n) in
    (apply_cmd (pol n e) st1 e returning, Some (mkP i (e_kind e) (e_line e) (e_fid e)))
  else (st, None).

Definition set_dbg (st : state) (d : dbg) : state :=
  mkS d (s_status st) (s_info st) (s_filter st) (s_nprompt st).
Definition set_status (st : state) (f : Z) (t : tstatus) : state :=
  mkS (s_dbg st) ((f, t) :: s_status st) (s_info st) (s_filter st) (s_nprompt st).

(** Bdb.dispatch_call + Pdb.user_call; the bool is the trace function's result being non-None *)
Definition dispatch_call (pol : policy) (i : nat) (st : state) (e : event) : state * option prompt * bool :=
  let d := s_dbg st in
  match botframe d with
  | None => (set_dbg st (mkD (e_par e) (stopframe d) (returnframe d) (stoplineno d)), None, true)
  | Some _ =>
      if negb (stop_here d (e_fid e) (e_line e)) then (st, None, false)
      else if (match stopframe d with Some _ => true | None => false end) && e_gen e then (st, None, true)
      else let '(st', p) := interaction pol i true false st e in (st', p, true)
  end.

Definition dispatch_line (pol : policy) (i : nat) (w : bool) (st : state) (e : event) : state * option prompt :=
  if stop_here (s_dbg st) (e_fid e) (e_line e) then interaction pol i w false st e else (st, None).

Definition dispatch_return (pol : policy) (i : nat) (w : bool) (st : state) (e : event) : state * option prompt :=
  let d := s_dbg st in
  if stop_here d (e_fid e) (e_line e) || oeqb (Some (e_fid e)) (returnframe d) then
    if (match stopframe d with Some _ => true | None => false end) && e_gen e then (st, None)
    else
      let '(st', p) := interaction pol i w true st e in
      let d' := s_dbg st' in
      if oeqb (stopframe d') (Some (e_fid e)) && negb (Z.eqb (stoplineno d') (-1))
      then (set_dbg st' (set_stopinfo d' None None 0), p)
      else (st', p)
  else (st, None).

Definition dispatch_exception (pol : policy) (i : nat) (w : bool) (st : state) (e : event) : state * option prompt :=
  let d := s_dbg st in
  let x := e_x e in
  if stop_here d (e_fid e) (e_line e) then
    if e_gen e && x_stopiter x && x_tbnone x then (st, None)
    else interaction pol i w false st e
  else
    match stopframe d with
    | Some s =>
        if negb (Z.eqb (e_fid e) s) && gen_of st s && (x_stopiter x || x_genexit x)
        then interaction pol i w false st e else (st, None)
    | None => (st, None)
    end.

(** one raw event.  Result: new state, the prompt if any, and whether the event reached a
    WithContext-wrapped trace function (an OnStartTraceCall event of the real code). *)
Definition step (c : cfg) (pol : policy) (i : nat) (st : state) (e : event) : state * option prompt * bool :=
  match e_kind e with
  | KCall =>
      let st0 := mkS (s_dbg st) (s_status st) ((e_fid e, (e_par e, e_gen e)) :: s_info st) (s_filter st) (s_nprompt st) in
      let '(rej, fs) := rejected c e (s_filter st0) in
      let st1 := mkS (s_dbg st0) (s_status st0) (s_info st0) fs (s_nprompt st0) in
      if rej then (st1, None, false)
      else
        let '(st2, p, traced) := dispatch_call pol i st1 e in
        (if traced then set_status st2 (e_fid e) Wrapped else st2, p, true)
  | k =>
      match lookup (e_fid e) (s_status st) with
      | None => (st, None, false)
      | Some t =>
          let w := match t with Wrapped => true | Raw => false end in
          let '(st', p) :=
            match k with
            | KLine => dispatch_line pol i w st e
            | KReturn => dispatch_return pol i w st e
            | _ => dispatch_exception pol i w st e
            end in
          (st', p, w)
      end
  end.

(** sys_trace: a thread other than the main one has a trace function only if trace_threads *)
Definition stream_traced (c : cfg) : bool := c_main c || c_threads c.

Fixpoint run_from (c : cfg) (pol : policy) (i : nat) (st : state) (evs : list event)
  : list prompt * list nat :=
  match evs with
  | [] => ([], [])
  | e :: r =>
      let '(st', p, tc) := step c pol i st e in
      let '(ps, tcs) := run_from c pol (S i) st' r in
      ((match p with Some x => x :: ps | None => ps end), (if tc then i :: tcs else tcs))
  end.

Definition run (c : cfg) (pol : policy) (evs : list event) : list prompt * list nat :=
  if stream_traced c then run_from c pol 0%nat (init c) evs else ([], []).

Definition prompts (c : cfg) (pol : policy) (evs : list event) : list prompt := fst (run c pol evs).
Definition trace_calls (c : cfg) (pol : policy) (evs : list event) : list nat := snd (run c pol evs).

Definition all (k : cmd) : policy := fun _ _ => k.
(** the commands actually given, then [dflt] *)
Definition seq_policy (cs : list cmd) (dflt : cmd) : policy := fun n _ => nth n cs dflt.

(** ---- module names -> classes (the harness gives names; the skip decision is made here,
    from the GENERATED pattern list) *)
Definition ends_dot_star (p : string) : option string :=
  let n := String.length p in
  if (2 <=? n)%nat && String.eqb (substring (n - 2) 2 p) ".*" then Some (substring 0 (n - 1) p) else None.

(** fnmatch for the two pattern shapes the translator lets through *)
Definition fnmatch (name pat : string) : bool :=
  match ends_dot_star pat with
  | Some pre => String.prefix pre name         (* "asyncio.*" matches "asyncio.x" *)
  | None => String.eqb name pat
  end.

Definition classify (name : string) : mclass :=
  if String.eqb name script_module then MScript
  else if existsb (fnmatch name) modules_to_skip then MSkip
  else if String.eqb name "nextline" || String.prefix "nextline." name then MNextline
  else MLib.

(** ---- correspondence format: events as tuples of numbers, module names in a table *)
Definition kind_of (z : Z) : kind :=
  if z =? 0 then KCall else if z =? 1 then KLine else if z =? 2 then KReturn else KException.
Definition opt_of (z : Z) : option Z := if z <? 0 then None else Some z.

(* (kind, fid, parent|-1, line, module index, flags: 1 lambda 2 generator 4 StopIteration 8 GeneratorExit 16 tb None
   32 tb frame is a generator, tb frame|-1, tb line, f_back of the tb frame|-1) *)
Definition raw := (Z * Z * Z * Z * Z * Z * Z * Z * Z)%type.

Definition mk_event (classes : list mclass) (r : raw) : event :=
  let '(k, f, p, l, m, fl, tf, tl, tp) := r in
  mkE (kind_of k) f (opt_of p) l (nth (Z.to_nat m) classes MLib) m
      (Z.testbit fl 0) (Z.testbit fl 1)
      (mkX (Z.testbit fl 2) (Z.testbit fl 3) (Z.testbit fl 4) (opt_of tf) tl (opt_of tp) (Z.testbit fl 5)).

Definition cmd_of (z : Z) : cmd :=
  if z =? 0 then Step else if z =? 1 then Next else if z =? 2 then Return else if z =? 3 then Until else Continue.

Definition kind_code (k : kind) : Z := match k with KCall => 0 | KLine => 1 | KReturn => 2 | KException => 3 end.

Record case := mkCase {
  k_cfg : cfg;
  k_mods : list string;
  k_cmds : list Z;
  k_events : list raw;
  k_prompts : list (Z * Z);          (* observed: (kind, line) of every OnStartPrompt of the trace *)
  k_calls : list (Z * Z);            (* observed: (kind, line) of every OnStartTraceCall of the trace *)
  k_check_calls : bool
}.

Fixpoint zz_eqb (a b : list (Z * Z)) : bool :=
  match a, b with
  | [], [] => true
  | (x1, y1) :: r1, (x2, y2) :: r2 => Z.eqb x1 x2 && Z.eqb y1 y2 && zz_eqb r1 r2
  | _, _ => false
  end.

Definition case_events (k : case) : list event := map (mk_event (map classify (k_mods k))) (k_events k).

Definition case_ok (k : case) : bool :=
  let evs := case_events k in
  let pol := seq_policy (map cmd_of (k_cmds k)) Continue in
  let '(ps, tcs) := run (k_cfg k) pol evs in
  zz_eqb (map (fun p => (kind_code (p_kind p), p_line p)) ps) (k_prompts k)
  && (negb (k_check_calls k)
      || zz_eqb (map (fun i => match nth_error evs i with
                               | Some e => (kind_code (e_kind e), e_line e) | None => (-1, -1) end) tcs) (k_calls k)).

Fixpoint bad_from (n : nat) (cases : list case) : list nat :=
  match cases with
  | [] => []
  | k :: r => if case_ok k then bad_from (S n) r else n :: bad_from (S n) r
  end.
