(** Where prompts can occur: every prompt is at an event of the stream, in a frame the filter
    chain accepted.  Holds for every stream, every policy. *)
From NL Require Import Bdb.Model Bdb.Basics.
Open Scope Z_scope.

(** what the filter chain (in the GENERATED registration order) lets through *)
Definition ok_attrs (c : cfg) (e : event) : Prop :=
  e_lam e = false /\ (if c_modules c then e_mc e <> MSkip else e_mc e = MScript).

Lemma rejected_false_attrs : forall c e fs, fst (rejected c e fs) = false -> ok_attrs c e.
Proof.
  intros c e fs H. unfold ok_attrs. unfold rejected, registered in H.
  destruct (c_modules c).
  - change (call_order reg_modules_on) with [FilterByModuleName; FilterLambda; FilerByModule] in H.
    cbn [first_result run_filter] in H. unfold dec_FilterByModuleName, dec_FilterLambda, obs_of in H. cbn [o_skip o_lambda] in H.
    destruct (e_mc e); cbn in H; try discriminate; destruct (e_lam e); cbn in H; try discriminate; split; congruence.
  - change (call_order reg_modules_off) with [FilterLambda; FilterMainScript] in H.
    cbn [first_result run_filter] in H. unfold dec_FilterMainScript, dec_FilterLambda, obs_of in H. cbn [o_script o_lambda] in H.
    destruct (e_lam e); cbn in H; try discriminate; destruct (e_mc e); cbn in H; try discriminate; split; reflexivity.
Qed.

(** the attributes of a frame do not change during its life *)
Definition frame_attrs_const (evs : list event) : Prop :=
  forall e1 e2, In e1 evs -> In e2 evs -> e_fid e1 = e_fid e2 -> e_mc e1 = e_mc e2 /\ e_lam e1 = e_lam e2.

Lemma ok_attrs_transfer : forall c e1 e2, e_mc e1 = e_mc e2 -> e_lam e1 = e_lam e2 -> ok_attrs c e1 -> ok_attrs c e2.
Proof. intros c e1 e2 H1 H2. unfold ok_attrs. rewrite H1, H2. auto. Qed.

Section Run.
Variable c : cfg.
Variable pol : policy.
Variable all_evs : list event.
Hypothesis CONST : frame_attrs_const all_evs.

Definition inv (st : state) : Prop :=
  forall f, lookup f (s_status st) = Some Wrapped -> forall e, In e all_evs -> e_fid e = f -> ok_attrs c e.

Lemma run_from_prompts : forall suf i st,
  (forall e, In e suf -> In e all_evs) -> inv st ->
  forall p, In p (fst (run_from c pol i st suf)) ->
  exists e, nth_error suf (p_idx p - i) = Some e /\ (i <= p_idx p)%nat /\
            p = mkP (p_idx p) (e_kind e) (e_line e) (e_fid e) /\ ok_attrs c e.
Proof.
  induction suf as [|e r IH]; intros i st SUB INV p HP.
  - simpl in HP. contradiction.
  - simpl in HP. destruct (step c pol i st e) as [[st' op] tc] eqn:ST.
    destruct (run_from c pol (S i) st' r) as [ps tcs] eqn:R. simpl in HP.
    pose proof (step_facts _ _ _ _ _ _ _ _ ST) as [F1 F2].
    assert (INe : In e all_evs) by (apply SUB; left; reflexivity).
    assert (INV' : inv st').
    { intros f Hf e' He' Hfe'. destruct (F2 f Hf) as [Hold | (Hf1 & Hk & Hrej)].
      - eapply INV; eauto.
      - apply rejected_false_attrs in Hrej. rewrite Hf1 in Hfe'.
        destruct (CONST e e' INe He' (eq_sym Hfe')) as [A B]. eapply ok_attrs_transfer; eauto. }
    assert (TAIL : forall q, In q ps -> exists e0, nth_error (e :: r) (p_idx q - i) = Some e0 /\ (i <= p_idx q)%nat /\
                    q = mkP (p_idx q) (e_kind e0) (e_line e0) (e_fid e0) /\ ok_attrs c e0).
    { intros q Hq. specialize (IH (S i) st' (fun x Hx => SUB x (or_intror Hx)) INV' q).
      rewrite R in IH. specialize (IH Hq). destruct IH as (e0 & N & LE & EQ & OK).
      exists e0. split; [| split; [lia | split; [exact EQ | exact OK]]].
      replace (p_idx q - i)%nat with (S (p_idx q - S i))%nat by lia. exact N. }
    destruct op as [p0|]; [| apply TAIL; exact HP].
    destruct HP as [HP | HP]; [| apply TAIL; exact HP].
    subst p0. destruct (F1 p eq_refl) as [EQ K]. exists e. rewrite EQ. simpl.
    replace (i - i)%nat with 0%nat by lia. split; [reflexivity|]. split; [lia|]. split; [reflexivity|].
    destruct (e_kind e).
    + apply rejected_false_attrs in K. exact K.
    + eapply INV; eauto.
    + eapply INV; eauto.
    + eapply INV; eauto.
Qed.
End Run.

Theorem prompts_at_accepted_events : forall c pol evs p,
  frame_attrs_const evs -> In p (prompts c pol evs) ->
  exists e, nth_error evs (p_idx p) = Some e /\ p = mkP (p_idx p) (e_kind e) (e_line e) (e_fid e) /\ ok_attrs c e.
Proof.
  intros c pol evs p CONST HP. unfold prompts, run in HP. destruct (stream_traced c); [| simpl in HP; contradiction].
  destruct (run_from_prompts c pol evs CONST evs 0%nat (init c) (fun e H => H)) with (p := p) as (e & N & _ & EQ & OK).
  - intros f Hf. simpl in Hf. discriminate.
  - exact HP.
  - exists e. rewrite Nat.sub_0_r in N. auto.
Qed.

(** sys_trace: no trace function in other threads when trace_threads is off *)
Theorem no_prompt_in_untraced_thread : forall c pol evs,
  c_threads c = false -> c_main c = false -> prompts c pol evs = [] /\ trace_calls c pol evs = [].
Proof. intros c pol evs H1 H2. unfold prompts, trace_calls, run, stream_traced. rewrite H1, H2. simpl. auto. Qed.

Theorem filters_full : forall c pol evs p,
  frame_attrs_const evs -> In p (prompts c pol evs) ->
  exists e, nth_error evs (p_idx p) = Some e /\
            p_kind p = e_kind e /\ p_line p = e_line e /\ p_fid p = e_fid e /\
            e_lam e = false /\
            (c_modules c = false -> e_mc e = MScript) /\
            (c_modules c = true -> e_mc e <> MSkip).
Proof.
  intros c pol evs p CONST HP. destruct (prompts_at_accepted_events c pol evs p CONST HP) as (e & N & EQ & OK).
  exists e. split; [exact N|]. rewrite EQ; simpl.
  split; [reflexivity|]. split; [reflexivity|]. split; [reflexivity|].
  unfold ok_attrs in OK. destruct OK as [L M]. split; [exact L|]. split; intro X; rewrite X in M; exact M.
Qed.

(** ---- completeness of the filter chain, in terms of the event's own attributes only.
    [accept_attr] does not mention the plugins, their order or pluggy: with module tracing off an event is
    accepted iff it is in the script module and not in a lambda; with module tracing on iff it is not
    skip-listed, not in a lambda, and its thread/task has been entered: already traced, or its module is one
    of the modules to trace (the first module of the entering thread is one). *)
Definition enter_first (c : cfg) (m : Z) (fs : fstate) : fstate :=
  if negb (f_first fs) && c_entering c
  then mkF true (f_traced fs) (if existsb (Z.eqb m) (f_mods fs) then f_mods fs else m :: f_mods fs)
  else fs.

Definition accept_attr (c : cfg) (e : event) (fs : fstate) : bool * fstate :=
  if c_modules c then
    match e_mc e with
    | MSkip => (false, fs)
    | _ => if e_lam e then (false, fs)
           else let fs1 := enter_first c (e_mod e) fs in
                if f_traced fs1 then (true, fs1)
                else if existsb (Z.eqb (e_mod e)) (f_mods fs1) then (true, mkF (f_first fs1) true (f_mods fs1))
                else (false, fs1)
    end
  else (match e_mc e with MScript => negb (e_lam e) | _ => false end, fs).

Theorem filter_complete : forall c e fs,
  rejected c e fs = (negb (fst (accept_attr c e fs)), snd (accept_attr c e fs)).
Proof.
  intros c e fs. unfold rejected, registered, accept_attr.
  destruct (c_modules c).
  - change (call_order reg_modules_on) with [FilterByModuleName; FilterLambda; FilerByModule].
    cbn [first_result run_filter]. unfold dec_FilterByModuleName, dec_FilterLambda, obs_of. cbn [o_skip o_lambda].
    destruct (e_mc e); cbn; try reflexivity; destruct (e_lam e); cbn; try reflexivity;
      unfold filer_by_module, enter_first;
      destruct (negb (f_first fs) && c_entering c); cbn;
      repeat match goal with |- context[if ?b then _ else _] => destruct b; cbn end; reflexivity.
  - change (call_order reg_modules_off) with [FilterLambda; FilterMainScript].
    cbn [first_result run_filter]. unfold dec_FilterMainScript, dec_FilterLambda, obs_of. cbn [o_script o_lambda].
    destruct (e_lam e); destruct (e_mc e); reflexivity.
Qed.

Corollary accepted_modules_off : forall c e fs,
  c_modules c = false -> e_mc e = MScript -> e_lam e = false -> fst (rejected c e fs) = false.
Proof.
  intros c e fs M S L. rewrite filter_complete. unfold accept_attr. rewrite M, S, L. reflexivity.
Qed.

Corollary accepted_modules_on : forall c e fs,
  c_modules c = true -> e_mc e <> MSkip -> e_lam e = false ->
  (f_traced fs = true \/ existsb (Z.eqb (e_mod e)) (f_mods fs) = true \/ (f_first fs = false /\ c_entering c = true)) ->
  fst (rejected c e fs) = false.
Proof.
  intros c e fs M S L H. rewrite filter_complete. unfold accept_attr. rewrite M, L.
  assert (A : fst (let fs1 := enter_first c (e_mod e) fs in
                   if f_traced fs1 then (true, fs1)
                   else if existsb (Z.eqb (e_mod e)) (f_mods fs1) then (true, mkF (f_first fs1) true (f_mods fs1))
                   else (false, fs1)) = true).
  { cbv zeta. unfold enter_first. destruct (negb (f_first fs) && c_entering c) eqn:E; cbn.
    - destruct (f_traced fs); [reflexivity|].
      destruct (existsb (Z.eqb (e_mod e)) (f_mods fs)) eqn:X; cbn; [rewrite X; reflexivity|].
      rewrite Z.eqb_refl. reflexivity.
    - destruct H as [H|[H|[H1 H2]]].
      + rewrite H. reflexivity.
      + rewrite H. destruct (f_traced fs); reflexivity.
      + rewrite H1, H2 in E. discriminate. }
  cbv zeta in A. cbv zeta.
  destruct (e_mc e); cbn [fst]; try (rewrite A; reflexivity). exfalso; apply S; reflexivity.
Qed.
