(** all-next: the debugger refines a small specification whose state is a function of the history:
    the filter state, the set of frames that got a trace function, whether a first accepted call has
    happened, the frame being stepped ([None] = stop at the next event of any traced frame / accepted
    call), and the generator flag of every frame entered so far.
    Hypothesis (excludes known finding 3): at every event the frame Pdb selects is the event's frame
    ([simple_tb]: the traceback of an exception event does not go into another frame). *)
From NL Require Import Bdb.Model Bdb.Basics.
Open Scope Z_scope.
Open Scope list_scope.

Record nspec := mkN {
  n_fs : fstate;
  n_traced : list Z;
  n_bot : bool;
  n_sf : option Z;
  n_info : list (Z * bool)
}.

Definition is_some {A} (o : option A) : bool := match o with Some _ => true | None => false end.

(** would the debugger stop in frame [f] at [line] while stepping frame [sf] *)
Definition stops (sf : option Z) (f line : Z) : bool :=
  match sf with None => true | Some s => Z.eqb f s && Z.leb 0 line end.

Definition ginfo (info : list (Z * bool)) (f : Z) : bool :=
  match lookup f info with Some g => g | None => false end.

Definition n_init (c : cfg) : nspec := mkN (s_filter (init c)) [] false None [].

Definition with_sf (s : nspec) (sf : option Z) : nspec := mkN (n_fs s) (n_traced s) (n_bot s) sf (n_info s).

Definition next_step (c : cfg) (i : nat) (s : nspec) (e : event) : nspec * option prompt :=
  let pr := Some (mkP i (e_kind e) (e_line e) (e_fid e)) in
  let f := e_fid e in
  let traced := existsb (Z.eqb f) (n_traced s) in
  match e_kind e with
  | KCall =>
      let info' := (f, e_gen e) :: n_info s in
      let '(rej, fs') := rejected c e (n_fs s) in
      if rej then (mkN fs' (n_traced s) (n_bot s) (n_sf s) info', None)
      else if negb (n_bot s) then (mkN fs' (f :: n_traced s) (is_some (e_par e)) (n_sf s) info', None)
      else if negb (stops (n_sf s) f (e_line e)) then (mkN fs' (n_traced s) true (n_sf s) info', None)
      else if is_some (n_sf s) && e_gen e then (mkN fs' (f :: n_traced s) true (n_sf s) info', None)
      else (mkN fs' (f :: n_traced s) true (Some f) info', pr)
  | KLine =>
      if traced && stops (n_sf s) f (e_line e) then (with_sf s (Some f), pr) else (s, None)
  | KReturn =>
      if traced && stops (n_sf s) f (e_line e) then
        if is_some (n_sf s) && e_gen e then (s, None) else (with_sf s None, pr)
      else (s, None)
  | KException =>
      if traced then
        if stops (n_sf s) f (e_line e) then
          if e_gen e && x_stopiter (e_x e) && x_tbnone (e_x e) then (s, None) else (with_sf s (Some f), pr)
        else match n_sf s with
             | Some s0 => if negb (Z.eqb f s0) && ginfo (n_info s) s0 && (x_stopiter (e_x e) || x_genexit (e_x e))
                          then (with_sf s (Some f), pr) else (s, None)
             | None => (s, None)
             end
      else (s, None)
  end.

Fixpoint next_spec_from (c : cfg) (i : nat) (s : nspec) (evs : list event) : list prompt :=
  match evs with
  | [] => []
  | e :: r => let '(s', p) := next_step c i s e in
              match p with Some x => x :: next_spec_from c (S i) s' r | None => next_spec_from c (S i) s' r end
  end.

Definition next_spec (c : cfg) (evs : list event) : list prompt :=
  if stream_traced c then next_spec_from c 0%nat (n_init c) evs else [].

Definition simple_tb (e : event) : Prop :=
  match x_tbf (e_x e) with Some t => t = e_fid e | None => True end.

(** ---- the simulation relation *)
Record R (st : state) (s : nspec) : Prop := mkR {
  r_fs : s_filter st = n_fs s;
  r_status : forall f, lookup f (s_status st) = if existsb (Z.eqb f) (n_traced s) then Some Wrapped else None;
  r_bot : is_some (botframe (s_dbg st)) = n_bot s;
  r_sf : stopframe (s_dbg st) = n_sf s;
  r_rf : returnframe (s_dbg st) = None;
  r_ln : stoplineno (s_dbg st) = 0;
  r_gen : forall f, gen_of st f = ginfo (n_info s) f
}.

Lemma R_stop : forall st s f l, R st s -> stop_here (s_dbg st) f l = stops (n_sf s) f l.
Proof.
  intros st s f l H. unfold stop_here, stops. rewrite (r_sf _ _ H), (r_ln _ _ H).
  destruct (n_sf s); [|reflexivity]. destruct (Z.eqb f z); reflexivity.
Qed.

Lemma curframe_simple : forall st e, simple_tb e -> curframe st e = (e_fid e, e_line e, e_par e, e_gen e).
Proof.
  intros st e H. unfold curframe, simple_tb in *. destruct (e_kind e); try reflexivity.
  destruct (x_tbf (e_x e)); [|reflexivity]. subst z. rewrite Z.eqb_refl. reflexivity.
Qed.

Lemma inter_next : forall i r st e,
  simple_tb e ->
  interaction (all Next) i true r st e =
  (mkS (set_stopinfo (s_dbg st) (Some (e_fid e)) None 0) (s_status st) (s_info st) (s_filter st) (S (s_nprompt st)),
   Some (mkP i (e_kind e) (e_line e) (e_fid e))).
Proof.
  intros i r st e H. unfold interaction, all, apply_cmd. rewrite (curframe_simple _ e H). reflexivity.
Qed.

Lemma R_with_sf : forall st s sf n,
  R st s ->
  R (mkS (set_stopinfo (s_dbg st) sf None 0) (s_status st) (s_info st) (s_filter st) n) (with_sf s sf).
Proof.
  intros st s sf n H. destruct H. constructor; simpl; auto.
Qed.

Lemma existsb_cons_eq : forall f g l, existsb (Z.eqb f) (g :: l) = Z.eqb f g || existsb (Z.eqb f) l.
Proof. reflexivity. Qed.

Lemma step_next : forall c i st s e,
  R st s -> simple_tb e ->
  exists st' tc, step c (all Next) i st e = (st', snd (next_step c i s e), tc) /\ R st' (fst (next_step c i s e)).
Proof.
  intros c i st s e H SB. pose proof H as H0. destruct H as [Hfs Hst Hbot Hsf Hrf Hln Hgen].
  unfold step, next_step. destruct (e_kind e) eqn:K.
  - (* call *)
    cbv zeta. cbn [s_filter]. rewrite Hfs. destruct (rejected c e (n_fs s)) as [rej fs'] eqn:RJ.
    assert (GEN : forall st1, s_info st1 = (e_fid e, (e_par e, e_gen e)) :: s_info st ->
                  forall f, gen_of st1 f = ginfo ((e_fid e, e_gen e) :: n_info s) f).
    { intros st1 E f. unfold gen_of, ginfo. rewrite E. simpl. destruct (Z.eqb f (e_fid e)); [reflexivity|].
      apply Hgen. }
    destruct rej.
    + eexists; eexists; split; [reflexivity|]. constructor; simpl; auto.
    + unfold dispatch_call. cbn [s_dbg].
      destruct (botframe (s_dbg st)) as [bb|] eqn:B; simpl in Hbot; rewrite <- Hbot; cbn [negb].
      * match goal with |- context[stop_here ?d ?f ?l] =>
          replace (stop_here d f l) with (stops (n_sf s) f l) by (symmetry; apply (R_stop st s); exact H0) end.
        destruct (stops (n_sf s) (e_fid e) (e_line e)); cbn [negb].
        2:{ eexists; eexists; split; [reflexivity|].
            constructor; simpl; auto; try (rewrite B; reflexivity). }
        rewrite Hsf. destruct (is_some (n_sf s) && e_gen e) eqn:G.
        { replace ((match n_sf s with Some _ => true | None => false end) && e_gen e) with true by (rewrite <- G; destruct (n_sf s); reflexivity).
          eexists; eexists; split; [reflexivity|].
          constructor; simpl; auto; try (rewrite B; reflexivity);
            try (intros f; rewrite Hst; destruct (Z.eqb f (e_fid e)); reflexivity). }
        replace ((match n_sf s with Some _ => true | None => false end) && e_gen e) with false by (rewrite <- G; destruct (n_sf s); reflexivity).
        rewrite inter_next by exact SB.
        eexists; eexists; split; [rewrite K; reflexivity|].
        constructor; simpl; auto; try (rewrite B; reflexivity);
          try (intros f; rewrite Hst; destruct (Z.eqb f (e_fid e)); reflexivity).
      * eexists; eexists; split; [reflexivity|].
        constructor; simpl; auto; try (destruct (e_par e); reflexivity);
          try (intros f; rewrite Hst; destruct (Z.eqb f (e_fid e)); reflexivity).
  - (* line *)
    rewrite Hst. destruct (existsb (Z.eqb (e_fid e)) (n_traced s)); cbn [andb].
    2:{ eexists; eexists; split; [reflexivity | exact H0]. }
    unfold dispatch_line. rewrite (R_stop st s) by exact H0.
    destruct (stops (n_sf s) (e_fid e) (e_line e)).
    + rewrite inter_next by exact SB. eexists; eexists; split; [rewrite K; reflexivity|]. apply R_with_sf; exact H0.
    + eexists; eexists; split; [reflexivity | exact H0].
  - (* return *)
    rewrite Hst. destruct (existsb (Z.eqb (e_fid e)) (n_traced s)); cbn [andb].
    2:{ eexists; eexists; split; [reflexivity | exact H0]. }
    unfold dispatch_return. rewrite (R_stop st s) by exact H0. rewrite Hrf. cbn [oeqb]. rewrite orb_false_r.
    destruct (stops (n_sf s) (e_fid e) (e_line e)).
    2:{ eexists; eexists; split; [reflexivity | exact H0]. }
    rewrite Hsf. destruct (is_some (n_sf s) && e_gen e) eqn:G.
    { replace ((match n_sf s with Some _ => true | None => false end) && e_gen e) with true by (rewrite <- G; destruct (n_sf s); reflexivity).
      eexists; eexists; split; [reflexivity | exact H0]. }
    replace ((match n_sf s with Some _ => true | None => false end) && e_gen e) with false by (rewrite <- G; destruct (n_sf s); reflexivity).
    rewrite inter_next by exact SB. cbn [s_dbg set_stopinfo stopframe stoplineno oeqb]. rewrite Z.eqb_refl. cbn [andb negb Z.eqb].
    eexists; eexists; split; [rewrite K; reflexivity|].
    unfold set_dbg. cbn [s_dbg s_status s_info s_filter s_nprompt set_stopinfo botframe].
    pose proof (R_with_sf st s None (S (s_nprompt st)) H0) as W. exact W.
  - (* exception *)
    rewrite Hst. destruct (existsb (Z.eqb (e_fid e)) (n_traced s)).
    2:{ eexists; eexists; split; [reflexivity | exact H0]. }
    unfold dispatch_exception. rewrite (R_stop st s) by exact H0.
    destruct (stops (n_sf s) (e_fid e) (e_line e)).
    + destruct (e_gen e && x_stopiter (e_x e) && x_tbnone (e_x e)).
      * eexists; eexists; split; [reflexivity | exact H0].
      * rewrite inter_next by exact SB. eexists; eexists; split; [rewrite K; reflexivity|]. apply R_with_sf; exact H0.
    + rewrite Hsf. destruct (n_sf s) as [s0|].
      2:{ eexists; eexists; split; [reflexivity | exact H0]. }
      rewrite Hgen.
      destruct (negb (Z.eqb (e_fid e) s0) && ginfo (n_info s) s0 && (x_stopiter (e_x e) || x_genexit (e_x e))).
      * rewrite inter_next by exact SB. eexists; eexists; split; [rewrite K; reflexivity|]. apply R_with_sf; exact H0.
      * eexists; eexists; split; [reflexivity | exact H0].
Qed.

Lemma run_next : forall c evs i st s,
  R st s -> (forall e, In e evs -> simple_tb e) ->
  fst (run_from c (all Next) i st evs) = next_spec_from c i s evs.
Proof.
  induction evs as [|e r IH]; intros i st s H SB; [reflexivity|].
  simpl. destruct (step_next c i st s e H (SB e (or_introl eq_refl))) as (st' & tc & ST & R').
  rewrite ST. destruct (next_step c i s e) as [s' p]. simpl in *.
  specialize (IH (S i) st' s' R' (fun x Hx => SB x (or_intror Hx))).
  destruct (run_from c (all Next) (S i) st' r) as [ps tcs]. simpl in *. rewrite IH.
  destruct p; reflexivity.
Qed.

Theorem next_refines : forall c evs,
  (forall e, In e evs -> simple_tb e) ->
  prompts c (all Next) evs = next_spec c evs.
Proof.
  intros c evs SB. unfold prompts, run, next_spec. destruct (stream_traced c); [|reflexivity].
  apply run_next; [|exact SB].
  constructor; simpl; auto.
Qed.
