(** Interpreter for the terms of Bdb/Syntax.v, over the debugger state ([state], [dbg], [fstate]),
    the raw-event type ([event]) and the prompt type of Bdb/Model.v.  Definitions only; the
    theorems about the REGENERATED terms (Gen/BdbFuns.v) are in Bdb/Tie.v.

    What is given a meaning BY HAND here (not translated):
      * Python's object model for the handful of values the stop logic handles (frames compared by
        identity, None falsy, `and`/`or` returning an operand, integers compared by value);
      * a frame object: the `frame` parameter of a method carries the attributes CPython / Pdb hand
        over with it (f_lineno, f_back, generator flag -- [fview]); a frame read back from an
        attribute of the debugger (self.stopframe ...) is known by identity only and its f_back /
        generator flag are those recorded at its call event ([parent_of], [gen_of] of the model);
      * no breakpoints, skip is None: break_here / break_anywhere are false, is_skipped_module is
        never evaluated (evaluating it is an error);
      * pdb.py between Bdb.user_* and the command: one prompt per command loop, the command given by
        the policy, do_step -> set_step(), do_next -> set_next(curframe), do_return ->
        set_return(curframe), do_until -> set_until(curframe), do_continue -> set_continue();
        the choice of curframe ([curframe] of the model);
      * pluggy: implementations in LIFO order of registration, trylast ones last, firstresult;
      * `raise BdbQuit` and every construct evaluated outside its domain: the interpreter is STUCK
        ([None]); the tie theorems say the regenerated functions are never stuck. *)
From NL Require Export Bdb.Model Bdb.Syntax.
Open Scope Z_scope.
Open Scope string_scope.

(** ---- values *)
Record fview := mkV { v_line : Z; v_back : option Z; v_gen : bool }.

Inductive val :=
| VNone
| VBool (b : bool)
| VInt (z : Z)
| VStr (s : string)
| VFrame (f : Z) (v : option fview)
| VTrace                               (* the bound method self.trace_dispatch *)
| VArg                                 (* the `arg` of an exception event *)
| VExcClass (stopiter genexit : bool)  (* arg[0] *)
| VExcName (x : excname)
| VTb.                                 (* a traceback object *)

Definition truthy (v : val) : bool :=
  match v with
  | VNone => false
  | VBool b => b
  | VInt z => negb (Z.eqb z 0)
  | VStr s => negb (String.eqb s "")
  | _ => true
  end.

(** interpreter state: the model's state, the two attributes the model does not have, the prompts issued *)
Record istate := mkI { i_st : state; i_fr : val; i_quit : bool; i_out : list prompt }.

Notation locals := (list (string * val)).

Fixpoint slookup {A} (k : string) (l : list (string * A)) : option A :=
  match l with [] => None | (k', v) :: r => if String.eqb k k' then Some v else slookup k r end.

Definition eview (e : event) : fview := mkV (e_line e) (e_par e) (e_gen e).
Definition eframe (e : event) : val := VFrame (e_fid e) (Some (eview e)).
Definition kname (k : kind) : string :=
  match k with KCall => "call" | KLine => "line" | KReturn => "return" | KException => "exception" end.

Definition of_opt (o : option Z) : val := match o with Some f => VFrame f None | None => VNone end.
Definition as_frame (v : val) : option (option Z) :=
  match v with VNone => Some None | VFrame f _ => Some (Some f) | _ => None end.

Definition fback (st : state) (v : val) : option val :=
  match v with
  | VFrame _ (Some w) => Some (of_opt (v_back w))
  | VFrame f None => Some (of_opt (parent_of st f))
  | _ => None
  end.
Definition flineno (v : val) : option val :=
  match v with VFrame _ (Some w) => Some (VInt (v_line w)) | _ => None end.
Definition fgen (st : state) (v : val) : option val :=
  match v with
  | VFrame _ (Some w) => Some (VBool (v_gen w))
  | VFrame f None => Some (VBool (gen_of st f))
  | _ => None
  end.
Definition fftrace (st : state) (v : val) : option val :=
  match v with
  | VFrame f _ => Some (match lookup f (s_status st) with Some _ => VTrace | None => VNone end)
  | _ => None
  end.

(** `==` (objects without __eq__ compare by identity) *)
Definition cmp_eq (a b : val) : option bool :=
  match a, b with
  | VNone, VNone => Some true
  | VFrame f _, VFrame g _ => Some (Z.eqb f g)
  | VNone, VFrame _ _ | VFrame _ _, VNone => Some false
  | VInt x, VInt y => Some (Z.eqb x y)
  | VInt _, VNone | VNone, VInt _ => Some false
  | VStr x, VStr y => Some (String.eqb x y)
  | VExcClass si _, VExcName XStopIteration => Some si
  | VExcClass _ ge, VExcName XGeneratorExit => Some ge
  | VTb, VNone | VNone, VTb => Some false
  | VTrace, VNone | VNone, VTrace => Some false
  | _, _ => None
  end.
(** `is`: as `==`, but meaningless on numbers and strings *)
Definition cmp_is (a b : val) : option bool :=
  match a, b with
  | VInt _, VInt _ | VStr _, VStr _ => None
  | _, _ => cmp_eq a b
  end.
Definition cmp (o : cmpop) (a b : val) : option bool :=
  match o with
  | OIs => cmp_is a b
  | OIsNot => option_map negb (cmp_is a b)
  | OEq => cmp_eq a b
  | ONotEq => option_map negb (cmp_eq a b)
  | OGtE => match a, b with VInt x, VInt y => Some (Z.leb y x) | _, _ => None end
  | OGt => match a, b with VInt x, VInt y => Some (Z.ltb y x) | _, _ => None end
  | OLtE => match a, b with VInt x, VInt y => Some (Z.leb x y) | _, _ => None end
  | OLt => match a, b with VInt x, VInt y => Some (Z.ltb x y) | _, _ => None end
  end.

Fixpoint cmp_in (a : val) (l : list excname) : option bool :=
  match l with
  | [] => Some false
  | x :: r => match cmp_eq a (VExcName x), cmp_in a r with
              | Some b1, Some b2 => Some (b1 || b2)
              | _, _ => None
              end
  end.

Definition index (e : event) (v : val) (k : nat) : option val :=
  match v, k with
  | VArg, 0%nat => Some (VExcClass (x_stopiter (e_x e)) (x_genexit (e_x e)))
  | VArg, 2%nat => Some (if x_tbnone (e_x e) then VNone else VTb)
  | _, _ => None
  end.

Definition with_st (s : istate) (st : state) : istate := mkI st (i_fr s) (i_quit s) (i_out s).
Definition with_dbg (s : istate) (d : dbg) : istate := with_st s (set_dbg (i_st s) d).

Definition read_attr (a : attr) (s : istate) : val :=
  let d := s_dbg (i_st s) in
  match a with
  | AStopframe => of_opt (stopframe d)
  | AReturnframe => of_opt (returnframe d)
  | ABotframe => of_opt (botframe d)
  | AStoplineno => VInt (stoplineno d)
  | AQuitting => VBool (i_quit s)
  | AFrameReturning => i_fr s
  | ASkip => VNone             (* Bdb(skip=None) *)
  | ABreaks => VBool false     (* an empty dict *)
  end.

Definition write_attr (a : attr) (v : val) (s : istate) : option istate :=
  let d := s_dbg (i_st s) in
  match a with
  | AStopframe => match as_frame v with Some f => Some (with_dbg s (mkD (botframe d) f (returnframe d) (stoplineno d))) | None => None end
  | AReturnframe => match as_frame v with Some f => Some (with_dbg s (mkD (botframe d) (stopframe d) f (stoplineno d))) | None => None end
  | ABotframe => match as_frame v with Some f => Some (with_dbg s (mkD f (stopframe d) (returnframe d) (stoplineno d))) | None => None end
  | AStoplineno => match v with VInt z => Some (with_dbg s (mkD (botframe d) (stopframe d) (returnframe d) z)) | _ => None end
  | AQuitting => match v with VBool b => Some (mkI (i_st s) (i_fr s) b (i_out s)) | _ => None end
  | AFrameReturning => match v with VNone | VFrame _ _ => Some (mkI (i_st s) v (i_quit s) (i_out s)) | _ => None end
  | ASkip | ABreaks => None
  end.

Definition const_val (e : exp) : option val :=
  match e with
  | ENone => Some VNone | EBool b => Some (VBool b) | EInt z => Some (VInt z) | EStr s => Some (VStr s)
  | _ => None
  end.

(** parameters (with defaults) against positional arguments *)
Fixpoint bind (ps : list (string * option exp)) (args : list val) : option locals :=
  match ps, args with
  | [], [] => Some []
  | [], _ :: _ => None
  | (x, _) :: r, v :: vs => match bind r vs with Some l => Some ((x, v) :: l) | None => None end
  | (x, Some d) :: r, [] => match const_val d, bind r [] with Some v, Some l => Some ((x, v) :: l) | _, _ => None end
  | (_, None) :: _, [] => None
  end.

Fixpoint find_method (m : string) (ms : list method) : option method :=
  match ms with [] => None | x :: r => if String.eqb m (m_name x) then Some x else find_method m r end.

Inductive outcome := ONext | ORet (v : val).

Definition is_user (m : string) : bool :=
  String.eqb m "user_line" || String.eqb m "user_call" || String.eqb m "user_return" || String.eqb m "user_exception".
Definition is_break (m : string) : bool := String.eqb m "break_here" || String.eqb m "break_anywhere".

Section Interp.
Variable ms : list method.                   (* method resolution: the first definition of a name wins *)
Variable e : event.                          (* the event being dispatched *)
Variable user : istate -> option istate.     (* what self.user_line/call/return/exception(frame, ..) does *)

Fixpoint eval (n : nat) (ex : exp) (lo : locals) (s : istate) {struct n} : option (val * istate) :=
  match n with
  | O => None
  | S n =>
    let un (a : exp) (f : state -> val -> option val) :=
      match eval n a lo s with Some (v, s1) => match f (i_st s1) v with Some r => Some (r, s1) | None => None end | None => None end in
    match ex with
    | ENone => Some (VNone, s)
    | EBool b => Some (VBool b, s)
    | EInt z => Some (VInt z, s)
    | EStr x => Some (VStr x, s)
    | EVar x => match slookup x lo with Some v => Some (v, s) | None => None end
    | ESelf a => Some (read_attr a s, s)
    | ETraceDispatch => Some (VTrace, s)
    | EBack a => un a fback
    | ELineno a => un a (fun _ => flineno)
    | EGenFlags a => un a fgen
    | EFTrace a => un a fftrace
    | EIndex a k => un a (fun _ v => index e v k)
    | EExc x => Some (VExcName x, s)
    | EAdd a b =>
        match eval n a lo s with
        | Some (VInt x, s1) => match eval n b lo s1 with Some (VInt y, s2) => Some (VInt (Z.add x y), s2) | _ => None end
        | _ => None
        end
    | ENot a => match eval n a lo s with Some (v, s1) => Some (VBool (negb (truthy v)), s1) | None => None end
    | EAnd a b => match eval n a lo s with Some (v, s1) => if truthy v then eval n b lo s1 else Some (v, s1) | None => None end
    | EOr a b => match eval n a lo s with Some (v, s1) => if truthy v then Some (v, s1) else eval n b lo s1 | None => None end
    | ECmp o a b =>
        match eval n a lo s with
        | Some (va, s1) => match eval n b lo s1 with
                           | Some (vb, s2) => match cmp o va vb with Some r => Some (VBool r, s2) | None => None end
                           | None => None
                           end
        | None => None
        end
    | EIn a l => match eval n a lo s with
                 | Some (v, s1) => match cmp_in v l with Some r => Some (VBool r, s1) | None => None end
                 | None => None
                 end
    | ECall m args =>
        match (fix go (l : list exp) (s0 : istate) : option (list val * istate) :=
                 match l with
                 | [] => Some ([], s0)
                 | a :: r => match eval n a lo s0 with
                             | Some (v, s1) => match go r s1 with Some (vs, s2) => Some (v :: vs, s2) | None => None end
                             | None => None
                             end
                 end) args s with
        | Some (vs, s1) => call n m vs s1
        | None => None
        end
    | EOpaque => None
    end
  end
with exec (n : nat) (st : stmt) (lo : locals) (s : istate) {struct n} : option (outcome * locals * istate) :=
  match n with
  | O => None
  | S n =>
    match st with
    | SSkip => Some (ONext, lo, s)
    | SSeq a b => match exec n a lo s with
                  | Some (ONext, lo1, s1) => exec n b lo1 s1
                  | r => r
                  end
    | SIf c a b => match eval n c lo s with
                   | Some (v, s1) => if truthy v then exec n a lo s1 else exec n b lo s1
                   | None => None
                   end
    | SReturn a => match eval n a lo s with Some (v, s1) => Some (ORet v, lo, s1) | None => None end
    | SRaiseBdbQuit => None
    | SExpr a => match eval n a lo s with Some (_, s1) => Some (ONext, lo, s1) | None => None end
    | SSetSelf a x => match eval n x lo s with
                      | Some (v, s1) => match write_attr a v s1 with Some s2 => Some (ONext, lo, s2) | None => None end
                      | None => None
                      end
    | SSetLocal x a => match eval n a lo s with Some (v, s1) => Some (ONext, (x, v) :: lo, s1) | None => None end
    | SSetFTrace f a =>
        match eval n f lo s with
        | Some (VFrame p _, s1) =>
            match eval n a lo s1 with
            | Some (VTrace, s2) =>   (* the caller gets Pdb.trace_dispatch itself, not a WithContext closure *)
                let t := i_st s2 in
                Some (ONext, lo, with_st s2 (mkS (s_dbg t) ((p, Raw) :: s_status t) (s_info t) (s_filter t) (s_nprompt t)))
            | _ => None
            end
        | _ => None
        end
    | STryFinally a b => match exec n a lo s with
                         | Some (o, lo1, s1) => match exec n b lo1 s1 with
                                                | Some (ONext, lo2, s2) => Some (o, lo2, s2)
                                                | r => r
                                                end
                         | None => None
                         end
    end
  end
with call (n : nat) (m : string) (vs : list val) (s : istate) {struct n} : option (val * istate) :=
  match n with
  | O => None
  | S n =>
    if is_user m then match user s with Some s1 => Some (VNone, s1) | None => None end
    else if is_break m then Some (VBool false, s)
    else match find_method m ms with
         | Some md => match bind (m_params md) vs with
                      | Some lo => match exec n (m_body md) lo s with
                                   | Some (ORet v, _, s1) => Some (v, s1)
                                   | Some (ONext, _, s1) => Some (VNone, s1)
                                   | None => None
                                   end
                      | None => None
                      end
         | None => None
         end
  end.
End Interp.

Definition FUEL : nat := 60.

(** ---- the command loop *)
Definition no_user (_ : istate) : option istate := None.

Definition cmd_call (c : cmd) (cur : val) : string * list val :=
  match c with
  | Step => ("set_step", [])
  | Next => ("set_next", [cur])
  | Return => ("set_return", [cur])
  | Until => ("set_until", [cur])
  | Continue => ("set_continue", [])
  end.

Definition run_cmd (ms : list method) (e : event) (c : cmd) (cur : val) (s : istate) : option istate :=
  let '(m, args) := cmd_call c cur in
  match call ms e no_user FUEL m args s with Some (_, s1) => Some s1 | None => None end.

(** self._cmdloop_hook(): Some true = raises NotOnTraceCall, Some false = a context manager is returned *)
Fixpoint hook_raises (w : bool) (hp : list hstmt) : option bool :=
  match hp with
  | [] => None                                   (* falls off the end: `with None:` *)
  | HIfNotOnTraceCallRaise :: r => if w then hook_raises w r else Some true
  | HReturnOnCmdloop :: _ => Some false
  end.

Inductive cout := CNormal | CRaised.

Section Cmdloop.
Variable ms : list method.
Variable hp : list hstmt.
Variable pol : policy.
Variable i : nat.
Variable w : bool.           (* the event reached Pdb through a WithContext closure (is_on_trace_call) *)
Variable e : event.

Definition one_prompt (s : istate) : option istate :=
  let st := i_st s in
  let n := s_nprompt st in
  let st1 := mkS (s_dbg st) (s_status st) (s_info st) (s_filter st) (S n) in
  let '(cur, curline, curpar, curgen) := curframe st1 e in
  run_cmd ms e (pol n e) (VFrame cur (Some (mkV curline curpar curgen)))
          (mkI st1 (i_fr s) (i_quit s) (app (i_out s) [mkP i (e_kind e) (e_line e) (e_fid e)])).

Fixpoint cexec (c : cstmt) (s : istate) : option (cout * istate) :=
  match c with
  | CSkip => Some (CNormal, s)
  | CSeq a b => match cexec a s with Some (CNormal, s1) => cexec b s1 | r => r end
  | CTryExceptNotOnTraceCall body h =>
      match cexec body s with
      | Some (CRaised, s1) => match exec ms e no_user FUEL h [] s1 with
                              | Some (ONext, _, s2) => Some (CNormal, s2)
                              | _ => None
                              end
      | r => r
      end
  | CWithCmdloopHook body =>
      match hook_raises w hp with
      | Some true => Some (CRaised, s)
      | Some false => cexec body s
      | None => None
      end
  | CSuperCmdloop => match one_prompt s with Some s1 => Some (CNormal, s1) | None => None end
  end.

(** Pdb.user_* -> interaction -> _cmdloop -> cmdloop *)
Definition iinteract (cp : cstmt) (s : istate) : option istate :=
  match cexec cp s with Some (CNormal, s1) => Some s1 | _ => None end.
End Cmdloop.

(** ---- filters *)
Inductive fout := FNext | FRet (r : option bool) | FRetB (b : bool).

Section Filter.
Variable c : cfg.
Variable e : event.
Variable helpers : list (string * fstmt).

Definition is_script (ev : event) : bool := match e_mc ev with MScript => true | _ => false end.
Definition is_skip (ev : event) : bool := match e_mc ev with MSkip => true | _ => false end.

Definition sv_eq (a b : sv) : option bool :=
  match a, b with
  | XCoName, XStr s | XStr s, XCoName => if String.eqb s "<lambda>" then Some (e_lam e) else None
  | XScriptName, XModName | XModName, XScriptName => Some (is_script e)
  | _, _ => None
  end.

Fixpoint fcond_eval (n : nat) (cd : fcond) (s : fstate) : option bool :=
  match n with
  | O => None
  | S n =>
    match cd with
    | CEq a b => sv_eq a b
    | CIsNone XModName => Some false                  (* every module of the stream has a name *)
    | CIsNone _ => None
    | CNot a => option_map negb (fcond_eval n a s)
    | CSkipMatch XModName => Some (is_skip e)
    | CSkipMatch _ => None
    | CFirstAdded => Some (f_first s)
    | CEnteringHere => Some (c_entering c)
    | CTraced => Some (f_traced s)
    | CMatchMods XModName => Some (existsb (Z.eqb (e_mod e)) (f_mods s))
    | CMatchMods _ => None
    | CInMods XModName => Some (existsb (Z.eqb (e_mod e)) (f_mods s))
    | CInMods _ => None
    | CCallSelf m => match slookup m helpers with
                     | Some (FReturn (FRCond c')) => fcond_eval n c' s
                     | _ => None
                     end
    end
  end.

Fixpoint fexec (n : nat) (st : fstmt) (s : fstate) : option (fout * fstate) :=
  match n with
  | O => None
  | S n =>
    match st with
    | FSkip => Some (FNext, s)
    | FSeq a b => match fexec n a s with Some (FNext, s1) => fexec n b s1 | r => r end
    | FIf cd a b => match fcond_eval n cd s with Some true => fexec n a s | Some false => fexec n b s | None => None end
    | FReturn FRNone => Some (FRet None, s)
    | FReturn (FRBool b) => Some (FRet (Some b), s)
    | FReturn (FROrNone cd) => match fcond_eval n cd s with Some b => Some (FRet (if b then Some true else None), s) | None => None end
    | FReturn (FRCond cd) => match fcond_eval n cd s with Some b => Some (FRetB b, s) | None => None end
    | FCallSelf m => match slookup m helpers with
                     | Some body => match fexec n body s with Some (_, s1) => Some (FNext, s1) | None => None end
                     | None => None
                     end
    | FSetFirstAdded b => Some (FNext, mkF b (f_traced s) (f_mods s))
    | FTracedAdd => Some (FNext, mkF (f_first s) true (f_mods s))
    | FModsAdd XModName => Some (FNext, mkF (f_first s) (f_traced s) (e_mod e :: f_mods s))
    | FModsAdd _ => None
    end
  end.
End Filter.

(** one implementation of the hook; falling off the end returns None *)
Definition run_class (c : cfg) (e : event) (cl : fclass) (s : fstate) : option (option bool * fstate) :=
  match fc_filter cl with
  | Some (_, body) => match fexec c e (fc_helpers cl) FUEL body s with
                      | Some (FRet r, s1) => Some (r, s1)
                      | Some (FNext, s1) => Some (None, s1)
                      | _ => None
                      end
  | None => None
  end.

Fixpoint registered_names (modules : bool) (r : rstmt) : list string :=
  match r with
  | RSkip => []
  | RSeq a b => app (registered_names modules a) (registered_names modules b)
  | RRegister x => [x]
  | RIfTraceModules a b => if modules then registered_names modules a else registered_names modules b
  end.

Fixpoint find_class (x : string) (cls : list fclass) : option fclass :=
  match cls with [] => None | k :: r => if String.eqb x (fc_name k) then Some k else find_class x r end.

(** the registered plugins that implement `filter`, in registration order, with their trylast marker *)
Fixpoint impls (cls : list fclass) (names : list string) : list (fclass * bool) :=
  match names with
  | [] => []
  | x :: r => match find_class x cls with
              | Some k => match fc_filter k with Some (tl, _) => (k, tl) :: impls cls r | None => impls cls r end
              | None => impls cls r
              end
  end.

(** pluggy's call order *)
Definition pluggy_order {A} (regs : list (A * bool)) : list A :=
  app (rev (map fst (filter (fun r => negb (snd r)) regs))) (rev (map fst (filter (fun r => snd r) regs))).

Fixpoint ifirst_result (c : cfg) (e : event) (ks : list fclass) (s : fstate) : option (option bool * fstate) :=
  match ks with
  | [] => Some (None, s)
  | k :: r => match run_class c e k s with
              | Some (Some b, s1) => Some (Some b, s1)
              | Some (None, s1) => ifirst_result c e r s1
              | None => None
              end
  end.

Definition ichain (cls : list fclass) (reg : rstmt) (c : cfg) (e : event) (s : fstate) : option (option bool * fstate) :=
  ifirst_result c e (pluggy_order (impls cls (registered_names (c_modules c) reg))) s.

(** GlobalTraceFunc.global_trace_func: Some (true, _) = returns None (rejected);
    Some (false, _) = returns the local trace function's result, after the `filtered` hook *)
Section Global.
Variable hookfilter : fstate -> option (option bool * fstate).

Fixpoint gexec (n : nat) (p : list gstmt) (filtered : bool) (s : fstate) : option (bool * fstate) :=
  match n with
  | O => None
  | S n =>
    match p with
    | [] => None
    | GIf GHookFilter body :: r =>
        match hookfilter s with
        | Some (Some true, s1) => gexec n body filtered s1
        | Some (_, s1) => gexec n r filtered s1
        | None => None
        end
    | GIf _ _ :: _ => None
    | GReturn GNone :: _ => Some (true, s)
    | GReturn GLocalTraceFunc :: _ => if filtered then Some (false, s) else None
    | GReturn GHookFilter :: _ => None
    | GFiltered :: r => gexec n r true s
    end
  end.
End Global.

Definition irejected (cls : list fclass) (reg : rstmt) (gp : list gstmt) (c : cfg) (e : event) (s : fstate) : option (bool * fstate) :=
  gexec (ichain cls reg c e) FUEL gp false s.

(** WithContext._local_trace.  [prev] = the closure's next_trace is not None when it is called, [r] = the result of
    the wrapped trace function is not None.  Some true = the closure itself is returned (the frame keeps a
    WithContext trace function); `assert next_trace` raises (stuck) when [prev] is false. *)
Fixpoint wexec (n : nat) (p : list wstmt) (prev r : bool) : option bool :=
  match n with
  | O => None
  | S n =>
    match p with
    | [] => Some false
    | WAssertNextTrace :: rest => if prev then wexec n rest prev r else None
    | WIfAssignNextTrace body :: rest => if r then wexec n body r r else wexec n rest r r
    | WReturn WLocalTrace :: _ => Some true
    | WReturn WNone :: _ => Some false
    | WReturn WNextTrace :: _ => None        (* would hand Pdb's own trace function to the frame *)
    end
  end.
