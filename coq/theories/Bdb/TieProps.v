(** Consequences of Bdb/Tie.v stated with the notions of the property files (Bdb/Filters.v). *)
From NL Require Import Bdb.Interp Gen.BdbFuns Bdb.Tie Bdb.Basics Bdb.Filters.
Open Scope Z_scope.

(** the attribute-level specification of Bdb/Tie.v is [accept_attr] *)
Lemma accept_spec_attr : forall c e fs, accept_spec c e fs = accept_attr c e fs.
Proof. intros. reflexivity. Qed.

(** the regenerated filter chain (filter.py + register() + global_trace_func, no other translator involved)
    rejects an event iff [accept_attr] does not accept it *)
Theorem tie_filter_chain_attr : forall c e fs,
  irejected filter_classes register_prog global_trace_prog c e fs
  = Some (negb (fst (accept_attr c e fs)), snd (accept_attr c e fs)).
Proof. intros. rewrite tie_rejected_spec, accept_spec_attr. reflexivity. Qed.

(** transfer: the filter clauses of C05 for the prompts computed by interpreting the regenerated code *)
Theorem tie_filters_transfer : forall c pol evs ps tcs p,
  frame_attrs_const evs -> irun c pol evs = Some (ps, tcs) -> In p ps ->
  exists e, nth_error evs (p_idx p) = Some e /\
            p_kind p = e_kind e /\ p_line p = e_line e /\ p_fid p = e_fid e /\
            e_lam e = false /\
            (c_modules c = false -> e_mc e = MScript) /\
            (c_modules c = true -> e_mc e <> MSkip).
Proof.
  intros c pol evs ps tcs p CONST R HP. rewrite tie_run in R. injection R as R.
  apply (filters_full c pol evs p CONST). unfold prompts. rewrite R. exact HP.
Qed.
