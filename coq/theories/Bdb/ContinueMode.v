(** all-continue: one prompt, at the line that follows the first accepted call, and none after --
    provided the frame below the first accepted frame (botframe) is not a generator/coroutine frame. *)
From NL Require Import Bdb.Model Bdb.Basics Bdb.Causal.
Open Scope Z_scope.
Open Scope list_scope.

(** the events before the first accepted call: every call among them is rejected by the filter chain
    (result: the filter state reached) *)
Fixpoint skip_pre (c : cfg) (fs : fstate) (pre : list event) : option fstate :=
  match pre with
  | [] => Some fs
  | e :: r =>
      match e_kind e with
      | KCall => let '(rej, fs') := rejected c e fs in if rej then skip_pre c fs' r else None
      | _ => skip_pre c fs r
      end
  end.

(** frame [b] is never entered as a generator/coroutine frame *)
Definition not_gen_frame (b : Z) (evs : list event) : Prop :=
  forall e, In e evs -> e_kind e = KCall -> e_fid e = b -> e_gen e = false.

Definition info_ok (b : Z) (info : list (Z * (option Z * bool))) : Prop :=
  forall p g, In (b, (p, g)) info -> g = false.

Lemma lookup_in : forall {A} k (l : list (Z * A)) v, lookup k l = Some v -> In (k, v) l.
Proof.
  induction l as [|[k' v'] r IH]; intros v H; simpl in H; [discriminate|].
  destruct (Z.eqb k k') eqn:E.
  - apply Z.eqb_eq in E. inversion H; subst. left; reflexivity.
  - right. apply IH; exact H.
Qed.

Lemma info_ok_gen : forall b st, info_ok b (s_info st) -> gen_of st b = false.
Proof.
  intros b st H. unfold gen_of. destruct (lookup b (s_info st)) as [[p g]|] eqn:L; [|reflexivity].
  apply lookup_in in L. eapply H; eauto.
Qed.

(** ---- phase 1: before the first accepted call nothing happens *)
Lemma pre_phase : forall c pol b pre i st fs1,
  s_status st = [] -> skip_pre c (s_filter st) pre = Some fs1 ->
  info_ok b (s_info st) -> not_gen_frame b pre ->
  run_from c pol i st pre = ([], []) /\
  let st' := final c pol i st pre in
  s_status st' = [] /\ s_dbg st' = s_dbg st /\ s_filter st' = fs1 /\ s_nprompt st' = s_nprompt st /\ info_ok b (s_info st').
Proof.
  induction pre as [|e r IH]; intros i st fs1 ST SK IO NG.
  - simpl in *. inversion SK; subst. repeat split; auto.
  - simpl in SK. simpl run_from. simpl final. unfold step.
    assert (NGr : not_gen_frame b r) by (intros x Hx; apply NG; right; exact Hx).
    destruct (e_kind e) eqn:K.
    + cbv zeta. cbn [s_filter].
      destruct (rejected c e (s_filter st)) as [rej fs'] eqn:R. destruct rej; [|discriminate].
      match goal with |- context[final c pol (S i) ?s r] => set (s1 := s) end.
      assert (IO1 : info_ok b (s_info s1)).
      { subst s1. simpl. intros p g [H|H].
        - inversion H; subst. apply NG; [left; reflexivity | exact K | reflexivity].
        - eapply IO; eauto. }
      destruct (IH (S i) s1 fs1 ST SK IO1 NGr) as [RF FIN]. rewrite RF. split; [reflexivity|]. exact FIN.
    + rewrite ST. simpl lookup. destruct (IH (S i) st fs1 ST SK IO NGr) as [RF FIN]. rewrite RF. split; [reflexivity|]. exact FIN.
    + rewrite ST. simpl lookup. destruct (IH (S i) st fs1 ST SK IO NGr) as [RF FIN]. rewrite RF. split; [reflexivity|]. exact FIN.
    + rewrite ST. simpl lookup. destruct (IH (S i) st fs1 ST SK IO NGr) as [RF FIN]. rewrite RF. split; [reflexivity|]. exact FIN.
Qed.

(** ---- phase 4: after `continue` nothing prompts *)
Definition quiet (b : Z) (st : state) : Prop :=
  (exists bb, botframe (s_dbg st) = Some bb) /\ stopframe (s_dbg st) = Some b /\ returnframe (s_dbg st) = None /\
  stoplineno (s_dbg st) = -1 /\ info_ok b (s_info st).

Lemma stop_here_quiet : forall b st f l, quiet b st -> stop_here (s_dbg st) f l = false.
Proof.
  intros b st f l (_ & S1 & _ & S3 & _). unfold stop_here. rewrite S1, S3.
  destruct (Z.eqb f b); reflexivity.
Qed.

Lemma quiet_step : forall c pol b i st e,
  quiet b st -> (e_kind e = KCall -> e_fid e = b -> e_gen e = false) ->
  exists st' tc, step c pol i st e = (st', None, tc) /\ quiet b st'.
Proof.
  intros c pol b i st e Q NG. pose proof Q as Q0. destruct Q as ((bb & B) & S1 & S2 & S3 & IO). unfold step.
  destruct (e_kind e) eqn:K.
  - cbv zeta. cbn [s_filter]. destruct (rejected c e (s_filter st)) as [rej fs'] eqn:R.
    assert (IO1 : info_ok b ((e_fid e, (e_par e, e_gen e)) :: s_info st)).
    { intros p g [H|H]; [inversion H; subst; apply NG; auto | eapply IO; eauto]. }
    destruct rej.
    + eexists; eexists; split; [reflexivity|]. unfold quiet; simpl. repeat split; eauto.
    + unfold dispatch_call. cbn [s_dbg]. rewrite B.
      assert (SH : stop_here (s_dbg st) (e_fid e) (e_line e) = false) by (eapply stop_here_quiet; eauto).
      rewrite SH. cbn [negb]. eexists; eexists; split; [reflexivity|]. unfold quiet; simpl. repeat split; eauto.
  - destruct (lookup (e_fid e) (s_status st)); [|eexists; eexists; split; [reflexivity | exact Q0]].
    unfold dispatch_line. rewrite (stop_here_quiet b st) by exact Q0. eexists; eexists; split; [reflexivity | exact Q0].
  - destruct (lookup (e_fid e) (s_status st)); [|eexists; eexists; split; [reflexivity | exact Q0]].
    unfold dispatch_return. rewrite (stop_here_quiet b st) by exact Q0. rewrite S2. cbn [orb oeqb].
    eexists; eexists; split; [reflexivity | exact Q0].
  - destruct (lookup (e_fid e) (s_status st)); [|eexists; eexists; split; [reflexivity | exact Q0]].
    unfold dispatch_exception. rewrite (stop_here_quiet b st) by exact Q0. rewrite S1.
    rewrite (info_ok_gen b st IO). rewrite andb_false_r. cbn [andb].
    eexists; eexists; split; [reflexivity | exact Q0].
Qed.

Lemma quiet_run : forall c pol b post i st,
  quiet b st -> not_gen_frame b post -> fst (run_from c pol i st post) = [].
Proof.
  induction post as [|e r IH]; intros i st Q NG; [reflexivity|].
  simpl. destruct (quiet_step c pol b i st e Q) as (st' & tc & ST & Q').
  { intros K F. apply NG; [left; reflexivity | exact K | exact F]. }
  rewrite ST. specialize (IH (S i) st' Q' (fun x Hx => NG x (or_intror Hx))).
  destruct (run_from c pol (S i) st' r) as [ps tcs]. simpl in *. exact IH.
Qed.

(** ---- phases 2 and 3: the first accepted call, and the line that follows it *)
Lemma first_call_step : forall c pol b i st e0 fs1,
  s_status st = [] -> s_dbg st = mkD None None None 0 -> s_filter st = fs1 ->
  e_kind e0 = KCall -> fst (rejected c e0 fs1) = false -> e_par e0 = Some b ->
  info_ok b (s_info st) -> (e_fid e0 = b -> e_gen e0 = false) ->
  exists st2, step c pol i st e0 = (st2, None, true) /\
    s_dbg st2 = mkD (Some b) None None 0 /\ lookup (e_fid e0) (s_status st2) = Some Wrapped /\ info_ok b (s_info st2).
Proof.
  intros c pol b i st e0 fs1 ST D F K ACC PAR IO NG. unfold step. rewrite K. cbv zeta. cbn [s_filter]. rewrite F.
  destruct (rejected c e0 fs1) as [rej fs2] eqn:R. simpl in ACC. subst rej.
  unfold dispatch_call. cbn [s_dbg]. rewrite D. cbn [botframe].
  eexists. split; [reflexivity|]. cbn [set_status set_dbg s_dbg s_status s_info stopframe returnframe stoplineno].
  split; [rewrite PAR; reflexivity|]. split; [cbn [lookup]; rewrite Z.eqb_refl; reflexivity|].
  intros p g [H|H]; [inversion H; subst; apply NG; reflexivity | eapply IO; eauto].
Qed.

Lemma line_step : forall c b i st l,
  s_dbg st = mkD (Some b) None None 0 -> lookup (e_fid l) (s_status st) = Some Wrapped ->
  e_kind l = KLine -> info_ok b (s_info st) ->
  exists st3, step c (all Continue) i st l = (st3, Some (mkP i KLine (e_line l) (e_fid l)), true) /\ quiet b st3.
Proof.
  intros c b i st l D L K IO. unfold step. rewrite K, L. unfold dispatch_line, stop_here. rewrite D. cbn [stopframe].
  unfold interaction, all, apply_cmd.
  match goal with |- context[curframe ?s l] => destruct (curframe s l) as [[[cur cl] cp] cg] end.
  cbn [s_dbg set_stopinfo botframe s_status s_info s_filter s_nprompt].
  eexists. split; [rewrite K; reflexivity|].
  unfold quiet. cbn [s_dbg s_info]. rewrite D. cbn [set_stopinfo botframe stopframe returnframe stoplineno].
  repeat split; eauto.
Qed.

(** ---- the theorem *)
Theorem continue_once : forall c pre e0 l post b fs1,
  stream_traced c = true ->
  skip_pre c (s_filter (init c)) pre = Some fs1 ->
  e_kind e0 = KCall -> fst (rejected c e0 fs1) = false -> e_par e0 = Some b ->
  e_kind l = KLine -> e_fid l = e_fid e0 ->
  not_gen_frame b (pre ++ e0 :: l :: post) ->
  prompts c (all Continue) (pre ++ e0 :: l :: post) = [mkP (S (List.length pre)) KLine (e_line l) (e_fid l)].
Proof.
  intros c pre e0 l post b fs1 T SK K0 ACC PAR KL FL NG.
  unfold prompts, run. rewrite T. rewrite run_from_app. cbn [fst].
  assert (NGpre : not_gen_frame b pre) by (intros x Hx; apply NG; apply in_or_app; left; exact Hx).
  assert (IO0 : info_ok b (s_info (init c))) by (intros p g H; simpl in H; contradiction).
  destruct (pre_phase c (all Continue) b pre 0%nat (init c) fs1 eq_refl SK IO0 NGpre) as [RF FIN].
  rewrite RF. cbn [fst app]. cbn zeta in FIN. destruct FIN as (F1 & F2 & F3 & F4 & F5).
  set (st1 := final c (all Continue) 0 (init c) pre) in *.
  rewrite Nat.add_0_l.
  destruct (first_call_step c (all Continue) b (List.length pre) st1 e0 fs1 F1 F2 F3 K0 ACC PAR F5) as (st2 & S2 & D2 & L2 & IO2).
  { intros E. apply NG; [apply in_or_app; right; left; reflexivity | exact K0 | exact E]. }
  rewrite <- FL in L2.
  destruct (line_step c b (S (List.length pre)) st2 l D2 L2 KL IO2) as (st3 & S3 & Q3).
  simpl run_from. rewrite S2, S3.
  pose proof (quiet_run c (all Continue) b post (S (S (List.length pre))) st3 Q3) as QR.
  destruct (run_from c (all Continue) (S (S (List.length pre))) st3 post) as [ps tcs].
  cbn [fst] in *. rewrite QR; [reflexivity|].
  intros x Hx. apply NG. apply in_or_app; right; right; right; exact Hx.
Qed.
