(** Tie of the hand-written model Bdb/Model.v to the source: theorems about the REGENERATED terms of
    Gen/BdbFuns.v (translate/bdb_funs.py: the installed CPython bdb.py, and custom.py, factory.py, filter.py,
    plugins/__init__.py, global_.py, utils.py, call.py of /repo), interpreted by Bdb/Interp.v.

    For ALL debugger states, frames, events, policies:
      tie_stop_here, tie_set_stopinfo           Bdb.stop_here / _set_stopinfo          = stop_here / set_stopinfo
      tie_set_step/next/return/until/continue   Bdb.set_* , CustomizedPdb.set_continue = apply_cmd
      tie_interaction                           user_* -> CustomizedPdb.cmdloop under CmdloopHook -> one command
                                                                                       = interaction
      tie_dispatch_line/call/return/exception   Bdb.dispatch_*                         = dispatch_*
      tie_trace_dispatch                        Bdb.trace_dispatch selects them by the event name
      tie_init                                  CustomizedPdb.__init__                 = the debugger of [init]
      (Bdb/TieFilter.v) tie_filter_class, tie_registered, tie_call_order, tie_first_result, tie_rejected
                                                filter.py, register(), global_trace_func = run_filter, registered,
                                                                                         call_order, first_result, rejected
      tie_rejected_spec, tie_lambda_rejected    the same chain against the attribute-level specification
                                                (no second translator involved)
      tie_local_trace, tie_sys_trace            WithContext._local_trace, sys_trace's thread guard
      tie_step, tie_run_from, tie_run           one raw event / a whole stream through the regenerated code
                                                                                       = step / run_from / run
    All are equalities "interpretation of the regenerated term = Some (model function)": kind (a) of
    harness/TIE_TASK.md; every theorem of Props/C05.v about [prompts]/[trace_calls] transfers by [tie_run].
    Only [tie_overrides] and [tie_sys_trace] are of kind (c) (reflexivity against a pinned value).

    HONEST LABELS.
    * Genuine translation + equality with the model for all inputs: everything listed above except the next two items.
    * Pins (a fixed shape checked, nothing interpreted): [tie_overrides] (the list of methods CustomizedPdb defines),
      [tie_sys_trace] (a boolean the translator emits after checking the shape of sys_trace), and the checks the
      TRANSLATOR makes without emitting a term -- it fails closed when they do not hold, no theorem speaks about them:
      factory.py Factory/_factory (a fresh CustomizedPdb(cmdloop_hook=CmdloopHook(hook=hook), ..) per call, its
      trace_dispatch returned) and PdbInstanceFactory; local_.py LocalTraceFunc.init/local_trace_func (one trace function
      per current_trace_no()) and Factory._factory (first statement / WithContext(trace, context=_context) / one yield in
      _context); utils.py _global_trace (a FRESH closure per call event) and _create_local_trace; global_.py
      TraceFuncCreator._trace_func and GlobalTraceFunc.init; filter.py FilterByModuleName.init, FilerByModule.__init__
      (initial values), .init, .context, .on_cmdloop (statement for statement); runner.py: the one call
      sys_trace(trace_func=trace_func, thread=run_arg.trace_threads), no other settrace in nextline/; spec.py: `filter` is
      firstresult; the imports the translated names come from; module bodies (imports, defs, classes only), class bodies
      (defs only), bases, decorators, parameter lists and defaults of everything translated; CustomizedPdb defines no
      method besides __init__, cmdloop, _cmdloop, set_continue (or an override of a translated Bdb method);
      super().__init__(stdin=, stdout=, nosigint=True, readrc=False) only.
    * Ignored positions (one rule, translate/bdb_funs.py is_noise): docstrings, pass, print/logger calls and
      `msg = <text>` whose arguments contain no Call / NamedExpr / Await / Yield / comprehension, `logger = getLogger(<name>)`;
      an assert is never ignored (`assert next_trace` of WithContext is translated: [WAssertNextTrace]).
    * Exceptions: the interpreter has none.  `raise BdbQuit` and an assert that fails are STUCK states, and the theorems
      say they are not reached from quitting = False; the try/finally of Bdb.dispatch_return (frame_returning reset) is
      given its meaning for the normal completion of user_return only -- an exception out of the command loop (a
      KeyboardInterrupt at the prompt, C04) is outside this model and this tie.  The `try/except NotOnTraceCall` of
      CustomizedPdb.cmdloop IS interpreted as an exception handler (the raise comes from CmdloopHook).

    NOT translated (stays hand-written, see the header of Bdb/Interp.v): pdb.py between Bdb.user_* and the
    command (interaction, the choice of curframe, do_X -> set_X), pluggy's call order, CPython's
    trace_trampoline, break_here/break_anywhere (no breakpoints). *)
From NL Require Import Bdb.Interp Gen.BdbFuns.
From NL Require Export Bdb.TieFilter.
Open Scope Z_scope.
Open Scope string_scope.

Definition methods : list method := app custom_methods bdb_methods.
Definition fr_of (e : event) (returning : bool) : val := if returning then eframe e else VNone.
Definition opt_list {A} (o : option A) : list A := match o with Some x => [x] | None => [] end.

Lemma tie_set_stopinfo : forall e user st fr q out sf rf ln,
  call methods e user FUEL "_set_stopinfo" [of_opt sf; of_opt rf; VInt ln] (mkI st fr q out)
  = Some (VNone, mkI (set_dbg st (set_stopinfo (s_dbg st) sf rf ln)) fr false out).
Proof.
  intros. destruct st as [d ss si sf0 np]. destruct d as [b s0 r0 l0]. destruct sf, rf; reflexivity.
Qed.

Lemma tie_stop_here : forall e user s f vw,
  call methods e user FUEL "stop_here" [VFrame f (Some vw)] s
  = Some (VBool (stop_here (s_dbg (i_st s)) f (v_line vw)), s).
Proof.
  intros. destruct s as [st fr q out]. destruct st as [d ss si sf0 np]. destruct d as [b s0 r0 l0].
  destruct vw as [ln bk g]. unfold stop_here. cbn -[Z.eqb Z.leb Z.ltb].
  repeat (first [ reflexivity | exfalso; lia
                | match goal with
                  | |- context[of_opt ?x] => destruct x; cbn -[Z.eqb Z.leb Z.ltb]
                  | |- context[Z.eqb ?a ?b] => destruct (Z.eqb_spec a b); cbn -[Z.eqb Z.leb Z.ltb]
                  | |- context[Z.leb ?a ?b] => destruct (Z.leb_spec a b); cbn -[Z.eqb Z.leb Z.ltb]
                  end ]).
Qed.

(** the five commands *)
Definition cur_val (st : state) (e : event) : val :=
  let '(cur, curline, curpar, curgen) := curframe st e in VFrame cur (Some (mkV curline curpar curgen)).

Lemma tie_set_step : forall e st returning out,
  run_cmd methods e Step (cur_val st e) (mkI st (fr_of e returning) false out)
  = Some (mkI (apply_cmd Step st e returning) (fr_of e returning) false out).
Proof.
  intros. unfold cur_val, apply_cmd. destruct (curframe st e) as [[[cur cl] cp] cg].
  destruct st as [d ss si sf0 np]. destruct d as [b s0 r0 l0].
  destruct returning; cbn; [|reflexivity].
  destruct (e_par e) as [p|]; cbn; [|reflexivity].
  destruct (lookup p ss); reflexivity.
Qed.

Lemma tie_set_next : forall e st returning out,
  run_cmd methods e Next (cur_val st e) (mkI st (fr_of e returning) false out)
  = Some (mkI (apply_cmd Next st e returning) (fr_of e returning) false out).
Proof.
  intros. unfold cur_val, apply_cmd. destruct (curframe st e) as [[[cur cl] cp] cg].
  destruct st as [d ss si sf0 np]. destruct d as [b s0 r0 l0]. reflexivity.
Qed.

Lemma tie_set_return : forall e st returning out,
  run_cmd methods e Return (cur_val st e) (mkI st (fr_of e returning) false out)
  = Some (mkI (apply_cmd Return st e returning) (fr_of e returning) false out).
Proof.
  intros. unfold cur_val, apply_cmd. destruct (curframe st e) as [[[cur cl] cp] cg].
  destruct st as [d ss si sf0 np]. destruct d as [b s0 r0 l0].
  destruct cg; cbn; [reflexivity|]. destruct cp; reflexivity.
Qed.

Lemma tie_set_until : forall e st returning out,
  run_cmd methods e Until (cur_val st e) (mkI st (fr_of e returning) false out)
  = Some (mkI (apply_cmd Until st e returning) (fr_of e returning) false out).
Proof.
  intros. unfold cur_val, apply_cmd. destruct (curframe st e) as [[[cur cl] cp] cg].
  destruct st as [d ss si sf0 np]. destruct d as [b s0 r0 l0]. reflexivity.
Qed.

Lemma tie_set_continue : forall e st returning out,
  run_cmd methods e Continue (cur_val st e) (mkI st (fr_of e returning) false out)
  = Some (mkI (apply_cmd Continue st e returning) (fr_of e returning) false out).
Proof.
  intros. unfold cur_val, apply_cmd. destruct (curframe st e) as [[[cur cl] cp] cg].
  destruct st as [d ss si sf0 np]. destruct d as [b s0 r0 l0]. destruct b; reflexivity.
Qed.

Lemma tie_commands : forall c e st returning out,
  run_cmd methods e c (cur_val st e) (mkI st (fr_of e returning) false out)
  = Some (mkI (apply_cmd c st e returning) (fr_of e returning) false out).
Proof.
  intros. destruct c; [apply tie_set_step | apply tie_set_next | apply tie_set_return | apply tie_set_until | apply tie_set_continue].
Qed.

(** Pdb.user_* -> interaction -> CustomizedPdb.cmdloop (custom.py) under CmdloopHook (factory.py) *)
Definition interact (pol : policy) (i : nat) (w : bool) (e : event) : istate -> option istate :=
  iinteract methods cmdloop_hook_prog pol i w e cmdloop_prog.

Lemma one_prompt_cur : forall pol i e s,
  one_prompt methods pol i e s =
  (let st := i_st s in
   let st1 := mkS (s_dbg st) (s_status st) (s_info st) (s_filter st) (S (s_nprompt st)) in
   run_cmd methods e (pol (s_nprompt st) e) (cur_val st1 e)
     (mkI st1 (i_fr s) (i_quit s) (app (i_out s) [mkP i (e_kind e) (e_line e) (e_fid e)]))).
Proof.
  intros. unfold one_prompt, cur_val. cbv zeta.
  destruct (curframe _ e) as [[[cur cl] cp] cg]. reflexivity.
Qed.

Lemma tie_interaction : forall pol i w e returning st out,
  interact pol i w e (mkI st (fr_of e returning) false out)
  = Some (let '(st', p) := interaction pol i w returning st e in
          mkI st' (fr_of e returning) false (app out (opt_list p))).
Proof.
  intros. unfold interact, iinteract, interaction. destruct w.
  - cbn [cmdloop_prog cmdloop_hook_prog cexec hook_raises]. rewrite one_prompt_cur. cbn [i_st i_fr i_quit i_out].
    cbv zeta. rewrite tie_commands. reflexivity.
  - cbn. rewrite app_nil_r. reflexivity.
Qed.

(** ---- the dispatch functions *)
Definition dcall (pol : policy) (i : nat) (w : bool) (e : event) (m : string) (args : list val) (st : state) :=
  call methods e (interact pol i w e) FUEL m args (mkI st VNone false []).
Definition res (v : val) (st : state) (p : option prompt) : option (val * istate) :=
  Some (v, mkI st VNone false (opt_list p)).

Local Opaque interact interaction.

Lemma tie_interaction_f : forall pol i w e st out,
  interact pol i w e (mkI st VNone false out)
  = Some (let '(st', p) := interaction pol i w false st e in mkI st' VNone false (app out (opt_list p))).
Proof. intros. exact (tie_interaction pol i w e false st out). Qed.

Lemma tie_interaction_t : forall pol i w e st out,
  interact pol i w e (mkI st (eframe e) false out)
  = Some (let '(st', p) := interaction pol i w true st e in mkI st' (eframe e) false (app out (opt_list p))).
Proof. intros. exact (tie_interaction pol i w e true st out). Qed.

Ltac inter :=
  match goal with
  | |- context[interact ?pol ?i ?w ?e (mkI ?st VNone false ?out)] =>
      rewrite (tie_interaction_f pol i w e st out);
      destruct (interaction pol i w false st e) as [[[? ? ? ?] ? ? ? ?] ?]; cbn
  | |- context[interact ?pol ?i ?w ?e (mkI ?st ?fr false ?out)] =>
      change fr with (eframe e);
      rewrite (tie_interaction_t pol i w e st out);
      destruct (interaction pol i w true st e) as [[[? ? ? ?] ? ? ? ?] ?]; cbn
  end.

(** One proof script for all the dispatch functions: evaluate, split on the next undetermined test (an integer
    comparison, a frame attribute that is None or a frame, a flag of the event), replace a call of user_X by the
    model's [interaction] ([tie_interaction]); a leaf is closed by reflexivity, or by contradiction among the
    recorded comparisons.  It does not depend on the order of the operands of a comparison or on the order in
    which the source makes its tests. *)
Ltac rw := repeat match goal with
  | H : _ = true |- _ => rewrite !H
  | H : _ = false |- _ => rewrite !H
  | H : lookup _ _ = _ |- _ => rewrite !H
  | H : e_par _ = _ |- _ => rewrite !H
  end.
Ltac leaf := first [ reflexivity | exfalso; lia | exfalso; congruence ].
Ltac crunch :=
  cbn -[Z.eqb Z.leb Z.ltb]; unfold gen_of, parent_of; cbn -[Z.eqb Z.leb Z.ltb]; rw; cbn -[Z.eqb Z.leb Z.ltb];
  first
  [ leaf
  | lazymatch goal with
    | |- context[interact _ _ _ _ (mkI _ _ false _)] => inter; crunch
    | |- context[Z.eqb ?a ?b] => destruct (Z.eqb_spec a b); crunch
    | |- context[Z.leb ?a ?b] => destruct (Z.leb_spec a b); crunch
    | |- context[Z.ltb ?a ?b] => destruct (Z.ltb_spec a b); crunch
    | |- context[lookup ?k ?l] => destruct (lookup k l) as [[? ?]|] eqn:?; crunch
    | |- context[of_opt ?x] => destruct x; crunch
    | |- context[oeqb ?x ?y] => first [is_var x; destruct x | is_var y; destruct y | unfold oeqb]; crunch
    | |- context[e_gen ?e] => destruct (e_gen e) eqn:?; crunch
    | |- context[x_stopiter ?x] => destruct (x_stopiter x) eqn:?; crunch
    | |- context[x_genexit ?x] => destruct (x_genexit x) eqn:?; crunch
    | |- context[x_tbnone ?x] => destruct (x_tbnone x) eqn:?; crunch
    | |- context[e_par ?e] => destruct (e_par e) eqn:?; crunch
    | |- context[if ?b then _ else _] => destruct b eqn:?; crunch
    end ].

Lemma tie_dispatch_line : forall pol i w st e,
  dcall pol i w e "dispatch_line" [eframe e] st
  = (let '(st', p) := dispatch_line pol i w st e in res VTrace st' p).
Proof.
  intros. unfold dcall, dispatch_line, res, stop_here.
  destruct st as [d ss si sf0 np]. destruct d as [b s0 r0 l0]. crunch.
Qed.

Lemma tie_dispatch_call : forall pol i st e,
  dcall pol i true e "dispatch_call" [eframe e; VArg] st
  = (let '(st', p, t) := dispatch_call pol i st e in res (if t then VTrace else VNone) st' p).
Proof.
  intros. unfold dcall, dispatch_call, res, stop_here.
  destruct st as [d ss si sf0 np]. destruct d as [b s0 r0 l0]. crunch.
Qed.

Lemma tie_dispatch_return : forall pol i w st e,
  dcall pol i w e "dispatch_return" [eframe e; VArg] st
  = (let '(st', p) := dispatch_return pol i w st e in res VTrace st' p).
Proof.
  intros. unfold dcall, dispatch_return, res, stop_here.
  destruct st as [d ss si sf0 np]. destruct d as [b s0 r0 l0]. crunch.
Qed.

Lemma tie_dispatch_exception : forall pol i w st e,
  dcall pol i w e "dispatch_exception" [eframe e; VArg] st
  = (let '(st', p) := dispatch_exception pol i w st e in res VTrace st' p).
Proof.
  intros. unfold dcall, dispatch_exception, res, stop_here, gen_of.
  destruct st as [d ss si sf0 np]. destruct d as [b s0 r0 l0]. crunch.
Qed.

(** Bdb.trace_dispatch: the event name selects the dispatch function *)
Definition expected (pol : policy) (i : nat) (w : bool) (st : state) (e : event) : option (val * istate) :=
  match e_kind e with
  | KCall => let '(st', p, t) := dispatch_call pol i st e in res (if t then VTrace else VNone) st' p
  | KLine => let '(st', p) := dispatch_line pol i w st e in res VTrace st' p
  | KReturn => let '(st', p) := dispatch_return pol i w st e in res VTrace st' p
  | KException => let '(st', p) := dispatch_exception pol i w st e in res VTrace st' p
  end.

Lemma tie_trace_dispatch : forall pol i w st e,
  (e_kind e = KCall -> w = true) ->
  dcall pol i w e "trace_dispatch" [eframe e; VStr (kname (e_kind e)); VArg] st = expected pol i w st e.
Proof.
  intros pol i w st e W.
  unfold expected, dcall, dispatch_line, dispatch_call, dispatch_return, dispatch_exception, res, stop_here, gen_of.
  destruct st as [d ss si sf0 np]. destruct d as [b s0 r0 l0].
  destruct (e_kind e); [rewrite (W eq_refl) | | | ]; crunch.
Qed.

(** CustomizedPdb.__init__: botframe None, stop info (None, None, 0), quitting False -- the debugger part of [init] *)
Lemma tie_init : forall c e user st fr q out,
  exec methods e user FUEL (m_body custom_init) [] (mkI st fr q out)
  = Some (ONext, [], mkI (set_dbg st (s_dbg (init c))) fr false out).
Proof.
  intros. destruct st as [d ss si sf0 np]. destruct d as [b s0 r0 l0]. reflexivity.
Qed.

(** of the methods of Bdb / Pdb / Cmd, CustomizedPdb overrides set_continue, cmdloop and _cmdloop only
    (the translator refuses an override of any other method the model depends on; this pins the list) *)
Lemma tie_overrides :
  forallb (fun x => existsb (String.eqb x) ["_cmdloop"; "cmdloop"; "set_continue"]) custom_overrides = true
  /\ existsb (String.eqb "set_continue") custom_overrides = true
  /\ existsb (String.eqb "cmdloop") custom_overrides = true.
Proof. repeat split; reflexivity. Qed.

(** ---- one raw event through the regenerated code: global trace function (filter chain) -> a fresh WithContext
    closure around Pdb.trace_dispatch for a call event; the frame's own trace function for the other events
    (CPython: a frame without f_trace gets no line/return/exception events; a None result leaves f_trace) *)
Definition istep (c : cfg) (pol : policy) (i : nat) (st : state) (e : event) : option (state * option prompt * bool) :=
  match e_kind e with
  | KCall =>
      let st0 := mkS (s_dbg st) (s_status st) ((e_fid e, (e_par e, e_gen e)) :: s_info st) (s_filter st) (s_nprompt st) in
      match irejected filter_classes register_prog global_trace_prog c e (s_filter st0) with
      | Some (rej, fs) =>
          let st1 := mkS (s_dbg st0) (s_status st0) (s_info st0) fs (s_nprompt st0) in
          if rej then Some (st1, None, false)
          else match dcall pol i true e "trace_dispatch" [eframe e; VStr (kname (e_kind e)); VArg] st1 with
               | Some (v, s) =>
                   match wexec FUEL local_trace_prog true (truthy v) with
                   | Some keep => Some (if keep then set_status (i_st s) (e_fid e) Wrapped else i_st s, hd_error (i_out s), true)
                   | None => None
                   end
               | None => None
               end
      | None => None
      end
  | _ =>
      match lookup (e_fid e) (s_status st) with
      | None => Some (st, None, false)
      | Some t =>
          let w := match t with Wrapped => true | Raw => false end in
          match dcall pol i w e "trace_dispatch" [eframe e; VStr (kname (e_kind e)); VArg] st with
          | Some (v, s) =>
              (* a WithContext closure must return itself again (then its next_trace stays live); Pdb's own
                 trace_dispatch on a Raw frame must return non-None (f_trace is replaced by the result) *)
              match (if w then wexec FUEL local_trace_prog true (truthy v) else Some (truthy v)) with
              | Some true => Some (i_st s, hd_error (i_out s), w)
              | _ => None
              end
          | None => None
          end
      end
  end.

Lemma tie_step : forall c pol i st e, istep c pol i st e = Some (step c pol i st e).
Proof.
  intros. unfold istep, step. destruct (e_kind e) eqn:K.
  - rewrite tie_rejected. cbn [s_filter s_dbg s_status s_info s_nprompt].
    destruct (rejected c e (s_filter st)) as [rej fs]. destruct rej; [reflexivity|].
    rewrite <- K. rewrite tie_trace_dispatch by reflexivity. unfold expected. rewrite K.
    match goal with |- context[dispatch_call ?a ?b ?s ?ev] => destruct (dispatch_call a b s ev) as [[st2 p] t] end.
    unfold res. destruct t; cbn [truthy]; rewrite tie_local_trace; cbn [i_st i_out]; destruct p; reflexivity.
  - destruct (lookup (e_fid e) (s_status st)) as [t|]; [|reflexivity].
    rewrite <- K. rewrite tie_trace_dispatch by (rewrite K; discriminate). unfold expected. rewrite K.
    match goal with |- context[dispatch_line ?a ?b ?w ?s ?ev] => destruct (dispatch_line a b w s ev) as [st2 p] end.
    unfold res. cbn [truthy]. rewrite tie_local_trace. cbn [i_st i_out]. destruct t; destruct p; reflexivity.
  - destruct (lookup (e_fid e) (s_status st)) as [t|]; [|reflexivity].
    rewrite <- K. rewrite tie_trace_dispatch by (rewrite K; discriminate). unfold expected. rewrite K.
    match goal with |- context[dispatch_return ?a ?b ?w ?s ?ev] => destruct (dispatch_return a b w s ev) as [st2 p] end.
    unfold res. cbn [truthy]. rewrite tie_local_trace. cbn [i_st i_out]. destruct t; destruct p; reflexivity.
  - destruct (lookup (e_fid e) (s_status st)) as [t|]; [|reflexivity].
    rewrite <- K. rewrite tie_trace_dispatch by (rewrite K; discriminate). unfold expected. rewrite K.
    match goal with |- context[dispatch_exception ?a ?b ?w ?s ?ev] => destruct (dispatch_exception a b w s ev) as [st2 p] end.
    unfold res. cbn [truthy]. rewrite tie_local_trace. cbn [i_st i_out]. destruct t; destruct p; reflexivity.
Qed.

Fixpoint irun_from (c : cfg) (pol : policy) (i : nat) (st : state) (evs : list event) : option (list prompt * list nat) :=
  match evs with
  | [] => Some ([], [])
  | e :: r =>
      match istep c pol i st e with
      | Some (st', p, tc) =>
          match irun_from c pol (S i) st' r with
          | Some (ps, tcs) => Some ((match p with Some x => x :: ps | None => ps end), (if tc then i :: tcs else tcs))
          | None => None
          end
      | None => None
      end
  end.

(** call.py sys_trace: a thread other than the main one is traced only if trace_threads *)
Definition irun (c : cfg) (pol : policy) (evs : list event) : option (list prompt * list nat) :=
  if c_main c || (sys_trace_thread_guarded && c_threads c) then irun_from c pol 0%nat (init c) evs else Some ([], []).

Lemma tie_run_from : forall c pol evs i st, irun_from c pol i st evs = Some (run_from c pol i st evs).
Proof.
  intros c pol evs. induction evs as [|e r IH]; intros i st; cbn [irun_from run_from]; [reflexivity|].
  rewrite tie_step. destruct (step c pol i st e) as [[st' p] tc]. rewrite IH.
  destruct (run_from c pol (S i) st' r) as [ps tcs]. reflexivity.
Qed.

(** the whole stream: every theorem about [prompts] / [trace_calls] of Bdb/Model.v is a theorem about the
    interpretation of the regenerated code *)
Theorem tie_run : forall c pol evs, irun c pol evs = Some (run c pol evs).
Proof.
  intros. unfold irun, run, stream_traced. rewrite tie_sys_trace. cbn [andb].
  destruct (c_main c || c_threads c); [apply tie_run_from | reflexivity].
Qed.

Corollary tie_prompts : forall c pol evs, option_map fst (irun c pol evs) = Some (prompts c pol evs).
Proof. intros. rewrite tie_run. reflexivity. Qed.

(** non-vacuity: def f(a): b = a + 1; return b / x = f(1), module tracing off -- the interpreter runs the
    regenerated code to the prompts the model computes (all-step, all-next, all-continue) *)
Definition tie_ev (k : kind) (f : Z) (p : option Z) (l : Z) : event := mkE k f p l MScript 0 false false noX.
Definition tie_stream : list event :=
  [tie_ev KCall 1 (Some 0) 0; tie_ev KLine 1 (Some 0) 1; tie_ev KLine 1 (Some 0) 4;
   tie_ev KCall 2 (Some 1) 1; tie_ev KLine 2 (Some 1) 2; tie_ev KLine 2 (Some 1) 3; tie_ev KReturn 2 (Some 1) 3;
   tie_ev KLine 1 (Some 0) 5; tie_ev KReturn 1 (Some 0) 5].
Definition tie_cfg : cfg := mkC true false true true [].

Example tie_example :
  option_map (fun r => map p_idx (fst r)) (irun tie_cfg (all Step) tie_stream) = Some [1; 2; 3; 4; 5; 6; 7; 8]%nat /\
  option_map (fun r => map p_idx (fst r)) (irun tie_cfg (all Next) tie_stream) = Some [1; 2; 7; 8]%nat /\
  option_map (fun r => map p_idx (fst r)) (irun tie_cfg (all Continue) tie_stream) = Some [1]%nat.
Proof. repeat split; vm_compute; reflexivity. Qed.
