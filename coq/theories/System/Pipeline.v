(** System/Pipeline.v -- the event pipeline END TO END, as a composition of the models of
    C09 (the subprocess' emitter), C10 (the relay between the processes), C11 (the
    main-process registrars) and C08 (the broker's topics).

      per-actor structured programs [ps], any interleaving [sched]
        --Events/Emitter.v-->  the stream the subprocess puts on its queue
        --Relay/Model.v, any interleaving [ls] of child, feeder, monitor, drain loop,
          timeout and kill-->  the events for which the main-process hooks are called
        --Registrars/Model.v-->  what the registrars publish
        --PubSub/Model.v-->  what a subscriber sees.

    The relay model treats events as opaque numbers (it never inspects them); here the
    stream is fed to it as the list of its own POSITIONS [0; 1; ...; n-1] and what it delivers
    is decoded back.  Every theorem below is stated for ALL programs, schedules, relay
    interleavings and kill points; none has a hypothesis about well-formedness: that is
    supplied by the emitter theorem.

    Proofs only compose the per-property theorems; no new facts about the code enter here. *)
From NL Require Import Events.Grammar Events.GrammarProofs Events.Emitter Events.EmitterProofs.
From NL Require Import Registrars.Model Registrars.Proofs.
From NL Require Relay.Model Relay.Proofs.
From Coq Require Import Lia.
Open Scope Z_scope.

Module R := NL.Relay.Model.
Module RP := NL.Relay.Proofs.

(** positions of a stream, as the opaque payloads of the relay model *)
Definition encode (es : list event) : list Z := map Z.of_nat (seq 0 (length es)).

(** the events at the given positions *)
Definition decode (es : list event) (zs : list Z) : list event :=
  flat_map (fun z => match nth_error es (Z.to_nat z) with Some e => [e] | None => [] end) zs.

(** what the main-process hooks are called with, when the subprocess would emit [es] and the
    two processes interleave as [ls] *)
Definition delivered_events (boot : bool) (es : list event) (ls : list R.label) : list event :=
  decode es (R.delivered (R.run boot (encode es) ls)).

Lemma decode_app es a b : decode es (a ++ b) = decode es a ++ decode es b.
Proof. unfold decode. apply flat_map_app. Qed.

Lemma decode_cons es z zs :
  decode es (z :: zs) =
  (match nth_error es (Z.to_nat z) with Some e => [e] | None => [] end) ++ decode es zs.
Proof. reflexivity. Qed.

(** positions beyond the end decode to nothing *)
Lemma decode_beyond (es : list event) : forall n m, (length es <= m)%nat ->
  decode es (map Z.of_nat (seq m n)) = [].
Proof.
  induction n as [|n IHn]; intros m Hm; [reflexivity|]. cbn [seq map].
  rewrite decode_cons, Nat2Z.id.
  replace (nth_error es m) with (@None event) by (symmetry; apply nth_error_None; lia).
  cbn [app]. apply IHn. lia.
Qed.

Lemma decode_seq : forall k (es pre : list event),
  decode (pre ++ es) (map Z.of_nat (seq (length pre) k)) = firstn k es.
Proof.
  induction k as [|k IH]; intros es pre; [reflexivity|].
  destruct es as [|e es].
  - rewrite app_nil_r, firstn_nil. apply decode_beyond. lia.
  - cbn [seq map]. rewrite decode_cons, Nat2Z.id.
    rewrite nth_error_app2 by lia. rewrite Nat.sub_diag. cbn [nth_error app firstn]. f_equal.
    specialize (IH es (pre ++ [e])). rewrite <- app_assoc in IH. cbn [app] in IH.
    rewrite app_length in IH. cbn [length] in IH. rewrite Nat.add_1_r in IH. exact IH.
Qed.

Lemma firstn_seq_le : forall k a n, (k <= n)%nat -> firstn k (seq a n) = seq a k.
Proof.
  induction k as [|k IH]; intros a n H; [reflexivity|].
  destruct n as [|n]; [lia|]. cbn [seq firstn]. f_equal. apply IH. lia.
Qed.

(** a prefix of the positions decodes to the prefix of the stream of that length *)
Lemma decode_prefix es zs rest : encode es = zs ++ rest -> decode es zs = firstn (length zs) es.
Proof.
  intros H. unfold encode in H.
  assert (Hz : zs = map Z.of_nat (seq 0 (length zs))).
  { assert (Hl : (length zs <= length es)%nat).
    { apply (f_equal (@length Z)) in H. rewrite map_length, seq_length, app_length in H. lia. }
    apply (f_equal (firstn (length zs))) in H. rewrite firstn_app, Nat.sub_diag, firstn_O, app_nil_r, firstn_all in H.
    rewrite firstn_map, firstn_seq_le in H by lia. symmetry. exact H. }
  rewrite Hz at 1. exact (decode_seq (length zs) es []).
Qed.

Lemma decode_encode es : decode es (encode es) = es.
Proof.
  rewrite (decode_prefix es (encode es) []) by (symmetry; apply app_nil_r).
  unfold encode. rewrite map_length, seq_length. apply firstn_all.
Qed.

(** ---- C10 lifted to events ---- *)

(** whatever the interleaving and the kill point, the hooks are called with a PREFIX of the
    stream, in stream order, each event once *)
Theorem delivered_is_prefix boot es ls :
  exists k, delivered_events boot es ls = firstn k es.
Proof.
  unfold delivered_events.
  destruct (RP.prefix_always boot (encode es) ls) as [[r1 H1] [[r2 H2] _]].
  remember (R.run boot (encode es) ls) as s eqn:Hs. clear Hs.
  exists (length (R.delivered s)).
  apply (decode_prefix es _ (r1 ++ r2)). rewrite H2, H1. apply app_assoc_reverse.
Qed.

(** a run that ends normally delivers the whole stream *)
Theorem delivered_is_everything boot es ls :
  R.main (R.run boot (encode es) ls) = R.PEndRun -> R.child (R.run boot (encode es) ls) = R.CExited ->
  delivered_events boot es ls = es.
Proof.
  intros Hm Hc. unfold delivered_events.
  destruct (RP.complete_in_order boot (encode es) ls Hm Hc) as [H _]. rewrite H. apply decode_encode.
Qed.

(** what a recording plugin sees (the relay model's log, [ODeliver] entries) is the same prefix: the composition below goes
    through [delivered], and [delivered] is what the log shows *)
Theorem log_shows_delivered boot es ls :
  decode es (R.deliveries (R.log (R.run boot (encode es) ls))) = delivered_events boot es ls.
Proof.
  unfold delivered_events. destruct (RP.prefix_always boot (encode es) ls) as [_ [_ H]]. rewrite H. reflexivity.
Qed.

(** on_end_run is called only after every delivery: once the relay has reached [PEndRun] nothing is delivered any more, so the
    publications of the registrars for the whole run are those of [pubs_run] on [delivered_events] (init, start, the delivered
    events in order, then on_end_run).  The [e2e_closed_out_*] theorems below speak of [pubs_run], i.e. they are about runs in
    which on_end_run IS called (every run whose relay ends; a child killed inside a pipe write never gets there:
    C10_kill_mid_write_never_ends). *)
Theorem nothing_delivered_after_end_run boot es ls l :
  R.main (R.run boot (encode es) ls) = R.PEndRun ->
  delivered_events boot es (ls ++ [l]) = delivered_events boot es ls.
Proof.
  intros H. unfold delivered_events.
  pose proof (RP.nothing_after_end boot (encode es) ls l H) as Hl.
  destruct (RP.prefix_always boot (encode es) (ls ++ [l])) as [_ [_ H1]].
  destruct (RP.prefix_always boot (encode es) ls) as [_ [_ H2]].
  rewrite <- H1, <- H2, Hl. reflexivity.
Qed.

(** ---- C09 + C10: what reaches the main process is a well-formed stream cut at some point *)

Lemma wf_prefix_firstn r es k : wf_prefix r es = true -> wf_prefix r (firstn k es) = true.
Proof. intros H. rewrite <- (firstn_skipn k es) in H. exact (wf_prefix_app r _ _ H). Qed.

Theorem delivered_wf_prefix r ps sched boot ls :
  wf_prefix r (delivered_events boot (emitted r ps sched) ls) = true.
Proof.
  destruct (delivered_is_prefix boot (emitted r ps sched) ls) as [k Hk]. rewrite Hk.
  apply wf_prefix_firstn, emitter_prefix.
Qed.

Theorem delivered_wf_when_complete r ps sched boot ls :
  finished r ps sched = true ->
  R.main (R.run boot (encode (emitted r ps sched)) ls) = R.PEndRun ->
  R.child (R.run boot (encode (emitted r ps sched)) ls) = R.CExited ->
  WF r (delivered_events boot (emitted r ps sched) ls).
Proof.
  intros Hf Hm Hc. rewrite (delivered_is_everything _ _ _ Hm Hc). exact (emitter_wf r ps sched Hf).
Qed.

(** ---- C09 + C10 + C11: the published run state, end to end ---- *)

Section EndToEnd.
  Variables (r : Z) (ps : list prog) (sched : list nat) (boot : bool) (ls : list R.label).
  Let del := delivered_events boot (emitted r ps sched) ls.

  (** after the events that got through, the published active set is the set of traces that
      (as far as the main process was told) started and did not end, in start order *)
  Theorem e2e_active_set : last_nos (pubs_events r del) = active del.
  Proof. apply active_set. apply delivered_wf_prefix. Qed.

  (** and once on_end_run has run it is empty, whatever got through *)
  Theorem e2e_closed_out_active_set : last_nos (pubs_run r del) = [].
  Proof. apply active_set_closed. Qed.

  (** every trace whose start got through is reported running then finished, once each *)
  Theorem e2e_trace_info_once : forall t,
    filter (about t) (on_topic TTraceInfo (pubs_run r del)) =
    if in_dec Z.eq_dec t (trace_starts del)
    then [Some (VTraceInfo r t (pl_of t del) true); Some (VTraceInfo r t (pl_of t del) false)]
    else [].
  Proof. apply trace_info_once. apply delivered_wf_prefix. Qed.

  (** notices match the prompt starts that got through, one to one *)
  Theorem e2e_notice_bijection : on_topic TPromptNotice (pubs_events r del) = notices r del del.
  Proof. apply notice_bijection. apply delivered_wf_prefix. Qed.

  (** the per-trace prompt topics of the traces that got through, and prompt_notice, are ended,
      as the last thing sent on them *)
  Theorem e2e_closed_out_prompt_topics :
    (forall t, In t (trace_starts del) ->
       exists vs, on_topic (TPromptInfoFor t) (pubs_run r del) = map Some vs ++ [None]) /\
    (exists vs, on_topic TPromptNotice (pubs_run r del) = map Some vs ++ [None]).
  Proof. apply closed_out_prompt_topics. apply delivered_wf_prefix. Qed.

  (** hence (C08) every subscriber of such a topic terminates, whenever it attached and however
      it was scheduled against the registrar's publications *)
  Theorem e2e_subscribers_terminate : forall t ops,
    In t (trace_starts del) ->
    map forget (filter is_publisher_op ops) = map to_op (on_topic (TPromptInfoFor t) (pubs_run r del)) ->
    forall s, (s < length (PS.i_subs (PS.run false ops)))%nat ->
    exists n,
      let tail := skipn (length ops) (PS.outs false (ops ++ repeat (PS.Next s) (S n))) in
      last tail PS.OBlocked = PS.OStop /\ ~ In PS.OBlocked tail.
  Proof.
    intros t ops Ht Hops s Hs. destruct e2e_closed_out_prompt_topics as [H _].
    exact (ended_topic_terminates _ ops (H t Ht) Hops s Hs).
  Qed.
End EndToEnd.
