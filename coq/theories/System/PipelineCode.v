(** System/PipelineCode.v -- the end-to-end statements of System/Pipeline.v restated over the REGENERATED CODE of the three
    components that have a regenerated-source tie: the emitter interpreter ([Events/Interp.v] on [Gen/EmitterSkel.v]), the relay
    interpreter ([Relay/Tie.v] on [Gen/RelaySkel.v]) and the registrars interpreter ([Registrars/Tie.v] on
    [Gen/RegistrarsFuns.v]).  Nothing is proved anew: each statement rewrites one of Pipeline.v with the three tie theorems
    ([tie_same_stream], [tie_same_histories], [tie_whole_run_stop] / [tie_whole_run_topics]).

    Reading: take what the subprocess' CODE puts on its queue for any programs and schedule; push it through the relay CODE under
    any interleaving and kill point; feed what comes out to the registrars' CODE (which stops at the first exception, as the real
    relay does).  Then the registrars never raise, the run is never cut short, and what they publish on every topic is the
    encoding of [pubs_run] on the delivered prefix -- the sequence all the C11 theorems speak about. *)
From NL Require Import Events.Grammar Events.GrammarProofs Events.Emitter Events.EmitterProofs.
From NL Require Import Registrars.Model Registrars.Proofs System.Pipeline.
From NL Require Events.Interp Events.Tie Relay.Tie Registrars.Tie PubSub.Interp PubSub.Tie.
From Coq Require Import String.
Open Scope Z_scope.

Module EI := NL.Events.Interp.
Module ET := NL.Events.Tie.
Module RT := NL.Relay.Tie.
Module GT := NL.Registrars.Tie.

Definition k_run_no : string := "run_no".

(** the events for which the relay CODE calls the main-process hooks, when the subprocess' CODE emits under [ps], [sched] *)
Definition code_delivered (r : Z) (ps : list prog) (sched : list nat) (boot : bool) (ls : list R.label) : list event :=
  let es := EI.iemitted r ps sched in
  decode es (RT.d_delivered (RT.dd (RT.irun boot (encode es) ls))).

Lemma code_delivered_is_model r ps sched boot ls :
  code_delivered r ps sched boot ls = delivered_events boot (emitted r ps sched) ls.
Proof.
  unfold code_delivered, delivered_events. rewrite ET.tie_same_stream.
  destruct (RT.tie_same_histories boot (encode (emitted r ps sched)) ls) as [_ [H _]]. rewrite H. reflexivity.
Qed.

(** emitter code + relay code: a well-formed stream cut at some point, a prefix of what was emitted *)
Theorem code_delivered_wf_prefix r ps sched boot ls : wf_prefix r (code_delivered r ps sched boot ls) = true.
Proof. rewrite code_delivered_is_model. apply delivered_wf_prefix. Qed.

Theorem code_delivered_is_prefix r ps sched boot ls :
  exists k, code_delivered r ps sched boot ls = firstn k (EI.iemitted r ps sched).
Proof.
  rewrite code_delivered_is_model, ET.tie_same_stream. apply delivered_is_prefix.
Qed.

(** + registrars code: the interpreted run over the delivered events is never cut short by an exception and publishes exactly
    the model's [pubs_run] (after the run_no publication of on_initialize_run) *)
Theorem code_whole_run r ps sched boot ls :
  let del := code_delivered r ps sched boot ls in
  GT.run_whole_stop r del =
  Some (GT.loadR r (fst (on_end_run r (state_events r del))),
        GT.GPub (NL.Registrars.Syntax.VStr k_run_no) (NL.Registrars.Syntax.VInt r) :: map GT.enc_pub (pubs_run r del), false).
Proof. intros del. apply GT.tie_whole_run_stop. apply code_delivered_wf_prefix. Qed.

(** per topic: what the registrars' code sends is the encoding of the sequence the C11 theorems characterise *)
Theorem code_topics r ps sched boot ls :
  let del := code_delivered r ps sched boot ls in
  exists G pubs, GT.run_whole r del = Some (G, pubs) /\
    forall k, GT.g_on_topic k pubs = map (option_map GT.enc_value) (on_topic k (pubs_run r del)).
Proof. intros del. apply GT.tie_whole_run_topics. Qed.

(** hence, on the code: the active set published last is empty, and every per-trace prompt topic of a trace whose start got
    through ends with the end marker *)
Theorem code_closed_out r ps sched boot ls :
  let del := code_delivered r ps sched boot ls in
  last_nos (pubs_run r del) = [] /\
  (forall t, In t (trace_starts del) ->
     exists vs, on_topic (TPromptInfoFor t) (pubs_run r del) = map Some vs ++ [None]) /\
  (exists vs, on_topic TPromptNotice (pubs_run r del) = map Some vs ++ [None]).
Proof.
  intros del. split; [apply active_set_closed|].
  apply closed_out_prompt_topics. apply code_delivered_wf_prefix.
Qed.

(** + broker code (C08's regenerated PubSubItem, [PubSub/Tie.v]): a subscriber of the per-trace prompt topic of a trace whose
    start got through, attached whenever and scheduled however against the registrars' publications, is told to stop by the
    ITEM'S CODE after finitely many steps and is never left blocked -- [PI.iouts] is the interpreter of the regenerated
    method bodies, [ops] any operation history whose publisher side is what the registrars' code sent on that topic *)
Module PI := NL.PubSub.Interp.
Module PT := NL.PubSub.Tie.

Theorem code_subscribers_terminate r ps sched boot ls :
  let del := code_delivered r ps sched boot ls in
  forall t ops,
    In t (trace_starts del) ->
    map forget (filter is_publisher_op ops) = map to_op (on_topic (TPromptInfoFor t) (pubs_run r del)) ->
    forall s, (s < List.length (PS.i_subs (PS.run false ops)))%nat ->
    exists n outs,
      PI.iouts false (ops ++ repeat (PS.Next s) (S n)) = Some outs /\
      let tail := skipn (List.length ops) outs in
      last tail PS.OBlocked = PS.OStop /\ ~ In PS.OBlocked tail.
Proof.
  intros del t ops Ht Hops s Hs. unfold del in *. rewrite code_delivered_is_model in *.
  destruct (e2e_subscribers_terminate r ps sched boot ls t ops Ht Hops s Hs) as [n Hn].
  exists n, (PS.outs false (ops ++ repeat (PS.Next s) (S n))). split; [apply PT.tie_outs | exact Hn].
Qed.
