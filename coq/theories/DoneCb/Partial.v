(** What holds of DoneCb/Model.v under the ADDED hypothesis "no registration
    overlaps a scan / rebuild / exit check of the monitor" ([no_overlap]):
    nothing is lost -- when the monitor thread ends, every thread whose
    register() returned has been called back. *)
From NL Require Import DoneCb.Model DoneCb.Safety DoneCb.Inv.
From Coq Require Import Lia.

Record PInv (g : ghost) (s : state) : Prop := {
  p_arrived : forall t, regs s t <> RNone -> In t (arrived s);
  p_radd : forall t r, regs s t = RAdd r -> r = active s;
  p_owed : forall t, In t (g_rg g) -> ~ In t (g_cl g) -> In t (obj (heap s) (active s));
  p_rebuilt : match m_pc s with
              | MLoadRebuild | MSetDiff _ | MStore _ => forall d, In d (m_done s) -> In d (g_cl g)
              | _ => True end;
  p_cbs_done : m_pc s = MCallback -> forall d, In d (m_done s) -> In d (g_cl g) \/ In d (m_cbs s);
  p_store : forall n, m_pc s = MStore n ->
            forall t, In t (obj (heap s) (active s)) -> ~ In t (m_done s) -> In t (obj (heap s) n);
  p_iter : scanning (m_pc s) -> m_itref s = active s /\ m_itused s = length (obj (heap s) (active s));
  p_empty : m_pc s = MLoadClosed -> obj (heap s) (active s) = [];
  p_exit : forall e, m_pc s = MExited e ->
           e = hd_error (map ExCb (g_rz g)) /\ forall t, In t (g_rg g) -> In t (g_cl g);
  p_closer : closer s <> CNone -> forall t, In t (arrived s) -> is_mid (regs s t) = false;
  p_closed : closed s = true -> closer s <> CNone;
  p_exit_closer : forall e, m_pc s = MExited e -> closer s <> CNone
}.

Lemma PInv_init : PInv g0 init.
Proof. constructor; simpl; try tauto; try discriminate; try (intros; discriminate); intros; congruence. Qed.

(** under [overlap s = false] nobody is inside register() while the monitor is critical *)
Lemma mid_not_critical s t :
  overlap s = false -> In t (arrived s) -> is_mid (regs s t) = true -> mon_critical (m_pc s) = false.
Proof.
  unfold overlap. intros H Ha Hm. apply andb_false_iff in H. destruct H as [H|H]; [exact H|].
  exfalso. assert (existsb (fun t => is_mid (regs s t)) (arrived s) = true).
  { apply existsb_exists. exists t. split; assumption. }
  congruence.
Qed.

Ltac pstd :=
  simpl; eauto; try tauto; try discriminate;
  try solve [intros; discriminate];
  try solve [intros; congruence].

Section Steps.
Variable raises : nat -> bool.

Lemma p_with_pc g s p :
  PInv g s ->
  match p with MLoadRebuild | MSetDiff _ | MStore _ | MCallback | MLoadClosed | MExited _ => False | _ => True end ->
  (scanning p -> scanning (m_pc s)) ->
  PInv g (with_pc s p).
Proof.
  intros P Hp Hs. destruct P. constructor; simpl; eauto.
  - destruct p; try exact Logic.I; elim Hp.
  - intros E. rewrite E in Hp. elim Hp.
  - intros n E. rewrite E in Hp. elim Hp.
  - intros E. rewrite E in Hp. elim Hp.
  - intros e E. rewrite E in Hp. elim Hp.
  - intros e E. rewrite E in Hp. elim Hp.
Qed.

Lemma pstep_mon g s :
  Inv g s -> PInv g s -> overlap s = false ->
  PInv (g_step g (Step Mon) (snd (step_mon raises s))) (fst (step_mon raises s)).
Proof.
  intros I P Ho. unfold step_mon. destruct (m_pc s) eqn:Epc.
  - cbn [fst snd]; rewrite g_step_noev. apply p_with_pc; rewrite ?Epc; simpl; auto.
  - (* MGetIter *)
    cbn [fst snd]; rewrite g_step_noev. pose proof (i_ref _ _ I) as Hr. rewrite Epc in Hr. subst r.
    destruct P. rewrite Epc in *. constructor; pstd.
  - (* MIterNext *)
    destruct (p_iter _ _ P) as (Hit & Hus); [rewrite Epc; exact Logic.I|].
    rewrite Hit, Hus, Nat.eqb_refl.
    destruct (m_todo s) as [|t rest] eqn:Etodo.
    + destruct (m_done s) as [|d0 dr] eqn:Edone.
      * cbn [fst snd]; rewrite g_step_noev. apply p_with_pc; rewrite ?Epc; simpl; auto.
      * cbn [fst snd]; rewrite g_step_noev. destruct P. rewrite Epc, ?Edone in *.
        constructor; simpl; rewrite ?Edone; pstd.
    + cbn [fst snd]; rewrite g_step_noev. destruct P. rewrite Epc in *. constructor; pstd.
  - (* MIsAlive *)
    destruct (is_alive (regs s t)).
    + cbn [fst snd]; rewrite g_step_noev. apply p_with_pc; rewrite ?Epc; simpl; auto.
    + cbn [fst snd]; rewrite g_step_noev. destruct P. rewrite Epc in *. constructor; pstd.
  - (* MCallback *)
    destruct (m_cbs s) as [|d rest] eqn:Ecbs.
    + cbn [fst snd]; rewrite g_step_noev. destruct P. rewrite Epc, ?Ecbs in *. constructor; pstd.
      intros d Hd. destruct (p_cbs_done0 eq_refl d Hd) as [H|[]]. exact H.
    + cbn [fst snd]. unfold g_step; simpl. destruct P. rewrite Epc, ?Ecbs in *.
      constructor; simpl; try solve [destruct rest; pstd].
      all: try solve [intros t H1 H2; apply p_owed0; [assumption|]; intros H3; apply H2; right; assumption].
      all: try solve [destruct rest; [|exact Logic.I];
                      intros d' Hd'; destruct (p_cbs_done0 eq_refl d' Hd') as [H|[<-|[]]]; [right|left]; auto].
      all: try solve [destruct rest; [discriminate|]; intros _ d' Hd';
                      destruct (p_cbs_done0 eq_refl d' Hd') as [H|[<-|H]]; [left; right|left; left|right]; auto].
  - cbn [fst snd]; rewrite g_step_noev. destruct P. rewrite Epc in *. constructor; pstd.
  - (* MSetDiff *)
    cbn [fst snd]; rewrite g_step_noev. pose proof (i_ref _ _ I) as Hr. rewrite Epc in Hr. subst r.
    pose proof (i_bound _ _ I) as Hb.
    destruct P. rewrite Epc in *. constructor; simpl; rewrite ?obj_app_old by assumption; pstd.
    intros n E. injection E as <-. intros t H1 H2. rewrite obj_app_new. apply In_diff. tauto.
  - (* MStore *)
    cbn [fst snd]; rewrite g_step_noev. destruct P. rewrite Epc in *. constructor; pstd.
    + intros t r E. exfalso.
      assert (Hm : mon_critical (m_pc s) = false).
      { apply (mid_not_critical s t Ho); [apply p_arrived0; congruence|rewrite E; reflexivity]. }
      rewrite Epc in Hm. discriminate.
    + intros t H1 H2. apply (p_store0 n eq_refl); [auto|]. intros H3. apply H2. auto.
  - cbn [fst snd]; rewrite g_step_noev. apply p_with_pc; rewrite ?Epc; simpl; auto.
  - (* MTruth *)
    pose proof (i_ref _ _ I) as Hr. rewrite Epc in Hr. subst r.
    destruct (obj (heap s) (active s)) eqn:Eo.
    + cbn [fst snd]; rewrite g_step_noev. destruct P. rewrite Epc in *. constructor; pstd.
    + cbn [fst snd]; rewrite g_step_noev. apply p_with_pc; rewrite ?Epc; simpl; auto.
  - (* MLoadClosed *)
    destruct (closed s) eqn:Ecl.
    + pose proof (p_empty _ _ P Epc) as Hem.
      assert (Hall : forall t, In t (g_rg g) -> In t (g_cl g)).
      { intros t Hr. destruct (in_dec Nat.eq_dec t (g_cl g)) as [H|H]; [exact H|].
        pose proof (p_owed _ _ P t Hr H) as F. rewrite Hem in F. destruct F. }
      pose proof (i_exc _ _ I) as Hexc.
      unfold mon_exit. destruct (closer s) eqn:Ec; cbn [fst snd]; unfold g_step; simpl;
        destruct P; rewrite Epc in *; constructor; pstd;
        try (intros ? E; injection E as <-; split; [rewrite Hexc by (intros; discriminate); reflexivity|exact Hall]).
    + cbn [fst snd]; rewrite g_step_noev. apply p_with_pc; rewrite ?Epc; simpl; auto.
  - exact P.
Qed.

Ltac sr x t :=
  destruct (Nat.eq_dec x t) as [->|?];
  [rewrite ?set_reg_eq in *|rewrite ?set_reg_neq in * by assumption].

Lemma pstep_reg g s t :
  Inv g s -> PInv g s -> overlap s = false ->
  PInv (g_step g (Step (Reg t)) (snd (step_reg s t))) (fst (step_reg s t)).
Proof.
  intros I P Ho. unfold step_reg. destruct (regs s t) eqn:Er; try exact P.
  - (* RLoad *)
    cbn [fst snd]; rewrite g_step_noev. destruct P. constructor; simpl; eauto.
    + intros x H. sr x t; apply p_arrived0; congruence.
    + intros x r H. sr x t; [congruence|eauto].
    + intros Hc x Hx. specialize (p_closer0 Hc x Hx). sr x t; [rewrite Er in p_closer0; discriminate|assumption].
  - (* RAdd r *)
    assert (Ha : In t (arrived s)) by (apply (p_arrived _ _ P); congruence).
    assert (Hnc : mon_critical (m_pc s) = false).
    { apply (mid_not_critical s t Ho Ha). rewrite Er. reflexivity. }
    pose proof (p_radd _ _ P t r Er) as ->. pose proof (i_bound _ _ I) as Hb.
    cbn [fst snd]. unfold g_step; simpl. destruct P. constructor; simpl; eauto.
    + intros x H. sr x t; [assumption|auto].
    + intros x r H. sr x t; [discriminate|eauto].
    + intros x [<-|H1] H2.
      * rewrite obj_upd_same by assumption. apply In_ins. tauto.
      * apply obj_add_mono. auto.
    + intros n E. rewrite E in Hnc. discriminate.
    + intros Hs. destruct (m_pc s); try elim Hs; discriminate.
    + intros E. rewrite E in Hnc. discriminate.
    + intros e E. exfalso.
      (* the monitor ended, so close() had been called: nobody is inside register() *)
      specialize (p_closer0 (p_exit_closer0 e E) t Ha). rewrite Er in p_closer0. discriminate.
    + intros Hc x Hx. specialize (p_closer0 Hc x Hx). sr x t; [reflexivity|assumption].
Qed.

Lemma pstep_closer g s :
  Inv g s -> PInv g s ->
  PInv (g_step g (Step Closer) (snd (step_closer s))) (fst (step_closer s)).
Proof.
  intros I P. unfold step_closer. destruct (closer s) eqn:Ec; try exact P.
  - cbn [fst snd]; rewrite g_step_noev. destruct P. constructor; simpl; eauto; try (intros; discriminate).
    intros _. apply p_closer0. congruence.
  - cbn [fst snd]; rewrite g_step_noev. destruct P. constructor; simpl; eauto; try (intros; discriminate).
    intros _. apply p_closer0. congruence.
  - cbn [fst snd]; rewrite g_step_noev. destruct P. constructor; simpl; eauto; try (intros; discriminate).
    intros _. apply p_closer0. congruence.
  - destruct (m_pc s) eqn:Epc; cbn [fst snd]; unfold g_step; simpl; destruct P; constructor; simpl; eauto;
      try (intros; discriminate); try (intros _; apply p_closer0; congruence).
Qed.

Lemma pstep g s l :
  Inv g s -> PInv g s -> overlap s = false ->
  PInv (g_step g l (snd (step raises s l))) (fst (step raises s l)).
Proof.
  intros I P Ho. destruct l as [t|[| |t]|t|]; simpl.
  - (* Arrive *)
    destruct (regs s t) eqn:Er; try exact P. destruct (closer s) eqn:Ec; try exact P.
    cbn [fst snd]. unfold g_step; simpl. destruct P. constructor; simpl; eauto; try tauto.
    + intros x H. sr x t; [left; reflexivity|right; auto].
    + intros x r H. sr x t; [discriminate|eauto].
    + intros e E. elim (p_exit_closer0 e E). exact Ec.
  - apply pstep_mon; assumption.
  - apply pstep_closer; assumption.
  - apply pstep_reg; assumption.
  - (* Die *)
    destruct (regs s t) eqn:Er; try exact P.
    cbn [fst snd]. unfold g_step; simpl. destruct P. constructor; simpl; eauto.
    + intros x H. sr x t; apply p_arrived0; congruence.
    + intros x r H. sr x t; [discriminate|eauto].
    + intros Hc x Hx. specialize (p_closer0 Hc x Hx). sr x t; [reflexivity|assumption].
  - (* CloseCall *)
    destruct (closer s) eqn:Ec; try exact P.
    destruct (existsb _ _) eqn:Ex; [exact P|].
    cbn [fst snd]. unfold g_step; simpl. destruct P. constructor; simpl; eauto; try (intros; discriminate).
    intros _ x Hx. destruct (is_mid (regs s x)) eqn:Em; [|reflexivity].
    assert (existsb (fun t => is_mid (regs s t)) (arrived s) = true) by (apply existsb_exists; eauto).
    congruence.
Qed.

End Steps.

Lemma pgrun raises ls : forall g s, Inv g s -> PInv g s -> no_overlap_from raises s ls = true ->
  PInv (fst (grun_from raises g s ls)) (snd (grun_from raises g s ls)).
Proof.
  induction ls as [|l r IH]; intros g s I P H; simpl; [exact P|].
  simpl in H. apply andb_true_iff in H. destruct H as (Ho & Hr). apply negb_true_iff in Ho.
  pose proof (step_inv raises g s l I) as I'. pose proof (pstep raises g s l I P Ho) as P'.
  destruct (step raises s l) as [s' o]. apply IH; assumption.
Qed.

Theorem PInv_run raises ls :
  no_overlap raises ls = true -> PInv (ghost_of (history raises ls)) (run raises ls).
Proof.
  intros H. pose proof (pgrun raises ls g0 init Inv_init PInv_init H) as P. rewrite grun_spec in P. exact P.
Qed.
