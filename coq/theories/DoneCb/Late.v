(** C18, thread half: LATE registrations.

    DoneCb/Main.v speaks about [registered_before_close] = the threads whose register() had
    returned when close() was called.  The model (and the code) let a thread register at any
    time; this file proves that a thread whose register() returns AFTER close() was called, at a
    point of the history where close() is still waiting for some thread u of
    [registered_before_close] (u's callback has not been invoked yet), is monitored like any
    other: once close() has returned it has ended and its callback was invoked exactly once.

    Why it holds: as long as some u registered before the call has not been called back, the
    monitor thread has not ended (Inv.i_exit); t's `add` precedes the return of its register(),
    and the monitor leaves its loop only from the exit check, under the lock, with `_active`
    empty and no callback pending -- at which point every thread whose `add` has been executed
    has been called back (Inv.i_owed).  The new invariant [LInv] records exactly that: the
    monitor thread cannot have ended while a late-registered thread is still owed its callback.

    [registered_while_close_waits] is a function of the observable history alone, defined with
    the ghost of Inv.v; [late_spec] restates it with prefixes of the schedule. *)
From NL Require Import DoneCb.Model DoneCb.Safety DoneCb.Inv DoneCb.Main DoneCb.Term.
From Coq Require Import Lia.

(** ---- what the history says *)

(** close() has been called and some thread whose register() had returned at that moment has not
    been called back yet ([g_rgc] is empty until close() is called) *)
Definition close_waits_for (g : ghost) : bool :=
  existsb (fun u => negb (mem u (g_cl g))) (g_rgc g).

Lemma close_waits_for_spec g :
  close_waits_for g = true <-> exists u, In u (g_rgc g) /\ ~ In u (g_cl g).
Proof.
  unfold close_waits_for. rewrite existsb_exists. split; intros (u & H1 & H2); exists u; (split; [exact H1|]).
  - intros H. apply mem_In in H. rewrite H in H2. discriminate.
  - destruct (mem u (g_cl g)) eqn:E; [apply mem_In in E; tauto|reflexivity].
Qed.

(** the part of Inv.g_step that depends on the label *)
Definition g_label (g : ghost) (l : label) (o : out) : ghost :=
  match l, o with
  | Die t, OOk => mkG (g_cl g) (g_rg g) (g_rgc g) (t :: g_dd g) (g_rz g) (g_cr g) (g_mx g)
  | CloseCall, OOk => mkG (g_cl g) (g_rg g) (g_rg g) (g_dd g) (g_rz g) (g_cr g) (g_mx g)
  | _, _ => g
  end.

Lemma g_step_label g l o : g_step g l o = fold_left ev_ghost (evs_of o) (g_label g l o).
Proof. reflexivity. Qed.

(** the ghost of Inv.v, paired with the threads whose register() returned while close() waited:
    an [EvRegistered t] is recorded when, just before it, [close_waits_for] holds *)
Definition late_ev (gl : ghost * list nat) (e : event) : ghost * list nat :=
  (ev_ghost (fst gl) e,
   match e with
   | EvRegistered t => if close_waits_for (fst gl) then t :: snd gl else snd gl
   | _ => snd gl
   end).

Definition late_step (gl : ghost * list nat) (l : label) (o : out) : ghost * list nat :=
  fold_left late_ev (evs_of o) (g_label (fst gl) l o, snd gl).

Definition late_fold (h : list (label * out)) (gl : ghost * list nat) : ghost * list nat :=
  fold_left (fun gl lo => late_step gl (fst lo) (snd lo)) h gl.

Definition late_of (h : list (label * out)) : list nat := snd (late_fold h (g0, [])).

Lemma late_ev_fst evs : forall gl, fst (fold_left late_ev evs gl) = fold_left ev_ghost evs (fst gl).
Proof. induction evs as [|e r IH]; intros gl; simpl; [reflexivity|]. rewrite IH. reflexivity. Qed.

Lemma late_step_fst gl l o : fst (late_step gl l o) = g_step (fst gl) l o.
Proof. unfold late_step. rewrite late_ev_fst. reflexivity. Qed.

Lemma late_fold_fst h : forall gl,
  fst (late_fold h gl) = fold_left (fun g lo => g_step g (fst lo) (snd lo)) h (fst gl).
Proof.
  induction h as [|lo r IH]; intros gl; simpl; [reflexivity|].
  unfold late_fold in IH. rewrite IH, late_step_fst. reflexivity.
Qed.

Lemma late_of_ghost h : fst (late_fold h (g0, [])) = ghost_of h.
Proof. apply late_fold_fst. Qed.

Lemma late_ev_noreg evs : (forall t, ~ In (EvRegistered t) evs) ->
  forall gl, snd (fold_left late_ev evs gl) = snd gl.
Proof.
  induction evs as [|e r IH]; intros Hn gl; simpl; [reflexivity|].
  rewrite IH by (intros t H; apply (Hn t); right; exact H).
  destruct e; simpl; try reflexivity. elim (Hn t). left. reflexivity.
Qed.

(** model and late ghost in lock step *)
Fixpoint lrun_from (raises : nat -> bool) (gl : ghost * list nat) (s : state) (ls : list label)
  : (ghost * list nat) * state :=
  match ls with
  | [] => (gl, s)
  | l :: r => let '(s', o) := step raises s l in lrun_from raises (late_step gl l o) s' r
  end.

Lemma lrun_from_spec raises ls : forall gl s,
  lrun_from raises gl s ls =
  (late_fold (combine ls (snd (run_from raises s ls))) gl, fst (run_from raises s ls)).
Proof.
  induction ls as [|l r IH]; intros gl s; simpl; [reflexivity|].
  destruct (step raises s l) as [s' o]. rewrite IH.
  destruct (run_from raises s' r) as [s'' os]. reflexivity.
Qed.

Lemma lrun_spec raises ls :
  lrun_from raises (g0, []) init ls =
  ((ghost_of (history raises ls), late_of (history raises ls)), run raises ls).
Proof.
  rewrite lrun_from_spec. unfold late_of, history, outs, run.
  rewrite <- late_of_ghost. destruct (late_fold _ _). reflexivity.
Qed.

Lemma lrun_app raises ls1 : forall gl s ls2,
  lrun_from raises gl s (ls1 ++ ls2) =
  lrun_from raises (fst (lrun_from raises gl s ls1)) (snd (lrun_from raises gl s ls1)) ls2.
Proof.
  induction ls1 as [|l r IH]; intros gl s ls2; simpl; [reflexivity|].
  destruct (step raises s l) as [s' o]. apply IH.
Qed.

(** ---- the invariant *)
Record LInv (g : ghost) (lt : list nat) (s : state) : Prop := {
  (* a late thread's register() has returned *)
  l_rg : forall t, In t lt -> In t (g_rg g);
  (* THE point: the monitor thread cannot have ended while a late thread is owed its callback *)
  l_exit : forall e, m_pc s = MExited e -> forall t, In t lt -> In t (g_cl g);
  (* nothing is late before close() is called *)
  l_none : closer s = CNone -> g_rgc g = [] /\ lt = [];
  (* late threads are not among those registered before the call *)
  l_fresh : forall t, In t lt -> ~ In t (g_rgc g)
}.

Lemma LInv_init : LInv g0 [] init.
Proof. constructor; simpl; auto; intros; tauto. Qed.

(** steps that record no registration, do not end the monitor thread and do not reset close() *)
Lemma linv_mono g lt s g' s' :
  LInv g lt s ->
  (forall t, In t (g_rg g) -> In t (g_rg g')) ->
  (forall t, In t (g_cl g) -> In t (g_cl g')) ->
  g_rgc g' = g_rgc g ->
  (closer s' = CNone -> closer s = CNone) ->
  (forall e, m_pc s' = MExited e -> m_pc s = MExited e) ->
  LInv g' lt s'.
Proof.
  intros [H1 H2 H3 H4] Hrg Hcl Hrgc Hc Hm. constructor.
  - intros t H. apply Hrg, H1, H.
  - intros e E t H. apply Hcl. apply (H2 e (Hm e E) t H).
  - intros E. rewrite Hrgc. apply H3, Hc, E.
  - intros t H. rewrite Hrgc. apply H4, H.
Qed.

Section Steps.
Variable raises : nat -> bool.

Ltac same g s :=
  cbn [fst snd]; unfold late_step; cbn [evs_of fold_left g_label fst snd late_ev ev_ghost];
  apply (linv_mono g _ s); simpl; auto; try (intros; congruence); try (intros; discriminate).

Lemma lstep_mon g lt s :
  Inv g s -> LInv g lt s ->
  LInv (fst (late_step (g, lt) (Step Mon) (snd (step_mon raises s))))
       (snd (late_step (g, lt) (Step Mon) (snd (step_mon raises s))))
       (fst (step_mon raises s)).
Proof.
  intros I L. unfold step_mon. destruct (m_pc s) eqn:Epc.
  - destruct (lock s); same g s.
  - same g s.
  - same g s.
  - destruct (_ =? _); [destruct (m_todo s)|]; same g s.
  - destruct (is_alive _); same g s.
  - same g s.
  - same g s.
  - same g s.
  - same g s. destruct (m_cbs s); intros; discriminate.
  - destruct (m_cbs s) as [|d rest]; [same g s|].
    same g s. destruct rest; intros; discriminate.
  - destruct (lock s); same g s.
  - same g s.
  - destruct (obj _ _); same g s.
  - destruct (closed s); same g s.
  - (* MRelBreak: the monitor thread ends -- every thread whose add was executed has been called back *)
    assert (Hall : forall t, In t (g_rg g) -> In t (g_cl g)).
    { intros t Hr. destruct (in_dec Nat.eq_dec t (g_cl g)) as [H|H]; [exact H|].
      assert (Ha : added (regs s t)) by (destruct (i_rg _ _ I t Hr) as [E|E]; rewrite E; exact Logic.I).
      destruct (i_owed _ _ I t Ha H) as [F|F].
      - rewrite (i_empty _ _ I) in F by (right; exact Epc). destruct F.
      - rewrite (i_cbs_nil _ _ I) in F by (rewrite Epc; simpl; tauto). destruct F. }
    assert (Hcl : closer s <> CNone) by (apply (i_closed _ _ I), (i_break _ _ I), Epc).
    destruct L as [H1 H2 H3 H4].
    unfold mon_exit. destruct (closer s) eqn:Ec; try (elim Hcl; reflexivity);
      cbn [fst snd]; unfold late_step; cbn [evs_of fold_left g_label fst snd late_ev ev_ghost];
      constructor; simpl; auto; try (intros; discriminate); try (intros; congruence).
  - same g s.
  - elim (i_noexc _ _ I Epc).
  - same g s.
Qed.

Lemma lstep_reg g lt s t :
  Inv g s -> LInv g lt s ->
  LInv (fst (late_step (g, lt) (Step (Reg t)) (snd (step_reg s t))))
       (snd (late_step (g, lt) (Step (Reg t)) (snd (step_reg s t))))
       (fst (step_reg s t)).
Proof.
  intros I L. unfold step_reg. destruct (regs s t) eqn:Er; try solve [same g s].
  - destruct (lock s); same g s.
  - (* RRel: register() returns *)
    cbn [fst snd]; unfold late_step; cbn [evs_of fold_left g_label fst snd late_ev ev_ghost].
    destruct (close_waits_for g) eqn:W.
    + apply close_waits_for_spec in W. destruct W as (u & Hu & Hnu).
      destruct L as [H1 H2 H3 H4]. constructor; simpl.
      * intros x [<-|H]; auto.
      * intros e E. destruct (i_exit _ _ I e E) as (_ & Hall & _). elim Hnu. apply Hall, Hu.
      * intros E. destruct (H3 E) as (E1 & _). rewrite E1 in Hu. destruct Hu.
      * intros x [<-|H]; [|apply H4, H]. intros F.
        destruct (i_rg _ _ I _ (i_rgc _ _ I _ F)) as [E|E]; congruence.
    + apply (linv_mono g _ s); simpl; auto.
Qed.

Lemma lstep_closer g lt s :
  Inv g s -> LInv g lt s ->
  LInv (fst (late_step (g, lt) (Step Closer) (snd (step_closer s))))
       (snd (late_step (g, lt) (Step Closer) (snd (step_closer s))))
       (fst (step_closer s)).
Proof.
  intros I L. unfold step_closer. destruct (closer s) eqn:Ec; try solve [same g s].
  destruct (m_pc s); same g s.
Qed.

Lemma lstep g lt s l :
  Inv g s -> LInv g lt s ->
  LInv (fst (late_step (g, lt) l (snd (step raises s l))))
       (snd (late_step (g, lt) l (snd (step raises s l))))
       (fst (step raises s l)).
Proof.
  intros I L. destruct l as [t|[| |t]|t|]; simpl.
  - destruct (regs s t); same g s.
  - apply lstep_mon; assumption.
  - apply lstep_closer; assumption.
  - apply lstep_reg; assumption.
  - destruct (regs s t); same g s.
  - (* CloseCall *)
    destruct (closer s) eqn:Ec; try solve [same g s].
    destruct (l_none _ _ _ L Ec) as (_ & ->).
    cbn [fst snd]; unfold late_step; cbn [evs_of fold_left g_label fst snd].
    constructor; simpl; try tauto. intros; discriminate.
Qed.

End Steps.

Lemma lrun_inv raises ls : forall gl s, Inv (fst gl) s -> LInv (fst gl) (snd gl) s ->
  Inv (fst (fst (lrun_from raises gl s ls))) (snd (lrun_from raises gl s ls)) /\
  LInv (fst (fst (lrun_from raises gl s ls))) (snd (fst (lrun_from raises gl s ls))) (snd (lrun_from raises gl s ls)).
Proof.
  induction ls as [|l r IH]; intros [g lt] s I L; simpl; [split; assumption|].
  pose proof (step_inv raises g s l I) as I'. pose proof (lstep raises g lt s l I L) as L'.
  simpl in I, L. destruct (step raises s l) as [s' o]. apply IH.
  - rewrite late_step_fst. exact I'.
  - exact L'.
Qed.

Theorem LInv_run raises ls :
  LInv (ghost_of (history raises ls)) (late_of (history raises ls)) (run raises ls).
Proof.
  pose proof (lrun_inv raises ls (g0, []) init Inv_init LInv_init) as (_ & H).
  rewrite lrun_spec in H. exact H.
Qed.

(** ---- the statements *)
Section Late.
Variable raises : nat -> bool.

(** threads whose register() returned after close() was called, at a point of the history where
    some thread registered before the call had not yet been called back *)
Definition registered_while_close_waits (ls : list label) : list nat := late_of (history raises ls).

(** they are registered, and are not among the threads registered before the call *)
Theorem late_registered ls t :
  In t (registered_while_close_waits ls) ->
  In t (registered raises ls) /\ ~ In t (registered_before_close raises ls).
Proof.
  intros H. pose proof (LInv_run raises ls) as L. split; [apply (l_rg _ _ _ L), H|apply (l_fresh _ _ _ L), H].
Qed.

(** once close() has returned, every thread that registered while close() was still waiting for
    an earlier one has ended and its callback was invoked exactly once *)
Theorem late_exactly_once ls e :
  In e (close_results raises ls) ->
  forall t, In t (registered_while_close_waits ls) ->
    count_occ Nat.eq_dec (called raises ls) t = 1 /\ In t (ended raises ls).
Proof.
  intros Hc t Hr. pose proof (Inv_run raises ls) as I. pose proof (LInv_run raises ls) as L.
  assert (Hx : m_pc (run raises ls) = MExited e).
  { apply (i_cdone _ _ I). apply (i_cr _ _ I). exact Hc. }
  pose proof (l_exit _ _ _ L e Hx t Hr) as Hall. split.
  - apply NoDup_count_occ'; [apply (i_cl_nodup _ _ I)|exact Hall].
  - apply (i_dead _ _ I). apply (i_cl_dead _ _ I). exact Hall.
Qed.

(** the conclusions of thread_exactly_once / close_waits for BOTH kinds of threads *)
Theorem all_exactly_once ls e :
  In e (close_results raises ls) ->
  forall t, In t (registered_before_close raises ls ++ registered_while_close_waits ls) ->
    count_occ Nat.eq_dec (called raises ls) t = 1 /\ In t (ended raises ls).
Proof.
  intros Hc t H. apply in_app_or in H. destruct H as [H|H].
  - exact (thread_exactly_once raises ls e Hc t H).
  - exact (late_exactly_once ls e Hc t H).
Qed.

Theorem all_close_waits ls e :
  In e (close_results raises ls) ->
  forall t, In t (registered_before_close raises ls ++ registered_while_close_waits ls) ->
    In t (called raises ls) /\ In t (ended raises ls).
Proof.
  intros Hc t Hr. destruct (all_exactly_once ls e Hc t Hr) as (H1 & H2). split; [|exact H2].
  apply (count_occ_In Nat.eq_dec). lia.
Qed.

(** the monitor thread itself does not end before that (so neither does a close() in join) *)
Theorem late_monitor_waits ls e :
  In e (monitor_exits raises ls) ->
  forall t, In t (registered_before_close raises ls ++ registered_while_close_waits ls) ->
    In t (called raises ls) /\ In t (ended raises ls).
Proof.
  intros Hm t H. pose proof (Inv_run raises ls) as I. pose proof (LInv_run raises ls) as L.
  pose proof (i_mx _ _ I e Hm) as Hx.
  assert (Hall : In t (called raises ls)).
  { apply in_app_or in H. destruct H as [H|H].
    - destruct (i_exit _ _ I e Hx) as (_ & Ha & _). apply Ha, H.
    - apply (l_exit _ _ _ L e Hx t H). }
  split; [exact Hall|]. apply (i_dead _ _ I). apply (i_cl_dead _ _ I). exact Hall.
Qed.

End Late.

(** ---- the definition restated with prefixes of the schedule (no ghost): t is in
    [registered_while_close_waits ls] iff the schedule has a prefix [ls1] after which the next
    label is the step of thread t in which its register() returns, and after [ls1] some thread
    registered before close() was called has not been called back *)

(** a step records a registration only as the release step of that thread's register() *)
Lemma step_registers raises s l :
  (exists t, l = Step (Reg t) /\ snd (step raises s l) = OAcc LockRelease [EvRegistered t])
  \/ (forall t, ~ In (EvRegistered t) (evs_of (snd (step raises s l)))).
Proof.
  destruct l as [t|[| |t]|t|]; simpl.
  - right. destruct (regs s t); simpl; tauto.
  - right. unfold step_mon, mon_exit.
    repeat match goal with |- context [match ?x with _ => _ end] => destruct x end;
      simpl; intros ? F; intuition discriminate.
  - right. unfold step_closer.
    repeat match goal with |- context [match ?x with _ => _ end] => destruct x end;
      simpl; intros ? F; intuition discriminate.
  - unfold step_reg. destruct (regs s t) eqn:Er; try (right; simpl; tauto).
    + right. destruct (lock s); simpl; tauto.
    + left. exists t. split; reflexivity.
  - right. destruct (regs s t); simpl; tauto.
  - right. destruct (closer s); simpl; tauto.
Qed.

Lemma late_snoc raises ls l :
  late_of (history raises (ls ++ [l])) =
  snd (late_step (ghost_of (history raises ls), late_of (history raises ls)) l
                 (snd (step raises (run raises ls) l))).
Proof.
  pose proof (lrun_spec raises (ls ++ [l])) as H. rewrite lrun_app, lrun_spec in H. simpl in H.
  destruct (step raises (run raises ls) l) as [s' o]. simpl.
  injection H as H _. rewrite H. reflexivity.
Qed.

Lemma late_snoc_In raises ls l t :
  In t (late_of (history raises (ls ++ [l]))) <->
  In t (late_of (history raises ls)) \/
  (l = Step (Reg t) /\ In (EvRegistered t) (evs_of (snd (step raises (run raises ls) l))) /\
   close_waits_for (ghost_of (history raises ls)) = true).
Proof.
  rewrite late_snoc. destruct (step_registers raises (run raises ls) l) as [(t0 & -> & Eo)|Hn].
  - rewrite Eo. unfold late_step. cbn [evs_of fold_left g_label fst snd late_ev].
    destruct (close_waits_for _); simpl.
    + split.
      * intros [<-|H]; [right; auto|left; exact H].
      * intros [H|(E & _ & _)]; [right; exact H|left; congruence].
    + split; [tauto|]. intros [H|(_ & _ & F)]; [exact H|discriminate].
  - unfold late_step. rewrite late_ev_noreg by exact Hn. simpl. split; [tauto|].
    intros [H|(_ & F & _)]; [exact H|]. elim (Hn t F).
Qed.

Theorem late_spec raises ls t :
  In t (registered_while_close_waits raises ls) <->
  exists ls1 ls2, ls = ls1 ++ Step (Reg t) :: ls2 /\
    In (EvRegistered t) (evs_of (snd (step raises (run raises ls1) (Step (Reg t))))) /\
    exists u, In u (registered_before_close raises ls1) /\ ~ In u (called raises ls1).
Proof.
  unfold registered_while_close_waits, registered_before_close, called.
  induction ls as [|l ls IH] using rev_ind.
  - split; [intros []|]. intros (ls1 & ls2 & E & _). destruct ls1; discriminate.
  - rewrite late_snoc_In. split.
    + intros [H|(-> & He & W)].
      * apply IH in H. destruct H as (ls1 & ls2 & -> & H). exists ls1, (ls2 ++ [l]).
        split; [rewrite <- app_assoc; reflexivity|exact H].
      * exists ls, []. split; [reflexivity|]. split; [exact He|]. apply close_waits_for_spec. exact W.
    + intros (ls1 & ls2 & E & He & W).
      destruct ls2 as [|l' ls2' _] using rev_ind.
      * apply app_inj_tail in E. destruct E as (<- & ->). right.
        split; [reflexivity|]. split; [exact He|]. apply close_waits_for_spec. exact W.
      * change (ls ++ [l] = ls1 ++ (Step (Reg t) :: ls2') ++ [l']) in E. rewrite app_assoc in E.
        apply app_inj_tail in E. destruct E as (-> & _). left. apply IH. exists ls1, ls2'. auto.
Qed.

(** ---- concrete schedules.
    [w_late_pending]: thread 1 registers and ends, close() is called and blocks in join(); the
    monitor scans, removes 1 from `_active` and releases the lock with the callback for 1 still
    PENDING; now thread 2 registers (close() is waiting for 1); the monitor calls back 1, finds
    {2} in its exit check and loops; 2 ends, is called back, the monitor ends, close() returns.
    [w_late_alive]: thread 2 registers while thread 1 (registered before the call) is still alive.
    [w_after_exit]: the boundary -- thread 2's register() returns after everything close() waited
    for has been called back and the monitor thread has ended: it is NOT in
    [registered_while_close_waits], and is never called back (outside the contract of close()). *)
Definition mon (n : nat) : list label := repeat (Step Mon) n.
Definition reg4 (t : nat) : list label := [Arrive t; Step (Reg t); Step (Reg t); Step (Reg t); Step (Reg t)].
Definition close4 : list label := [CloseCall; Step Closer; Step Closer; Step Closer; Step Closer].

Definition w_late_pending : list label :=
  reg4 1 ++ [Die 1] ++ close4 ++ mon 10 ++ reg4 2 ++ mon 7 ++ [Die 2] ++ mon 17.
Definition w_late_alive : list label :=
  reg4 1 ++ close4 ++ mon 14 ++ reg4 2 ++ [Die 1; Die 2] ++ mon 21.
Definition w_after_exit : list label :=
  reg4 1 ++ [Die 1] ++ close4 ++ mon 17 ++ reg4 2 ++ [Die 2] ++ mon 5.

Definition only2 : nat -> bool := fun t => t =? 2.

Lemma example_late :
  (* registered while the callback for 1 is pending (1 is no longer in `_active`) *)
  (m_pc (run nobody (reg4 1 ++ [Die 1] ++ close4 ++ mon 10)) = MCallback
   /\ close_results nobody w_late_pending = [None]
   /\ registered_before_close nobody w_late_pending = [1]
   /\ registered_while_close_waits nobody w_late_pending = [2]
   /\ called nobody w_late_pending = [2; 1] /\ ended nobody w_late_pending = [2; 1])
  (* registered while thread 1 is still alive *)
  /\ (close_results nobody w_late_alive = [None]
      /\ registered_before_close nobody w_late_alive = [1]
      /\ registered_while_close_waits nobody w_late_alive = [2]
      /\ called nobody w_late_alive = [2; 1] /\ ended nobody w_late_alive = [2; 1])
  (* the callback of the late thread raises: close() re-raises it *)
  /\ (close_results only2 w_late_pending = [Some (ExCb 2)]
      /\ registered_while_close_waits only2 w_late_pending = [2]
      /\ called only2 w_late_pending = [2; 1]).
Proof. vm_compute. intuition. Qed.

(** the hypothesis "while close() is still waiting" cannot be dropped: a thread whose register()
    returns after the monitor thread ended is never called back, although it ended *)
Lemma example_after_exit :
  close_results nobody w_after_exit = [None]
  /\ registered_before_close nobody w_after_exit = [1]
  /\ registered_while_close_waits nobody w_after_exit = []
  /\ registered nobody w_after_exit = [2; 1] /\ ended nobody w_after_exit = [2; 1]
  /\ called nobody w_after_exit = [1].
Proof. vm_compute. intuition. Qed.

(** ======================================================================================
    The GENERAL form: every thread whose register() returned BEFORE THE MONITOR THREAD ENDED.

    [registered_while_close_waits] covers one generation of late threads (close() waits for a thread
    registered before the call).  A thread that registers while close() waits only for ANOTHER LATE
    thread ("chain-late"), or after a close() with nothing registered yet, is monitored as well: the
    only boundary is the end of the monitor thread.  [registered_before_monitor_exit] records t at
    its [EvRegistered] iff no [EvMonExit] has occurred so far ([g_mx = []]), a function of the
    observable history alone.  That IS the right boundary: the monitor's final exit check runs
    under the lock from its acquire (MAcq2) to the release that ends the thread (MRelBreak, which
    emits EvMonExit), and a register() returns with the release of the same lock after its `add`;
    so a register() that returns before EvMonExit has its `add` before the final check, and one
    that returns after it is never seen ([w_after_exit]). *)

(** a generic recorder: t is recorded at [EvRegistered t] iff [P] holds of the ghost just before *)
Section Rec.
Variable P : ghost -> bool.

Definition rec_ev (gl : ghost * list nat) (e : event) : ghost * list nat :=
  (ev_ghost (fst gl) e,
   match e with
   | EvRegistered t => if P (fst gl) then t :: snd gl else snd gl
   | _ => snd gl
   end).

Definition rec_step (gl : ghost * list nat) (l : label) (o : out) : ghost * list nat :=
  fold_left rec_ev (evs_of o) (g_label (fst gl) l o, snd gl).

Definition rec_fold (h : list (label * out)) (gl : ghost * list nat) : ghost * list nat :=
  fold_left (fun gl lo => rec_step gl (fst lo) (snd lo)) h gl.

Definition rec_of (h : list (label * out)) : list nat := snd (rec_fold h (g0, [])).

Lemma rec_ev_fst evs : forall gl, fst (fold_left rec_ev evs gl) = fold_left ev_ghost evs (fst gl).
Proof. induction evs as [|e r IH]; intros gl; simpl; [reflexivity|]. rewrite IH. reflexivity. Qed.

Lemma rec_step_fst gl l o : fst (rec_step gl l o) = g_step (fst gl) l o.
Proof. unfold rec_step. rewrite rec_ev_fst. reflexivity. Qed.

Lemma rec_fold_fst h : forall gl,
  fst (rec_fold h gl) = fold_left (fun g lo => g_step g (fst lo) (snd lo)) h (fst gl).
Proof.
  induction h as [|lo r IH]; intros gl; simpl; [reflexivity|].
  unfold rec_fold in IH. rewrite IH, rec_step_fst. reflexivity.
Qed.

Lemma rec_ev_noreg evs : (forall t, ~ In (EvRegistered t) evs) ->
  forall gl, snd (fold_left rec_ev evs gl) = snd gl.
Proof.
  induction evs as [|e r IH]; intros Hn gl; simpl; [reflexivity|].
  rewrite IH by (intros t H; apply (Hn t); right; exact H).
  destruct e; simpl; try reflexivity. elim (Hn t). left. reflexivity.
Qed.

Fixpoint rrun_from (raises : nat -> bool) (gl : ghost * list nat) (s : state) (ls : list label)
  : (ghost * list nat) * state :=
  match ls with
  | [] => (gl, s)
  | l :: r => let '(s', o) := step raises s l in rrun_from raises (rec_step gl l o) s' r
  end.

Lemma rrun_from_spec raises ls : forall gl s,
  rrun_from raises gl s ls =
  (rec_fold (combine ls (snd (run_from raises s ls))) gl, fst (run_from raises s ls)).
Proof.
  induction ls as [|l r IH]; intros gl s; simpl; [reflexivity|].
  destruct (step raises s l) as [s' o]. rewrite IH.
  destruct (run_from raises s' r) as [s'' os]. reflexivity.
Qed.

Lemma rrun_spec raises ls :
  rrun_from raises (g0, []) init ls =
  ((ghost_of (history raises ls), rec_of (history raises ls)), run raises ls).
Proof.
  rewrite rrun_from_spec. unfold rec_of, history, outs, run.
  pose proof (rec_fold_fst (combine ls (snd (run_from raises init ls))) (g0, [])) as H.
  unfold ghost_of. simpl in H. rewrite <- H. destruct (rec_fold _ _). reflexivity.
Qed.

Lemma rrun_app raises ls1 : forall gl s ls2,
  rrun_from raises gl s (ls1 ++ ls2) =
  rrun_from raises (fst (rrun_from raises gl s ls1)) (snd (rrun_from raises gl s ls1)) ls2.
Proof.
  induction ls1 as [|l r IH]; intros gl s ls2; simpl; [reflexivity|].
  destruct (step raises s l) as [s' o]. apply IH.
Qed.

Lemma rec_snoc raises ls l :
  rec_of (history raises (ls ++ [l])) =
  snd (rec_step (ghost_of (history raises ls), rec_of (history raises ls)) l
                (snd (step raises (run raises ls) l))).
Proof.
  pose proof (rrun_spec raises (ls ++ [l])) as H. rewrite rrun_app, rrun_spec in H. simpl in H.
  destruct (step raises (run raises ls) l) as [s' o]. simpl.
  injection H as H _. rewrite H. reflexivity.
Qed.

Lemma rec_snoc_In raises ls l t :
  In t (rec_of (history raises (ls ++ [l]))) <->
  In t (rec_of (history raises ls)) \/
  (l = Step (Reg t) /\ In (EvRegistered t) (evs_of (snd (step raises (run raises ls) l))) /\
   P (ghost_of (history raises ls)) = true).
Proof.
  rewrite rec_snoc. destruct (step_registers raises (run raises ls) l) as [(t0 & -> & Eo)|Hn].
  - rewrite Eo. unfold rec_step. cbn [evs_of fold_left g_label fst snd rec_ev].
    destruct (P _); simpl.
    + split.
      * intros [<-|H]; [right; auto|left; exact H].
      * intros [H|(E & _ & _)]; [right; exact H|left; congruence].
    + split; [tauto|]. intros [H|(_ & _ & F)]; [exact H|discriminate].
  - unfold rec_step. rewrite rec_ev_noreg by exact Hn. simpl. split; [tauto|].
    intros [H|(_ & F & _)]; [exact H|]. elim (Hn t F).
Qed.

(** the recorder restated with prefixes of the schedule *)
Lemma rec_spec raises ls t :
  In t (rec_of (history raises ls)) <->
  exists ls1 ls2, ls = ls1 ++ Step (Reg t) :: ls2 /\
    In (EvRegistered t) (evs_of (snd (step raises (run raises ls1) (Step (Reg t))))) /\
    P (ghost_of (history raises ls1)) = true.
Proof.
  induction ls as [|l ls IH] using rev_ind.
  - split; [intros []|]. intros (ls1 & ls2 & E & _). destruct ls1; discriminate.
  - rewrite rec_snoc_In. split.
    + intros [H|(-> & He & W)].
      * apply IH in H. destruct H as (ls1 & ls2 & -> & H). exists ls1, (ls2 ++ [l]).
        split; [rewrite <- app_assoc; reflexivity|exact H].
      * exists ls, []. split; [reflexivity|]. split; [exact He|exact W].
    + intros (ls1 & ls2 & E & He & W).
      destruct ls2 as [|l' ls2' _] using rev_ind.
      * apply app_inj_tail in E. destruct E as (<- & ->). right. auto.
      * change (ls ++ [l] = ls1 ++ (Step (Reg t) :: ls2') ++ [l']) in E. rewrite app_assoc in E.
        apply app_inj_tail in E. destruct E as (-> & _). left. apply IH. exists ls1, ls2'. auto.
Qed.

End Rec.

(** the monitor thread has not ended *)
Definition mon_running (g : ghost) : bool := match g_mx g with [] => true | _ => false end.

Lemma mon_running_true g : mon_running g = true <-> g_mx g = [].
Proof. unfold mon_running. destruct (g_mx g); split; congruence. Qed.

Record BInv (g : ghost) (bm : list nat) (s : state) : Prop := {
  b_rg : forall t, In t bm -> In t (g_rg g);
  (* the monitor thread cannot have ended while a recorded thread is owed its callback *)
  b_exit : forall e, m_pc s = MExited e -> forall t, In t bm -> In t (g_cl g);
  (* as long as the monitor thread runs, EVERY registered thread is recorded *)
  b_all : (forall e, m_pc s <> MExited e) -> forall t, In t (g_rg g) -> In t bm;
  (* the threads registered before close() was called are recorded *)
  b_rgc : forall t, In t (g_rgc g) -> In t bm
}.

Lemma BInv_init : BInv g0 [] init.
Proof. constructor; simpl; auto; intros; tauto. Qed.

Lemma binv_mono g bm s g' s' :
  BInv g bm s ->
  g_rg g' = g_rg g ->
  (forall t, In t (g_cl g) -> In t (g_cl g')) ->
  g_rgc g' = g_rgc g ->
  (forall e, m_pc s' = MExited e -> m_pc s = MExited e) ->
  ((forall e, m_pc s' <> MExited e) -> forall e, m_pc s <> MExited e) ->
  BInv g' bm s'.
Proof.
  intros [H1 H2 H3 H4] Hrg Hcl Hrgc Hm Hn. constructor.
  - intros t H. rewrite Hrg. apply H1, H.
  - intros e E t H. apply Hcl. apply (H2 e (Hm e E) t H).
  - intros E t H. rewrite Hrg in H. apply H3; [apply Hn, E|exact H].
  - intros t H. rewrite Hrgc in H. apply H4, H.
Qed.

Section BSteps.
Variable raises : nat -> bool.

Ltac bsame g s :=
  cbn [fst snd]; unfold rec_step; cbn [evs_of fold_left g_label fst snd rec_ev ev_ghost];
  apply (binv_mono g _ s); simpl; auto; try (intros; congruence); try (intros; discriminate).

Lemma bstep_mon g bm s :
  Inv g s -> BInv g bm s ->
  BInv (fst (rec_step mon_running (g, bm) (Step Mon) (snd (step_mon raises s))))
       (snd (rec_step mon_running (g, bm) (Step Mon) (snd (step_mon raises s))))
       (fst (step_mon raises s)).
Proof.
  intros I L. unfold step_mon. destruct (m_pc s) eqn:Epc.
  - destruct (lock s); bsame g s.
  - bsame g s.
  - bsame g s.
  - destruct (_ =? _); [destruct (m_todo s)|]; bsame g s.
  - destruct (is_alive _); bsame g s.
  - bsame g s.
  - bsame g s.
  - bsame g s.
  - bsame g s. destruct (m_cbs s); intros; discriminate.
  - destruct (m_cbs s) as [|d rest]; [bsame g s|].
    bsame g s. destruct rest; intros; discriminate.
  - destruct (lock s); bsame g s.
  - bsame g s.
  - destruct (obj _ _); bsame g s.
  - destruct (closed s); bsame g s.
  - (* MRelBreak: the monitor thread ends -- every thread whose add was executed has been called back *)
    assert (Hall : forall t, In t (g_rg g) -> In t (g_cl g)).
    { intros t Hr. destruct (in_dec Nat.eq_dec t (g_cl g)) as [H|H]; [exact H|].
      assert (Ha : added (regs s t)) by (destruct (i_rg _ _ I t Hr) as [E|E]; rewrite E; exact Logic.I).
      destruct (i_owed _ _ I t Ha H) as [F|F].
      - rewrite (i_empty _ _ I) in F by (right; exact Epc). destruct F.
      - rewrite (i_cbs_nil _ _ I) in F by (rewrite Epc; simpl; tauto). destruct F. }
    destruct L as [H1 H2 H3 H4].
    unfold mon_exit. destruct (closer s) eqn:Ec;
      cbn [fst snd]; unfold rec_step; cbn [evs_of fold_left g_label fst snd rec_ev ev_ghost];
      constructor; simpl; auto; try (intros F; exfalso; eapply F; reflexivity).
  - bsame g s.
  - elim (i_noexc _ _ I Epc).
  - bsame g s.
Qed.

Lemma bstep_reg g bm s t :
  Inv g s -> BInv g bm s ->
  BInv (fst (rec_step mon_running (g, bm) (Step (Reg t)) (snd (step_reg s t))))
       (snd (rec_step mon_running (g, bm) (Step (Reg t)) (snd (step_reg s t))))
       (fst (step_reg s t)).
Proof.
  intros I L. unfold step_reg. destruct (regs s t) eqn:Er; try solve [bsame g s].
  - destruct (lock s); bsame g s.
  - (* RRel: register() returns *)
    cbn [fst snd]; unfold rec_step; cbn [evs_of fold_left g_label fst snd rec_ev ev_ghost].
    destruct L as [H1 H2 H3 H4]. unfold mon_running. destruct (g_mx g) as [|e0 r] eqn:Emx.
    + constructor; simpl.
      * intros x [<-|H]; auto.
      * intros e E. pose proof (i_mx_rev _ _ I e E) as F. rewrite Emx in F. destruct F.
      * intros E x [<-|H]; auto.
      * intros x H. right. apply H4, H.
    + assert (Hx : m_pc s = MExited e0) by (apply (i_mx _ _ I); rewrite Emx; left; reflexivity).
      constructor; simpl.
      * intros x H. right. apply H1, H.
      * exact H2.
      * intros E. elim (E e0 Hx).
      * exact H4.
Qed.

Lemma bstep_closer g bm s :
  Inv g s -> BInv g bm s ->
  BInv (fst (rec_step mon_running (g, bm) (Step Closer) (snd (step_closer s))))
       (snd (rec_step mon_running (g, bm) (Step Closer) (snd (step_closer s))))
       (fst (step_closer s)).
Proof.
  intros I L. unfold step_closer. destruct (closer s) eqn:Ec; try solve [bsame g s].
  destruct (m_pc s); bsame g s.
Qed.

Lemma bstep g bm s l :
  Inv g s -> BInv g bm s ->
  BInv (fst (rec_step mon_running (g, bm) l (snd (step raises s l))))
       (snd (rec_step mon_running (g, bm) l (snd (step raises s l))))
       (fst (step raises s l)).
Proof.
  intros I L. destruct l as [t|[| |t]|t|]; simpl.
  - destruct (regs s t); bsame g s.
  - apply bstep_mon; assumption.
  - apply bstep_closer; assumption.
  - apply bstep_reg; assumption.
  - destruct (regs s t); bsame g s.
  - (* CloseCall: the monitor thread cannot have ended before close() is called *)
    destruct (closer s) eqn:Ec; try solve [bsame g s].
    assert (Hn : forall e, m_pc s <> MExited e).
    { intros e E. destruct (i_exit _ _ I e E) as (_ & _ & F). elim F. exact Ec. }
    destruct L as [H1 H2 H3 H4].
    cbn [fst snd]; unfold rec_step; cbn [evs_of fold_left g_label fst snd].
    constructor; simpl; auto.
Qed.

End BSteps.

Lemma rrun_inv raises ls : forall gl s, Inv (fst gl) s -> BInv (fst gl) (snd gl) s ->
  Inv (fst (fst (rrun_from mon_running raises gl s ls))) (snd (rrun_from mon_running raises gl s ls)) /\
  BInv (fst (fst (rrun_from mon_running raises gl s ls))) (snd (fst (rrun_from mon_running raises gl s ls)))
       (snd (rrun_from mon_running raises gl s ls)).
Proof.
  induction ls as [|l r IH]; intros [g bm] s I L; simpl; [split; assumption|].
  pose proof (step_inv raises g s l I) as I'. pose proof (bstep raises g bm s l I L) as L'.
  simpl in I, L. destruct (step raises s l) as [s' o]. apply IH.
  - rewrite rec_step_fst. exact I'.
  - exact L'.
Qed.

Theorem BInv_run raises ls :
  BInv (ghost_of (history raises ls)) (rec_of mon_running (history raises ls)) (run raises ls).
Proof.
  pose proof (rrun_inv raises ls (g0, []) init Inv_init BInv_init) as (_ & H).
  rewrite rrun_spec in H. exact H.
Qed.

Section General.
Variable raises : nat -> bool.

(** threads whose register() returned before the monitor thread ended *)
Definition registered_before_monitor_exit (ls : list label) : list nat :=
  rec_of mon_running (history raises ls).

(** the definition with prefixes of the schedule, without the ghost *)
Theorem general_spec ls t :
  In t (registered_before_monitor_exit ls) <->
  exists ls1 ls2, ls = ls1 ++ Step (Reg t) :: ls2 /\
    In (EvRegistered t) (evs_of (snd (step raises (run raises ls1) (Step (Reg t))))) /\
    monitor_exits raises ls1 = [].
Proof.
  unfold registered_before_monitor_exit, monitor_exits. rewrite rec_spec.
  split; intros (ls1 & ls2 & H1 & H2 & H3); exists ls1, ls2; (split; [exact H1|]); (split; [exact H2|]);
    apply mon_running_true; exact H3.
Qed.

(** it contains both sets of the one-generation theorems ... *)
Theorem general_includes ls t :
  In t (registered_before_close raises ls ++ registered_while_close_waits raises ls) ->
  In t (registered_before_monitor_exit ls).
Proof.
  intros H. apply in_app_or in H. destruct H as [H|H].
  - apply (b_rgc _ _ _ (BInv_run raises ls)). exact H.
  - apply general_spec. apply late_spec in H. destruct H as (ls1 & ls2 & H1 & H2 & u & Hu & Hnu).
    exists ls1, ls2. split; [exact H1|]. split; [exact H2|].
    destruct (monitor_exits raises ls1) as [|e r] eqn:Em; [reflexivity|]. exfalso.
    pose proof (Inv_run raises ls1) as I.
    assert (Hx : m_pc (run raises ls1) = MExited e).
    { apply (i_mx _ _ I). unfold monitor_exits in Em. rewrite Em. left. reflexivity. }
    destruct (i_exit _ _ I e Hx) as (_ & Hall & _). apply Hnu. apply Hall. exact Hu.
Qed.

(** ... only registered threads, and, as long as the monitor thread runs, ALL of them *)
Theorem general_registered ls t :
  In t (registered_before_monitor_exit ls) -> In t (registered raises ls).
Proof. apply (b_rg _ _ _ (BInv_run raises ls)). Qed.

Theorem general_all_while_running ls :
  monitor_exits raises ls = [] ->
  forall t, In t (registered raises ls) -> In t (registered_before_monitor_exit ls).
Proof.
  intros Hm. apply (b_all _ _ _ (BInv_run raises ls)). intros e E.
  pose proof (i_mx_rev _ _ (Inv_run raises ls) e E) as F. unfold monitor_exits in Hm. rewrite Hm in F. destruct F.
Qed.

(** once the monitor thread has ended, every thread whose register() returned before that has ended
    and its callback was invoked exactly once *)
Theorem general_monitor_exactly_once ls e :
  In e (monitor_exits raises ls) ->
  forall t, In t (registered_before_monitor_exit ls) ->
    count_occ Nat.eq_dec (called raises ls) t = 1 /\ In t (ended raises ls).
Proof.
  intros Hm t Hr. pose proof (Inv_run raises ls) as I. pose proof (BInv_run raises ls) as L.
  pose proof (b_exit _ _ _ L e (i_mx _ _ I e Hm) t Hr) as Hall. split.
  - apply NoDup_count_occ'; [apply (i_cl_nodup _ _ I)|exact Hall].
  - apply (i_dead _ _ I). apply (i_cl_dead _ _ I). exact Hall.
Qed.

Theorem general_monitor_waits ls e :
  In e (monitor_exits raises ls) ->
  forall t, In t (registered_before_monitor_exit ls) -> In t (called raises ls) /\ In t (ended raises ls).
Proof.
  intros Hm t Hr. destruct (general_monitor_exactly_once ls e Hm t Hr) as (H1 & H2). split; [|exact H2].
  apply (count_occ_In Nat.eq_dec). lia.
Qed.

(** hence once close() has returned *)
Theorem general_exactly_once ls e :
  In e (close_results raises ls) ->
  forall t, In t (registered_before_monitor_exit ls) ->
    count_occ Nat.eq_dec (called raises ls) t = 1 /\ In t (ended raises ls).
Proof. intros Hc. apply (general_monitor_exactly_once ls e). apply close_after_monitor. exact Hc. Qed.

Theorem general_close_waits ls e :
  In e (close_results raises ls) ->
  forall t, In t (registered_before_monitor_exit ls) -> In t (called raises ls) /\ In t (ended raises ls).
Proof. intros Hc. apply (general_monitor_waits ls e). apply close_after_monitor. exact Hc. Qed.

End General.

(** [w_chain]: 1 registers and ends, close() blocks in join(); 2 registers while the callback for 1
    is pending (late); 1 is called back; 3 registers while close() waits ONLY for the late thread 2
    (chain-late: not in [registered_while_close_waits]); 2 and 3 end and are called back.
    [w_close_first]: close() is called with nothing registered and blocks in join() while the
    monitor is between two exit checks; then 1 registers, ends, is called back; close() returns. *)
Definition w_chain : list label :=
  reg4 1 ++ [Die 1] ++ close4 ++ mon 10 ++ reg4 2 ++ mon 5 ++ reg4 3 ++ [Die 2; Die 3] ++ mon 21.
Definition w_close_first : list label :=
  mon 13 ++ close4 ++ reg4 1 ++ [Die 1] ++ mon 30.

Lemma example_general :
  (* a chain of two late threads: 3 is not covered by the one-generation set, but is by the general one *)
  (close_results nobody w_chain = [None]
   /\ registered_before_close nobody w_chain = [1]
   /\ registered_while_close_waits nobody w_chain = [2]
   /\ registered_before_monitor_exit nobody w_chain = [3; 2; 1]
   /\ called nobody w_chain = [3; 2; 1] /\ ended nobody w_chain = [3; 2; 1])
  (* close() called with nothing registered yet *)
  /\ (close_results nobody w_close_first = [None]
      /\ registered_before_close nobody w_close_first = []
      /\ registered_while_close_waits nobody w_close_first = []
      /\ registered_before_monitor_exit nobody w_close_first = [1]
      /\ called nobody w_close_first = [1] /\ ended nobody w_close_first = [1])
  (* the callback of the chain-late thread raises: close() re-raises it *)
  /\ (close_results (fun t => t =? 3) w_chain = [Some (ExCb 3)]
      /\ called (fun t => t =? 3) w_chain = [3; 2; 1]).
Proof. vm_compute. intuition. Qed.

(** the boundary: thread 2's register() returns after the monitor thread ended; it is registered and
    ended, not in [registered_before_monitor_exit], and never called back *)
Lemma example_general_boundary :
  close_results nobody w_after_exit = [None] /\ monitor_exits nobody w_after_exit = [None]
  /\ registered nobody w_after_exit = [2; 1] /\ ended nobody w_after_exit = [2; 1]
  /\ registered_before_monitor_exit nobody w_after_exit = [1]
  /\ called nobody w_after_exit = [1].
Proof. vm_compute. intuition. Qed.
