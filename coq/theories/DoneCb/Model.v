(** Executable interleaving model of nextline/utils/done_callback/thread.py
    (ThreadDoneCallback) at the granularity of SHARED-MEMORY ACCESSES.
    Definitions only; proofs are in Safety.v, Inv.v, Main.v (safety) and Live.v, Term.v,
    Progress.v (no deadlock, termination of close()).

    Every thread (the monitor thread running [_monitor], the thread calling
    [close], any number of threads calling [register] on themselves) executes
    its access skeleton (Gen/DoneCbSkeleton.v, regenerated from the bytecode);
    CPython may switch threads between any two bytecodes, bytecodes that are
    not in the skeleton only touch the frame, so an execution is a sequence of
    labels [Step who] chosen by an adversarial scheduler, interleaved with the
    environment labels [Arrive t] (thread t starts calling register()),
    [Die t] (thread t ends) and [CloseCall] (somebody calls close()).
    A thread whose next access is a LockAcquire is DISABLED while the lock is
    held (its step is a no-op with output ODisabled); the scheduler may pick
    any enabled thread at every step.

    The heap is a list of set objects with identity (index = address):
    [self._active] is a reference, [self._active - done] allocates a NEW
    object, so "the add lands on the dead object" is expressible. *)
From Coq Require Export List Bool Arith.
From NL Require Export Gen.DoneCbSkeleton.
Export ListNotations.

(** ---- sets of thread indices: strictly ascending lists (the harness makes
    real threads hash to their index, so CPython iterates in this order) *)
Fixpoint ins (x : nat) (l : list nat) : list nat :=
  match l with
  | [] => [x]
  | y :: r => if x <? y then x :: l else if x =? y then l else y :: ins x r
  end.

Fixpoint mem (x : nat) (l : list nat) : bool :=
  match l with [] => false | y :: r => (x =? y) || mem x r end.

Definition diff (a b : list nat) : list nat := filter (fun x => negb (mem x b)) a.

(** ---- threads *)
Inductive who := Mon | Closer | Reg (t : nat).

Inductive label := Arrive (t : nat) | Step (w : who) | Die (t : nat) | CloseCall.

Inductive exn :=
| ExCb (t : nat)        (* the exception raised by the callback for thread t *)
| ExSetChanged          (* RuntimeError: Set changed size during iteration *)
| ExRegistered.         (* RuntimeError: close() called from a registered thread *)

(** a registering thread: `register(self)` =
    with self._lock: (LockAcquire) LoadActive; SetAdd (LockRelease) *)
Inductive rst :=
| RNone                 (* not started *)
| RAcq                  (* in register(), before `with self._lock` (BEFORE_WITH) *)
| RLoad                 (* holds the lock, before LOAD_ATTR _active *)
| RAdd (r : nat)        (* holds a reference to set object r, before CALL add *)
| RRel                  (* before the __exit__ call that releases the lock *)
| RIdle                 (* register() returned, thread alive *)
| RDead.                (* thread ended *)

(** the thread calling close() (close() does not take the lock) *)
Inductive cst :=
| CNone
| CLoad                 (* before LOAD_ATTR _active *)
| CContains (r : nat)   (* before CONTAINS_OP *)
| CStore                (* before STORE_ATTR _closed *)
| CJoin                 (* before CALL join *)
| CJoining              (* blocked in join *)
| CDone (e : option exn).

(** the monitor thread; program counter = the next shared access of _monitor
    (offsets of the repaired thread.py, CPython 3.12) *)
Inductive mpc :=
| MAcq1                 (* 30  BEFORE_WITH self._lock      (scan + rebuild) *)
| MLoadScan             (* 36  LOAD_ATTR _active           (set comprehension) *)
| MGetIter (r : nat)    (* 56  GET_ITER *)
| MIterNext             (* 66  FOR_ITER *)
| MIsAlive (t : nat)    (* 94  CALL is_alive *)
| MLoadRebuild          (* 120 LOAD_ATTR _active           (self._active - done) *)
| MSetDiff (r : nat)    (* 142 BINARY_OP - *)
| MStore (n : nat)      (* 148 STORE_ATTR _active *)
| MRel1                 (* 164 __exit__: release *)
| MCallback             (* 234 CALL self._done(d) *)
| MAcq2                 (* 332 BEFORE_WITH self._lock      (exit check) *)
| MLoadCheck            (* 338 LOAD_ATTR _active *)
| MTruth (r : nat)      (* 358 POP_JUMP_IF_TRUE on the set *)
| MLoadClosed           (* 362 LOAD_ATTR _closed *)
| MRelBreak             (* 392 __exit__: release, then break *)
| MRelLoop              (* 410 __exit__: release, next iteration *)
| MRelExc               (* 450 WITH_EXCEPT_START: release while an exception of the scan propagates *)
| MExited (e : option exn).

Record state := mkState {
  heap : list (list nat);      (* set objects *)
  active : nat;                (* self._active (a reference) *)
  closed : bool;               (* self._closed *)
  lock : option who;           (* self._lock: the holder *)
  regs : nat -> rst;
  arrived : list nat;          (* threads that have started, newest first *)
  closer : cst;
  m_pc : mpc;
  m_itref : nat;               (* set iterator: the object, *)
  m_itused : nat;              (*   its size when the iterator was created (si_used), *)
  m_todo : list nat;           (*   the elements still to be produced *)
  m_done : list nat;           (* local `done` *)
  m_cbs : list nat;            (* rest of `for d in done` *)
  m_exc : list exn             (* local `exc` *)
}.

Definition init : state :=
  mkState [[]] 0 false None (fun _ => RNone) [] CNone MAcq1 0 0 [] [] [] [].

Definition obj (h : list (list nat)) (r : nat) : list nat := nth r h [].

Fixpoint upd {A} (l : list A) (n : nat) (x : A) : list A :=
  match l, n with
  | [], _ => []
  | _ :: r, O => x :: r
  | a :: r, S n => a :: upd r n x
  end.

Definition set_reg (f : nat -> rst) (t : nat) (v : rst) : nat -> rst :=
  fun x => if x =? t then v else f x.

(** observable events of one step *)
Inductive event :=
| EvRegistered (t : nat)               (* register() returned in thread t *)
| EvCb (t : nat) (raised : bool)       (* the callback was invoked with thread t *)
| EvMonExit (e : option exn)           (* the monitor thread ended *)
| EvCloseRet (e : option exn).         (* close() returned / raised *)

(** ODisabled: the label is not enabled (thread not at a step, or waiting for the lock) *)
Inductive out := ODisabled | OOk | OAcc (a : access) (evs : list event).

Definition is_mid (r : rst) : bool := match r with RAcq | RLoad | RAdd _ | RRel => true | _ => false end.
Definition is_alive (r : rst) : bool := match r with RDead => false | _ => true end.

(** field updates *)
Definition with_mon (s : state) pc itref itused todo done cbs exc : state :=
  mkState (heap s) (active s) (closed s) (lock s) (regs s) (arrived s) (closer s) pc itref itused todo done cbs exc.
Definition with_pc (s : state) pc : state :=
  with_mon s pc (m_itref s) (m_itused s) (m_todo s) (m_done s) (m_cbs s) (m_exc s).
Definition with_lock_pc (s : state) l pc : state :=
  mkState (heap s) (active s) (closed s) l (regs s) (arrived s) (closer s)
          pc (m_itref s) (m_itused s) (m_todo s) (m_done s) (m_cbs s) (m_exc s).
Definition with_regs (s : state) f : state :=
  mkState (heap s) (active s) (closed s) (lock s) f (arrived s) (closer s)
          (m_pc s) (m_itref s) (m_itused s) (m_todo s) (m_done s) (m_cbs s) (m_exc s).
Definition with_lock_regs (s : state) l f : state :=
  mkState (heap s) (active s) (closed s) l f (arrived s) (closer s)
          (m_pc s) (m_itref s) (m_itused s) (m_todo s) (m_done s) (m_cbs s) (m_exc s).
Definition with_closer (s : state) c : state :=
  mkState (heap s) (active s) (closed s) (lock s) (regs s) (arrived s) c
          (m_pc s) (m_itref s) (m_itused s) (m_todo s) (m_done s) (m_cbs s) (m_exc s).

(** the monitor thread releases the lock and ends with [e]: a close() blocked in join returns *)
Definition mon_exit (s : state) (a : access) (e : option exn) : state * out :=
  let s' := with_lock_pc s None (MExited e) in
  match closer s with
  | CJoining => (with_closer s' (CDone e), OAcc a [EvMonExit e; EvCloseRet e])
  | _ => (s', OAcc a [EvMonExit e])
  end.

(** which callbacks raise is a parameter of the run *)
Section Step.
Variable raises : nat -> bool.

(** one shared access of [_monitor] *)
Definition step_mon (s : state) : state * out :=
  match m_pc s with
  | MAcq1 =>
      match lock s with
      | None => (with_lock_pc s (Some Mon) MLoadScan, OAcc LockAcquire [])
      | Some _ => (s, ODisabled)                              (* blocked *)
      end
  | MLoadScan => (with_pc s (MGetIter (active s)), OAcc LoadActive [])
  | MGetIter r =>
      (* iter(set): remembers the size; `done` is a fresh empty set *)
      (with_mon s MIterNext r (length (obj (heap s) r)) (obj (heap s) r) [] [] (m_exc s), OAcc GetIter [])
  | MIterNext =>
      if length (obj (heap s) (m_itref s)) =? m_itused s then
        match m_todo s with
        | t :: rest =>
            (with_mon s (MIsAlive t) (m_itref s) (m_itused s) rest (m_done s) (m_cbs s) (m_exc s), OAcc IterNext [])
        | [] => (with_pc s MLoadRebuild, OAcc IterNext [])
        end
      else (with_pc s MRelExc, OAcc IterNext [])   (* RuntimeError: Set changed size during iteration *)
  | MIsAlive t =>
      if is_alive (regs s t) then (with_pc s MIterNext, OAcc IsAlive [])
      else (with_mon s MIterNext (m_itref s) (m_itused s) (m_todo s) (ins t (m_done s)) (m_cbs s) (m_exc s), OAcc IsAlive [])
  | MLoadRebuild => (with_pc s (MSetDiff (active s)), OAcc LoadActive [])
  | MSetDiff r =>
      (mkState (heap s ++ [diff (obj (heap s) r) (m_done s)]) (active s) (closed s) (lock s) (regs s) (arrived s) (closer s)
               (MStore (length (heap s))) (m_itref s) (m_itused s) (m_todo s) (m_done s) (m_cbs s) (m_exc s),
       OAcc SetDiff [])
  | MStore n =>
      (* from here on `done` is what `for d in done` will go through *)
      (mkState (heap s) n (closed s) (lock s) (regs s) (arrived s) (closer s)
               MRel1 (m_itref s) (m_itused s) (m_todo s) (m_done s) (m_done s) (m_exc s),
       OAcc StoreActive [])
  | MRel1 =>
      (* `if self._done:` `for d in done:` *)
      (with_lock_pc s None (match m_cbs s with [] => MAcq2 | _ => MCallback end), OAcc LockRelease [])
  | MCallback =>
      match m_cbs s with
      | d :: rest =>
          let exc := if raises d then m_exc s ++ [ExCb d] else m_exc s in
          (with_mon s (match rest with [] => MAcq2 | _ => MCallback end)
                    (m_itref s) (m_itused s) (m_todo s) (m_done s) rest exc,
           OAcc Callback [EvCb d (raises d)])
      | [] => (with_pc s MAcq2, OAcc Callback [])    (* unreachable *)
      end
  | MAcq2 =>
      match lock s with
      | None => (with_lock_pc s (Some Mon) MLoadCheck, OAcc LockAcquire [])
      | Some _ => (s, ODisabled)
      end
  | MLoadCheck => (with_pc s (MTruth (active s)), OAcc LoadActive [])
  | MTruth r =>
      (* `if not self._active and self._closed: break` *)
      match obj (heap s) r with
      | [] => (with_pc s MLoadClosed, OAcc TruthActive [])
      | _ => (with_pc s MRelLoop, OAcc TruthActive [])
      end
  | MLoadClosed =>
      if closed s then (with_pc s MRelBreak, OAcc LoadClosed [])
      else (with_pc s MRelLoop, OAcc LoadClosed [])
  | MRelLoop => (with_lock_pc s None MAcq1, OAcc LockRelease [])
  | MRelBreak => mon_exit s LockRelease (hd_error (m_exc s))     (* break; if exc: raise exc[0] *)
  | MRelExc => mon_exit s LockRelease (Some ExSetChanged)        (* uncaught: the thread dies *)
  | MExited _ => (s, ODisabled)
  end.

(** one shared access of [register] in thread t *)
Definition step_reg (s : state) (t : nat) : state * out :=
  match regs s t with
  | RAcq =>
      match lock s with
      | None => (with_lock_regs s (Some (Reg t)) (set_reg (regs s) t RLoad), OAcc LockAcquire [])
      | Some _ => (s, ODisabled)                              (* blocked *)
      end
  | RLoad => (with_regs s (set_reg (regs s) t (RAdd (active s))), OAcc LoadActive [])
  | RAdd r =>
      (mkState (upd (heap s) r (ins t (obj (heap s) r))) (active s) (closed s) (lock s)
               (set_reg (regs s) t RRel) (arrived s) (closer s)
               (m_pc s) (m_itref s) (m_itused s) (m_todo s) (m_done s) (m_cbs s) (m_exc s),
       OAcc SetAdd [])
  | RRel => (with_lock_regs s None (set_reg (regs s) t RIdle), OAcc LockRelease [EvRegistered t])
  | _ => (s, ODisabled)
  end.

(** one shared access of [close] (the caller is not a registered thread) *)
Definition step_closer (s : state) : state * out :=
  match closer s with
  | CLoad => (with_closer s (CContains (active s)), OAcc LoadActive [])
  | CContains r => (with_closer s CStore, OAcc Contains [])
  | CStore =>
      (mkState (heap s) (active s) true (lock s) (regs s) (arrived s) CJoin
               (m_pc s) (m_itref s) (m_itused s) (m_todo s) (m_done s) (m_cbs s) (m_exc s),
       OAcc StoreClosed [])
  | CJoin =>
      match m_pc s with
      | MExited e => (with_closer s (CDone e), OAcc Join [EvCloseRet e])
      | _ => (with_closer s CJoining, OAcc Join [])
      end
  | _ => (s, ODisabled)
  end.

(** No usage contract is built into the labels: a thread may start registering at any time
    (even after close() was called) and close() may be called at any time (once). *)
Definition step (s : state) (l : label) : state * out :=
  match l with
  | Step Mon => step_mon s
  | Step (Reg t) => step_reg s t
  | Step Closer => step_closer s
  | Arrive t =>
      (* register() is called in the (new) thread t *)
      match regs s t with
      | RNone =>
          (mkState (heap s) (active s) (closed s) (lock s) (set_reg (regs s) t RAcq) (t :: arrived s) (closer s)
                   (m_pc s) (m_itref s) (m_itused s) (m_todo s) (m_done s) (m_cbs s) (m_exc s), OOk)
      | _ => (s, ODisabled)
      end
  | Die t =>
      match regs s t with
      | RIdle => (with_regs s (set_reg (regs s) t RDead), OOk)
      | _ => (s, ODisabled)
      end
  | CloseCall =>
      match closer s with
      | CNone => (with_closer s CLoad, OOk)
      | _ => (s, ODisabled)
      end
  end.

Fixpoint run_from (s : state) (ls : list label) : state * list out :=
  match ls with
  | [] => (s, [])
  | l :: r => let '(s', o) := step s l in let '(s'', os) := run_from s' r in (s'', o :: os)
  end.

Definition run (ls : list label) : state := fst (run_from init ls).
Definition outs (ls : list label) : list out := snd (run_from init ls).
(** the observable history of a run *)
Definition history (ls : list label) : list (label * out) := combine ls (outs ls).

End Step.

(** ---- the programs above ARE the shared accesses of the generated skeleton *)
Definition shared (a : access) : bool :=
  match a with LoadRO _ | Sleep => false | _ => true end.

(** register: 48 54 96 112 (normal exit) 128 (WITH_EXCEPT_START: set.add cannot raise; no pc) *)
Definition register_prog : list access := [LockAcquire; LoadActive; SetAdd; LockRelease; LockRelease].
Definition close_prog : list access := [LoadActive; Contains; StoreClosed; Join].
(** _monitor: ... 392 (break) 410 (loop) 450 (exception in the scan) 552 (WITH_EXCEPT_START of the
    exit check: nothing in that block can raise; no pc) *)
Definition monitor_prog : list access :=
  [LockAcquire; LoadActive; GetIter; IterNext; IsAlive; LoadActive; SetDiff; StoreActive; LockRelease;
   Callback; LockAcquire; LoadActive; TruthActive; LoadClosed; LockRelease; LockRelease; LockRelease; LockRelease].

(** the access performed at each program counter, in skeleton order *)
Definition mpc_access (p : mpc) : option access :=
  match p with
  | MAcq1 | MAcq2 => Some LockAcquire
  | MLoadScan | MLoadRebuild | MLoadCheck => Some LoadActive
  | MGetIter _ => Some GetIter | MIterNext => Some IterNext
  | MIsAlive _ => Some IsAlive | MCallback => Some Callback
  | MSetDiff _ => Some SetDiff | MStore _ => Some StoreActive
  | MRel1 | MRelBreak | MRelLoop | MRelExc => Some LockRelease
  | MTruth _ => Some TruthActive | MLoadClosed => Some LoadClosed | MExited _ => None
  end.

(** ---- decidable comparison of outputs, for the correspondence check ---- *)
Definition access_eqb (a b : access) : bool :=
  match a, b with
  | LoadActive, LoadActive | StoreActive, StoreActive | GetIter, GetIter | IterNext, IterNext
  | IsAlive, IsAlive | SetAdd, SetAdd | SetDiff, SetDiff | Contains, Contains
  | TruthActive, TruthActive | LoadClosed, LoadClosed | StoreClosed, StoreClosed
  | Callback, Callback | Join, Join | Sleep, Sleep | LockAcquire, LockAcquire
  | LockRelease, LockRelease => true
  | _, _ => false
  end.

Definition exn_eqb (a b : exn) : bool :=
  match a, b with
  | ExCb x, ExCb y => x =? y
  | ExSetChanged, ExSetChanged | ExRegistered, ExRegistered => true
  | _, _ => false
  end.

Definition oexn_eqb (a b : option exn) : bool :=
  match a, b with Some x, Some y => exn_eqb x y | None, None => true | _, _ => false end.

Definition event_eqb (a b : event) : bool :=
  match a, b with
  | EvRegistered x, EvRegistered y => x =? y
  | EvCb x r, EvCb y q => (x =? y) && eqb r q
  | EvMonExit x, EvMonExit y | EvCloseRet x, EvCloseRet y => oexn_eqb x y
  | _, _ => false
  end.

Fixpoint list_eqb {A} (f : A -> A -> bool) (a b : list A) : bool :=
  match a, b with
  | [], [] => true
  | x :: a, y :: b => f x y && list_eqb f a b
  | _, _ => false
  end.

Definition out_eqb (a b : out) : bool :=
  match a, b with
  | ODisabled, ODisabled | OOk, OOk => true
  | OAcc x e, OAcc y f => access_eqb x y && list_eqb event_eqb e f
  | _, _ => false
  end.

(** a case = (threads whose callback raises, schedule, observed outputs, final
    content of the real self._active); result = indices of disagreeing cases *)
Definition case := (list nat * list label * list out * list nat)%type.

Definition case_ok (c : case) : bool :=
  let '(rs, ls, os, fin) := c in
  let '(s, os') := run_from (fun t => mem t rs) init ls in
  list_eqb out_eqb os' os && list_eqb Nat.eqb (obj (heap s) (active s)) fin.

Fixpoint bad_from (n : nat) (cases : list case) : list nat :=
  match cases with
  | [] => []
  | c :: r => if case_ok c then bad_from (S n) r else n :: bad_from (S n) r
  end.

(** coarse comparison, used for runs scheduled at EVERY-opcode granularity:
    same access at every step, same sequence of callbacks / monitor exit /
    close result overall, same final set (the step to which an event is
    attributed may differ by frame-local instructions) *)
Definition strip (o : out) : out := match o with OAcc a _ => OAcc a [] | x => x end.
Definition key_events (os : list out) : list event :=
  flat_map (fun o => match o with
                     | OAcc _ e => filter (fun ev => match ev with EvRegistered _ => false | _ => true end) e
                     | _ => [] end) os.

Definition case_ok_coarse (c : case) : bool :=
  let '(rs, ls, os, fin) := c in
  let '(s, os') := run_from (fun t => mem t rs) init ls in
  list_eqb out_eqb (map strip os') (map strip os) &&
  list_eqb event_eqb (key_events os') (key_events os) &&
  list_eqb Nat.eqb (obj (heap s) (active s)) fin.

Fixpoint bad_from_coarse (n : nat) (cases : list case) : list nat :=
  match cases with
  | [] => []
  | c :: r => if case_ok_coarse c then bad_from_coarse (S n) r else n :: bad_from_coarse (S n) r
  end.
