(** The safety invariant of DoneCb/Model.v, for EVERY schedule. *)
From NL Require Import DoneCb.Model DoneCb.Safety.
From Coq Require Import Lia.

(** ---- what the history says (functions of the history alone) *)
Record ghost := mkG {
  g_cl : list nat;            (* threads the callback was invoked with (newest first, with repetitions) *)
  g_rg : list nat;            (* threads whose register() returned *)
  g_dd : list nat;            (* threads that ended *)
  g_rz : list nat;            (* threads whose callback raised, oldest first *)
  g_cr : list (option exn);   (* results of close() *)
  g_mx : list (option exn)    (* how the monitor thread ended *)
}.
Definition g0 : ghost := mkG [] [] [] [] [] [].

Definition ev_ghost (g : ghost) (e : event) : ghost :=
  match e with
  | EvRegistered t => mkG (g_cl g) (t :: g_rg g) (g_dd g) (g_rz g) (g_cr g) (g_mx g)
  | EvCb t r => mkG (t :: g_cl g) (g_rg g) (g_dd g) (if r then g_rz g ++ [t] else g_rz g) (g_cr g) (g_mx g)
  | EvMonExit e => mkG (g_cl g) (g_rg g) (g_dd g) (g_rz g) (g_cr g) (e :: g_mx g)
  | EvCloseRet e => mkG (g_cl g) (g_rg g) (g_dd g) (g_rz g) (e :: g_cr g) (g_mx g)
  end.

Definition evs_of (o : out) : list event := match o with OAcc _ e => e | _ => [] end.

Definition g_step (g : ghost) (l : label) (o : out) : ghost :=
  let g1 := match l, o with
            | Die t, OOk => mkG (g_cl g) (g_rg g) (t :: g_dd g) (g_rz g) (g_cr g) (g_mx g)
            | _, _ => g
            end in
  fold_left ev_ghost (evs_of o) g1.

Definition ghost_of (h : list (label * out)) : ghost :=
  fold_left (fun g lo => g_step g (fst lo) (snd lo)) h g0.

(** model and ghost in lock step *)
Fixpoint grun_from (raises : nat -> bool) (g : ghost) (s : state) (ls : list label) : ghost * state :=
  match ls with
  | [] => (g, s)
  | l :: r => let '(s', o) := step raises s l in grun_from raises (g_step g l o) s' r
  end.

Lemma grun_from_spec raises ls : forall g s,
  grun_from raises g s ls =
  (fold_left (fun g lo => g_step g (fst lo) (snd lo)) (combine ls (snd (run_from raises s ls))) g,
   fst (run_from raises s ls)).
Proof.
  induction ls as [|l r IH]; intros g s; simpl; [reflexivity|].
  destruct (step raises s l) as [s' o]. rewrite IH.
  destruct (run_from raises s' r) as [s'' os]. reflexivity.
Qed.

Lemma grun_spec raises ls :
  grun_from raises g0 init ls = (ghost_of (history raises ls), run raises ls).
Proof. apply grun_from_spec. Qed.

Definition scanning (p : mpc) : Prop := match p with MIterNext | MIsAlive _ => True | _ => False end.
Definition cbphase (p : mpc) : Prop :=
  match p with MCallback | MLoadRebuild | MSetDiff _ | MStore _ => True | _ => False end.

Record Inv (g : ghost) (s : state) : Prop := {
  i_dead : forall t, regs s t = RDead -> In t (g_dd g) /\ In t (g_rg g);
  i_idle : forall t, regs s t = RIdle -> In t (g_rg g);
  i_done_dead : forall d, In d (m_done s) -> regs s d = RDead;
  i_done_asc : asc (m_done s);
  i_cl_nodup : NoDup (g_cl g);
  i_cl_dead : forall t, In t (g_cl g) -> regs s t = RDead;
  i_cbs : forall d, In d (m_cbs s) -> In d (m_done s) /\ ~ In d (g_cl g);
  i_cbs_asc : asc (m_cbs s);
  i_scan_done : scanning (m_pc s) -> forall d, In d (m_done s) -> ~ In d (g_cl g);
  i_active : forall t, In t (obj (heap s) (active s)) -> In t (g_cl g) ->
             cbphase (m_pc s) /\ In t (m_done s) /\ ~ In t (m_cbs s);
  i_todo : scanning (m_pc s) -> forall t, In t (m_todo s) -> In t (obj (heap s) (active s));
  i_isalive : forall t, m_pc s = MIsAlive t -> In t (obj (heap s) (active s));
  i_ref : match m_pc s with MGetIter r | MSetDiff r | MTruth r => r = active s | _ => True end;
  i_bound : active s < length (heap s);
  i_store : forall n, m_pc s = MStore n ->
            active s < n /\ n < length (heap s) /\
            forall t, In t (obj (heap s) n) -> In t (obj (heap s) (active s)) /\ ~ In t (m_done s);
  i_radd : forall t r, regs s t = RAdd r -> r <= active s;
  i_exc : (forall e, m_pc s <> MExited e) -> m_exc s = map ExCb (g_rz g);
  i_exit : forall e, m_pc s = MExited e -> e = Some ExSetChanged \/ e = hd_error (map ExCb (g_rz g));
  i_mx : forall e, In e (g_mx g) -> m_pc s = MExited e;
  i_mx_rev : forall e, m_pc s = MExited e -> In e (g_mx g);
  i_cr : forall e, In e (g_cr g) -> closer s = CDone e;
  i_cdone : forall e, closer s = CDone e -> m_pc s = MExited e
}.

Lemma Inv_init : Inv g0 init.
Proof.
  constructor; simpl; try tauto; try discriminate; try (intros; discriminate); try constructor; auto.
Qed.

Lemma is_alive_false r : is_alive r = false -> r = RDead.
Proof. destruct r; simpl; congruence. Qed.

Lemma In_obj_add h r t r' y :
  In y (obj (upd h r (ins t (obj h r))) r') -> In y (obj h r') \/ (y = t /\ r = r').
Proof.
  intros H. destruct (Nat.eq_dec r r') as [<-|N].
  - destruct (Nat.lt_ge_cases r (length h)).
    + rewrite obj_upd_same in H by assumption. apply In_ins in H. tauto.
    + rewrite obj_upd_oob in H by assumption. tauto.
  - rewrite obj_upd_other in H by assumption. tauto.
Qed.

Ltac inv_tac := intros; simpl in *; subst; try tauto; try discriminate; eauto.

(* closes the fields that a step leaves alone or makes vacuous *)
Ltac std :=
  simpl; eauto; try tauto; try discriminate;
  try solve [constructor];
  try solve [intros; discriminate];
  try solve [match goal with
             | HA : forall t, In t (obj _ _) -> In t (g_cl _) -> _ |- forall t, _ -> _ -> _ =>
               let t := fresh in let H1 := fresh in let H2 := fresh in let F := fresh in
               intros t H1 H2; destruct (HA t H1 H2) as (F & _); elim F
             end];
  try solve [intros _; match goal with
             | H : (forall e, _ <> MExited e) -> _ |- _ => apply H; intros; discriminate
             end];
  try solve [match goal with
             | HM : forall e, In e (g_mx _) -> _ |- forall e, In e (g_mx _) -> _ =>
               let e := fresh in let H := fresh in intros e H; specialize (HM e H); discriminate
             end];
  try solve [match goal with
             | HM : forall e, _ = CDone e -> _ |- forall e, _ = CDone e -> _ =>
               let e := fresh in let H := fresh in intros e H; specialize (HM e H); discriminate
             end].

Section Steps.
Variable raises : nat -> bool.

Lemma with_pc_simple g s p :
  Inv g s ->
  (scanning p -> scanning (m_pc s)) ->
  (cbphase (m_pc s) -> cbphase p) ->
  (forall t, p = MIsAlive t -> In t (obj (heap s) (active s))) ->
  match p with MGetIter r | MSetDiff r | MTruth r => r = active s | _ => True end ->
  (forall n, p <> MStore n) ->
  (forall e, p <> MExited e) -> (forall e, m_pc s <> MExited e) ->
  Inv g (with_pc s p).
Proof.
  intros I Hs Hc Ha Hr Hn He He'. destruct I. constructor; simpl; eauto.
  - intros t H1 H2. destruct (i_active0 t H1 H2) as (? & ? & ?). auto.
  - intros n E. elim (Hn n E).
  - intros e E. elim (He e E).
  - intros e H. specialize (i_mx0 e H). elim (He' e i_mx0).
  - intros e E. elim (He e E).
  - intros e H. specialize (i_cdone0 e H). elim (He' e i_cdone0).
Qed.

Lemma g_step_noev g w a : g_step g (Step w) (OAcc a []) = g.
Proof. reflexivity. Qed.

(** the monitor thread ends *)
Lemma mon_exit_inv g s a e :
  Inv g s -> (forall e', m_pc s <> MExited e') ->
  e = Some ExSetChanged \/ e = hd_error (map ExCb (g_rz g)) ->
  ~ cbphase (m_pc s) ->
  Inv (g_step g (Step Mon) (snd (mon_exit s a e []))) (fst (mon_exit s a e [])).
Proof.
  intros I Hne He Hcb. unfold mon_exit.
  destruct (closer s) eqn:Ec; simpl; destruct I; constructor; simpl; eauto;
    try (intros t H1 H2; destruct (i_active0 t H1 H2) as (? & ? & ?); tauto);
    try (intros; discriminate); try tauto;
    try (intros e' E; injection E as <-; assumption);
    try (intros e' [<-|H]; [reflexivity|specialize (i_mx0 e' H); elim (Hne e' i_mx0)]);
    try (intros e' H; specialize (i_cr0 e' H); congruence);
    try (intros e' H; specialize (i_cdone0 e' H); elim (Hne e' i_cdone0)).
  all: try solve [intros e' E; injection E as <-; left; reflexivity].
  all: try solve [intros e' [<-|H]; [reflexivity|]; specialize (i_cr0 e' H); congruence].
  all: try solve [intros e' E; injection E as <-; reflexivity].
Qed.

Lemma step_mon_inv g s :
  Inv g s -> Inv (g_step g (Step Mon) (snd (step_mon raises s))) (fst (step_mon raises s)).
Proof.
  intros I. unfold step_mon. destruct (m_pc s) eqn:Epc.
  - (* MLoadScan *) cbn [fst snd]; rewrite g_step_noev. apply with_pc_simple; rewrite ?Epc; simpl; auto; try discriminate.
  - (* MGetIter *)
    cbn [fst snd]; rewrite g_step_noev. pose proof (i_ref _ _ I) as Hr. rewrite Epc in Hr. subst r.
    destruct I. rewrite Epc in *. constructor; std.
  - (* MIterNext *)
    destruct (length (obj (heap s) (m_itref s)) =? m_itused s).
    + destruct (m_todo s) as [|t rest] eqn:Etodo.
      * destruct (m_done s) as [|d0 dr] eqn:Edone.
        -- cbn [fst snd]; rewrite g_step_noev. apply with_pc_simple; rewrite ?Epc; simpl; auto; try discriminate.
        -- cbn [fst snd]; rewrite g_step_noev. destruct I. rewrite Epc, ?Edone in *.
           constructor; simpl; rewrite ?Edone; std.
      * cbn [fst snd]; rewrite g_step_noev. destruct I. rewrite Epc, ?Etodo in *.
        constructor; std.
        -- intros _ t0 H. apply i_todo0; [exact Logic.I|right; exact H].
        -- intros t0 E. injection E as <-. apply i_todo0; [exact Logic.I|left; reflexivity].
    + apply mon_exit_inv; rewrite ?Epc; auto; discriminate.
  - (* MIsAlive *)
    destruct (is_alive (regs s t)) eqn:Ea.
    + cbn [fst snd]; rewrite g_step_noev. apply with_pc_simple; rewrite ?Epc; simpl; auto; try discriminate.
    + cbn [fst snd]; rewrite g_step_noev. apply is_alive_false in Ea. destruct I. rewrite Epc in *.
      assert (Hnc : ~ In t (g_cl g)).
      { intros H. destruct (i_active0 t (i_isalive0 t eq_refl) H) as (F & _). elim F. }
      constructor; std.
      * intros d Hd. apply In_ins in Hd. destruct Hd as [->|Hd]; auto.
      * apply asc_ins. assumption.
      * intros d Hd. destruct (i_cbs0 d Hd). split; [apply In_ins; tauto|assumption].
      * intros _ d Hd. apply In_ins in Hd. destruct Hd as [->|Hd]; auto.
  - (* MCallback *)
    destruct (m_cbs s) as [|d rest] eqn:Ecbs.
    + cbn [fst snd]; rewrite g_step_noev. apply with_pc_simple; rewrite ?Epc; simpl; auto; try discriminate.
    + destruct I. rewrite Epc, ?Ecbs in *.
      destruct (i_cbs0 d (or_introl eq_refl)) as (Hdd & Hdc).
      assert (Hnr : ~ In d rest).
      { intros H. pose proof (asc_lt _ _ i_cbs_asc0 _ H). lia. }
      cbn [fst snd]. unfold g_step; simpl.
      constructor; simpl; try solve [destruct rest; std]; try solve [auto].
      all: try solve [constructor; assumption].
      all: try solve [intros t [<-|H]; auto].
      all: try solve [eapply asc_tail; eassumption].
      all: try solve [intros d' Hd'; destruct (i_cbs0 d' (or_intror Hd')) as (? & ?); split; [assumption|];
                      intros [<-|H1]; tauto].
      all: try solve [intros Hne; rewrite i_exc0 by (intros; discriminate);
                      destruct (raises d); [rewrite map_app; reflexivity|reflexivity]].
      intros t H1 [<-|H2].
      * split; [destruct rest; exact Logic.I|tauto].
      * destruct (i_active0 t H1 H2) as (_ & ? & ?).
        split; [destruct rest; exact Logic.I|]. split; [assumption|]. intros H3. apply H0. right. assumption.
  - (* MLoadRebuild *) cbn [fst snd]; rewrite g_step_noev. apply with_pc_simple; rewrite ?Epc; simpl; auto; try discriminate.
  - (* MSetDiff *)
    cbn [fst snd]; rewrite g_step_noev. pose proof (i_ref _ _ I) as Hr. rewrite Epc in Hr. subst r.
    destruct I. rewrite Epc in *.
    constructor; simpl; rewrite ?obj_app_old by assumption; std.
    + rewrite app_length. simpl. lia.
    + intros n E. injection E as <-. rewrite app_length. simpl. split; [assumption|]. split; [lia|].
      intros t. rewrite obj_app_new. apply In_diff.
  - (* MStore *)
    cbn [fst snd]; rewrite g_step_noev. destruct I. rewrite Epc in *.
    destruct (i_store0 n eq_refl) as (Hlt & Hlen & Hobj).
    constructor; std.
    + intros t H1 H2. destruct (Hobj t H1) as (Ha & Hnd).
      destruct (i_active0 t Ha H2) as (_ & ? & _). tauto.
    + intros t r E. specialize (i_radd0 t r E). lia.
  - (* MLoadCheck *) cbn [fst snd]; rewrite g_step_noev. apply with_pc_simple; rewrite ?Epc; simpl; auto; try discriminate.
  - (* MTruth *)
    destruct (obj (heap s) r); cbn [fst snd]; rewrite g_step_noev; apply with_pc_simple; rewrite ?Epc; simpl; auto; try discriminate.
  - (* MLoadClosed *)
    destruct (closed s).
    + apply mon_exit_inv; rewrite ?Epc; auto; try discriminate.
      right. rewrite (i_exc _ _ I); [reflexivity|]. rewrite Epc. discriminate.
    + cbn [fst snd]; rewrite g_step_noev. apply with_pc_simple; rewrite ?Epc; simpl; auto; try discriminate.
  - (* MExited *) exact I.
Qed.

Lemma set_reg_eq f t v : set_reg f t v t = v.
Proof. unfold set_reg. rewrite Nat.eqb_refl. reflexivity. Qed.
Lemma set_reg_neq f t v x : x <> t -> set_reg f t v x = f x.
Proof. unfold set_reg. intros H. apply Nat.eqb_neq in H. rewrite H. reflexivity. Qed.

(* case analysis on `set_reg f t v x` *)
Ltac sr x t :=
  destruct (Nat.eq_dec x t) as [->|?];
  [rewrite ?set_reg_eq in *|rewrite ?set_reg_neq in * by assumption].

Lemma step_reg_inv g s t :
  Inv g s -> Inv (g_step g (Step (Reg t)) (snd (step_reg s t))) (fst (step_reg s t)).
Proof.
  intros I. unfold step_reg. destruct (regs s t) eqn:Er; try exact I.
  - (* RLoad: LOAD_ATTR _active *)
    cbn [fst snd]; rewrite g_step_noev. destruct I. constructor; simpl; eauto.
    + intros x H. sr x t; [discriminate|auto].
    + intros x H. sr x t; [discriminate|auto].
    + intros d H. specialize (i_done_dead0 d H). sr d t; [congruence|auto].
    + intros x H. specialize (i_cl_dead0 x H). sr x t; [congruence|auto].
    + intros x r' H. sr x t; [injection H as <-; lia|eauto].
  - (* RAdd r: CALL add *)
    cbn [fst snd]. unfold g_step; simpl. destruct I.
    pose proof (i_radd0 t r Er) as Hr.
    constructor; simpl; rewrite ?length_upd; eauto.
    + intros x H. sr x t; [discriminate|]. destruct (i_dead0 x H). auto.
    + intros x H. sr x t; [auto|]. right. auto.
    + intros d H. specialize (i_done_dead0 d H). sr d t; [congruence|auto].
    + intros x H. specialize (i_cl_dead0 x H). sr x t; [congruence|auto].
    + intros x H1 H2. apply In_obj_add in H1. destruct H1 as [H1|(-> & _)]; [auto|].
      specialize (i_cl_dead0 t H2). congruence.
    + intros Hs x H. apply obj_add_mono. auto.
    + intros x H. apply obj_add_mono. auto.
    + intros n E. destruct (i_store0 n E) as (H1 & H2 & H3). split; [assumption|]. split; [assumption|].
      intros x Hx. rewrite obj_upd_other in Hx by lia. destruct (H3 x Hx). split; [apply obj_add_mono|]; assumption.
    + intros x r' H. sr x t; [discriminate|eauto].
Qed.

Lemma step_closer_inv g s :
  Inv g s -> Inv (g_step g (Step Closer) (snd (step_closer s))) (fst (step_closer s)).
Proof.
  intros I. unfold step_closer. destruct (closer s) eqn:Ec; try exact I.
  - cbn [fst snd]; rewrite g_step_noev. destruct I. constructor; simpl; eauto.
    + intros e H. specialize (i_cr0 e H). congruence.
    + intros; discriminate.
  - cbn [fst snd]; rewrite g_step_noev. destruct I. constructor; simpl; eauto.
    + intros e H. specialize (i_cr0 e H). congruence.
    + intros; discriminate.
  - cbn [fst snd]; rewrite g_step_noev. destruct I. constructor; simpl; eauto.
    + intros e H. specialize (i_cr0 e H). congruence.
    + intros; discriminate.
  - destruct (m_pc s) eqn:Epc; cbn [fst snd]; unfold g_step; simpl; destruct I; constructor; simpl; eauto;
      try (intros e' H; specialize (i_cr0 e' H); congruence); try (intros; discriminate).
    + intros e' [<-|H]; [reflexivity|]. specialize (i_cr0 e' H). congruence.
    + intros e' E. injection E as <-. assumption.
Qed.

Lemma step_inv g s l :
  Inv g s -> Inv (g_step g l (snd (step raises s l))) (fst (step raises s l)).
Proof.
  intros I. destruct l as [t|[| |t]|t|]; simpl.
  - (* Arrive *)
    destruct (regs s t) eqn:Er; try exact I. destruct (closer s) eqn:Ec; try exact I.
    cbn [fst snd]. unfold g_step; simpl. destruct I. constructor; simpl; eauto.
    + intros x H. sr x t; [discriminate|auto].
    + intros x H. sr x t; [discriminate|auto].
    + intros d H. specialize (i_done_dead0 d H). sr d t; [congruence|auto].
    + intros x H. specialize (i_cl_dead0 x H). sr x t; [congruence|auto].
    + intros x r' H. sr x t; [discriminate|eauto].
    + intros e H. specialize (i_cr0 e H). congruence.
    + intros; discriminate.
  - apply step_mon_inv; assumption.
  - apply step_closer_inv; assumption.
  - apply step_reg_inv; assumption.
  - (* Die *)
    destruct (regs s t) eqn:Er; try exact I.
    cbn [fst snd]. unfold g_step; simpl. destruct I. constructor; simpl; eauto.
    + intros x H. sr x t; [split; [left; reflexivity|auto]|]. destruct (i_dead0 x H). split; [right|]; assumption.
    + intros x H. sr x t; [discriminate|auto].
    + intros d H. specialize (i_done_dead0 d H). sr d t; [reflexivity|auto].
    + intros x H. specialize (i_cl_dead0 x H). sr x t; [reflexivity|auto].
    + intros x r' H. sr x t; [discriminate|eauto].
  - (* CloseCall *)
    destruct (closer s) eqn:Ec; try exact I.
    destruct (existsb _ _); [exact I|].
    cbn [fst snd]. unfold g_step; simpl. destruct I. constructor; simpl; eauto.
    + intros e H. specialize (i_cr0 e H). congruence.
    + intros; discriminate.
Qed.

End Steps.

Lemma grun_inv raises ls : forall g s, Inv g s ->
  Inv (fst (grun_from raises g s ls)) (snd (grun_from raises g s ls)).
Proof.
  induction ls as [|l r IH]; intros g s I; simpl; [exact I|].
  pose proof (step_inv raises g s l I) as I'. destruct (step raises s l) as [s' o]. apply IH. exact I'.
Qed.

Theorem Inv_run raises ls : Inv (ghost_of (history raises ls)) (run raises ls).
Proof.
  pose proof (grun_inv raises ls g0 init Inv_init) as H. rewrite grun_spec in H. exact H.
Qed.
