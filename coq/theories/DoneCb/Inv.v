(** The invariant of DoneCb/Model.v (repaired thread.py, with the lock), for
    EVERY schedule and any number of registering threads. *)
From NL Require Import DoneCb.Model DoneCb.Safety.
From Coq Require Import Lia.

(** ---- what the history says (functions of the history alone) *)
Record ghost := mkG {
  g_cl : list nat;            (* threads the callback was invoked with (newest first, with repetitions) *)
  g_rg : list nat;            (* threads whose register() returned *)
  g_rgc : list nat;           (* threads whose register() had returned when close() was called *)
  g_dd : list nat;            (* threads that ended *)
  g_rz : list nat;            (* threads whose callback raised, oldest first *)
  g_cr : list (option exn);   (* results of close() *)
  g_mx : list (option exn)    (* how the monitor thread ended *)
}.
Definition g0 : ghost := mkG [] [] [] [] [] [] [].

Definition ev_ghost (g : ghost) (e : event) : ghost :=
  match e with
  | EvRegistered t => mkG (g_cl g) (t :: g_rg g) (g_rgc g) (g_dd g) (g_rz g) (g_cr g) (g_mx g)
  | EvCb t r => mkG (t :: g_cl g) (g_rg g) (g_rgc g) (g_dd g) (if r then g_rz g ++ [t] else g_rz g) (g_cr g) (g_mx g)
  | EvMonExit e => mkG (g_cl g) (g_rg g) (g_rgc g) (g_dd g) (g_rz g) (g_cr g) (e :: g_mx g)
  | EvCloseRet e => mkG (g_cl g) (g_rg g) (g_rgc g) (g_dd g) (g_rz g) (e :: g_cr g) (g_mx g)
  end.

Definition evs_of (o : out) : list event := match o with OAcc _ e => e | _ => [] end.

Definition g_step (g : ghost) (l : label) (o : out) : ghost :=
  let g1 := match l, o with
            | Die t, OOk => mkG (g_cl g) (g_rg g) (g_rgc g) (t :: g_dd g) (g_rz g) (g_cr g) (g_mx g)
            | CloseCall, OOk => mkG (g_cl g) (g_rg g) (g_rg g) (g_dd g) (g_rz g) (g_cr g) (g_mx g)
            | _, _ => g
            end in
  fold_left ev_ghost (evs_of o) g1.

Definition ghost_of (h : list (label * out)) : ghost :=
  fold_left (fun g lo => g_step g (fst lo) (snd lo)) h g0.

(** model and ghost in lock step *)
Fixpoint grun_from (raises : nat -> bool) (g : ghost) (s : state) (ls : list label) : ghost * state :=
  match ls with
  | [] => (g, s)
  | l :: r => let '(s', o) := step raises s l in grun_from raises (g_step g l o) s' r
  end.

Lemma grun_from_spec raises ls : forall g s,
  grun_from raises g s ls =
  (fold_left (fun g lo => g_step g (fst lo) (snd lo)) (combine ls (snd (run_from raises s ls))) g,
   fst (run_from raises s ls)).
Proof.
  induction ls as [|l r IH]; intros g s; simpl; [reflexivity|].
  destruct (step raises s l) as [s' o]. rewrite IH.
  destruct (run_from raises s' r) as [s'' os]. reflexivity.
Qed.

Lemma grun_spec raises ls :
  grun_from raises g0 init ls = (ghost_of (history raises ls), run raises ls).
Proof. apply grun_from_spec. Qed.

Definition scanning (p : mpc) : Prop := match p with MIterNext | MIsAlive _ => True | _ => False end.
(** from the creation of `done` to the store *)
Definition prestore (p : mpc) : Prop :=
  match p with MIterNext | MIsAlive _ | MLoadRebuild | MSetDiff _ | MStore _ => True | _ => False end.
(** `for d in done` is pending / running *)
Definition cbpc (p : mpc) : Prop := match p with MRel1 | MCallback => True | _ => False end.
(** the monitor holds the lock *)
Definition mon_locked (p : mpc) : Prop :=
  match p with
  | MLoadScan | MGetIter _ | MIterNext | MIsAlive _ | MLoadRebuild | MSetDiff _ | MStore _ | MRel1
  | MLoadCheck | MTruth _ | MLoadClosed | MRelBreak | MRelLoop | MRelExc => True
  | _ => False
  end.
Definition reg_locked (r : rst) : Prop := match r with RLoad | RAdd _ | RRel => True | _ => False end.
(** the thread's `add` has been executed *)
Definition added (r : rst) : Prop := match r with RRel | RIdle | RDead => True | _ => False end.

Record Inv (g : ghost) (s : state) : Prop := {
  i_dead : forall t, regs s t = RDead -> In t (g_dd g) /\ In t (g_rg g);
  i_idle : forall t, regs s t = RIdle -> In t (g_rg g);
  i_rg : forall t, In t (g_rg g) -> regs s t = RIdle \/ regs s t = RDead;
  i_rgc : forall t, In t (g_rgc g) -> In t (g_rg g);
  i_done_dead : forall d, In d (m_done s) -> regs s d = RDead;
  i_done_asc : asc (m_done s);
  i_cl_nodup : NoDup (g_cl g);
  i_cl_dead : forall t, In t (g_cl g) -> regs s t = RDead;
  i_cbs : forall d, In d (m_cbs s) -> regs s d = RDead /\ ~ In d (g_cl g) /\ ~ In d (obj (heap s) (active s));
  i_cbs_asc : asc (m_cbs s);
  i_cbs_nil : ~ cbpc (m_pc s) -> m_cbs s = [];
  i_scan_done : prestore (m_pc s) -> forall d, In d (m_done s) -> ~ In d (g_cl g);
  i_active : forall t, In t (obj (heap s) (active s)) -> ~ In t (g_cl g);
  i_owed : forall t, added (regs s t) -> ~ In t (g_cl g) -> In t (obj (heap s) (active s)) \/ In t (m_cbs s);
  i_todo : scanning (m_pc s) -> forall t, In t (m_todo s) -> In t (obj (heap s) (active s));
  i_isalive : forall t, m_pc s = MIsAlive t -> In t (obj (heap s) (active s));
  i_ref : match m_pc s with MGetIter r | MSetDiff r | MTruth r => r = active s | _ => True end;
  i_bound : active s < length (heap s);
  i_store : forall n, m_pc s = MStore n ->
            active s < n /\ n < length (heap s) /\
            forall t, In t (obj (heap s) n) <-> In t (obj (heap s) (active s)) /\ ~ In t (m_done s);
  i_radd : forall t r, regs s t = RAdd r -> r = active s;
  i_iter : scanning (m_pc s) -> m_itref s = active s /\ m_itused s = length (obj (heap s) (active s));
  i_empty : m_pc s = MLoadClosed \/ m_pc s = MRelBreak -> obj (heap s) (active s) = [];
  i_break : m_pc s = MRelBreak -> closed s = true;
  i_closed : closed s = true -> closer s <> CNone;
  i_noexc : m_pc s <> MRelExc;
  i_exc : (forall e, m_pc s <> MExited e) -> m_exc s = map ExCb (g_rz g);
  i_exit : forall e, m_pc s = MExited e ->
           e = hd_error (map ExCb (g_rz g)) /\ (forall t, In t (g_rgc g) -> In t (g_cl g)) /\ closer s <> CNone;
  i_mx : forall e, In e (g_mx g) -> m_pc s = MExited e;
  i_mx_rev : forall e, m_pc s = MExited e -> In e (g_mx g);
  i_cr : forall e, In e (g_cr g) -> closer s = CDone e;
  i_cdone : forall e, closer s = CDone e -> m_pc s = MExited e;
  i_lock_mon : lock s = Some Mon <-> mon_locked (m_pc s);
  i_lock_reg : forall t, lock s = Some (Reg t) <-> reg_locked (regs s t);
  i_lock_closer : lock s <> Some Closer
}.

Lemma Inv_init : Inv g0 init.
Proof.
  constructor; simpl; try tauto; try discriminate; try (intros; discriminate); try constructor; auto;
    try (intros; intuition discriminate).
Qed.

Lemma is_alive_false r : is_alive r = false -> r = RDead.
Proof. destruct r; simpl; congruence. Qed.

Lemma In_obj_add h r t r' y :
  In y (obj (upd h r (ins t (obj h r))) r') -> In y (obj h r') \/ (y = t /\ r = r').
Proof.
  intros H. destruct (Nat.eq_dec r r') as [<-|N].
  - destruct (Nat.lt_ge_cases r (length h)).
    + rewrite obj_upd_same in H by assumption. apply In_ins in H. tauto.
    + rewrite obj_upd_oob in H by assumption. tauto.
  - rewrite obj_upd_other in H by assumption. tauto.
Qed.

Lemma g_step_noev g w a : g_step g (Step w) (OAcc a []) = g.
Proof. reflexivity. Qed.

Lemma set_reg_eq f t v : set_reg f t v t = v.
Proof. unfold set_reg. rewrite Nat.eqb_refl. reflexivity. Qed.
Lemma set_reg_neq f t v x : x <> t -> set_reg f t v x = f x.
Proof. unfold set_reg. intros H. apply Nat.eqb_neq in H. rewrite H. reflexivity. Qed.

(* case analysis on `set_reg f t v x` *)
Ltac sr x t :=
  destruct (Nat.eq_dec x t) as [->|?];
  [rewrite ?set_reg_eq in *|rewrite ?set_reg_neq in * by assumption].

(* closes the fields that a step leaves alone or makes vacuous *)
Ltac std :=
  simpl; eauto; try tauto; try discriminate;
  try solve [constructor];
  try solve [intros; discriminate];
  try solve [intros; intuition discriminate];
  try solve [intros; intuition congruence];
  try solve [intros _; match goal with
             | H : (forall e, _ <> MExited e) -> _ |- _ => apply H; intros; discriminate
             end];
  try solve [match goal with
             | HM : forall e, In e (g_mx _) -> _ |- forall e, In e (g_mx _) -> _ =>
               let e := fresh in let H := fresh in intros e H; specialize (HM e H); discriminate
             end];
  try solve [match goal with
             | HM : forall e, _ = CDone e -> _ |- forall e, _ = CDone e -> _ =>
               let e := fresh in let H := fresh in intros e H; specialize (HM e H); discriminate
             end].

Section Steps.
Variable raises : nat -> bool.

Lemma lock_mon_reg s g t : Inv g s -> mon_locked (m_pc s) -> reg_locked (regs s t) -> False.
Proof.
  intros I H1 H2. apply (i_lock_mon _ _ I) in H1. apply (i_lock_reg _ _ I) in H2. congruence.
Qed.

(** the monitor thread releases the lock and ends *)
Lemma mon_exit_inv g s e :
  Inv g s -> m_pc s = MRelBreak -> e = hd_error (m_exc s) ->
  Inv (g_step g (Step Mon) (snd (mon_exit s LockRelease e))) (fst (mon_exit s LockRelease e)).
Proof.
  intros I Epc He.
  assert (Hall : forall t, added (regs s t) -> In t (g_cl g)).
  { intros t Ha. destruct (in_dec Nat.eq_dec t (g_cl g)) as [H|H]; [exact H|].
    destruct (i_owed _ _ I t Ha H) as [F|F].
    - rewrite (i_empty _ _ I) in F by (right; exact Epc). destruct F.
    - rewrite (i_cbs_nil _ _ I) in F by (rewrite Epc; simpl; tauto). destruct F. }
  assert (Hrgc : forall t, In t (g_rgc g) -> In t (g_cl g)).
  { intros t H. apply Hall. destruct (i_rg _ _ I t (i_rgc _ _ I t H)) as [E|E]; rewrite E; exact Logic.I. }
  assert (Hcl : closer s <> CNone) by (apply (i_closed _ _ I), (i_break _ _ I), Epc).
  assert (Hexc : m_exc s = map ExCb (g_rz g)) by (apply (i_exc _ _ I); rewrite Epc; discriminate).
  pose proof (i_lock_reg _ _ I) as Hlr.
  assert (Hlm : lock s = Some Mon) by (apply (i_lock_mon _ _ I); rewrite Epc; exact Logic.I).
  unfold mon_exit. destruct (closer s) eqn:Ec; try (elim Hcl; reflexivity);
    cbn [fst snd]; unfold g_step; simpl; destruct I; rewrite Epc in *; constructor; std.
  all: try solve [intros ? E; injection E as <-; subst e; rewrite Hexc; auto].
  all: try solve [intros ? [<-|H]; [reflexivity|]; match goal with HM : forall e, In e (g_mx _) -> _ |- _ => specialize (HM _ H); discriminate end].
  all: try solve [intros ? E; injection E as <-; left; reflexivity].
  all: try solve [intros t; split; [discriminate|]; intros H; apply Hlr in H; congruence].
  all: try solve [intros ? H; match goal with HM : forall e, In e (g_cr _) -> _ |- _ => specialize (HM _ H); congruence end].
  all: try solve [intros ? [<-|H]; [reflexivity|]; match goal with HM : forall e, In e (g_cr _) -> _ |- _ => specialize (HM _ H); congruence end].
  all: try solve [intros ? E; injection E as <-; reflexivity].
Qed.

Ltac go I Epc := cbn [fst snd]; rewrite ?g_step_noev; destruct I; rewrite Epc in *; constructor; std.

Lemma step_mon_inv g s :
  Inv g s -> Inv (g_step g (Step Mon) (snd (step_mon raises s))) (fst (step_mon raises s)).
Proof.
  intros I. pose proof (fun t => lock_mon_reg s g t I) as Hmr. unfold step_mon. destruct (m_pc s) eqn:Epc.
  - (* MAcq1 *)
    destruct (lock s) eqn:El; [exact I|].
    pose proof (i_lock_reg _ _ I) as Hlr. go I Epc.
    intros t. split; [discriminate|]. intros H. apply Hlr in H. congruence.
  - (* MLoadScan *) go I Epc.
  - (* MGetIter *)
    pose proof (i_ref _ _ I) as Hr. rewrite Epc in Hr. subst r.
    pose proof (i_cbs_nil _ _ I) as Hn. rewrite Epc in Hn. specialize (Hn (fun x => x)).
    go I Epc.
    intros t H1 H2. destruct (i_owed0 t H1 H2) as [H|H]; [left; exact H|]. rewrite Hn in H. destruct H.
  - (* MIterNext *)
    destruct (i_iter _ _ I) as (Hit & Hus); [rewrite Epc; exact Logic.I|].
    rewrite Hit, Hus, Nat.eqb_refl.
    destruct (m_todo s) as [|t rest] eqn:Etodo.
    + go I Epc.
    + pose proof (i_todo _ _ I) as Ht. rewrite Epc, Etodo in Ht. go I Epc.
      all: try solve [intros _ x Hx; apply Ht; [exact Logic.I|right; exact Hx]].
      all: try solve [intros x E; injection E as <-; apply Ht; [exact Logic.I|left; reflexivity]].
  - (* MIsAlive *)
    destruct (is_alive (regs s t)) eqn:Ea.
    + go I Epc.
    + apply is_alive_false in Ea.
      assert (Hnc : ~ In t (g_cl g)) by (apply (i_active _ _ I), (i_isalive _ _ I), Epc).
      go I Epc.
      * intros d Hd. apply In_ins in Hd. destruct Hd as [->|Hd]; auto.
      * apply asc_ins. assumption.
      * intros _ d Hd. apply In_ins in Hd. destruct Hd as [->|Hd]; auto.
  - (* MLoadRebuild *) go I Epc.
  - (* MSetDiff *)
    pose proof (i_ref _ _ I) as Hr. rewrite Epc in Hr. subst r.
    pose proof (i_bound _ _ I) as Hb.
    cbn [fst snd]; rewrite ?g_step_noev; destruct I; rewrite Epc in *; constructor; simpl;
      rewrite ?obj_app_old by assumption; std.
    + rewrite app_length. simpl. lia.
    + intros n E. injection E as <-. rewrite app_length. simpl. split; [assumption|]. split; [lia|].
      intros t. rewrite obj_app_new. apply In_diff.
  - (* MStore *)
    pose proof (i_cbs_nil _ _ I) as Hn. rewrite Epc in Hn. specialize (Hn (fun x => x)).
    destruct (i_store _ _ I n Epc) as (Hlt & Hlen & Hobj).
    go I Epc.
    + intros d Hd. split; [auto|]. split; [apply i_scan_done0; [exact Logic.I|exact Hd]|].
      intros H. apply Hobj in H. tauto.
    + intros t H. apply Hobj in H. apply i_active0. tauto.
    + intros t H1 H2. destruct (i_owed0 t H1 H2) as [H|H]; [|rewrite Hn in H; destruct H].
      destruct (in_dec Nat.eq_dec t (m_done s)) as [Hd|Hd]; [right; exact Hd|left; apply Hobj; tauto].
    + intros t r E. exfalso. apply (Hmr t); [exact Logic.I|rewrite E; exact Logic.I].
  - (* MRel1 *)
    pose proof (i_lock_reg _ _ I) as Hlr.
    assert (Hlm : lock s = Some Mon) by (apply (i_lock_mon _ _ I); rewrite Epc; exact Logic.I).
    destruct (m_cbs s) as [|d rest] eqn:Ecbs; go I Epc.
    all: try solve [intros t; split; [discriminate|]; intros H; apply Hlr in H; congruence].
  - (* MCallback *)
    destruct (m_cbs s) as [|d rest] eqn:Ecbs.
    + go I Epc.
    + destruct (i_cbs _ _ I d) as (Hdd & Hdc & Hda); [rewrite Ecbs; left; reflexivity|].
      assert (Hnr : ~ In d rest).
      { intros H. pose proof (i_cbs_asc _ _ I) as Ha. rewrite Ecbs in Ha. pose proof (asc_lt _ _ Ha _ H). lia. }
      cbn [fst snd]. unfold g_step; simpl. destruct I. rewrite Epc, ?Ecbs in *.
      constructor; simpl; try solve [destruct rest; std]; try solve [auto].
      all: try solve [constructor; assumption].
      all: try solve [intros t [<-|H]; auto].
      all: try solve [eapply asc_tail; eassumption].
      all: try solve [intros d' Hd'; destruct (i_cbs0 d' (or_intror Hd')) as (? & ? & ?); split; [assumption|];
                      split; [intros [<-|H2]; tauto|assumption]].
      all: try solve [intros Hne; rewrite i_exc0 by (intros; discriminate);
                      destruct (raises d); [rewrite map_app; reflexivity|reflexivity]].
      all: try solve [intros t H1 [<-|H2]; [tauto|]; apply (i_active0 t H1 H2)].
      all: try solve [intros t H1 H2; destruct (i_owed0 t H1) as [H|[<-|H]]; [tauto|left; exact H|tauto|right; exact H]].
      all: try solve [destruct rest; [reflexivity|intros H; elim H; exact Logic.I]].
  - (* MAcq2 *)
    destruct (lock s) eqn:El; [exact I|].
    pose proof (i_lock_reg _ _ I) as Hlr. go I Epc.
    intros t. split; [discriminate|]. intros H. apply Hlr in H. congruence.
  - (* MLoadCheck *) go I Epc.
  - (* MTruth *)
    pose proof (i_ref _ _ I) as Hr. rewrite Epc in Hr. subst r.
    destruct (obj (heap s) (active s)) eqn:Eo; go I Epc.
  - (* MLoadClosed *)
    destruct (closed s) eqn:Ecl; go I Epc.
  - (* MRelBreak *) apply mon_exit_inv; auto.
  - (* MRelLoop *)
    pose proof (i_lock_reg _ _ I) as Hlr.
    assert (Hlm : lock s = Some Mon) by (apply (i_lock_mon _ _ I); rewrite Epc; exact Logic.I).
    go I Epc.
    all: try solve [intros t; split; [discriminate|]; intros H; apply Hlr in H; congruence].
  - (* MRelExc *) elim (i_noexc _ _ I Epc).
  - (* MExited *) exact I.
Qed.

Lemma step_reg_inv g s t :
  Inv g s -> Inv (g_step g (Step (Reg t)) (snd (step_reg s t))) (fst (step_reg s t)).
Proof.
  intros I. pose proof (fun x => lock_mon_reg s g x I) as Hmr.
  pose proof (i_lock_reg _ _ I) as Hlr. pose proof (i_lock_mon _ _ I) as Hlm.
  unfold step_reg. destruct (regs s t) eqn:Er; try exact I.
  - (* RAcq: BEFORE_WITH *)
    destruct (lock s) eqn:El; [exact I|].
    cbn [fst snd]; rewrite g_step_noev. destruct I. constructor; simpl; eauto.
    all: try solve [intros x H; sr x t; [discriminate|auto]].
    all: try solve [intros x H; specialize (i_rg0 x H); sr x t; [intuition congruence|auto]].
    all: try solve [intros d H; pose proof (i_done_dead0 d H); sr d t; [congruence|auto]].
    all: try solve [intros d H; pose proof (i_cl_dead0 d H); sr d t; [congruence|auto]].
    all: try solve [intros d H; destruct (i_cbs0 d H) as (? & ? & ?); sr d t; [congruence|auto]].
    all: try solve [intros x H1 H2; sr x t; [elim H1|auto]].
    all: try solve [intros x r' H; sr x t; [discriminate|eauto]].
    all: try solve [split; [discriminate|]; intros H; apply Hlm in H; congruence].
    all: try solve [discriminate].
    intros x. sr x t; [simpl; intuition|].
    split; [intros H; injection H; congruence|]. intros H. apply Hlr in H. congruence.
  - (* RLoad: LOAD_ATTR _active *)
    cbn [fst snd]; rewrite g_step_noev. destruct I. constructor; simpl; eauto.
    all: try solve [intros x H; sr x t; [discriminate|auto]].
    all: try solve [intros x H; specialize (i_rg0 x H); sr x t; [intuition congruence|auto]].
    all: try solve [intros d H; pose proof (i_done_dead0 d H); sr d t; [congruence|auto]].
    all: try solve [intros d H; pose proof (i_cl_dead0 d H); sr d t; [congruence|auto]].
    all: try solve [intros d H; destruct (i_cbs0 d H) as (? & ? & ?); sr d t; [congruence|auto]].
    all: try solve [intros x H1 H2; sr x t; [elim H1|auto]].
    all: try solve [intros x r' H; sr x t; [congruence|eauto]].
    intros x. sr x t; [|apply Hlr]. rewrite Hlr, Er. simpl. tauto.
  - (* RAdd r: CALL add *)
    assert (Hl : reg_locked (regs s t)) by (rewrite Er; exact Logic.I).
    assert (Hnm : ~ mon_locked (m_pc s)) by (intros H; exact (Hmr t H Hl)).
    pose proof (i_radd _ _ I t r Er) as ->. pose proof (i_bound _ _ I) as Hb.
    cbn [fst snd]; rewrite g_step_noev. destruct I. constructor; simpl; rewrite ?length_upd; eauto.
    all: try solve [intros x H; sr x t; [discriminate|auto]].
    all: try solve [intros x H; specialize (i_rg0 x H); sr x t; [intuition congruence|auto]].
    all: try solve [intros d H; pose proof (i_done_dead0 d H); sr d t; [congruence|auto]].
    all: try solve [intros d H; pose proof (i_cl_dead0 d H); sr d t; [congruence|auto]].
    all: try solve [intros x r' H; sr x t; [discriminate|eauto]].
    all: try solve [intros H; exfalso; apply Hnm; destruct (m_pc s); simpl in *; tauto].
    all: try solve [intros n E; exfalso; apply Hnm; rewrite E; exact Logic.I].
    all: try solve [intros x E; exfalso; apply Hnm; rewrite E; exact Logic.I].
    all: try solve [intros [E|E]; exfalso; apply Hnm; rewrite E; exact Logic.I].
    + (* i_cbs *) intros d H. destruct (i_cbs0 d H) as (H1 & H2 & H3).
      sr d t; [congruence|]. split; [assumption|]. split; [assumption|].
      intros H4. apply In_obj_add in H4. destruct H4 as [H4|(-> & _)]; tauto.
    + (* i_active *) intros x H1 H2. apply In_obj_add in H1. destruct H1 as [H1|(-> & _)]; [exact (i_active0 x H1 H2)|].
      specialize (i_cl_dead0 t H2). congruence.
    + (* i_owed *) intros x H1 H2. sr x t.
      * left. rewrite obj_upd_same by assumption. apply In_ins. tauto.
      * destruct (i_owed0 x H1 H2) as [H|H]; [left; apply obj_add_mono; exact H|right; exact H].
    + (* i_lock_reg *) intros x. sr x t; [|apply Hlr]. rewrite Hlr, Er. simpl. tauto.
  - (* RRel: release; register() returns *)
    assert (Hl : lock s = Some (Reg t)) by (apply Hlr; rewrite Er; exact Logic.I).
    cbn [fst snd]. unfold g_step; simpl. destruct I. constructor; simpl; eauto.
    all: try solve [intros x H; sr x t; [discriminate|]; destruct (i_dead0 x H); auto].
    all: try solve [intros x H; sr x t; [left; reflexivity|right; auto]].
    all: try solve [intros x [<-|H]; [rewrite set_reg_eq; left; reflexivity|]; specialize (i_rg0 x H); sr x t; [intuition congruence|auto]].
    all: try solve [intros x H; right; auto].
    all: try solve [intros d H; pose proof (i_done_dead0 d H); sr d t; [congruence|auto]].
    all: try solve [intros d H; pose proof (i_cl_dead0 d H); sr d t; [congruence|auto]].
    all: try solve [intros d H; destruct (i_cbs0 d H) as (? & ? & ?); sr d t; [congruence|auto]].
    all: try solve [intros x H1 H2; sr x t; [apply i_owed0; [rewrite Er; exact Logic.I|assumption]|auto]].
    all: try solve [intros x r' H; sr x t; [discriminate|eauto]].
    all: try solve [split; [discriminate|]; intros H; apply Hlm in H; congruence].
    all: try solve [discriminate].
    intros x. split; [discriminate|]. sr x t; [intros []|]. intros H. apply Hlr in H. congruence.
Qed.

Lemma step_closer_inv g s :
  Inv g s -> Inv (g_step g (Step Closer) (snd (step_closer s))) (fst (step_closer s)).
Proof.
  intros I. unfold step_closer. destruct (closer s) eqn:Ec; try exact I.
  - cbn [fst snd]; rewrite g_step_noev. destruct I. constructor; simpl; eauto;
      try (intros; discriminate); try (intros e H; specialize (i_cr0 e H); congruence).
    intros e E. destruct (i_exit0 e E) as (? & ? & ?). intuition discriminate.
  - cbn [fst snd]; rewrite g_step_noev. destruct I. constructor; simpl; eauto;
      try (intros; discriminate); try (intros e H; specialize (i_cr0 e H); congruence).
    intros e E. destruct (i_exit0 e E) as (? & ? & ?). intuition discriminate.
  - cbn [fst snd]; rewrite g_step_noev. destruct I. constructor; simpl; eauto;
      try (intros; discriminate); try (intros e H; specialize (i_cr0 e H); congruence).
    intros e E. destruct (i_exit0 e E) as (? & ? & ?). intuition discriminate.
  - destruct (m_pc s) eqn:Epc; cbn [fst snd]; unfold g_step; simpl; destruct I; constructor; simpl; eauto;
      try (intros e' H; specialize (i_cr0 e' H); congruence); try (intros; discriminate).
    all: try solve [intros e' E; destruct (i_exit0 e' E) as (? & ? & ?); intuition discriminate].
    all: try solve [intros e' [<-|H]; [reflexivity|]; specialize (i_cr0 e' H); congruence].
    all: try solve [intros e' E; injection E as <-; assumption].
Qed.

Lemma step_inv g s l :
  Inv g s -> Inv (g_step g l (snd (step raises s l))) (fst (step raises s l)).
Proof.
  intros I. destruct l as [t|[| |t]|t|]; simpl.
  - (* Arrive *)
    pose proof (i_lock_reg _ _ I) as Hlr.
    destruct (regs s t) eqn:Er; try exact I.
    cbn [fst snd]. unfold g_step; simpl. destruct I. constructor; simpl; eauto.
    all: try solve [intros x H; sr x t; [discriminate|auto]].
    all: try solve [intros x H; specialize (i_rg0 x H); sr x t; [intuition congruence|auto]].
    all: try solve [intros d H; pose proof (i_done_dead0 d H); sr d t; [congruence|auto]].
    all: try solve [intros d H; pose proof (i_cl_dead0 d H); sr d t; [congruence|auto]].
    all: try solve [intros d H; destruct (i_cbs0 d H) as (? & ? & ?); sr d t; [congruence|auto]].
    all: try solve [intros x H1 H2; sr x t; [elim H1|auto]].
    all: try solve [intros x r' H; sr x t; [discriminate|eauto]].
    intros x. sr x t; [|apply Hlr]. rewrite Hlr, Er. simpl. tauto.
  - apply step_mon_inv; assumption.
  - apply step_closer_inv; assumption.
  - apply step_reg_inv; assumption.
  - (* Die *)
    pose proof (i_lock_reg _ _ I) as Hlr.
    destruct (regs s t) eqn:Er; try exact I.
    cbn [fst snd]. unfold g_step; simpl. destruct I. constructor; simpl; eauto.
    all: try solve [intros x H; sr x t; [split; [left; reflexivity|auto]|]; destruct (i_dead0 x H); split; [right|]; assumption].
    all: try solve [intros x H; sr x t; [discriminate|auto]].
    all: try solve [intros x H; specialize (i_rg0 x H); sr x t; [right; reflexivity|auto]].
    all: try solve [intros d H; pose proof (i_done_dead0 d H); sr d t; [reflexivity|auto]].
    all: try solve [intros d H; pose proof (i_cl_dead0 d H); sr d t; [reflexivity|auto]].
    all: try solve [intros d H; destruct (i_cbs0 d H) as (? & ? & ?); sr d t; [congruence|auto]].
    all: try solve [intros x H1 H2; sr x t; [apply i_owed0; [rewrite Er; exact Logic.I|assumption]|auto]].
    all: try solve [intros x r' H; sr x t; [discriminate|eauto]].
    intros x. sr x t; [|apply Hlr]. rewrite Hlr, Er. simpl. tauto.
  - (* CloseCall *)
    destruct (closer s) eqn:Ec; try exact I.
    cbn [fst snd]. unfold g_step; simpl. destruct I. constructor; simpl; eauto; try (intros; discriminate).
    + intros e E. destruct (i_exit0 e E) as (? & ? & F). elim F. exact Ec.
    + intros e H. specialize (i_cr0 e H). congruence.
Qed.

End Steps.

Lemma grun_inv raises ls : forall g s, Inv g s ->
  Inv (fst (grun_from raises g s ls)) (snd (grun_from raises g s ls)).
Proof.
  induction ls as [|l r IH]; intros g s I; simpl; [exact I|].
  pose proof (step_inv raises g s l I) as I'. destruct (step raises s l) as [s' o]. apply IH. exact I'.
Qed.

Theorem Inv_run raises ls : Inv (ghost_of (history raises ls)) (run raises ls).
Proof.
  pose proof (grun_inv raises ls g0 init Inv_init) as H. rewrite grun_spec in H. exact H.
Qed.
