(** The safety invariant of DoneCb/Model.v, for EVERY schedule. *)
From NL Require Import DoneCb.Model DoneCb.Safety.
From Coq Require Import Lia.

(** ---- what the history says (functions of the history alone) *)
Record ghost := mkG {
  g_cl : list nat;            (* threads the callback was invoked with (newest first, with repetitions) *)
  g_rg : list nat;            (* threads whose register() returned *)
  g_dd : list nat;            (* threads that ended *)
  g_rz : list nat;            (* threads whose callback raised, oldest first *)
  g_cr : list (option exn);   (* results of close() *)
  g_mx : list (option exn)    (* how the monitor thread ended *)
}.
Definition g0 : ghost := mkG [] [] [] [] [] [].

Definition ev_ghost (g : ghost) (e : event) : ghost :=
  match e with
  | EvRegistered t => mkG (g_cl g) (t :: g_rg g) (g_dd g) (g_rz g) (g_cr g) (g_mx g)
  | EvCb t r => mkG (t :: g_cl g) (g_rg g) (g_dd g) (if r then g_rz g ++ [t] else g_rz g) (g_cr g) (g_mx g)
  | EvMonExit e => mkG (g_cl g) (g_rg g) (g_dd g) (g_rz g) (g_cr g) (e :: g_mx g)
  | EvCloseRet e => mkG (g_cl g) (g_rg g) (g_dd g) (g_rz g) (e :: g_cr g) (g_mx g)
  end.

Definition evs_of (o : out) : list event := match o with OAcc _ e => e | _ => [] end.

Definition g_step (g : ghost) (l : label) (o : out) : ghost :=
  let g1 := match l, o with
            | Die t, OOk => mkG (g_cl g) (g_rg g) (t :: g_dd g) (g_rz g) (g_cr g) (g_mx g)
            | _, _ => g
            end in
  fold_left ev_ghost (evs_of o) g1.

Definition ghost_of (h : list (label * out)) : ghost :=
  fold_left (fun g lo => g_step g (fst lo) (snd lo)) h g0.

(** model and ghost in lock step *)
Fixpoint grun_from (raises : nat -> bool) (g : ghost) (s : state) (ls : list label) : ghost * state :=
  match ls with
  | [] => (g, s)
  | l :: r => let '(s', o) := step raises s l in grun_from raises (g_step g l o) s' r
  end.

Lemma grun_from_spec raises ls : forall g s,
  grun_from raises g s ls =
  (fold_left (fun g lo => g_step g (fst lo) (snd lo)) (combine ls (snd (run_from raises s ls))) g,
   fst (run_from raises s ls)).
Proof.
  induction ls as [|l r IH]; intros g s; simpl; [reflexivity|].
  destruct (step raises s l) as [s' o]. rewrite IH.
  destruct (run_from raises s' r) as [s'' os]. reflexivity.
Qed.

Lemma grun_spec raises ls :
  grun_from raises g0 init ls = (ghost_of (history raises ls), run raises ls).
Proof. apply grun_from_spec. Qed.

Definition scanning (p : mpc) : Prop := match p with MIterNext | MIsAlive _ => True | _ => False end.
Definition cbphase (p : mpc) : Prop :=
  match p with MCallback | MLoadRebuild | MSetDiff _ | MStore _ => True | _ => False end.

Record Inv (g : ghost) (s : state) : Prop := {
  i_dead : forall t, regs s t = RDead -> In t (g_dd g) /\ In t (g_rg g);
  i_idle : forall t, regs s t = RIdle -> In t (g_rg g);
  i_done_dead : forall d, In d (m_done s) -> regs s d = RDead;
  i_done_asc : asc (m_done s);
  i_cl_nodup : NoDup (g_cl g);
  i_cl_dead : forall t, In t (g_cl g) -> regs s t = RDead;
  i_cbs : forall d, In d (m_cbs s) -> In d (m_done s) /\ ~ In d (g_cl g);
  i_cbs_asc : asc (m_cbs s);
  i_scan_done : scanning (m_pc s) -> forall d, In d (m_done s) -> ~ In d (g_cl g);
  i_active : forall t, In t (obj (heap s) (active s)) -> In t (g_cl g) ->
             cbphase (m_pc s) /\ In t (m_done s) /\ ~ In t (m_cbs s);
  i_todo : scanning (m_pc s) -> forall t, In t (m_todo s) -> In t (obj (heap s) (active s));
  i_isalive : forall t, m_pc s = MIsAlive t -> In t (obj (heap s) (active s));
  i_ref : match m_pc s with MGetIter r | MSetDiff r | MTruth r => r = active s | _ => True end;
  i_bound : active s < length (heap s);
  i_store : forall n, m_pc s = MStore n ->
            active s < n /\ n < length (heap s) /\
            forall t, In t (obj (heap s) n) -> In t (obj (heap s) (active s)) /\ ~ In t (m_done s);
  i_radd : forall t r, regs s t = RAdd r -> r <= active s;
  i_exc : (forall e, m_pc s <> MExited e) -> m_exc s = map ExCb (g_rz g);
  i_exit : forall e, m_pc s = MExited e -> e = Some ExSetChanged \/ e = hd_error (map ExCb (g_rz g));
  i_mx : forall e, In e (g_mx g) -> m_pc s = MExited e;
  i_cr : forall e, In e (g_cr g) -> closer s = CDone e;
  i_cdone : forall e, closer s = CDone e -> m_pc s = MExited e
}.

Lemma Inv_init : Inv g0 init.
Proof.
  constructor; simpl; try tauto; try discriminate; try (intros; discriminate); try constructor; auto.
Qed.

Lemma is_alive_false r : is_alive r = false -> r = RDead.
Proof. destruct r; simpl; congruence. Qed.

Lemma In_obj_add h r t r' y :
  In y (obj (upd h r (ins t (obj h r))) r') -> In y (obj h r') \/ (y = t /\ r = r').
Proof.
  intros H. destruct (Nat.eq_dec r r') as [<-|N].
  - destruct (Nat.lt_ge_cases r (length h)).
    + rewrite obj_upd_same in H by assumption. apply In_ins in H. tauto.
    + rewrite obj_upd_oob in H by assumption. tauto.
  - rewrite obj_upd_other in H by assumption. tauto.
Qed.

Ltac inv_tac := intros; simpl in *; subst; try tauto; try discriminate; eauto.

Section Steps.
Variable raises : nat -> bool.

Lemma with_pc_simple g s p :
  Inv g s ->
  (scanning p -> scanning (m_pc s)) ->
  (cbphase (m_pc s) -> cbphase p) ->
  (forall t, p = MIsAlive t -> In t (obj (heap s) (active s))) ->
  match p with MGetIter r | MSetDiff r | MTruth r => r = active s | _ => True end ->
  (forall n, p <> MStore n) ->
  (forall e, p <> MExited e) -> (forall e, m_pc s <> MExited e) ->
  Inv g (with_pc s p).
Proof.
  intros I Hs Hc Ha Hr Hn He He'. destruct I. constructor; simpl; eauto.
  - intros t H1 H2. destruct (i_active0 t H1 H2) as (? & ? & ?). auto.
  - intros n E. elim (Hn n E).
  - intros e E. elim (He e E).
  - intros e H. specialize (i_mx0 e H). elim (He' e i_mx0).
  - intros e H. specialize (i_cdone0 e H). elim (He' e i_cdone0).
Qed.

Lemma g_step_noev g w a : g_step g (Step w) (OAcc a []) = g.
Proof. reflexivity. Qed.

(** the monitor thread ends *)
Lemma mon_exit_inv g s a e :
  Inv g s -> (forall e', m_pc s <> MExited e') ->
  e = Some ExSetChanged \/ e = hd_error (map ExCb (g_rz g)) ->
  ~ cbphase (m_pc s) ->
  Inv (g_step g (Step Mon) (snd (mon_exit s a e []))) (fst (mon_exit s a e [])).
Proof.
  intros I Hne He Hcb. unfold mon_exit.
  destruct (closer s) eqn:Ec; simpl; destruct I; constructor; simpl; eauto;
    try (intros t H1 H2; destruct (i_active0 t H1 H2) as (? & ? & ?); tauto);
    try (intros; discriminate); try tauto;
    try (intros e' E; injection E as <-; assumption);
    try (intros e' [<-|H]; [reflexivity|specialize (i_mx0 e' H); elim (Hne e' i_mx0)]);
    try (intros e' H; specialize (i_cr0 e' H); congruence);
    try (intros e' H; specialize (i_cdone0 e' H); elim (Hne e' i_cdone0)).
  - intros e' [<-|H]; [reflexivity|]. specialize (i_cr0 e' H). congruence.
  - intros e' E. injection E as <-. reflexivity.
Qed.

Lemma step_mon_inv g s :
  Inv g s -> Inv (g_step g (Step Mon) (snd (step_mon raises s))) (fst (step_mon raises s)).
Proof.
  intros I. unfold step_mon. destruct (m_pc s) eqn:Epc.
  - (* MLoadScan *) cbn [fst snd]; rewrite g_step_noev. apply with_pc_simple; rewrite ?Epc; simpl; auto; try discriminate.
  - (* MGetIter *)
    cbn [fst snd]; rewrite g_step_noev. pose proof (i_ref _ _ I) as Hr. rewrite Epc in Hr. subst r.
    destruct I. rewrite Epc in *. constructor; simpl; eauto; try tauto; try discriminate.
    + intros t H1 H2. destruct (i_active0 t H1 H2) as (F & _). elim F.
    + intros. discriminate.
    + intros e H. specialize (i_mx0 e H). discriminate.
    + intros e H. specialize (i_cdone0 e H). discriminate.
  - (* MIterNext *)
    destruct (length (obj (heap s) (m_itref s)) =? m_itused s).
    + destruct (m_todo s) as [|t rest] eqn:Etodo.
      * destruct (m_done s) as [|d0 dr] eqn:Edone.
        -- cbn [fst snd]; rewrite g_step_noev. apply with_pc_simple; rewrite ?Epc; simpl; auto; try discriminate.
        -- cbn [fst snd]; rewrite g_step_noev. destruct I. rewrite Epc, ?Edone in *.
           constructor; simpl; rewrite ?Edone; eauto; try tauto; try discriminate.
           ++ intros d Hd. split; [exact Hd|]. apply i_scan_done0; [exact Logic.I|exact Hd].
           ++ intros t H1 H2. destruct (i_active0 t H1 H2) as (F & _). elim F.
           ++ intros e H. specialize (i_mx0 e H). discriminate.
           ++ intros e H. specialize (i_cdone0 e H). discriminate.
      * cbn [fst snd]; rewrite g_step_noev. destruct I. rewrite Epc, ?Etodo in *.
        constructor; simpl; eauto; try tauto; try discriminate.
        -- intros t0 H1 H2. destruct (i_active0 t0 H1 H2) as (F & _). elim F.
        -- intros _ t0 H. apply i_todo0; [exact Logic.I|right; exact H].
        -- intros t0 E. injection E as <-. apply i_todo0; [exact Logic.I|left; reflexivity].
        -- intros e H. specialize (i_mx0 e H). discriminate.
        -- intros e H. specialize (i_cdone0 e H). discriminate.
    + apply mon_exit_inv; rewrite ?Epc; auto; discriminate.
  - (* MIsAlive *)
    destruct (is_alive (regs s t)) eqn:Ea.
    + cbn [fst snd]; rewrite g_step_noev. apply with_pc_simple; rewrite ?Epc; simpl; auto; try discriminate.
    + cbn [fst snd]; rewrite g_step_noev. apply is_alive_false in Ea. destruct I. rewrite Epc in *.
      assert (Hnc : ~ In t (g_cl g)).
      { intros H. destruct (i_active0 t (i_isalive0 t eq_refl) H) as (F & _). elim F. }
      constructor; simpl; eauto; try tauto; try discriminate.
      * intros d Hd. apply In_ins in Hd. destruct Hd as [->|Hd]; auto.
      * apply asc_ins. assumption.
      * intros d Hd. destruct (i_cbs0 d Hd). split; [apply In_ins; tauto|assumption].
      * intros _ d Hd. apply In_ins in Hd. destruct Hd as [->|Hd]; auto.
      * intros t0 H1 H2. destruct (i_active0 t0 H1 H2) as (F & _). elim F.
      * intros e H. specialize (i_mx0 e H). discriminate.
      * intros e H. specialize (i_cdone0 e H). discriminate.
  - (* MCallback *)
    destruct (m_cbs s) as [|d rest] eqn:Ecbs.
    + cbn [fst snd]; rewrite g_step_noev. apply with_pc_simple; rewrite ?Epc; simpl; auto; try discriminate.
    + destruct I. rewrite Epc, ?Ecbs in *.
      destruct (i_cbs0 d (or_introl eq_refl)) as (Hdd & Hdc).
      assert (Hnr : ~ In d rest).
      { intros H. pose proof (asc_lt _ _ i_cbs_asc0 _ H). lia. }
      assert (Hph : cbphase (match rest with [] => MLoadRebuild | _ => MCallback end)) by (destruct rest; exact Logic.I).
      cbn [fst snd]. unfold g_step; simpl.
      constructor; simpl; eauto; try tauto; try discriminate.
      * constructor; assumption.
      * intros t [<-|H]; auto.
      * intros d' Hd'. destruct (i_cbs0 d' (or_intror Hd')) as (? & ?). split; [assumption|].
        intros [<-|H1]; tauto.
      * eapply asc_tail; eassumption.
      * destruct rest; simpl; tauto.
      * intros t H1 [<-|H2]; [tauto|]. destruct (i_active0 t H1 H2) as (_ & ? & ?).
        split; [assumption|]. split; [assumption|]. intros H3. apply H0. right. assumption.
      * destruct rest; simpl; tauto.
      * destruct rest; intros; discriminate.
      * destruct rest; exact Logic.I.
      * destruct rest; intros; discriminate.
      * intros Hne. rewrite i_exc0 by (intros; discriminate).
        destruct (raises d); [rewrite map_app; reflexivity|reflexivity].
      * destruct rest; intros; discriminate.
      * intros e H. specialize (i_mx0 e H). discriminate.
      * intros e H. specialize (i_cdone0 e H). discriminate.
  - (* MLoadRebuild *) cbn [fst snd]; rewrite g_step_noev. apply with_pc_simple; rewrite ?Epc; simpl; auto; try discriminate.
  - (* MSetDiff *)
    cbn [fst snd]; rewrite g_step_noev. pose proof (i_ref _ _ I) as Hr. rewrite Epc in Hr. subst r.
    destruct I. rewrite Epc in *.
    constructor; simpl; rewrite ?obj_app_old by assumption; eauto; try tauto; try discriminate.
    + rewrite app_length. simpl. lia.
    + intros n E. injection E as <-. rewrite app_length. simpl. split; [assumption|]. split; [lia|].
      intros t. rewrite obj_app_new. apply In_diff.
    + intros e H. specialize (i_mx0 e H). discriminate.
    + intros e H. specialize (i_cdone0 e H). discriminate.
  - (* MStore *)
    cbn [fst snd]; rewrite g_step_noev. destruct I. rewrite Epc in *.
    destruct (i_store0 n eq_refl) as (Hlt & Hlen & Hobj).
    constructor; simpl; eauto; try tauto; try discriminate.
    + intros t H1 H2. destruct (Hobj t H1) as (Ha & Hnd).
      destruct (i_active0 t Ha H2) as (_ & ? & _). tauto.
    + intros t r E. specialize (i_radd0 t r E). lia.
    + intros e H. specialize (i_mx0 e H). discriminate.
    + intros e H. specialize (i_cdone0 e H). discriminate.
  - (* MLoadCheck *) cbn [fst snd]; rewrite g_step_noev. apply with_pc_simple; rewrite ?Epc; simpl; auto; try discriminate.
  - (* MTruth *)
    destruct (obj (heap s) r); cbn [fst snd]; rewrite g_step_noev; apply with_pc_simple; rewrite ?Epc; simpl; auto; try discriminate.
  - (* MLoadClosed *)
    destruct (closed s).
    + apply mon_exit_inv; rewrite ?Epc; auto; try discriminate.
      right. rewrite (i_exc _ _ I); [reflexivity|]. rewrite Epc. discriminate.
    + cbn [fst snd]; rewrite g_step_noev. apply with_pc_simple; rewrite ?Epc; simpl; auto; try discriminate.
  - (* MExited *) exact I.
Qed.
