(** The tie of DoneCb/Model.v to the generated skeleton, and lemmas about the
    set / heap operations. *)
From NL Require Import DoneCb.Model.
From Coq Require Import Lia.

(** ---- tie to Gen/DoneCbSkeleton.v (regenerated from the bytecode on every run) *)
Lemma register_skeleton_ok : filter shared register_skeleton = register_prog.
Proof. reflexivity. Qed.
Lemma close_skeleton_ok : filter shared close_skeleton = close_prog.
Proof. reflexivity. Qed.
Lemma monitor_skeleton_ok : filter shared monitor_skeleton = monitor_prog.
Proof. reflexivity. Qed.

(** the program counters of the model enumerate monitor_prog in order (the last entry of the
    skeleton is the exception handler of the exit-check block, in which nothing can raise) *)
Lemma mpc_order :
  map mpc_access [MAcq1; MLoadScan; MGetIter 0; MIterNext; MIsAlive 0; MLoadRebuild; MSetDiff 0; MStore 0;
                  MRel1; MCallback; MAcq2; MLoadCheck; MTruth 0; MLoadClosed; MRelBreak; MRelLoop; MRelExc]
  ++ [Some LockRelease]
  = map Some monitor_prog.
Proof. reflexivity. Qed.

(** every monitor step performs the access of its program counter, unless it waits for the lock *)
Lemma step_mon_access raises s :
  match mpc_access (m_pc s) with
  | Some a => (exists evs, snd (step_mon raises s) = OAcc a evs)
              \/ (a = LockAcquire /\ lock s <> None /\ step_mon raises s = (s, ODisabled))
  | None => snd (step_mon raises s) = ODisabled
  end.
Proof.
  unfold step_mon, mon_exit. destruct (m_pc s); simpl; eauto.
  - destruct (lock s); simpl; [right; intuition discriminate|eauto].
  - destruct (_ =? _); [destruct (m_todo s)|]; simpl; eauto.
  - destruct (is_alive _); simpl; eauto.
  - destruct (m_cbs s); simpl; eauto.
  - destruct (lock s); simpl; [right; intuition discriminate|eauto].
  - destruct (obj _ _); simpl; eauto.
  - destruct (closed s); simpl; eauto.
  - destruct (closer s); simpl; eauto.
  - destruct (closer s); simpl; eauto.
Qed.

(** ---- sets *)
Lemma mem_In x l : mem x l = true <-> In x l.
Proof.
  induction l; simpl; [split; [discriminate|tauto]|].
  rewrite orb_true_iff, Nat.eqb_eq, IHl. intuition.
Qed.

Lemma In_ins y x l : In y (ins x l) <-> y = x \/ In y l.
Proof.
  induction l as [|a l IH]; simpl; [intuition|].
  destruct (x <? a); simpl; [intuition|].
  destruct (x =? a) eqn:E; simpl.
  - apply Nat.eqb_eq in E. subst. intuition.
  - rewrite IH. intuition.
Qed.

(** [ins] is only ever applied to strictly ascending lists *)
Inductive asc : list nat -> Prop :=
| asc_nil : asc []
| asc_one x : asc [x]
| asc_cons x y l : x < y -> asc (y :: l) -> asc (x :: y :: l).

Lemma asc_ins x l : asc l -> asc (ins x l).
Proof.
  induction 1 as [|a|a b l Hab H IH]; simpl.
  - constructor.
  - destruct (x <? a) eqn:E1; [apply Nat.ltb_lt in E1; constructor; [lia|constructor]|].
    destruct (x =? a) eqn:E2; [constructor|].
    apply Nat.ltb_ge in E1. apply Nat.eqb_neq in E2. constructor; [lia|constructor].
  - destruct (x <? a) eqn:E1; [apply Nat.ltb_lt in E1; constructor; [lia|constructor; assumption]|].
    destruct (x =? a) eqn:E2; [constructor; assumption|].
    apply Nat.ltb_ge in E1. apply Nat.eqb_neq in E2.
    simpl in IH. destruct (x <? b) eqn:E3.
    + constructor; [lia|exact IH].
    + destruct (x =? b) eqn:E4; [constructor; assumption|].
      constructor; [lia|exact IH].
Qed.

Lemma asc_lt x l : asc (x :: l) -> forall y, In y l -> x < y.
Proof.
  revert x. induction l as [|a l IH]; intros x H y Hy; [destruct Hy|].
  inversion H; subst. destruct Hy as [->|Hy]; [assumption|].
  specialize (IH a H4 y Hy). lia.
Qed.

Lemma asc_tail x l : asc (x :: l) -> asc l.
Proof. inversion 1; subst; [constructor|assumption]. Qed.

Lemma asc_NoDup l : asc l -> NoDup l.
Proof.
  induction l as [|a l IH]; intros H; constructor.
  - intros Hin. pose proof (asc_lt _ _ H _ Hin). lia.
  - apply IH. eapply asc_tail; eauto.
Qed.

Lemma asc_filter f l : asc l -> asc (filter f l).
Proof.
  induction l as [|a l IH]; intros H; simpl; [constructor|].
  pose proof (asc_tail _ _ H) as Ht. specialize (IH Ht).
  destruct (f a); [|exact IH].
  destruct (filter f l) as [|b r] eqn:E; [constructor|].
  constructor; [|exact IH].
  apply (asc_lt _ _ H). assert (In b (filter f l)) by (rewrite E; left; reflexivity).
  apply filter_In in H0. tauto.
Qed.

Lemma In_diff x a b : In x (diff a b) <-> In x a /\ ~ In x b.
Proof.
  unfold diff. rewrite filter_In, negb_true_iff. pose proof (mem_In x b) as M.
  destruct (mem x b); intuition; discriminate.
Qed.

(** ---- heap *)
Lemma obj_upd_same h r x : r < length h -> obj (upd h r x) r = x.
Proof.
  unfold obj. revert r. induction h; intros [|r] H; simpl in *; try lia; [reflexivity|].
  apply IHh. lia.
Qed.

Lemma obj_upd_other h r r' x : r <> r' -> obj (upd h r x) r' = obj h r'.
Proof.
  unfold obj. revert r r'. induction h; intros [|r] [|r'] H; simpl; try reflexivity; try lia.
  apply IHh. lia.
Qed.

Lemma obj_upd_oob {A} (h : list A) r x : length h <= r -> upd h r x = h.
Proof.
  revert r. induction h; intros [|r] H; simpl in *; try reflexivity; try lia.
  f_equal. apply IHh. lia.
Qed.

Lemma length_upd {A} (h : list A) r x : length (upd h r x) = length h.
Proof. revert r. induction h; intros [|r]; simpl; auto. Qed.

Lemma obj_app_old h x r : r < length h -> obj (h ++ [x]) r = obj h r.
Proof. intros. unfold obj. apply app_nth1. assumption. Qed.

Lemma obj_app_new h x : obj (h ++ [x]) (length h) = x.
Proof. unfold obj. rewrite app_nth2, Nat.sub_diag; [reflexivity|lia]. Qed.

(** a set add only grows the objects *)
Lemma obj_add_mono h r t r' y : In y (obj h r') -> In y (obj (upd h r (ins t (obj h r))) r').
Proof.
  intros H. destruct (Nat.eq_dec r r') as [<-|N].
  - destruct (Nat.lt_ge_cases r (length h)).
    + rewrite obj_upd_same by assumption. apply In_ins. tauto.
    + rewrite obj_upd_oob by assumption. assumption.
  - rewrite obj_upd_other by assumption. assumption.
Qed.
