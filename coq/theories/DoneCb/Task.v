(** Sequential model of nextline/utils/done_callback/task.py (TaskDoneCallback).
    Everything runs on the event-loop thread, so an execution is a sequence of
    operations; the order in which tasks complete is arbitrary (it is the
    order of the [TComplete] operations).  Definitions only. *)
From NL Require Export DoneCb.Model.

Inductive top :=
| TReg (t : nat)          (* register(task t) *)
| TComplete (t : nat)     (* task t ends; asyncio runs its done-callbacks *)
| TClose.                 (* aclose()/close() is started (once) *)

Inductive tev :=
| TCb (t : nat) (raised : bool)      (* `done(task)` was invoked *)
| TCloseRet (e : option nat).        (* close returned / re-raised the exception of the callback for task e *)

Inductive tclose := TCNo | TCWaiting | TCReturned.

Record tstate := mkT {
  t_active : list nat;        (* self._active *)
  t_finished : list nat;      (* tasks that have ended *)
  t_excs : list nat;          (* self._exceptions (as the task whose callback raised) *)
  t_closing : tclose          (* TCWaiting: a close() is in `while self._active: sleep` *)
}.

Definition tinit : tstate := mkT [] [] [] TCNo.

Definition remove (x : nat) (l : list nat) : list nat := filter (fun y => negb (y =? x)) l.

Section T.
Variable raises : nat -> bool.

(** `_callback(task)`: self._active.remove(task); self._done(task) -- exceptions are collected *)
Definition callback (s : tstate) (t : nat) : tstate * list tev :=
  (mkT (remove t (t_active s)) (t_finished s)
       (if raises t then t_excs s ++ [t] else t_excs s) (t_closing s),
   [TCb t (raises t)]).

Definition top_step (s : tstate) (o : top) : tstate * list tev :=
  match o with
  | TReg t =>
      if mem t (t_active s) then (s, [])                (* `if task not in self._active` *)
      else
        let s1 := mkT (ins t (t_active s)) (t_finished s) (t_excs s) (t_closing s) in
        (* add_done_callback on a task that has already ended: call_soon(_callback) *)
        if mem t (t_finished s) then callback s1 t else (s1, [])
  | TComplete t =>
      if mem t (t_finished s) then (s, [])
      else
        let s1 := mkT (t_active s) (ins t (t_finished s)) (t_excs s) (t_closing s) in
        if mem t (t_active s) then callback s1 t else (s1, [])
  | TClose =>
      match t_closing s with
      | TCNo => (mkT (t_active s) (t_finished s) (t_excs s) TCWaiting, [])
      | _ => (s, [])                                    (* only the first close() is modelled *)
      end
  end.

(** `_close`: `while self._active: sleep(interval)`, then `reraise()` *)
Definition tstep (s : tstate) (o : top) : tstate * list tev :=
  let '(s1, evs) := top_step s o in
  match t_closing s1, t_active s1 with
  | TCWaiting, [] =>
      (mkT (t_active s1) (t_finished s1) (t_excs s1) TCReturned, evs ++ [TCloseRet (hd_error (t_excs s1))])
  | _, _ => (s1, evs)
  end.

Fixpoint trun_from (s : tstate) (os : list top) : tstate * list (list tev) :=
  match os with
  | [] => (s, [])
  | o :: r => let '(s', e) := tstep s o in let '(s'', es) := trun_from s' r in (s'', e :: es)
  end.

Definition touts (os : list top) : list (list tev) := snd (trun_from tinit os).
Definition trun (os : list top) : tstate := fst (trun_from tinit os).

End T.

(** ---- comparison for the correspondence check *)
Definition onat_eqb (a b : option nat) : bool :=
  match a, b with Some x, Some y => x =? y | None, None => true | _, _ => false end.

Definition tev_eqb (a b : tev) : bool :=
  match a, b with
  | TCb x r, TCb y q => (x =? y) && eqb r q
  | TCloseRet x, TCloseRet y => onat_eqb x y
  | _, _ => false
  end.

Notation tcase := (list nat * list top * list (list tev))%type.

Definition tcase_ok (c : tcase) : bool :=
  let '(rs, os, es) := c in
  list_eqb (list_eqb tev_eqb) (touts (fun t => mem t rs) os) es.

Fixpoint tbad_from (n : nat) (cases : list tcase) : list nat :=
  match cases with
  | [] => []
  | c :: r => if tcase_ok c then tbad_from (S n) r else n :: tbad_from (S n) r
  end.
