(** C18 tie, thread half, second layer: POLARITY, STORED VALUES, CALL ARGUMENTS and __init__.

    Gen/DoneCbSkeleton.v (regenerated on every run by translate/donecb_skeleton.py) contains, next to
    the `dis` access skeleton, every method of ThreadDoneCallback as a statement tree
    (DoneCb/SkelSyntax.v, from `ast`).  This file

    1. takes the trees apart with SHAPE MATCHERS ([monitor_facts], [register_facts], [close_facts]):
       the control shape of each method (which statement is inside which `with` / `while` / `if` /
       `for` / `try`) is PINNED -- any other shape makes the matcher return None and the theorems
       below fail; the order of the shared accesses inside that shape is the `dis` skeleton
       (theorems C18_skeleton_...);
    2. INTERPRETS THE LEAVES (the test of every `if`/`while`/comprehension filter with its
       polarity, the right-hand side of the stores to _active/_closed, the iterated expressions,
       the argument of the callback, of set.add, of join, the exception handler, `raise exc[0]`)
       over the state of DoneCb/Model.v: [step_mon_gen], [step_reg_gen], [step_closer_gen] are
       the model's step functions with every data-dependent decision and every stored value
       replaced by the interpretation of the regenerated leaf;
    3. proves, FOR ALL STATES (and all [raises]), that these steps on the regenerated leaves are
       equal to [Model.step_mon], [Model.step_reg], [Model.step_closer], and that the
       interpretation of the regenerated __init__ is [Model.init].

    Kind: pin of the control shape + interpretation of the leaves, quantified over all states.
    Stdlib only, no axioms. *)
From NL Require Import DoneCb.Model DoneCb.SkelSyntax.
From Coq Require Import Lia.

(** ------------------------------------------------------------------ leaf evaluators *)

Definition is_lock (e : pexpr) : bool := match e with PSelf FLock => true | _ => false end.
Definition is_active (e : pexpr) : bool := match e with PSelf FActive => true | _ => false end.
Definition is_local (x : nat) (e : pexpr) : bool := match e with PLocal y => y =? x | _ => false end.

(** a test over ONE boolean atom (recognised by [atom]); `not` nests *)
Fixpoint test1 (atom : pexpr -> bool) (e : pexpr) (v : bool) : option bool :=
  match e with
  | PNot e' => option_map negb (test1 atom e' v)
  | PBool b => Some b
  | _ => if atom e then Some v else None
  end.

(** `x.is_alive()` for the comprehension variable x *)
Definition alive_atom (x : nat) (e : pexpr) : bool :=
  match e with PCall (PAttr (PLocal y) NmIsAlive) [] [] => y =? x | _ => false end.

(** the filter of the comprehension: all conditions hold *)
Fixpoint keep (x : nat) (conds : list pexpr) (alive : bool) : option bool :=
  match conds with
  | [] => Some true
  | c :: r => match test1 (alive_atom x) c alive, keep x r alive with
              | Some a, Some b => Some (a && b) | _, _ => None end
  end.

(** set operations on the model's sets (strictly ascending lists) *)
Definition union (a b : list nat) : list nat := fold_right ins a b.
Definition inter (a b : list nat) : list nat := filter (fun x => mem x b) a.
Definition setop (o : binop) : option (list nat -> list nat -> list nat) :=
  match o with BSub => Some diff | BOr => Some union | BAnd => Some inter | _ => None end.

(** `exc[z]` on a non-empty list *)
Definition index {A} (l : list A) (z : Z) : option A :=
  if (0 <=? z)%Z then nth_error l (Z.to_nat z) else nth_error (rev l) (Z.to_nat (- z - 1)).

(** ------------------------------------------------------------------ __init__ *)

Inductive ival :=
| IVSet (l : list nat)                       (* a new builtin set() *)
| IVBool (b : bool)
| IVLock                                     (* a new threading.Lock(), not held *)
| IVThread (target : sattr) (daemon : bool)  (* ExcThread(target=self.<target>, daemon=..) *)
| IVParam (n : nat).

Definition init_val (e : pexpr) : option ival :=
  match e with
  | PCall (PGlobal GSet) [] [] => Some (IVSet [])
  | PBool b => Some (IVBool b)
  | PCall (PGlobal GLock) [] [] => Some IVLock
  | PCall (PGlobal GExcThread) [] [(k1, PSelf tg); (k2, PBool d)] =>
      if (String.eqb k1 "target" && String.eqb k2 "daemon")%bool then Some (IVThread tg d) else None
  | PLocal n => Some (IVParam n)
  | _ => None
  end.

Definition sattr_eqb (a b : sattr) : bool :=
  match a, b with
  | FActive, FActive | FClosed, FClosed | FDone, FDone | FInterval, FInterval | FLock, FLock
  | FThread, FThread | FMonitor, FMonitor | FClose, FClose => true
  | _, _ => false
  end.

(** the object under construction: attribute values, and whether the monitor thread was started *)
Definition obj0 := ((sattr -> option ival) * bool)%type.

(** stores before the start only (a store after `self._t.start()` would race with the monitor) *)
Fixpoint exec_init (b : list pstmt) (o : obj0) : option obj0 :=
  match b with
  | [] => Some o
  | KSetAttr a e :: r =>
      if snd o then None else
      match init_val e with
      | Some v => exec_init r (fun x => if sattr_eqb x a then Some v else fst o x, false)
      | None => None
      end
  | KExpr (PCall (PAttr (PSelf FThread) NmStart) [] []) :: r =>
      match fst o FThread, snd o with
      | Some (IVThread _ _), false => exec_init r (fst o, true)
      | _, _ => None
      end
  | _ => None
  end.

(** the model state that an object denotes: the monitor thread runs _monitor (daemon), from its
    first access; `done`/`interval` are the parameters; nobody has arrived, nobody closes.
    [exc0] = the initial value of the monitor's local `exc` *)
Definition state_of (o : obj0) (exc0 : pexpr) : option state :=
  match fst o FActive, fst o FClosed, fst o FLock, fst o FThread, fst o FDone, fst o FInterval, snd o, exc0 with
  | Some (IVSet l), Some (IVBool c), Some IVLock, Some (IVThread FMonitor true),
    Some (IVParam 0), Some (IVParam 1), true, PListLit [] =>
      Some (mkState [l] 0 c None (fun _ => RNone) [] CNone MAcq1 0 0 [] [] [] [])
  | _, _, _, _, _, _, _, _ => None
  end.

(** ------------------------------------------------------------------ _monitor *)

Record mfacts := mkMF {
  mf_exc : nat; mf_exc_init : pexpr;
  mf_loop : pexpr;
  mf_lock1 : pexpr;
  mf_done : nat; mf_elt : pexpr; mf_var : nat; mf_iter : pexpr; mf_conds : list pexpr;
  mf_store : pexpr;
  mf_guard : pexpr;
  mf_d : nat; mf_for_iter : pexpr;
  mf_callee : pexpr; mf_args : list pexpr; mf_kw : list (string * pexpr);
  mf_cls : pexpr; mf_e : nat; mf_h_recv : pexpr; mf_h_meth : mname; mf_h_args : list pexpr;
  mf_sleep : pexpr;
  mf_lock2 : pexpr; mf_exit_test : pexpr; mf_exit_then : list pstmt;
  mf_final_cond : pexpr; mf_final_raise : pexpr }.

(** the PINNED control shape of _monitor *)
Definition monitor_facts (b : list pstmt) : option mfacts :=
  match b with
  | [KAssign exc e0;
     KWhile loop
       [KWith l1 [KAssign dn (PSetComp elt x it conds); KSetAttr FActive rhs];
        KIf g [KFor d fit [KTry [KExpr (PCall callee args kw)] cls e
                                [KExpr (PCall (PAttr hrecv hm) hargs [])]]] [];
        KExpr slp;
        KWith l2 [KIf test th []]];
     KIf fc [KRaise fr] []] =>
      Some (mkMF exc e0 loop l1 dn elt x it conds rhs g d fit callee args kw cls e hrecv hm hargs slp
                 l2 test th fc fr)
  | _ => None
  end.

Definition stuck (s : state) : state * out := (s, ODisabled).

Section Gen.
Variable raises : nat -> bool.
Variable has_done : bool.      (* is a callback given (`self._done` truthy) *)
Variable f : mfacts.

(** a set-valued local of the monitor: only `done` *)
Definition mon_set_local (e : pexpr) (s : state) : option (list nat) :=
  if is_local (mf_done f) e then Some (m_done s) else None.

(** `if self._done:` -- [has_done] (true: ASSUMPTIONS of the property; false: done=None, see the end) *)
Definition done_atom (e : pexpr) : bool := match e with PSelf FDone => true | _ => false end.
Definition closed_atom (e : pexpr) : bool := match e with PSelf FClosed => true | _ => false end.

(** after the loop: `if exc: raise exc[z]` *)
Definition final_exn (excs : list exn) : option (option exn) :=
  match test1 (is_local (mf_exc f)) (mf_final_cond f) (match excs with [] => false | _ => true end) with
  | Some true =>
      match mf_final_raise f with
      | PSubscr e (PInt z) => if is_local (mf_exc f) e then Some (index excs z) else None
      | _ => None
      end
  | Some false => Some None
  | None => None
  end.

(** [Model.step_mon] with every decision and every stored value taken from the regenerated leaves *)
Definition step_mon_gen (s : state) : state * out :=
  match m_pc s with
  | MAcq1 =>
      if is_lock (mf_lock1 f) then
        match lock s with
        | None => (with_lock_pc s (Some Mon) MLoadScan, OAcc LockAcquire [])
        | Some _ => stuck s
        end
      else stuck s
  | MLoadScan =>
      if is_active (mf_iter f) then (with_pc s (MGetIter (active s)), OAcc LoadActive []) else stuck s
  | MGetIter r =>
      (with_mon s MIterNext r (List.length (obj (heap s) r)) (obj (heap s) r) [] [] (m_exc s), OAcc GetIter [])
  | MIterNext =>
      if List.length (obj (heap s) (m_itref s)) =? m_itused s then
        match m_todo s with
        | t :: rest =>
            (with_mon s (MIsAlive t) (m_itref s) (m_itused s) rest (m_done s) (m_cbs s) (m_exc s), OAcc IterNext [])
        | [] => (with_pc s MLoadRebuild, OAcc IterNext [])
        end
      else (with_pc s MRelExc, OAcc IterNext [])
  | MIsAlive t =>
      (* the filter of the comprehension, with its polarity; the element added is the scanned one *)
      match keep (mf_var f) (mf_conds f) (is_alive (regs s t)), is_local (mf_var f) (mf_elt f) with
      | Some true, true =>
          (with_mon s MIterNext (m_itref s) (m_itused s) (m_todo s) (ins t (m_done s)) (m_cbs s) (m_exc s),
           OAcc IsAlive [])
      | Some false, true => (with_pc s MIterNext, OAcc IsAlive [])
      | _, _ => stuck s
      end
  | MLoadRebuild =>
      match mf_store f with
      | PBin _ (PSelf FActive) _ => (with_pc s (MSetDiff (active s)), OAcc LoadActive [])
      | _ => stuck s
      end
  | MSetDiff r =>
      (* WHICH set is stored: <op> (the loaded object) (the local) *)
      match mf_store f with
      | PBin o (PSelf FActive) e2 =>
          match setop o, mon_set_local e2 s with
          | Some op, Some v =>
              (mkState (heap s ++ [op (obj (heap s) r) v]) (active s) (closed s) (lock s) (regs s) (arrived s)
                       (closer s) (MStore (List.length (heap s))) (m_itref s) (m_itused s) (m_todo s) (m_done s)
                       (m_cbs s) (m_exc s),
               OAcc SetDiff [])
          | _, _ => stuck s
          end
      | _ => stuck s
      end
  | MStore n =>
      (* what `for d in <iter>` will go through *)
      match mon_set_local (mf_for_iter f) s with
      | Some cbs =>
          (mkState (heap s) n (closed s) (lock s) (regs s) (arrived s) (closer s)
                   MRel1 (m_itref s) (m_itused s) (m_todo s) (m_done s) cbs (m_exc s),
           OAcc StoreActive [])
      | None => stuck s
      end
  | MRel1 =>
      match test1 done_atom (mf_guard f) has_done with
      | Some true =>
          (with_lock_pc s None (match m_cbs s with [] => MAcq2 | _ => MCallback end), OAcc LockRelease [])
      | Some false => (with_lock_pc s None MAcq2, OAcc LockRelease [])
      | None => stuck s
      end
  | MCallback =>
      match m_cbs s with
      | d :: rest =>
          (* self._done(<the element of this iteration>), every exception appended to `exc` *)
          match mf_callee f, mf_args f, mf_kw f, mf_cls f, mf_h_meth f, mf_h_args f with
          | PSelf FDone, [a], [], PGlobal GBaseException, NmAppend, [ha] =>
              if (is_local (mf_d f) a && is_local (mf_exc f) (mf_h_recv f) && is_local (mf_e f) ha)%bool then
                let exc := if raises d then m_exc s ++ [ExCb d] else m_exc s in
                (with_mon s (match rest with [] => MAcq2 | _ => MCallback end)
                          (m_itref s) (m_itused s) (m_todo s) (m_done s) rest exc,
                 OAcc Callback [EvCb d (raises d)])
              else stuck s
          | _, _, _, _, _, _ => stuck s
          end
      | [] => (with_pc s MAcq2, OAcc Callback [])
      end
  | MAcq2 =>
      if is_lock (mf_lock2 f) then
        match lock s with
        | None => (with_lock_pc s (Some Mon) MLoadCheck, OAcc LockAcquire [])
        | Some _ => stuck s
        end
      else stuck s
  | MLoadCheck =>
      match mf_exit_test f with
      | PAndE _ _ => (with_pc s (MTruth (active s)), OAcc LoadActive [])
      | _ => stuck s
      end
  | MTruth r =>
      (* `A and C`: A over the truth value of the set; false short-circuits to "do not break" *)
      match mf_exit_test f with
      | PAndE a _ =>
          match test1 is_active a (match obj (heap s) r with [] => false | _ => true end) with
          | Some true => (with_pc s MLoadClosed, OAcc TruthActive [])
          | Some false => (with_pc s MRelLoop, OAcc TruthActive [])
          | None => stuck s
          end
      | _ => stuck s
      end
  | MLoadClosed =>
      match mf_exit_test f, mf_exit_then f with
      | PAndE _ c, [KBreak] =>
          match test1 closed_atom c (closed s) with
          | Some true => (with_pc s MRelBreak, OAcc LoadClosed [])
          | Some false => (with_pc s MRelLoop, OAcc LoadClosed [])
          | None => stuck s
          end
      | _, _ => stuck s
      end
  | MRelLoop =>
      (* `while <cond>`: a constant *)
      match mf_loop f with
      | PBool true => (with_lock_pc s None MAcq1, OAcc LockRelease [])
      | _ => stuck s
      end
  | MRelBreak =>
      match final_exn (m_exc s) with
      | Some e => mon_exit s LockRelease e
      | None => stuck s
      end
  | MRelExc => mon_exit s LockRelease (Some ExSetChanged)
  | MExited _ => stuck s
  end.

End Gen.

Definition step_mon_ast (raises : nat -> bool) (s : state) : state * out :=
  match monitor_facts (pm_body monitor_ast) with
  | Some f => step_mon_gen raises true f s
  | None => stuck s
  end.

(** the same with NO callback (`done=None`, the default of __init__) *)
Definition step_mon_ast_nocb (raises : nat -> bool) (s : state) : state * out :=
  match monitor_facts (pm_body monitor_ast) with
  | Some f => step_mon_gen raises false f s
  | None => stuck s
  end.

(** ------------------------------------------------------------------ register *)

Record rfacts := mkRF {
  rf_p : nat; rf_test : pexpr; rf_p' : nat; rf_default : pexpr;
  rf_lock : pexpr; rf_recv : pexpr; rf_meth : mname; rf_args : list pexpr;
  rf_ret : pexpr }.

Definition register_facts (b : list pstmt) : option rfacts :=
  match b with
  | [KIf tst [KAssign p' dflt] [];
     KWith l [KExpr (PCall (PAttr recv m) args [])];
     KReturn ret] => Some (mkRF 0 tst p' dflt l recv m args ret)
  | _ => None
  end.

Definition none_atom (p : nat) (e : pexpr) : bool :=
  match e with PIs (PLocal y) PNone => y =? p | _ => false end.

(** the value of the parameter `thread` after the first statement, when register(arg) is called
    in thread [cur] ([arg] = None: the default) *)
Definition reg_value (f : rfacts) (cur : nat) (arg : option nat) : option nat :=
  match test1 (none_atom (rf_p f)) (rf_test f) (match arg with None => true | _ => false end) with
  | Some true =>
      match rf_default f with
      | PCall (PGlobal GCurrentThread) [] [] => if rf_p' f =? rf_p f then Some cur else None
      | _ => None
      end
  | Some false => arg         (* None here: set.add(None) -- not a thread *)
  | None => None
  end.

(** [Model.step_reg]: thread t calls register(arg) *)
Definition step_reg_gen (f : rfacts) (arg : option nat) (s : state) (t : nat) : state * out :=
  match regs s t with
  | RAcq =>
      if is_lock (rf_lock f) then
        match lock s with
        | None => (with_lock_regs s (Some (Reg t)) (set_reg (regs s) t RLoad), OAcc LockAcquire [])
        | Some _ => stuck s
        end
      else stuck s
  | RLoad =>
      match is_active (rf_recv f), rf_meth f with
      | true, NmAdd => (with_regs s (set_reg (regs s) t (RAdd (active s))), OAcc LoadActive [])
      | _, _ => stuck s
      end
  | RAdd r =>
      match rf_args f with
      | [a] =>
          match is_local (rf_p f) a, reg_value f t arg with
          | true, Some v =>
              (mkState (upd (heap s) r (ins v (obj (heap s) r))) (active s) (closed s) (lock s)
                       (set_reg (regs s) t RRel) (arrived s) (closer s)
                       (m_pc s) (m_itref s) (m_itused s) (m_todo s) (m_done s) (m_cbs s) (m_exc s),
               OAcc SetAdd [])
          | _, _ => stuck s
          end
      | _ => stuck s
      end
  | RRel =>
      match is_local (rf_p f) (rf_ret f), reg_value f t arg with
      | true, Some v => (with_lock_regs s None (set_reg (regs s) t RIdle), OAcc LockRelease [EvRegistered v])
      | _, _ => stuck s
      end
  | _ => stuck s
  end.

Definition step_reg_ast (arg : option nat) (s : state) (t : nat) : state * out :=
  match register_facts (pm_body register_ast) with
  | Some f => step_reg_gen f arg s t
  | None => stuck s
  end.

Definition reg_value_ast (cur : nat) (arg : option nat) : option nat :=
  match register_facts (pm_body register_ast) with
  | Some f => reg_value f cur arg
  | None => None
  end.

(** ------------------------------------------------------------------ close *)

Record cfacts := mkCF {
  cf_guard : pexpr; cf_closed_val : pexpr; cf_join_args : list pexpr; cf_join_kw : list (string * pexpr) }.

Definition close_facts (b : list pstmt) : option cfacts :=
  match b with
  | [KIf g [KRaise (PCall (PGlobal GRuntimeError) _ [])] [];
     KSetAttr FClosed v;
     KExpr (PCall (PAttr (PSelf FThread) NmJoin) ja jk)] => Some (mkCF g v ja jk)
  | _ => None
  end.

Definition member_atom (e : pexpr) : bool :=
  match e with PIn (PCall (PGlobal GCurrentThread) [] []) (PSelf FActive) => true | _ => false end.

(** [Model.step_closer]; [c_in]: is the calling thread in the loaded set *)
Definition step_closer_gen (f : cfacts) (c_in : bool) (s : state) : state * out :=
  match closer s with
  | CLoad =>
      match test1 member_atom (cf_guard f) c_in with
      | Some _ => (with_closer s (CContains (active s)), OAcc LoadActive [])
      | None => stuck s
      end
  | CContains r =>
      match test1 member_atom (cf_guard f) c_in with
      | Some false => (with_closer s CStore, OAcc Contains [])
      | Some true => (with_closer s (CDone (Some ExRegistered)), OAcc Contains [EvCloseRet (Some ExRegistered)])
      | None => stuck s
      end
  | CStore =>
      match cf_closed_val f with
      | PBool b =>
          (mkState (heap s) (active s) b (lock s) (regs s) (arrived s) CJoin
                   (m_pc s) (m_itref s) (m_itused s) (m_todo s) (m_done s) (m_cbs s) (m_exc s),
           OAcc StoreClosed [])
      | _ => stuck s
      end
  | CJoin =>
      (* join() without a timeout: returns only when the monitor thread has ended *)
      match cf_join_args f, cf_join_kw f with
      | [], [] =>
          match m_pc s with
          | MExited e => (with_closer s (CDone e), OAcc Join [EvCloseRet e])
          | _ => (with_closer s CJoining, OAcc Join [])
          end
      | _, _ => stuck s
      end
  | _ => stuck s
  end.

Definition step_closer_ast (c_in : bool) (s : state) : state * out :=
  match close_facts (pm_body close_ast) with
  | Some f => step_closer_gen f c_in s
  | None => stuck s
  end.

(** ================================================================== the obligations *)

(** __init__: the regenerated body, interpreted, IS the model's initial state (a new empty builtin
    set, _closed False, a new lock, the monitor thread = ExcThread(target=self._monitor, daemon=True)
    started after all stores), together with the monitor's `exc = []` *)
Theorem skel_init :
  match exec_init (pm_body init_ast) (fun _ => None, false), monitor_facts (pm_body monitor_ast) with
  | Some o, Some f => state_of o (mf_exc_init f)
  | _, _ => None
  end = Some init.
Proof. reflexivity. Qed.

(** defaults (pin): done=None, interval=0.001; register(thread=None); close() has no parameters *)
Theorem skel_defaults :
  pm_defaults init_ast = [Some PNone; Some (PFloat "0.001")]
  /\ pm_defaults register_ast = [Some PNone] /\ pm_nparams register_ast = 1
  /\ pm_nparams close_ast = 0 /\ pm_nparams monitor_ast = 0.
Proof. repeat split; reflexivity. Qed.

(** __enter__ / __exit__ (pin): return self; del the three parameters, self.close() *)
Theorem skel_enter_exit :
  enter_ast = mkMeth 0 [] [KReturn PSelfObj]
  /\ exit_ast = mkMeth 3 [None; None; None] [KDel [0; 1; 2]; KExpr (PCall (PSelf FClose) [] [])].
Proof. split; reflexivity. Qed.

Lemma index0 : forall A (l : list A), index l 0 = hd_error l.
Proof. intros A l. destruct l; reflexivity. Qed.

(** _monitor: for EVERY state and every [raises], the step on the regenerated leaves is the model's *)
Theorem skel_monitor_step : forall raises s, step_mon_ast raises s = step_mon raises s.
Proof.
  intros raises s. unfold step_mon_ast.
  set (F := monitor_facts (pm_body monitor_ast)). vm_compute in F. subst F. cbv beta iota.
  unfold step_mon_gen, step_mon, stuck, final_exn, mon_set_local.
  destruct (m_pc s); cbn; try reflexivity.
  (* what is left: MIsAlive (polarity of the filter), MTruth, MLoadClosed, MRelBreak *)
  all: try (destruct (is_alive (regs s t)); reflexivity).
  all: try (destruct (obj (heap s) r); reflexivity).
  all: try (destruct (closed s); reflexivity).
  all: try (destruct (m_exc s); reflexivity).
Qed.

(** register: the element added (and returned) is the argument, or the calling thread by default *)
Theorem skel_register_value : forall cur arg,
  reg_value_ast cur arg = Some (match arg with Some u => u | None => cur end).
Proof. intros cur [u|]; reflexivity. Qed.

(** register called by thread t on itself (no argument, or itself as the argument): the model's step *)
Theorem skel_register_step : forall arg s t, (arg = None \/ arg = Some t) ->
  step_reg_ast arg s t = step_reg s t.
Proof.
  intros arg s t H. unfold step_reg_ast.
  set (F := register_facts (pm_body register_ast)). vm_compute in F. subst F. cbv beta iota.
  unfold step_reg_gen, step_reg, stuck, reg_value.
  destruct H as [-> | ->]; destruct (regs s t); cbn; rewrite ?Nat.eqb_refl; reflexivity.
Qed.

(** close called by a thread that is not in the set: the model's step *)
Theorem skel_close_step : forall s, step_closer_ast false s = step_closer s.
Proof.
  intros s. unfold step_closer_ast.
  set (F := close_facts (pm_body close_ast)). vm_compute in F. subst F. cbv beta iota.
  unfold step_closer_gen, step_closer, stuck.
  destruct (closer s); cbn; try reflexivity.
Qed.

(** close called by a registered thread: RuntimeError at the membership test, _closed NOT stored,
    no join (the polarity of the guard) *)
Theorem skel_close_registered : forall s r, closer s = CContains r ->
  step_closer_ast true s =
  (with_closer s (CDone (Some ExRegistered)), OAcc Contains [EvCloseRet (Some ExRegistered)]).
Proof.
  intros s r H. unfold step_closer_ast.
  set (F := close_facts (pm_body close_ast)). vm_compute in F. subst F. cbv beta iota.
  unfold step_closer_gen. rewrite H. reflexivity.
Qed.

(** the whole labelled step on the regenerated leaves: [Model.step] with its three thread-step
    functions replaced *)
Definition step_ast (raises : nat -> bool) (s : state) (l : label) : state * out :=
  match l with
  | Step Mon => step_mon_ast raises s
  | Step (Reg t) => step_reg_ast None s t
  | Step Closer => step_closer_ast false s
  | _ => step raises s l
  end.

Theorem skel_step : forall raises s l, step_ast raises s l = step raises s l.
Proof.
  intros raises s l. destruct l as [t | [ | | t] | t | ]; cbn [step_ast step].
  all: first [ apply skel_monitor_step | apply skel_close_step
             | apply skel_register_step; now left | reflexivity ].
Qed.

Fixpoint run_from_ast (raises : nat -> bool) (s : state) (ls : list label) : state * list out :=
  match ls with
  | [] => (s, [])
  | l :: r => let '(s', o) := step_ast raises s l in
              let '(s'', os) := run_from_ast raises s' r in (s'', o :: os)
  end.

(** hence every run: all theorems of Props/C18.v about [run]/[outs]/[history] of the hand-written
    model are theorems about the runs of the interpreted regenerated code *)
Theorem skel_run : forall raises ls s, run_from_ast raises s ls = run_from raises s ls.
Proof.
  intros raises ls. induction ls as [| l r IH]; intro s; [reflexivity|].
  cbn [run_from_ast run_from]. rewrite skel_step. destruct (step raises s l) as [s' o].
  rewrite IH. reflexivity.
Qed.

(** ================================================================== no callback (done=None)

    `if self._done:` false: the `for d in done` loop is skipped.  [step_mon_nocb] is the model's monitor
    step with the ONE difference that after the scan section the monitor goes to the exit check. *)
Definition step_mon_nocb (raises : nat -> bool) (s : state) : state * out :=
  match m_pc s with
  | MRel1 => (with_lock_pc s None MAcq2, OAcc LockRelease [])
  | _ => step_mon raises s
  end.

(** for EVERY state: the step computed from the regenerated leaves with no callback given *)
Theorem skel_nocb_step : forall raises s, step_mon_ast_nocb raises s = step_mon_nocb raises s.
Proof.
  intros raises s. unfold step_mon_ast_nocb.
  set (F := monitor_facts (pm_body monitor_ast)). vm_compute in F. subst F. cbv beta iota.
  unfold step_mon_gen, step_mon_nocb, step_mon, stuck, final_exn, mon_set_local.
  destruct (m_pc s); cbn; try reflexivity.
  all: try (destruct (is_alive (regs s t)); reflexivity).
  all: try (destruct (obj (heap s) r); reflexivity).
  all: try (destruct (closed s); reflexivity).
  all: try (destruct (m_exc s); reflexivity).
Qed.

(** the scan and the rebuild are untouched: the scanned thread goes into `done` iff it is NOT alive, and
    the set stored is (the loaded set) minus exactly `done` -- the ended threads leave _active *)
Theorem skel_nocb_removes_ended : forall raises s,
  (forall t, m_pc s = MIsAlive t ->
     m_done (fst (step_mon_ast_nocb raises s)) = (if is_alive (regs s t) then m_done s else ins t (m_done s))
     /\ m_pc (fst (step_mon_ast_nocb raises s)) = MIterNext)
  /\ (forall r, m_pc s = MSetDiff r ->
     heap (fst (step_mon_ast_nocb raises s)) = heap s ++ [diff (obj (heap s) r) (m_done s)]
     /\ m_pc (fst (step_mon_ast_nocb raises s)) = MStore (List.length (heap s)))
  /\ (forall n, m_pc s = MStore n -> active (fst (step_mon_ast_nocb raises s)) = n).
Proof.
  intros raises s. rewrite skel_nocb_step. unfold step_mon_nocb, step_mon.
  repeat split; intros; rewrite H; cbn; try reflexivity; destruct (is_alive (regs s t)); reflexivity.
Qed.

(** the only ways out of the loop are the model's: the monitor ends only from the `break` of the exit check
    (reached only with _closed read True, after the set was found empty under the same lock) or from the
    exception of the scan; so join() in close() -- and close() -- still waits for that *)
Theorem skel_nocb_exit_path : forall raises s,
  let s' := fst (step_mon_ast_nocb raises s) in
  ((exists e, m_pc s' = MExited e) -> m_pc s = MRelBreak \/ m_pc s = MRelExc \/ exists e, m_pc s = MExited e)
  /\ (m_pc s' = MRelBreak -> (m_pc s = MLoadClosed /\ closed s = true) \/ m_pc s = MRelBreak)
  /\ (m_pc s' = MLoadClosed -> (exists r, m_pc s = MTruth r /\ obj (heap s) r = []) \/ m_pc s = MLoadClosed).
Proof.
  intros raises s. rewrite skel_nocb_step. unfold step_mon_nocb, step_mon, mon_exit.
  destruct (m_pc s) eqn:E; cbn;
    repeat match goal with
           | |- context [match ?x with _ => _ end] => destruct x eqn:?; cbn
           end;
    repeat split; intros; try discriminate; try (destruct H; discriminate);
    try (rewrite E in H; first [discriminate | destruct H; discriminate]); eauto 6.
Qed.

Definition label_is_mon (l : label) : bool := match l with Step Mon => true | _ => false end.

(** the labelled step / runs of the system without a callback *)
Definition step_nocb (raises : nat -> bool) (s : state) (l : label) : state * out :=
  match l with
  | Step Mon => step_mon_ast_nocb raises s
  | _ => step_ast raises s l
  end.

Fixpoint run_from_nocb (raises : nat -> bool) (s : state) (ls : list label) : state * list out :=
  match ls with
  | [] => (s, [])
  | l :: r => let '(s', o) := step_nocb raises s l in
              let '(s'', os) := run_from_nocb raises s' r in (s'', o :: os)
  end.

Definition is_cb_out (o : out) : bool :=
  match o with OAcc Callback _ => true | OAcc _ evs => existsb (fun e => match e with EvCb _ _ => true | _ => false end) evs | _ => false end.

Lemma step_other_pc : forall raises s l, l <> Step Mon ->
  m_pc (fst (step raises s l)) = m_pc s /\ is_cb_out (snd (step raises s l)) = false.
Proof.
  intros raises s l Hl. destruct l as [t | [ | | t] | t | ]; try congruence; cbn; unfold step_closer, step_reg;
    repeat match goal with
           | |- context [match ?x with _ => _ end] => destruct x eqn:?; cbn
           end; split; first [reflexivity | congruence].
Qed.

Lemma step_nocb_inv : forall raises s l, m_pc s <> MCallback ->
  m_pc (fst (step_nocb raises s l)) <> MCallback /\ is_cb_out (snd (step_nocb raises s l)) = false.
Proof.
  intros raises s l H. destruct (label_is_mon l) eqn:Em.
  - destruct l as [t | [ | | t] | t | ]; try discriminate. cbn [step_nocb].
    rewrite skel_nocb_step. unfold step_mon_nocb, step_mon, mon_exit.
    destruct (m_pc s) eqn:E; try congruence; cbn;
      repeat match goal with
             | |- context [match ?x with _ => _ end] => destruct x eqn:?; cbn
             end; split; first [reflexivity | congruence | discriminate].
  - assert (Hl : l <> Step Mon) by (intro; subst; discriminate).
    assert (step_nocb raises s l = step raises s l) as ->.
    { destruct l as [t | [ | | t] | t | ]; try congruence; cbn [step_nocb]; apply skel_step. }
    destruct (step_other_pc raises s l Hl) as [-> ?]. auto.
Qed.

(** in EVERY run from the initial state no callback is invoked and the monitor never reaches the call *)
Theorem skel_nocb_never_calls : forall raises ls s, m_pc s <> MCallback ->
  m_pc (fst (run_from_nocb raises s ls)) <> MCallback
  /\ forallb (fun o => negb (is_cb_out o)) (snd (run_from_nocb raises s ls)) = true.
Proof.
  intros raises ls. induction ls as [| l r IH]; intros s H; [split; [exact H | reflexivity]|].
  cbn [run_from_nocb]. destruct (step_nocb_inv raises s l H) as [H1 H2].
  destruct (step_nocb raises s l) as [s' o]. cbn in H1, H2.
  specialize (IH s' H1). destruct (run_from_nocb raises s' r) as [s'' os]. cbn in *.
  destruct IH as [I1 I2]. split; [exact I1|]. rewrite H2. exact I2.
Qed.
