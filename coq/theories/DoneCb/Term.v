(** Termination of close(): an explicit measure on the states of DoneCb/Model.v
    that strictly decreases on every effective step once the registered threads
    have ended and `_closed` is set -- under ANY scheduler. *)
From NL Require Import DoneCb.Model DoneCb.Safety DoneCb.Inv DoneCb.Live.
From Coq Require Import Lia.

(** cost of the remaining part of the loop after the truth test, when the set that
    `self._active` will then refer to has m elements: m = 0: LOAD _closed, release+break;
    m > 0: release, and one more complete iteration that removes the m (dead) threads *)
Definition tail (m : nat) : nat := match m with 0 => 2 | _ => 15 + 3 * m end.

(** elements the running scan has not yet looked at *)
Definition pend (s : state) : list nat :=
  match m_pc s with MIterNext => m_todo s | MIsAlive t => t :: m_todo s | _ => [] end.

(** elements of the set that the running scan has passed as alive (they stay for the next iteration) *)
Definition stale (s : state) : nat :=
  length (filter (fun x => negb (mem x (m_done s)) && negb (mem x (pend s))) (obj (heap s) (active s))).

Definition mu_mon (s : state) : nat :=
  let n := length (obj (heap s) (active s)) in
  let d := length (m_done s) in
  let k := length (m_todo s) in
  let c := length (m_cbs s) in
  match m_pc s with
  | MAcq1 => 14 + 3 * n
  | MLoadScan => 13 + 3 * n
  | MGetIter r => 12 + 3 * length (obj (heap s) r)
  | MIterNext => 3 * k + d + 9 + tail (stale s)
  | MIsAlive _ => 3 * k + d + 11 + tail (stale s)
  | MLoadRebuild => d + 8 + tail (stale s)
  | MSetDiff r => d + 7 + tail (length (diff (obj (heap s) r) (m_done s)))
  | MStore n' => d + 6 + tail (length (obj (heap s) n'))
  | MRel1 => c + 5 + tail n
  | MCallback => c + 4 + tail n
  | MAcq2 => 3 + tail n
  | MLoadCheck => 2 + tail n
  | MTruth r => 1 + tail (length (obj (heap s) r))
  | MLoadClosed => 2
  | MRelBreak => 1
  | MRelLoop => 15 + 3 * n
  | MRelExc => 1
  | MExited _ => 0
  end.

Definition mu_closer (s : state) : nat :=
  match closer s with CLoad => 4 | CContains _ => 3 | CStore => 2 | CJoin => 1 | _ => 0 end.

(** the termination measure: an upper bound on the number of effective steps still to come *)
Definition mu (s : state) : nat := mu_mon s + mu_closer s.

(** every thread that ever started has ended (and nobody is inside register()) *)
Definition all_ended (s : state) : Prop := forall t, regs s t = RNone \/ regs s t = RDead.

Lemma mem_ins x t l : mem x (ins t l) = (x =? t) || mem x l.
Proof.
  induction l as [|a l IH]; simpl; [rewrite orb_false_r; reflexivity|].
  destruct (t <? a) eqn:E1; simpl; [reflexivity|].
  destruct (t =? a) eqn:E2; simpl.
  - apply Nat.eqb_eq in E2. subst. destruct (x =? a); reflexivity.
  - rewrite IH. destruct (x =? t), (x =? a); reflexivity.
Qed.

Lemma length_ins t l : length (ins t l) <= S (length l).
Proof.
  induction l as [|a l IH]; simpl; [lia|].
  destruct (t <? a); simpl; [lia|]. destruct (t =? a); simpl; lia.
Qed.

Lemma filter_none {A} (f : A -> bool) l : (forall x, In x l -> f x = false) -> filter f l = [].
Proof.
  induction l as [|a l IH]; simpl; intros H; [reflexivity|].
  rewrite (H a) by tauto. apply IH. intros x Hx. apply H. tauto.
Qed.

Lemma filter_length_le {A} (f : A -> bool) l : length (filter f l) <= length l.
Proof. induction l as [|a l IH]; simpl; [lia|]. destruct (f a); simpl; lia. Qed.

Lemma mem_self x l : In x l -> mem x l = true.
Proof. apply mem_In. Qed.

Section Decrease.
Variable raises : nat -> bool.

Lemma closer_mon s :
  closer (fst (step_mon raises s)) = closer s
  \/ (closer s = CJoining /\ exists e, closer (fst (step_mon raises s)) = CDone e).
Proof.
  unfold step_mon, mon_exit. destruct (m_pc s); destruct_matches; simpl; auto; right; split; eauto.
Qed.

Lemma mu_closer_mon s : mu_closer (fst (step_mon raises s)) = mu_closer s.
Proof.
  unfold mu_closer. destruct (closer_mon s) as [E|(E1 & e & E2)]; [rewrite E; reflexivity|].
  rewrite E1, E2. reflexivity.
Qed.

Lemma mon_decreases g s :
  Inv g s -> Inv2 g s -> all_ended s -> closed s = true -> enabled raises s Mon ->
  mu_mon (fst (step_mon raises s)) < mu_mon s.
Proof.
  intros I J Hend Hcl Hen. unfold enabled in Hen. simpl in Hen. revert Hen.
  unfold step_mon. destruct (m_pc s) eqn:Epc.
  - (* MAcq1 *) destruct (lock s); simpl; intros Hen; [elim Hen; reflexivity|].
    unfold mu_mon. simpl. rewrite Epc. lia.
  - (* MLoadScan *) intros _. unfold mu_mon. simpl. rewrite Epc. lia.
  - (* MGetIter *) intros _. pose proof (i_ref _ _ I) as Hr. rewrite Epc in Hr. subst r.
    unfold mu_mon, stale, pend. simpl. rewrite Epc.
    rewrite filter_none; [simpl; lia|].
    intros x Hx. rewrite (mem_self x _ Hx). simpl. reflexivity.
  - (* MIterNext *) intros _.
    destruct (length (obj (heap s) (m_itref s)) =? m_itused s).
    + destruct (m_todo s) as [|t rest] eqn:Et.
      * unfold mu_mon, stale, pend. simpl. rewrite Epc, Et. simpl. lia.
      * unfold mu_mon, stale, pend. simpl. rewrite Epc, Et. simpl. lia.
    + unfold mu_mon. simpl. rewrite Epc. lia.
  - (* MIsAlive *) intros _.
    assert (Hd : regs s t = RDead).
    { destruct (Hend t) as [H|H]; [|exact H]. exfalso.
      pose proof (j_added _ _ J _ _ (i_isalive _ _ I t Epc)) as Ha. rewrite H in Ha. exact Ha. }
    rewrite Hd. simpl.
    unfold mu_mon, stale, pend. simpl. rewrite Epc.
    pose proof (length_ins t (m_done s)) as Hl.
    replace (filter (fun x => negb (mem x (ins t (m_done s))) && negb (mem x (m_todo s))) (obj (heap s) (active s)))
      with (filter (fun x => negb (mem x (m_done s)) && negb (mem x (t :: m_todo s))) (obj (heap s) (active s))).
    2:{ apply filter_ext. intros x. rewrite mem_ins. simpl.
        destruct (x =? t), (mem x (m_done s)), (mem x (m_todo s)); reflexivity. }
    lia.
  - (* MLoadRebuild *) intros _. unfold mu_mon, stale, pend. simpl. rewrite Epc.
    replace (filter (fun x => negb (mem x (m_done s)) && negb (mem x [])) (obj (heap s) (active s)))
      with (diff (obj (heap s) (active s)) (m_done s)).
    2:{ unfold diff. apply filter_ext. intros x. simpl. rewrite andb_true_r. reflexivity. }
    lia.
  - (* MSetDiff *) intros _. unfold mu_mon. simpl. rewrite Epc, obj_app_new. lia.
  - (* MStore *) intros _. unfold mu_mon. simpl. rewrite Epc. lia.
  - (* MRel1 *) intros _. unfold mu_mon. simpl. rewrite Epc. destruct (m_cbs s); simpl; lia.
  - (* MCallback *) intros _. unfold mu_mon. rewrite Epc.
    destruct (m_cbs s) as [|d [|d' rest]]; simpl; lia.
  - (* MAcq2 *) destruct (lock s); simpl; intros Hen; [elim Hen; reflexivity|].
    unfold mu_mon. simpl. rewrite Epc. lia.
  - (* MLoadCheck *) intros _. unfold mu_mon. simpl. rewrite Epc. lia.
  - (* MTruth *) intros _. pose proof (i_ref _ _ I) as Hr. rewrite Epc in Hr. subst r.
    unfold mu_mon. rewrite Epc.
    destruct (obj (heap s) (active s)) eqn:Eo; simpl; rewrite ?Eo; simpl; lia.
  - (* MLoadClosed *) intros _. rewrite Hcl. unfold mu_mon. simpl. rewrite Epc. lia.
  - (* MRelBreak *) intros _. unfold mon_exit, mu_mon. rewrite Epc. destruct (closer s); simpl; lia.
  - (* MRelLoop *) intros _. unfold mu_mon. simpl. rewrite Epc. lia.
  - (* MRelExc *) intros _. unfold mon_exit, mu_mon. rewrite Epc. destruct (closer s); simpl; lia.
  - (* MExited *) simpl. intros Hen. elim Hen. reflexivity.
Qed.

Lemma closer_decreases s :
  enabled raises s Closer ->
  mu_closer (fst (step_closer s)) < mu_closer s /\ mu_mon (fst (step_closer s)) = mu_mon s.
Proof.
  unfold enabled. simpl. unfold step_closer, mu_closer.
  destruct (closer s) eqn:Ec; simpl; intros Hen; try (elim Hen; reflexivity);
    try (split; [lia|reflexivity]).
  destruct (m_pc s) eqn:Epc; simpl; (split; [lia|unfold mu_mon, stale, pend; simpl; reflexivity]).
Qed.

Lemma reg_disabled s t : all_ended s -> ~ enabled raises s (Reg t).
Proof.
  intros Hend Hen. unfold enabled in Hen. simpl in Hen. unfold step_reg in Hen.
  destruct (Hend t) as [E|E]; rewrite E in Hen; apply Hen; reflexivity.
Qed.

(** the measure strictly decreases on every effective step *)
Theorem step_decreases g s w :
  Inv g s -> Inv2 g s -> all_ended s -> closed s = true -> enabled raises s w ->
  mu (fst (step raises s (Step w))) < mu s.
Proof.
  intros I J Hend Hcl Hen. unfold mu. destruct w as [| |t]; simpl.
  - pose proof (mon_decreases g s I J Hend Hcl Hen). rewrite mu_closer_mon. lia.
  - destruct (closer_decreases s Hen). lia.
  - elim (reg_disabled s t Hend Hen).
Qed.

(** Step labels keep the hypotheses *)
Lemma step_keeps s w :
  all_ended s -> closed s = true ->
  all_ended (fst (step raises s (Step w))) /\ closed (fst (step raises s (Step w))) = true.
Proof.
  intros Hend Hcl. destruct w as [| |t]; simpl.
  - unfold step_mon, mon_exit. destruct (m_pc s); destruct_matches; simpl; auto; try discriminate; try congruence.
  - unfold step_closer. destruct (closer s); destruct_matches; simpl; auto.
  - unfold step_reg. destruct (Hend t) as [E|E]; rewrite E; simpl; auto.
Qed.

End Decrease.

(** ---- runs *)
Definition steps_only (ls : list label) : Prop := forall l, In l ls -> exists w, l = Step w.

Lemma run_from_app raises s l1 l2 :
  run_from raises s (l1 ++ l2) =
  let '(s1, o1) := run_from raises s l1 in let '(s2, o2) := run_from raises s1 l2 in (s2, o1 ++ o2).
Proof.
  revert s. induction l1 as [|l r IH]; intros s; simpl.
  - destruct (run_from raises s l2). reflexivity.
  - destruct (step raises s l) as [s' o]. rewrite IH.
    destruct (run_from raises s' r) as [s1 o1]. destruct (run_from raises s1 l2). reflexivity.
Qed.

Lemma run_snoc raises ls l : run raises (ls ++ [l]) = fst (step raises (run raises ls) l).
Proof.
  unfold run. rewrite run_from_app. destruct (run_from raises init ls) as [s1 o1]. simpl.
  destruct (step raises s1 l). reflexivity.
Qed.

(** number of effective (state-changing) steps of a continuation *)
Fixpoint effective (raises : nat -> bool) (s : state) (ls : list label) : nat :=
  match ls with
  | [] => 0
  | l :: r => let '(s', o) := step raises s l in
              (match o with ODisabled => 0 | _ => 1 end) + effective raises s' r
  end.

(** after the threads have ended and `_closed` is set: whatever the scheduler does, at most
    [mu] effective steps can follow *)
Theorem bounded_after_end raises ls ls' :
  steps_only ls' ->
  all_ended (run raises ls) -> closed (run raises ls) = true ->
  effective raises (run raises ls) ls' <= mu (run raises ls).
Proof.
  revert ls. induction ls' as [|l r IH]; intros ls Hs Hend Hcl; [simpl; lia|].
  destruct (Hs l (or_introl eq_refl)) as [w ->].
  assert (Hs' : steps_only r) by (intros x Hx; apply Hs; right; exact Hx).
  pose proof (run_snoc raises ls (Step w)) as Hrun.
  destruct (step_keeps raises (run raises ls) w Hend Hcl) as (Hend' & Hcl').
  specialize (IH (ls ++ [Step w])). rewrite Hrun in IH. specialize (IH Hs' Hend' Hcl').
  pose proof (Inv_run raises ls) as I. pose proof (Inv2_run raises ls) as J.
  pose proof (disabled_unchanged raises (run raises ls) w) as Hdis.
  pose proof (step_decreases raises _ _ w I J Hend Hcl) as Hdec. unfold enabled in Hdec.
  cbn [effective]. clear Hrun Hend' Hcl'.
  destruct (step raises (run raises ls) (Step w)) as [s' o]. cbn [fst snd] in *.
  destruct o.
  - pose proof (Hdis eq_refl) as E. subst s'. lia.
  - assert (mu s' < mu (run raises ls)) by (apply Hdec; discriminate). lia.
  - assert (mu s' < mu (run raises ls)) by (apply Hdec; discriminate). lia.
Qed.

(** ---- a finishing continuation exists *)
Lemma closer_not_reset raises s w :
  closer s <> CNone -> closer (fst (step raises s (Step w))) <> CNone.
Proof.
  intros H. destruct w as [| |t]; simpl.
  - destruct (closer_mon raises s) as [E|(_ & e & E)]; rewrite E; [exact H|discriminate].
  - unfold step_closer. destruct (closer s) eqn:Ec; destruct_matches; simpl; congruence.
  - unfold step_reg. destruct (regs s t); destruct_matches; simpl; exact H.
Qed.

Lemma run_app_snoc raises ls w l2 : run raises ((ls ++ [Step w]) ++ l2) = run raises (ls ++ Step w :: l2).
Proof. rewrite <- app_assoc. reflexivity. Qed.

Lemma steps_only_cons w l : steps_only l -> steps_only (Step w :: l).
Proof. intros H x [<-|Hx]; [eauto|auto]. Qed.

(** phase 2: `_closed` is set *)
Lemma finish_closed raises n : forall ls,
  mu (run raises ls) <= n ->
  all_ended (run raises ls) -> closed (run raises ls) = true -> closer (run raises ls) <> CNone ->
  exists ls', steps_only ls' /\ exists e, closer (run raises (ls ++ ls')) = CDone e.
Proof.
  induction n as [|n IH]; intros ls Hmu Hend Hcl Hc.
  all: destruct (closer (run raises ls)) eqn:Ec;
    try (elim Hc; reflexivity);
    try (exists []; split; [intros x []|]; rewrite app_nil_r; eauto; fail).
  all: pose proof (Inv_run raises ls) as I; pose proof (Inv2_run raises ls) as J.
  all: assert (Hu : exists w, unfinished (run raises ls) w) by (exists Closer; simpl; rewrite Ec; exact Logic.I).
  all: destruct (some_enabled raises _ _ I J Hu) as (w & _ & Hen).
  all: pose proof (step_decreases raises _ _ w I J Hend Hcl Hen) as Hd.
  all: try lia.
  all: destruct (step_keeps raises _ w Hend Hcl) as (Hend' & Hcl').
  all: assert (Hc' : closer (fst (step raises (run raises ls) (Step w))) <> CNone)
         by (apply closer_not_reset; rewrite Ec; discriminate).
  all: rewrite <- (run_snoc raises ls (Step w)) in *.
  all: destruct (IH (ls ++ [Step w])) as (l2 & Hs2 & e & He); [lia|assumption|assumption|assumption|].
  all: exists (Step w :: l2); split; [apply steps_only_cons; exact Hs2|]; exists e; rewrite <- run_app_snoc; exact He.
Qed.

Definition kk (s : state) : nat := match closer s with CLoad => 3 | CContains _ => 2 | CStore => 1 | _ => 0 end.

Lemma ended_closer_step raises s : all_ended s -> all_ended (fst (step raises s (Step Closer))).
Proof.
  intros H. simpl. unfold step_closer. destruct (closer s); destruct_matches; simpl; exact H.
Qed.

(** phase 1: close() executes its (lock-free) accesses up to `self._closed = True` *)
Lemma finish_store raises k : forall ls,
  kk (run raises ls) <= k -> all_ended (run raises ls) -> closer (run raises ls) <> CNone ->
  exists l1, steps_only l1 /\ all_ended (run raises (ls ++ l1)) /\ closed (run raises (ls ++ l1)) = true
             /\ closer (run raises (ls ++ l1)) <> CNone.
Proof.
  induction k as [|k IH]; intros ls Hk Hend Hc.
  all: pose proof (Inv2_run raises ls) as J.
  all: destruct (closer (run raises ls)) eqn:Ec; try (elim Hc; reflexivity);
    try (unfold kk in Hk; rewrite Ec in Hk; lia);
    try (exists []; rewrite app_nil_r; split; [intros x []|]; split; [exact Hend|]; split; [|rewrite Ec; discriminate];
         apply (j_closed _ _ J); rewrite Ec; eauto; fail).
  all: pose proof (run_snoc raises ls (Step Closer)) as Hrun.
  all: pose proof (ended_closer_step raises _ Hend) as Hend'; rewrite <- Hrun in Hend'.
  all: assert (Hk' : kk (run raises (ls ++ [Step Closer])) <= k)
         by (rewrite Hrun; simpl; unfold step_closer, kk in *; rewrite Ec in *; simpl; lia).
  all: assert (Hc' : closer (run raises (ls ++ [Step Closer])) <> CNone)
         by (rewrite Hrun; apply closer_not_reset; rewrite Ec; discriminate).
  all: destruct (IH _ Hk' Hend' Hc') as (l2 & Hs2 & H1 & H2 & H3).
  all: exists (Step Closer :: l2); rewrite <- run_app_snoc; split; [apply steps_only_cons; exact Hs2|tauto].
Qed.

(** from every reachable state in which close() has been called and every thread that started
    has ended, some continuation of Step labels makes close() return *)
Theorem close_can_finish raises ls :
  closer (run raises ls) <> CNone -> all_ended (run raises ls) ->
  exists ls', steps_only ls' /\ exists e, closer (run raises (ls ++ ls')) = CDone e.
Proof.
  intros Hc Hend.
  destruct (finish_store raises 3 ls) as (l1 & Hs1 & Hend1 & Hcl1 & Hc1); auto.
  { unfold kk. destruct (closer (run raises ls)); lia. }
  destruct (finish_closed raises _ (ls ++ l1) (le_n _) Hend1 Hcl1 Hc1) as (l2 & Hs2 & e & He).
  exists (l1 ++ l2). split.
  - intros x Hx. apply in_app_iff in Hx. destruct Hx; auto.
  - exists e. rewrite app_assoc. exact He.
Qed.
