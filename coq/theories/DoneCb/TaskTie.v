(** C18 tie, asyncio-task half -- obligations about the REGENERATED method bodies of
    TaskDoneCallback / ThreadTaskDoneCallback / ExcThread (Gen/TaskDoneFuns.v, rebuilt from
    /repo on every run) against the hand-written sequential model DoneCb/Task.v.

    Kind (b) of harness/TIE_TASK.md: an interpreter (DoneCb/TaskInterp.v) driven by the model's
    own operations, and

    * [istep_tstep]: for EVERY well-formed state and EVERY operation (register a task / a task
      ends / the close method is called) one step of the interpreter on the regenerated bodies
      produces exactly the model's events and the model's next state ([abs]), and well-formedness
      is preserved;
    * [irun_trun]: hence for EVERY operation sequence (every completion order, any number of
      tasks, re-registrations included) the interpreter's outputs are the model's outputs;
    * the close method under test is any of close / aclose / __exit__ / __aexit__ of
      TaskDoneCallback (events = the model's) or of ThreadTaskDoneCallback (the model's events,
      a normal return replaced by "the thread helper's close() is invoked and its outcome is
      the outcome"); register is TaskDoneCallback.register or ThreadTaskDoneCallback.register;
    * corollaries: exactly once, close waits, the first exception is re-raised -- of the
      regenerated code; the guard "called from a registered task"; the union's dispatch;
      ExcThread.run/join; the __init__ tables.

    No axioms. *)
From NL Require Import DoneCb.Model DoneCb.Safety DoneCb.Task DoneCb.TaskProofs DoneCb.TaskInterp.
From Coq Require Import Lia.

(** ---- sets and callback lists *)
Lemma mem_ins t x l : mem t (ins x l) = ((t =? x) || mem t l)%bool.
Proof. apply eq_true_iff_eq. rewrite orb_true_iff, !mem_In, In_ins, Nat.eqb_eq. tauto. Qed.

Lemma mem_remove t x l : mem t (Task.remove x l) = (negb (t =? x) && mem t l)%bool.
Proof.
  apply eq_true_iff_eq. rewrite andb_true_iff, negb_true_iff, !mem_In, In_remove, Nat.eqb_neq. tauto.
Qed.

Lemma ins_not_nil x l : ins x l <> [].
Proof.
  intros H. assert (I : In x (ins x l)) by (apply In_ins; tauto). rewrite H in I. destruct I.
Qed.

Lemma cbs_for_app t a b : cbs_for t (a ++ b) = cbs_for t a ++ cbs_for t b.
Proof. unfold cbs_for. rewrite filter_app, map_app. reflexivity. Qed.

Lemma cbs_for_without t x l : cbs_for t (cbs_without x l) = if t =? x then [] else cbs_for t l.
Proof.
  unfold cbs_for, cbs_without. induction l as [|[u f] l IH]; simpl.
  - destruct (t =? x); reflexivity.
  - destruct (u =? x) eqn:A; simpl.
    + rewrite IH. destruct (t =? x) eqn:B; [reflexivity|].
      apply Nat.eqb_eq in A. subst u. rewrite Nat.eqb_sym, B. reflexivity.
    + destruct (u =? t) eqn:C; simpl; rewrite IH; destruct (t =? x) eqn:B; try reflexivity.
      apply Nat.eqb_eq in C. apply Nat.eqb_eq in B. subst. rewrite Nat.eqb_refl in A. discriminate.
Qed.

(** ---- abstraction to the state of DoneCb/Task.v *)
Definition exn_task (x : pexn) : list nat := match x with PXCb t => [t] | _ => [] end.
Definition exn_tasks (l : list pexn) : list nat := flat_map exn_task l.

Lemma exn_tasks_app a b : exn_tasks (a ++ b) = exn_tasks a ++ exn_tasks b.
Proof. unfold exn_tasks. apply flat_map_app. Qed.

Lemma exn_tasks_map l : exn_tasks (map PXCb l) = l.
Proof. induction l; simpl; [reflexivity|]. rewrite IHl. reflexivity. Qed.

Definition kabs (k : kstate) : tclose :=
  match k with KNo => TCNo | KSusp _ => TCWaiting | _ => TCReturned end.

Definition abs (sk : istate * kstate) : tstate :=
  mkT (i_active (fst sk)) (i_finished (fst sk)) (exn_tasks (i_excs (fst sk))) (kabs (snd sk)).

(** the callback TaskDoneCallback hands to add_done_callback *)
Definition cbv : pval := PVMeth ObTask task_done_callback_name.

(** ---- functions of the interpreter's history *)
Definition icb_of (e : iev) : list nat := match e with ICb t _ => [t] | _ => [] end.
Definition iraised_of (e : iev) : list nat := match e with ICb t true => [t] | _ => [] end.
Definition icalled (ess : list (list iev)) : list nat := flat_map icb_of (List.concat ess).

Section Tie.
Variable raises : nat -> bool.
Variable cur : curctx.
Variable cur_thread : nat.
Variable thr_exc target_exc : option pexn.

Notation Invoke := (invoke raises true cur cur_thread thr_exc target_exc).
Notation Resume := (resume raises true cur cur_thread thr_exc target_exc).

(** the caller of the close method is not a registered task *)
Definition cur_ok (st : istate) : Prop :=
  match cur with InTask u => mem u (i_active st) = false | _ => True end.

(** ---- the method bodies, executed symbolically (all states) *)

(** TaskDoneCallback.register(task t) *)
Definition reg_result (st : istate) (t : nat) : istate :=
  if mem t (i_active st) then st
  else with_active (if mem t (i_finished st) then with_soon st (i_soon st ++ [(cbv, t)])
                    else with_cbs st (i_cbs st ++ [(t, cbv)]))
                   (ins t (i_active st)).

Lemma task_register_exec st t :
  Invoke (PVMeth ObTask "register"%string) [PVTask t] st = (reg_result st t, QNormal).
Proof.
  destruct st as [act excs cbs soon fin treg tcl exc lg]. unfold invoke, reg_result. cbn.
  destruct (mem t act) eqn:E; cbn; [reflexivity|].
  destruct (mem t fin) eqn:F; cbn; reflexivity.
Qed.

(** ThreadTaskDoneCallback.register(task t): handled by the task helper, the thread helper is not touched *)
Lemma union_register_task_exec st t :
  Invoke (PVMeth ObUnion "register"%string) [PVTask t] st = (reg_result st t, QNormal).
Proof.
  destruct st as [act excs cbs soon fin treg tcl exc lg]. unfold invoke, reg_result. cbn.
  destruct (mem t act) eqn:E; cbn; [reflexivity|].
  destruct (mem t fin) eqn:F; cbn; reflexivity.
Qed.

(** ThreadTaskDoneCallback.register(thread u): handled by the thread helper, the task helper is not touched *)
Lemma union_register_thread_exec st u :
  Invoke (PVMeth ObUnion "register"%string) [PVThread u] st
  = (with_thr st (i_thr_reg st ++ [u]) (i_thr_closed st), QNormal).
Proof. destruct st. unfold invoke. cbn. reflexivity. Qed.

(** ThreadTaskDoneCallback.register(): the current task if there is one, else the current thread *)
Lemma union_register_default_exec st :
  Invoke (PVMeth ObUnion "register"%string) [] st
  = match cur with
    | InTask t => (reg_result st t, QNormal)
    | _ => (with_thr st (i_thr_reg st ++ [cur_thread]) (i_thr_closed st), QNormal)
    end.
Proof.
  destruct st as [act excs cbs soon fin treg tcl exc lg]. unfold invoke, reg_result.
  destruct cur as [| |t]; cbn; try reflexivity.
  destruct (mem t act) eqn:E; cbn; [reflexivity|].
  destruct (mem t fin) eqn:F; cbn; reflexivity.
Qed.

(** TaskDoneCallback.register(): the current task; RuntimeError when there is none *)
Lemma task_register_default_exec st :
  Invoke (PVMeth ObTask "register"%string) [] st
  = match cur with
    | InTask t => (reg_result st t, QNormal)
    | _ => (st, QRaise PXRuntime)
    end.
Proof.
  destruct st as [act excs cbs soon fin treg tcl exc lg]. unfold invoke, reg_result.
  destruct cur as [| |t]; cbn; try reflexivity.
  destruct (mem t act) eqn:E; cbn; [reflexivity|].
  destruct (mem t fin) eqn:F; cbn; reflexivity.
Qed.

(** the done-callback wrapper, for a task in the active set *)
Definition cb_result (st : istate) (t : nat) : istate :=
  add_log (with_excs (with_active st (Task.remove t (i_active st)))
                     (if raises t then i_excs st ++ [PXCb t] else i_excs st))
          (ICb t (raises t)).

Lemma callback_exec st t : mem t (i_active st) = true ->
  Invoke cbv [PVTask t] st = (cb_result st t, QNormal).
Proof.
  destruct st as [act excs cbs soon fin treg tcl exc lg]. simpl. intros E.
  unfold invoke, cb_result. cbn. rewrite E. cbn.
  destruct (raises t); cbn; reflexivity.
Qed.

(** ... and for a task that is NOT in the active set (never the case in a well-formed state): the
    KeyError of `remove` is recorded, `done` is not invoked *)
Lemma callback_exec_absent st t : mem t (i_active st) = false ->
  Invoke cbv [PVTask t] st = (with_excs st (i_excs st ++ [PXKeyError]), QNormal).
Proof.
  destruct st as [act excs cbs soon fin treg tcl exc lg]. simpl. intros E.
  unfold invoke. cbn. rewrite E. cbn. reflexivity.
Qed.

(** ---- the close methods.
    [finish u st]: what the close method does once `_active` is empty.  u = false (a method of
    TaskDoneCallback): re-raise the first recorded exception, else return.  u = true
    (ThreadTaskDoneCallback, `try: <task helper>.close() finally: <thread helper>.close()`): the
    thread helper's close() is invoked ON EVERY PATH; its exception, if any, is the outcome,
    otherwise the first recorded exception of a task callback is re-raised, else return *)
Definition task_outcome (st : istate) : outcome :=
  match i_excs st with x :: _ => QRaise x | [] => QNormal end.

Definition finish (u : bool) (st : istate) : istate * outcome :=
  if u then (add_log (with_thr st (i_thr_reg st) true) IThrClose,
             match thr_exc with Some y => QRaise y | None => task_outcome st end)
  else (st, task_outcome st).

(** [k] is a close method waiting in `while self._active: sleep`: resumed in ANY state it either
    finishes (the set is empty) or sleeps again, unchanged *)
Definition waiting (u : bool) (k : stmt) : Prop :=
  forall st, Resume k st = match i_active st with [] => finish u st | _ => (st, QSuspend k) end.

(** calling the close method [f] *)
Definition start_spec (u : bool) (f : pval) (args : list pval) : Prop :=
  forall st, cur_ok st ->
    match i_active st with
    | [] => Invoke f args st = finish u st
    | _ => exists k, Invoke f args st = (st, QSuspend k) /\ waiting u k
    end.

(** ... from a registered task: RuntimeError, nothing else happens *)
Definition guard_spec (f : pval) (args : list pval) : Prop :=
  forall st u, cur = InTask u -> mem u (i_active st) = true -> Invoke f args st = (st, QRaise PXRuntime).

(** ... the union: the RuntimeError of the task helper passes through the `finally`, so the thread
    helper's close() is invoked all the same (and its exception, if any, replaces the RuntimeError) *)
Definition guard_spec_union (f : pval) (args : list pval) : Prop :=
  forall st u, cur = InTask u -> mem u (i_active st) = true ->
    Invoke f args st = (add_log (with_thr st (i_thr_reg st) true) IThrClose,
                        match thr_exc with Some y => QRaise y | None => QRaise PXRuntime end).

Ltac start_tac :=
  intros st Hc; destruct st as [act excs cbs soon fin treg tcl exc lg];
  unfold cur_ok in Hc; simpl in Hc; unfold invoke, finish;
  unfold task_outcome; destruct cur as [| |u0]; try tauto; cbn; rewrite ?Hc; cbn;
  (destruct act as [|a0 act0]; cbn;
   [ destruct excs; cbn; first [reflexivity | destruct thr_exc; cbn; reflexivity]
   | eexists; split; [reflexivity|];
     intros st'; destruct st' as [act' excs' cbs' soon' fin' treg' tcl' exc' lg'];
     unfold resume, finish, task_outcome; cbn;
     destruct act'; cbn; [|reflexivity];
     destruct excs'; cbn; first [reflexivity | destruct thr_exc; cbn; reflexivity] ]).

Ltac guard_tac :=
  intros st u Hu Hm; destruct st as [act excs cbs soon fin treg tcl exc lg];
  simpl in Hm; unfold invoke; rewrite Hu; cbn; rewrite Hm; cbn;
  first [reflexivity | destruct thr_exc; cbn; reflexivity].

Definition none3 : list pval := [PVNone; PVNone; PVNone].

Lemma start_task_close : start_spec false (PVMeth ObTask "close"%string) [].
Proof. start_tac. Qed.
Lemma start_task_exit : start_spec false (PVMeth ObTask "__exit__"%string) none3.
Proof. start_tac. Qed.
Lemma start_task_aclose : cur <> NoLoop -> start_spec false (PVMeth ObTask "aclose"%string) [].
Proof. intros Hn. start_tac. Qed.
Lemma start_task_aexit : cur <> NoLoop -> start_spec false (PVMeth ObTask "__aexit__"%string) none3.
Proof. intros Hn. start_tac. Qed.
Lemma start_union_close : start_spec true (PVMeth ObUnion "close"%string) [].
Proof. start_tac. Qed.
Lemma start_union_exit : start_spec true (PVMeth ObUnion "__exit__"%string) none3.
Proof. start_tac. Qed.
Lemma start_union_aclose : cur <> NoLoop -> start_spec true (PVMeth ObUnion "aclose"%string) [].
Proof. intros Hn. start_tac. Qed.
Lemma start_union_aexit : cur <> NoLoop -> start_spec true (PVMeth ObUnion "__aexit__"%string) none3.
Proof. intros Hn. start_tac. Qed.

Lemma guard_task_close : guard_spec (PVMeth ObTask "close"%string) [].
Proof. guard_tac. Qed.
Lemma guard_task_exit : guard_spec (PVMeth ObTask "__exit__"%string) none3.
Proof. guard_tac. Qed.
Lemma guard_task_aclose : guard_spec (PVMeth ObTask "aclose"%string) [].
Proof. guard_tac. Qed.
Lemma guard_task_aexit : guard_spec (PVMeth ObTask "__aexit__"%string) none3.
Proof. guard_tac. Qed.
Lemma guard_union_close : guard_spec_union (PVMeth ObUnion "close"%string) [].
Proof. guard_tac. Qed.
Lemma guard_union_exit : guard_spec_union (PVMeth ObUnion "__exit__"%string) none3.
Proof. guard_tac. Qed.
Lemma guard_union_aclose : guard_spec_union (PVMeth ObUnion "aclose"%string) [].
Proof. guard_tac. Qed.
Lemma guard_union_aexit : guard_spec_union (PVMeth ObUnion "__aexit__"%string) none3.
Proof. guard_tac. Qed.


(** ---- ExcThread: run() swallows and stores whatever the target raises; join() re-raises it *)
Lemma excthread_run_exec st :
  Invoke (PVMeth ObExcThread "run"%string) [] st = (with_exc st target_exc, QNormal).
Proof. destruct st. unfold invoke. destruct target_exc; cbn; reflexivity. Qed.

Lemma excthread_join_exec st :
  Invoke (PVMeth ObExcThread "join"%string) [] st
  = (st, match i_exc st with Some x => QRaise x | None => QNormal end).
Proof. destruct st as [? ? ? ? ? ? ? exc ?]. unfold invoke. destruct exc; cbn; reflexivity. Qed.

(** ---- one step of the driver = one step of the model, for all well-formed states.
    Generic in the methods under test: [regf] must behave like TaskDoneCallback.register and
    [closef] like a close method ([start_spec u]). *)
Section Generic.
Variable u : bool.
Variables regf closef : pval.
Variable cargs : list pval.
Hypothesis H_reg : forall st t, Invoke regf [PVTask t] st = (reg_result st t, QNormal).
Hypothesis H_start : start_spec u closef cargs.

Notation Istep := (istep raises true cur cur_thread thr_exc target_exc regf closef cargs).
Notation Irun_from := (irun_from raises true cur cur_thread thr_exc target_exc regf closef cargs).

(** how the close method ends, given how the task helper's part ends ([e]: the task whose callback
    raised first).  For the union the thread helper's exception, if any, takes precedence *)
Definition close_exn (e : option nat) : option pexn :=
  if u then match thr_exc with Some y => Some y | None => option_map PXCb e end
  else option_map PXCb e.

(** the model's events as events of the interpreter.  For the union the end of the task helper's
    close is followed ON EVERY PATH by the thread helper's close() *)
Definition evmap (e : tev) : list iev :=
  match e with
  | TCb t r => [ICb t r]
  | TCloseRet e => if u then [IThrClose; ICloseRet (close_exn e)] else [ICloseRet (close_exn e)]
  end.

(** the task that calls the close method is never registered *)
Definition op_ok (o : top) : Prop :=
  match cur with InTask v => o <> TReg v | _ => True end.

Record WF0 (st : istate) : Prop := {
  wf_cbs : forall t, cbs_for t (i_cbs st) = if mem t (i_active st) then [cbv] else [];
  wf_soon : i_soon st = [];
  wf_excs : i_excs st = map PXCb (exn_tasks (i_excs st));
  wf_cur : cur_ok st
}.

Definition khyp (k : kstate) : Prop :=
  match k with KSusp kk => waiting u kk | KStuck => False | _ => True end.

Definition WF (sk : istate * kstate) : Prop :=
  WF0 (fst sk) /\ i_log (fst sk) = [] /\ khyp (snd sk)
  /\ (forall kk, snd sk = KSusp kk -> i_active (fst sk) <> []).

Definition post (st1 : istate) (k1 : kstate) : istate * kstate :=
  match k1 with KSusp kk => settle (Resume kk st1) | _ => (st1, k1) end.

Definition fin_log (st : istate) : list iev :=
  flat_map evmap [TCloseRet (hd_error (exn_tasks (i_excs st)))].
Definition fin_state (st : istate) : istate :=
  if u then with_thr st (i_thr_reg st) true else st.

Lemma settle_finish st : i_excs st = map PXCb (exn_tasks (i_excs st)) ->
  settle (finish u st) = (with_log (fin_state st) (i_log st ++ fin_log st), KDone).
Proof.
  destruct st as [act excs cbs soon fin treg tcl exc lg]. simpl. intros H.
  unfold finish, fin_state, fin_log, task_outcome, evmap, close_exn. simpl. destruct excs as [|x xs]; simpl.
  - destruct u; [destruct thr_exc|]; simpl; unfold add_log, with_log; simpl;
      rewrite <- ?app_assoc; simpl; rewrite ?app_nil_r; reflexivity.
  - destruct x; simpl in H; try (destruct (exn_tasks xs); discriminate).
    destruct u; [destruct thr_exc|]; simpl; unfold add_log, with_log; simpl;
      rewrite <- ?app_assoc; simpl; rewrite ?app_nil_r; reflexivity.
Qed.

Lemma post_spec st1 k1 : i_excs st1 = map PXCb (exn_tasks (i_excs st1)) -> khyp k1 ->
  post st1 k1 = match kabs k1, i_active st1 with
                | TCWaiting, [] => (with_log (fin_state st1) (i_log st1 ++ fin_log st1), KDone)
                | _, _ => (st1, k1)
                end.
Proof.
  intros He Hk. destruct k1; simpl in *; try reflexivity.
  rewrite Hk. destruct (i_active st1); [apply settle_finish; assumption|reflexivity].
Qed.

(** the second half of [tstep] *)
Definition tpost (s1 : tstate) (evs : list tev) : tstate * list tev :=
  match t_closing s1, t_active s1 with
  | TCWaiting, [] =>
      (mkT (t_active s1) (t_finished s1) (t_excs s1) TCReturned, evs ++ [TCloseRet (hd_error (t_excs s1))])
  | _, _ => (s1, evs)
  end.

Lemma tstep_tpost s o :
  tstep raises s o = tpost (fst (top_step raises s o)) (snd (top_step raises s o)).
Proof. unfold tstep, tpost. destruct (top_step raises s o). reflexivity. Qed.

Lemma WF0_fin_state st : WF0 st -> WF0 (with_log (fin_state st) []).
Proof.
  intros [A B C D]. unfold fin_state. destruct st as [act excs cbs soon fin treg tcl exc lg].
  simpl in *. destruct u; constructor; assumption.
Qed.

Lemma post_tpost st1 k1 evs1 : WF0 st1 -> khyp k1 -> i_log st1 = flat_map evmap evs1 ->
  let r := post st1 k1 in
  let m := tpost (abs (st1, k1)) evs1 in
  WF (with_log (fst r) [], snd r) /\ abs (with_log (fst r) [], snd r) = fst m
  /\ i_log (fst r) = flat_map evmap (snd m).
Proof.
  intros W Hk Hl. pose proof W as [A B C D]. simpl. rewrite (post_spec _ _ C Hk).
  pose proof (WF0_fin_state _ W) as Wf.
  unfold tpost, abs, fin_log, fin_state in *.
  destruct st1 as [act excs cbs soon fin treg tcl exc lg]. simpl in *.
  assert (W1 : WF0 (mkI act excs cbs soon fin treg tcl exc [])) by (constructor; assumption).
  destruct k1 as [|kk| |]; simpl in *; try contradiction.
  - (* KNo *)
    split; [|split; [reflexivity|assumption]].
    split; [exact W1|split; [reflexivity|split; [exact I|intros ? ?; discriminate]]].
  - (* KSusp *)
    destruct act as [|a0 act0]; simpl.
    + split; [|split].
      * split; [exact Wf|]. split; [destruct u; reflexivity|].
        split; [exact I|intros ? ?; discriminate].
      * destruct u; reflexivity.
      * rewrite flat_map_app, Hl. simpl.
        destruct u; simpl; rewrite ?app_nil_r; reflexivity.
    + split; [|split; [reflexivity|assumption]].
      split; [exact W1|split; [reflexivity|split; [exact Hk|intros ? _; discriminate]]].
  - (* KDone *)
    split; [|split; [reflexivity|assumption]].
    split; [exact W1|split; [reflexivity|split; [exact I|intros ? ?; discriminate]]].
Qed.

Notation Op_part := (op_part raises true cur cur_thread thr_exc target_exc regf closef cargs).

Lemma istep_from_op st k o st1 k1 : Op_part st k o = Some (st1, k1) ->
  Istep (st, k) o = ((with_log (fst (post st1 k1)) [], snd (post st1 k1)), i_log (fst (post st1 k1))).
Proof.
  intros H. unfold istep. rewrite H. unfold post.
  destruct k1; try reflexivity. destruct (settle _). reflexivity.
Qed.

Lemma cbs_reg cbs act t : (forall x, cbs_for x cbs = if mem x act then [cbv] else []) ->
  mem t act = false ->
  forall x, cbs_for x (cbs ++ [(t, cbv)]) = if mem x (ins t act) then [cbv] else [].
Proof.
  intros A E x. rewrite cbs_for_app, mem_ins, A. unfold cbs_for at 1. simpl.
  rewrite (Nat.eqb_sym t x). destruct (x =? t) eqn:F; simpl.
  - apply Nat.eqb_eq in F. subst x. rewrite E. reflexivity.
  - apply app_nil_r.
Qed.

Lemma cbs_rm cbs act t : (forall x, cbs_for x cbs = if mem x act then [cbv] else []) ->
  forall x, cbs_for x (cbs_without t cbs) = if mem x (Task.remove t act) then [cbv] else [].
Proof.
  intros A x. rewrite cbs_for_without, mem_remove, A. destruct (x =? t); reflexivity.
Qed.

Lemma cbs_rm_ins cbs act t : (forall x, cbs_for x cbs = if mem x act then [cbv] else []) ->
  mem t act = false ->
  forall x, cbs_for x cbs = if mem x (Task.remove t (ins t act)) then [cbv] else [].
Proof.
  intros A E x. rewrite mem_remove, mem_ins, A. destruct (x =? t) eqn:F; simpl; [|reflexivity].
  apply Nat.eqb_eq in F. subst x. rewrite E. reflexivity.
Qed.

Lemma excs_app excs t : excs = map PXCb (exn_tasks excs) ->
  excs ++ [PXCb t] = map PXCb (exn_tasks (excs ++ [PXCb t])).
Proof. intros H. rewrite exn_tasks_app, map_app. simpl. rewrite <- H. reflexivity. Qed.

Lemma cur_ok_ins st st' t :
  cur_ok st -> op_ok (TReg t) -> i_active st' = ins t (i_active st) -> cur_ok st'.
Proof.
  unfold cur_ok, op_ok. destruct cur as [| |v]; auto. intros H N ->.
  rewrite mem_ins, H. destruct (v =? t) eqn:F; [|reflexivity].
  apply Nat.eqb_eq in F. subst. congruence.
Qed.

Lemma cur_ok_rm st st' t :
  cur_ok st -> i_active st' = Task.remove t (i_active st) -> cur_ok st'.
Proof.
  unfold cur_ok. destruct cur as [| |v]; auto. intros H ->.
  rewrite mem_remove, H. apply andb_false_r.
Qed.

Lemma cur_ok_rm_ins st st' t :
  cur_ok st -> op_ok (TReg t) -> i_active st' = Task.remove t (ins t (i_active st)) -> cur_ok st'.
Proof.
  unfold cur_ok, op_ok. destruct cur as [| |v]; auto. intros H N ->.
  rewrite mem_remove, mem_ins, H. destruct (v =? t) eqn:F; [|reflexivity].
  apply Nat.eqb_eq in F. subst. congruence.
Qed.

Lemma classic_close (st : istate) (k : kstate) (o : top) :
  (o = TClose /\ k = KNo /\ i_active st = []) \/ ~ (o = TClose /\ k = KNo /\ i_active st = []).
Proof.
  destruct o; try (right; intros (H & _); discriminate).
  destruct k; try (right; intros (_ & H & _); discriminate).
  destruct (i_active st); [left; auto|right; intros (_ & _ & H); discriminate].
Qed.

(** every operation except a close that finishes at once: the first half of the step *)
Lemma op_part_spec st k o : WF (st, k) -> op_ok o ->
  ~ (o = TClose /\ k = KNo /\ i_active st = []) ->
  exists st1 k1, Op_part st k o = Some (st1, k1) /\ WF0 st1 /\ khyp k1
    /\ abs (st1, k1) = fst (top_step raises (abs (st, k)) o)
    /\ i_log st1 = flat_map evmap (snd (top_step raises (abs (st, k)) o)).
Proof.
  intros [W0 [Hl [Hk Ha]]] Hop Hni. simpl in *. destruct W0 as [A B C D].
  destruct st as [act excs cbs soon fin treg tcl exc lg]. simpl in *. subst soon lg.
  unfold op_part, abs. simpl. destruct o as [t|t|].
  - (* TReg t *)
    rewrite H_reg. unfold reg_result. simpl. destruct (mem t act) eqn:E.
    + eexists _, _. split; [reflexivity|]. split; [constructor; (assumption || reflexivity)|]. auto.
    + destruct (mem t fin) eqn:F.
      * unfold drain. cbn [i_soon with_soon with_active i_active i_excs i_cbs i_finished i_thr_reg
                           i_thr_closed i_exc i_log app run_soon].
        rewrite callback_exec by (simpl; rewrite mem_ins, Nat.eqb_refl; reflexivity).
        unfold cb_result, callback. simpl.
        eexists _, _. split; [reflexivity|]. split; [|split; [assumption|split]].
        -- constructor; simpl.
           ++ apply cbs_rm_ins; assumption.
           ++ reflexivity.
           ++ destruct (raises t); [apply excs_app|]; assumption.
           ++ eapply cur_ok_rm_ins; [exact D|exact Hop|reflexivity].
        -- unfold abs. simpl. destruct (raises t); [rewrite exn_tasks_app|]; reflexivity.
        -- reflexivity.
      * unfold drain. simpl. eexists _, _. split; [reflexivity|].
        split; [|split; [assumption|split; reflexivity]].
        constructor; simpl; auto.
        -- apply cbs_reg; assumption.
        -- eapply cur_ok_ins; [exact D|exact Hop|reflexivity].
  - (* TComplete t *)
    cbn [top_step t_finished t_active t_excs t_closing].
    destruct (mem t fin) eqn:F.
    + eexists _, _. split; [reflexivity|]. split; [constructor; (assumption || reflexivity)|]. auto.
    + unfold drain, complete.
      cbn [i_soon with_soon with_active i_active i_excs i_cbs i_finished i_thr_reg
           i_thr_closed i_exc i_log app]. rewrite A. destruct (mem t act) eqn:E.
      * cbn [map run_soon]. rewrite callback_exec by exact E.
        unfold cb_result, callback. simpl.
        eexists _, _. split; [reflexivity|]. split; [|split; [assumption|split]].
        -- constructor; simpl.
           ++ apply cbs_rm; assumption.
           ++ reflexivity.
           ++ destruct (raises t); [apply excs_app|]; assumption.
           ++ eapply cur_ok_rm; [exact D|reflexivity].
        -- unfold abs. simpl. destruct (raises t); [rewrite exn_tasks_app|]; reflexivity.
        -- reflexivity.
      * simpl. eexists _, _. split; [reflexivity|].
        split; [|split; [assumption|split; reflexivity]].
        constructor; simpl; auto.
        -- intros x. rewrite cbs_for_without, A. destruct (x =? t) eqn:G; [|reflexivity].
           apply Nat.eqb_eq in G. subst x. rewrite E. reflexivity.
  - (* TClose *)
    cbn [top_step t_finished t_active t_excs t_closing].
    destruct k as [|kk| |]; simpl in *; try contradiction.
    + pose proof (H_start _ D) as Hs. simpl in Hs. destruct act as [|a0 act0].
      * exfalso. apply Hni. auto.
      * destruct Hs as (kk & -> & Hw). simpl.
        eexists _, _. split; [reflexivity|]. split; [constructor; (assumption || reflexivity)|].
        split; [exact Hw|]. split; reflexivity.
    + eexists _, _. split; [reflexivity|]. split; [constructor; (assumption || reflexivity)|]. auto.
    + eexists _, _. split; [reflexivity|]. split; [constructor; (assumption || reflexivity)|]. auto.
Qed.

(** THE STEP THEOREM: for every well-formed state and every operation, one step of the
    interpreter on the regenerated bodies = one step of DoneCb/Task.v *)
Theorem istep_tstep st k o : WF (st, k) -> op_ok o ->
  let r := Istep (st, k) o in
  let m := tstep raises (abs (st, k)) o in
  WF (fst r) /\ abs (fst r) = fst m /\ snd r = flat_map evmap (snd m).
Proof.
  intros W Hop. cbv zeta. rewrite tstep_tpost.
  destruct (classic_close st k o) as [Hi|Hni].
  2:{ destruct (op_part_spec st k o W Hop Hni) as (st1 & k1 & Ho & W1 & Hk1 & Hab & Hlg).
      rewrite (istep_from_op _ _ _ _ _ Ho). simpl. rewrite <- Hab.
      apply post_tpost; assumption. }
  destruct Hi as (-> & -> & Ea). destruct W as [W0 [Hl _]]. simpl in *.
  pose proof W0 as [A B C D]. pose proof (H_start _ D) as Hs. rewrite Ea in Hs.
  unfold istep, op_part. rewrite Hs, (settle_finish _ C), Hl. simpl.
  pose proof (WF0_fin_state _ W0) as Wf.
  unfold tpost, abs, fin_log, fin_state in *.
  destruct st as [act excs cbs soon fin treg tcl exc lg]. simpl in *. subst act lg. simpl.
  split; [|split].
  - split; [exact Wf|]. split; [destruct u; reflexivity|].
    split; [exact I|intros ? ?; discriminate].
  - destruct u; reflexivity.
  - destruct u; simpl; rewrite ?app_nil_r; reflexivity.
Qed.

(** ---- whole histories *)
Lemma WF_init : WF (iinit, KNo).
Proof.
  split; [|split; [reflexivity|split; [exact I|intros ? ?; discriminate]]].
  constructor; simpl; auto. unfold cur_ok. destruct cur; reflexivity.
Qed.

Lemma irun_trun os : forall sk, WF sk -> Forall op_ok os ->
  WF (fst (Irun_from sk os))
  /\ abs (fst (Irun_from sk os)) = fst (trun_from raises (abs sk) os)
  /\ snd (Irun_from sk os) = map (flat_map evmap) (snd (trun_from raises (abs sk) os)).
Proof.
  induction os as [|o os IH]; intros [st k] W F; [simpl; auto|].
  inversion F as [|? ? Ho Fr]; subst.
  pose proof (istep_tstep st k o W Ho) as H. cbv zeta in H. destruct H as (W' & Ha & He).
  cbn [irun_from trun_from].
  destruct (Istep (st, k) o) as [sk' e]. destruct (tstep raises (abs (st, k)) o) as [m' te].
  simpl in W', Ha, He. specialize (IH sk' W' Fr). rewrite Ha in IH.
  destruct (Irun_from sk' os) as [sk'' es]. destruct (trun_from raises m' os) as [m'' tes].
  simpl in *. destruct IH as (? & ? & ?). subst. auto.
Qed.

Notation Iouts := (iouts raises true cur cur_thread thr_exc target_exc regf closef cargs).
Notation Irun := (irun raises true cur cur_thread thr_exc target_exc regf closef cargs).

(** for EVERY operation sequence the interpreter's outputs and final state are the model's *)
Theorem tie_outputs os : Forall op_ok os ->
  Iouts os = map (flat_map evmap) (touts raises os) /\ abs (Irun os) = trun raises os
  /\ WF (Irun os).
Proof.
  intros F. destruct (irun_trun os _ WF_init F) as (W & A & E). unfold iouts, irun, touts, trun.
  auto.
Qed.

Lemma icb_evmap evs : flat_map icb_of (flat_map evmap evs) = flat_map tcb_of evs.
Proof.
  induction evs as [|[t r|e] evs IH]; simpl; rewrite ?IH; try reflexivity.
  destruct u; simpl; rewrite ?IH; reflexivity.
Qed.

Lemma iraised_evmap evs : flat_map iraised_of (flat_map evmap evs) = flat_map traised_of evs.
Proof.
  induction evs as [|[t r|e] evs IH]; simpl; rewrite ?IH; try reflexivity.
  destruct u; simpl; rewrite ?IH; reflexivity.
Qed.

Lemma icalled_evmap ess : icalled (map (flat_map evmap) ess) = tcalled ess.
Proof.
  unfold icalled, tcalled. induction ess as [|evs ess IH]; simpl; [reflexivity|].
  rewrite !flat_map_app, icb_evmap, IH. reflexivity.
Qed.

(** what the close method must end with, given the tasks whose callback raised (oldest first) *)
Definition close_result (rz : list nat) : option pexn := close_exn (hd_error rz).

(** [steps_ok] of DoneCb/TaskProofs.v, on the interpreter's own events: a callback only in the step
    in which its task ends; the close method ends only when every task registered so far has ended
    (hence been called back), with [close_result]; the thread helper's close() is invoked only
    then -- and (union) ALWAYS then: in the very step in which the close method ends *)
Fixpoint isteps_ok (rg fin rz : list nat) (os : list top) (ess : list (list iev)) : Prop :=
  match os, ess with
  | o :: r, evs :: er =>
      let rg' := trg o ++ rg in
      let fin' := tfn o ++ fin in
      let rz' := rz ++ flat_map iraised_of evs in
      (forall t, In t (flat_map icb_of evs) -> o = TComplete t) /\
      (forall e, In (ICloseRet e) evs -> (forall t, In t rg' -> In t fin') /\ e = close_result rz') /\
      (In IThrClose evs -> forall t, In t rg' -> In t fin') /\
      (u = true -> forall e, In (ICloseRet e) evs -> In IThrClose evs) /\
      isteps_ok rg' fin' rz' r er
  | _, _ => True
  end.

Lemma steps_ok_isteps_ok os : forall ess rg fin rz,
  steps_ok rg fin rz os ess -> isteps_ok rg fin rz os (map (flat_map evmap) ess).
Proof.
  induction os as [|o os IH]; intros [|evs ess] rg fin rz; simpl; auto.
  intros (H1 & H2 & H3). rewrite icb_evmap, iraised_evmap.
  split; [exact H1|]. split; [|split; [|split; [|apply IH; exact H3]]].
  - intros e He. apply in_flat_map in He. destruct He as (te & Hte & Hin).
    destruct te as [t r|e0]; simpl in Hin.
    + destruct Hin as [H|[]]. discriminate.
    + destruct (H2 _ Hte) as (Hall & Heq). split; [exact Hall|]. unfold close_result.
      rewrite <- Heq. destruct u; simpl in Hin.
      * destruct Hin as [H|[H|[]]]; [discriminate|]. injection H as <-. reflexivity.
      * destruct Hin as [H|[]]. injection H as <-. reflexivity.
  - intros He. apply in_flat_map in He. destruct He as (te & Hte & Hin).
    destruct te as [t r|e0]; simpl in Hin.
    + destruct Hin as [H|[]]. discriminate.
    + destruct (H2 _ Hte) as (Hall & _). exact Hall.
  - intros Hu e He. apply in_flat_map in He. destruct He as (te & Hte & Hin).
    apply in_flat_map. exists te. split; [exact Hte|].
    destruct te as [t r|e0]; simpl in *.
    + destruct Hin as [H|[]]. discriminate.
    + rewrite Hu. simpl. auto.
Qed.

(** exactly once, of the regenerated code *)
Theorem tie_exactly_once os : Forall op_ok os -> twf os ->
  NoDup (icalled (Iouts os)) /\
  forall t, In t (icalled (Iouts os)) <-> In (TReg t) os /\ In (TComplete t) os.
Proof.
  intros F W. destruct (tie_outputs os F) as (-> & _). rewrite icalled_evmap.
  apply task_exactly_once. exact W.
Qed.

(** close waits and re-raises, of the regenerated code *)
Theorem tie_close_waits os : Forall op_ok os -> twf os -> isteps_ok [] [] [] os (Iouts os).
Proof.
  intros F W. destruct (tie_outputs os F) as (-> & _). apply steps_ok_isteps_ok.
  apply task_steps_ok. exact W.
Qed.

End Generic.
End Tie.

(** ---- the methods under test, by name *)
Inductive close_method := MClose | MAclose | MExit | MAexit.

Definition close_name (m : close_method) : string :=
  match m with
  | MClose => "close" | MAclose => "aclose" | MExit => "__exit__" | MAexit => "__aexit__"
  end%string.
Definition close_args (m : close_method) : list pval :=
  match m with MClose | MAclose => [] | _ => none3 end.
(** aclose / __aexit__ are coroutines: they run inside an event loop *)
Definition needs_loop (m : close_method) : bool :=
  match m with MAclose | MAexit => true | _ => false end.
(** u = false: TaskDoneCallback; u = true: ThreadTaskDoneCallback *)
Definition helper_obj (u : bool) : pobj := if u then ObUnion else ObTask.

(** the interpreter's outputs for an operation sequence: [TReg t] = <helper>.register(task t),
    [TComplete t] = task t ends, [TClose] = <helper>.<m>(..) is called (once) *)
Definition outs_of (raises : nat -> bool) (cur : curctx) (cur_thread : nat) (thr_exc : option pexn)
                   (u : bool) (m : close_method) (os : list top) : list (list iev) :=
  iouts raises true cur cur_thread thr_exc None
        (PVMeth (helper_obj u) "register"%string) (PVMeth (helper_obj u) (close_name m)) (close_args m) os.

Definition step_of (raises : nat -> bool) (cur : curctx) (cur_thread : nat) (thr_exc : option pexn)
                   (u : bool) (m : close_method) (sk : istate * kstate) (o : top)
  : (istate * kstate) * list iev :=
  istep raises true cur cur_thread thr_exc None
        (PVMeth (helper_obj u) "register"%string) (PVMeth (helper_obj u) (close_name m)) (close_args m) sk o.

Definition final_of (raises : nat -> bool) (cur : curctx) (cur_thread : nat) (thr_exc : option pexn)
                    (u : bool) (m : close_method) (os : list top) : istate * kstate :=
  irun raises true cur cur_thread thr_exc None
       (PVMeth (helper_obj u) "register"%string) (PVMeth (helper_obj u) (close_name m)) (close_args m) os.

(** each of the eight (register, close method) pairs meets the hypotheses of the generic step theorem *)
Lemma target_specs raises cur cur_thread thr_exc u m : (needs_loop m = true -> cur <> NoLoop) ->
  (forall st t, invoke raises true cur cur_thread thr_exc None (PVMeth (helper_obj u) "register"%string) [PVTask t] st
                = (reg_result st t, QNormal))
  /\ start_spec raises cur cur_thread thr_exc None u (PVMeth (helper_obj u) (close_name m)) (close_args m).
Proof.
  intros Hl. destruct u, m; cbn [helper_obj close_name close_args needs_loop] in *.
  - split; [intros; apply union_register_task_exec|apply start_union_close].
  - split; [intros; apply union_register_task_exec|apply start_union_aclose; auto].
  - split; [intros; apply union_register_task_exec|apply start_union_exit].
  - split; [intros; apply union_register_task_exec|apply start_union_aexit; auto].
  - split; [intros; apply task_register_exec|apply start_task_close].
  - split; [intros; apply task_register_exec|apply start_task_aclose; auto].
  - split; [intros; apply task_register_exec|apply start_task_exit].
  - split; [intros; apply task_register_exec|apply start_task_aexit; auto].
Qed.

(** THE STEP THEOREM for the methods by name: from every well-formed state, for every operation *)
Theorem tie_task_step raises cur cur_thread thr_exc u m st k o :
  (needs_loop m = true -> cur <> NoLoop) ->
  WF raises cur cur_thread thr_exc None u (st, k) -> op_ok cur o ->
  let r := step_of raises cur cur_thread thr_exc u m (st, k) o in
  let mo := tstep raises (abs (st, k)) o in
  WF raises cur cur_thread thr_exc None u (fst r) /\ abs (fst r) = fst mo
  /\ snd r = flat_map (evmap thr_exc u) (snd mo).
Proof.
  intros Hl W Ho. destruct (target_specs raises cur cur_thread thr_exc u m Hl) as (Hr & Hs).
  exact (istep_tstep raises cur cur_thread thr_exc None u _ _ _ Hr Hs st k o W Ho).
Qed.

(** for ALL operation sequences: outputs and final state of the regenerated code = the model's *)
Theorem tie_task_outputs raises cur cur_thread thr_exc u m os :
  (needs_loop m = true -> cur <> NoLoop) -> Forall (op_ok cur) os ->
  outs_of raises cur cur_thread thr_exc u m os = map (flat_map (evmap thr_exc u)) (touts raises os)
  /\ abs (final_of raises cur cur_thread thr_exc u m os) = trun raises os.
Proof.
  intros Hl F. destruct (target_specs raises cur cur_thread thr_exc u m Hl) as (Hr & Hs).
  destruct (tie_outputs raises cur cur_thread thr_exc None u _ _ _ Hr Hs os F) as (A & B & _).
  split; assumption.
Qed.

(** the initial state is well-formed and so is every reachable one: the step theorem applies along
    every history *)
Theorem tie_task_wf_reachable raises cur cur_thread thr_exc u m os :
  (needs_loop m = true -> cur <> NoLoop) -> Forall (op_ok cur) os ->
  WF raises cur cur_thread thr_exc None u (final_of raises cur cur_thread thr_exc u m os).
Proof.
  intros Hl F. destruct (target_specs raises cur cur_thread thr_exc u m Hl) as (Hr & Hs).
  destruct (tie_outputs raises cur cur_thread thr_exc None u _ _ _ Hr Hs os F) as (_ & _ & W). exact W.
Qed.

(** hence C18_task_exactly_once holds of the regenerated code (both helpers, all four close methods) *)
Theorem tie_task_exactly_once raises cur cur_thread thr_exc u m os :
  (needs_loop m = true -> cur <> NoLoop) -> Forall (op_ok cur) os -> twf os ->
  NoDup (icalled (outs_of raises cur cur_thread thr_exc u m os)) /\
  forall t, In t (icalled (outs_of raises cur cur_thread thr_exc u m os)) <-> In (TReg t) os /\ In (TComplete t) os.
Proof.
  intros Hl F W. destruct (target_specs raises cur cur_thread thr_exc u m Hl) as (Hr & Hs).
  exact (tie_exactly_once raises cur cur_thread thr_exc None u _ _ _ Hr Hs os F W).
Qed.

(** ... and C18_task_close_waits + the re-raise of the first exception *)
Theorem tie_task_close_waits raises cur cur_thread thr_exc u m os :
  (needs_loop m = true -> cur <> NoLoop) -> Forall (op_ok cur) os -> twf os ->
  isteps_ok thr_exc u [] [] [] os (outs_of raises cur cur_thread thr_exc u m os).
Proof.
  intros Hl F W. destruct (target_specs raises cur cur_thread thr_exc u m Hl) as (Hr & Hs).
  exact (tie_close_waits raises cur cur_thread thr_exc None u _ _ _ Hr Hs os F W).
Qed.

(** the close method never ends with an exception of the helper's own making: the thread helper's
    exception (union), else that of a task callback, else a normal return *)
Theorem tie_task_close_result raises cur cur_thread thr_exc u m os e :
  (needs_loop m = true -> cur <> NoLoop) -> Forall (op_ok cur) os ->
  In (ICloseRet e) (List.concat (outs_of raises cur cur_thread thr_exc u m os)) ->
  match (if u then thr_exc else None) with
  | Some y => e = Some y
  | None => (exists t, e = Some (PXCb t)) \/ e = None
  end.
Proof.
  intros Hl F Hin. destruct (tie_task_outputs raises cur cur_thread thr_exc u m os Hl F) as (E & _).
  rewrite E in Hin. clear E.
  apply in_concat in Hin. destruct Hin as (evs & Hevs & Hin).
  apply in_map_iff in Hevs. destruct Hevs as (tevs & <- & Htevs).
  apply in_flat_map in Hin. destruct Hin as (te & Hte & Hin).
  destruct te as [t r|e0]; simpl in Hin.
  - destruct Hin as [H|[]]. discriminate.
  - unfold close_exn in Hin. destruct u; simpl in Hin.
    + destruct Hin as [H|[H|[]]]; [discriminate|]. injection H as <-.
      destruct thr_exc; [reflexivity|]. destruct e0; simpl; eauto.
    + destruct Hin as [H|[]]. injection H as <-. destruct e0; simpl; eauto.
Qed.

(** ---- "cannot be called from a registered task": the regenerated guard.  From inside a
    registered task every close method raises RuntimeError at once: nothing is waited for, no
    state changes, the thread helper is not closed *)
Theorem tie_task_guard raises cur_thread thr_exc m st t :
  mem t (i_active st) = true ->
  invoke raises true (InTask t) cur_thread thr_exc None (PVMeth ObTask (close_name m)) (close_args m) st
  = (st, QRaise PXRuntime).
Proof.
  intros H. destruct m; cbn [close_name close_args].
  - eapply guard_task_close; eauto.
  - eapply guard_task_aclose; eauto.
  - eapply guard_task_exit; eauto.
  - eapply guard_task_aexit; eauto.
Qed.

(** the union: the same RuntimeError, but through the `finally`: the thread helper is closed first *)
Theorem tie_union_guard raises cur_thread thr_exc m st t :
  mem t (i_active st) = true ->
  invoke raises true (InTask t) cur_thread thr_exc None (PVMeth ObUnion (close_name m)) (close_args m) st
  = (add_log (with_thr st (i_thr_reg st) true) IThrClose,
     match thr_exc with Some y => QRaise y | None => QRaise PXRuntime end).
Proof.
  intros H. destruct m; cbn [close_name close_args].
  - eapply guard_union_close; eauto.
  - eapply guard_union_aclose; eauto.
  - eapply guard_union_exit; eauto.
  - eapply guard_union_aexit; eauto.
Qed.

(** ---- ThreadTaskDoneCallback.register: the dispatch.  A task goes to the task helper (the state
    after union.register(task t) IS the state after TaskDoneCallback.register(task t); the thread
    helper is untouched), a thread to the thread helper (the task helper is untouched); without an
    argument the current task if there is one, else the current thread *)
Theorem tie_union_register_task raises cur cur_thread thr_exc st t :
  invoke raises true cur cur_thread thr_exc None (PVMeth ObUnion "register"%string) [PVTask t] st
  = invoke raises true cur cur_thread thr_exc None (PVMeth ObTask "register"%string) [PVTask t] st
  /\ i_thr_reg (fst (invoke raises true cur cur_thread thr_exc None (PVMeth ObUnion "register"%string) [PVTask t] st))
     = i_thr_reg st.
Proof.
  rewrite union_register_task_exec, task_register_exec. split; [reflexivity|].
  unfold reg_result. simpl. destruct (mem t (i_active st)); [reflexivity|].
  destruct (mem t (i_finished st)); reflexivity.
Qed.

Theorem tie_union_register_thread raises cur cur_thread thr_exc st v :
  invoke raises true cur cur_thread thr_exc None (PVMeth ObUnion "register"%string) [PVThread v] st
  = (with_thr st (i_thr_reg st ++ [v]) (i_thr_closed st), QNormal).
Proof. apply union_register_thread_exec. Qed.

Theorem tie_union_register_default raises cur cur_thread thr_exc st :
  invoke raises true cur cur_thread thr_exc None (PVMeth ObUnion "register"%string) [] st
  = match cur with
    | InTask t => invoke raises true cur cur_thread thr_exc None (PVMeth ObTask "register"%string) [PVTask t] st
    | _ => (with_thr st (i_thr_reg st ++ [cur_thread]) (i_thr_closed st), QNormal)
    end.
Proof. rewrite union_register_default_exec. destruct cur; try reflexivity. rewrite task_register_exec. reflexivity. Qed.

(** ---- ThreadTaskDoneCallback.close / aclose / __exit__ / __aexit__ once every registered task has
    ended (`try: <task helper close> finally: <thread helper close>`): the thread helper's close() is
    invoked ON EVERY PATH; the outcome is its exception if it raised (it re-raises the first exception
    of a thread callback: DoneCb/Model.v, ExcThread.join below), else the first exception of a task
    callback, else a normal return *)
Theorem tie_union_close_outcome raises cur cur_thread thr_exc m st :
  (needs_loop m = true -> cur <> NoLoop) -> cur_ok cur st -> i_active st = [] ->
  invoke raises true cur cur_thread thr_exc None (PVMeth ObUnion (close_name m)) (close_args m) st
  = (add_log (with_thr st (i_thr_reg st) true) IThrClose,
     match thr_exc with
     | Some y => QRaise y
     | None => match i_excs st with x :: _ => QRaise x | [] => QNormal end
     end).
Proof.
  intros Hl Hc Ha. destruct (target_specs raises cur cur_thread thr_exc true m Hl) as (_ & Hs).
  specialize (Hs st Hc). rewrite Ha in Hs. exact Hs.
Qed.

(** it raises IFF one of the helpers raised *)
Theorem tie_union_close_reraises raises cur cur_thread thr_exc m st :
  (needs_loop m = true -> cur <> NoLoop) -> cur_ok cur st -> i_active st = [] ->
  ((exists x, snd (invoke raises true cur cur_thread thr_exc None (PVMeth ObUnion (close_name m)) (close_args m) st)
              = QRaise x)
   <-> (i_excs st <> [] \/ thr_exc <> None))
  /\ (snd (invoke raises true cur cur_thread thr_exc None (PVMeth ObUnion (close_name m)) (close_args m) st) = QNormal
      <-> (i_excs st = [] /\ thr_exc = None)).
Proof.
  intros Hl Hc Ha. rewrite (tie_union_close_outcome raises cur cur_thread thr_exc m st Hl Hc Ha). simpl.
  destruct thr_exc as [y|]; [|destruct (i_excs st) as [|x xs]]; split; split.
  - intros _. right. discriminate.
  - intros _. exists y. reflexivity.
  - discriminate.
  - intros (_ & H). discriminate.
  - intros (x & H). discriminate.
  - intros [H|H]; congruence.
  - auto.
  - auto.
  - intros _. left. discriminate.
  - intros _. exists x. reflexivity.
  - discriminate.
  - intros (H & _). discriminate.
Qed.

(** "close closes both", IN FULL: every close method of the union closes BOTH helpers on every path --
    the thread helper's close() is invoked (exactly once: one IThrClose is logged) whether or not a
    task callback raised -- and it raises iff one of them raised: the thread helper's exception if it
    raised, else the task helper's *)
Theorem tie_union_close_both raises cur cur_thread thr_exc m st :
  (needs_loop m = true -> cur <> NoLoop) -> cur_ok cur st -> i_active st = [] ->
  let r := invoke raises true cur cur_thread thr_exc None (PVMeth ObUnion (close_name m)) (close_args m) st in
  i_thr_closed (fst r) = true
  /\ i_log (fst r) = i_log st ++ [IThrClose]
  /\ i_active (fst r) = [] /\ i_excs (fst r) = i_excs st
  /\ snd r = match thr_exc, i_excs st with
             | Some y, _ => QRaise y
             | None, x :: _ => QRaise x
             | None, [] => QNormal
             end.
Proof.
  intros Hl Hc Ha. cbv zeta. rewrite (tie_union_close_outcome raises cur cur_thread thr_exc m st Hl Hc Ha).
  destruct st. simpl in *. subst. repeat split; try (destruct thr_exc; reflexivity).
Qed.

(** ---- ExcThread: run() stores what the target raised, join() re-raises it (so
    ThreadDoneCallback.close() = `self._t.join()` re-raises what _monitor raised) *)
Theorem tie_excthread_join_reraises raises cur cur_thread thr_exc target_exc st :
  let st1 := fst (invoke raises true cur cur_thread thr_exc target_exc (PVMeth ObExcThread "run"%string) [] st) in
  snd (invoke raises true cur cur_thread thr_exc target_exc (PVMeth ObExcThread "run"%string) [] st) = QNormal
  /\ snd (invoke raises true cur cur_thread thr_exc target_exc (PVMeth ObExcThread "join"%string) [] st1)
     = match target_exc with Some x => QRaise x | None => QNormal end.
Proof.
  cbv zeta. rewrite excthread_run_exec. simpl. rewrite excthread_join_exec. destruct st. simpl.
  split; reflexivity.
Qed.

(** ---- the __init__ tables *)
Theorem tie_task_init : exists d,
  task_init_params = [(d, Some ENone)] /\
  forall f e, In (f, e) task_init <->
    (f, e) = (FDone, EVar d) \/ (f, e) = (FActive, ENewSet) \/ (f, e) = (FExceptions, ENewList).
Proof.
  eexists. split; [reflexivity|]. intros f e. simpl. split.
  - intros H. repeat destruct H as [H|H]; try (rewrite <- H; tauto). destruct H.
  - intros H. repeat destruct H as [H|H]; rewrite H; tauto.
Qed.

(** both helpers of the union are given the SAME `done` *)
Theorem tie_union_init : exists d i,
  union_init_params = [(d, Some ENone); (i, Some EOpaque)] /\
  forall f e, In (f, e) union_init <->
    (f, e) = (FThreadCb, ENew "ThreadDoneCallback" [("done"%string, EVar d); ("interval"%string, EVar i)])
    \/ (f, e) = (FTaskCb, ENew "TaskDoneCallback" [("done"%string, EVar d)]).
Proof.
  eexists _, _. split; [reflexivity|]. intros f e. simpl. split.
  - intros H. repeat destruct H as [H|H]; try (rewrite <- H; tauto). destruct H.
  - intros H. repeat destruct H as [H|H]; rewrite H; tauto.
Qed.

(** ---- non-vacuity: a history with a re-registration, an unregistered task, a raising callback,
    close called while two tasks are active; all eight method pairs *)
Definition ex_os : list top := [TReg 1; TReg 2; TReg 1; TComplete 2; TClose; TComplete 3; TComplete 1].

Example tie_task_example :
  Forall (op_ok (InTask 7)) ex_os /\ twf ex_os
  /\ outs_of (fun t => t =? 2) NoLoop 0 None false MClose ex_os
     = [[]; []; []; [ICb 2 true]; []; []; [ICb 1 false; ICloseRet (Some (PXCb 2))]]
  /\ outs_of (fun t => t =? 2) (InTask 7) 0 None false MAexit ex_os
     = [[]; []; []; [ICb 2 true]; []; []; [ICb 1 false; ICloseRet (Some (PXCb 2))]]
  /\ outs_of (fun _ => false) (InTask 7) 0 (Some (PXOther 5)) true MAclose ex_os
     = [[]; []; []; [ICb 2 false]; []; []; [ICb 1 false; IThrClose; ICloseRet (Some (PXOther 5))]]
  /\ outs_of (fun t => t =? 2) LoopNoTask 0 (Some (PXOther 5)) true MExit ex_os
     = [[]; []; []; [ICb 2 true]; []; []; [ICb 1 false; IThrClose; ICloseRet (Some (PXOther 5))]]
  /\ outs_of (fun t => t =? 2) LoopNoTask 0 None true MExit ex_os
     = [[]; []; []; [ICb 2 true]; []; []; [ICb 1 false; IThrClose; ICloseRet (Some (PXCb 2))]]
  /\ outs_of (fun _ => false) (InTask 1) 0 None true MClose ex_os
     = [[]; []; []; [ICb 2 false]; [IThrClose; ICloseRet (Some PXRuntime)]; []; [ICb 1 false]].
Proof.
  split; [repeat constructor; discriminate|]. split; [vm_compute; intuition discriminate|].
  vm_compute. repeat split; reflexivity.
Qed.
