(** Progress for DoneCb/Model.v (repaired thread.py with the lock):
    no deadlock in any reachable state, and close() terminates: once the
    registered threads have ended and `_closed` is set, the number of effective
    steps is bounded by an explicit measure, under ANY scheduler. *)
From NL Require Import DoneCb.Model DoneCb.Safety DoneCb.Inv.
From Coq Require Import Lia.

(** ---- a second invariant (facts not needed for safety) *)
Record Inv2 (g : ghost) (s : state) : Prop := {
  j_join : closer s = CJoining -> forall e, m_pc s <> MExited e;
  j_added : forall r t, In t (obj (heap s) r) -> added (regs s t);
  j_closed : closer s = CJoin \/ closer s = CJoining \/ (exists e, closer s = CDone e) -> closed s = true;
  j_cr : forall e, closer s = CDone e -> In e (g_cr g)
}.

Lemma Inv2_init : Inv2 g0 init.
Proof.
  constructor; simpl; try discriminate.
  - intros [|[|r]] t H; simpl in H; destruct H.
  - intros [H|[H|[e H]]]; discriminate.
Qed.

Lemma In_obj_app h x r t :
  In t (obj (h ++ [x]) r) -> In t (obj h r) \/ In t x.
Proof.
  intros H. destruct (Nat.lt_ge_cases r (length h)) as [L|L].
  - rewrite obj_app_old in H by assumption. tauto.
  - destruct (Nat.eq_dec r (length h)) as [->|N].
    + rewrite obj_app_new in H. tauto.
    + unfold obj in H. rewrite nth_overflow in H; [destruct H|]. rewrite app_length. simpl. lia.
Qed.

Lemma added_set_reg f t v x :
  (added (f t) -> added v) -> added (f x) -> added (set_reg f t v x).
Proof. intros H1 H2. unfold set_reg. destruct (x =? t) eqn:E; [apply Nat.eqb_eq in E; subst; auto|assumption]. Qed.

Ltac destruct_matches :=
  repeat match goal with
         | |- context [match ?x with _ => _ end] => destruct x eqn:?
         end.

Section Steps2.
Variable raises : nat -> bool.

Lemma step2_mon g s :
  Inv2 g s -> Inv2 (g_step g (Step Mon) (snd (step_mon raises s))) (fst (step_mon raises s)).
Proof.
  intros [J1 J2 J3 J4]. unfold step_mon, mon_exit.
  destruct (m_pc s) eqn:Epc; destruct_matches; cbn [fst snd]; unfold g_step; simpl;
    (constructor; simpl;
     [ try solve [intros HH xx; first [discriminate | congruence | apply (J1 HH xx)]]
     | try solve [exact J2]
     | try solve [intros HH; apply J3; intuition (try discriminate; try congruence)]
     | try solve [intros xx HH; first [discriminate | congruence | right; apply (J4 xx HH) | apply (J4 xx HH)]] ]).
  all: try solve [intros rr tt HH; apply In_obj_app in HH; destruct HH as [HH|HH]; [eauto|apply In_diff in HH; destruct HH; eauto]].
  all: try solve [intros _; apply J3; right; left; assumption].
  all: try solve [intros HH; first [assumption | specialize (J3 HH); congruence]].
  all: try solve [match goal with E : closer _ = _ |- _ => rewrite E end;
                  first [exact J3 | exact J4 | intros [HH|[HH|[xx HH]]]; discriminate | intros xx HH; discriminate]].
  all: try solve [intros xx HH; injection HH as <-; left; reflexivity].
  all: try solve [intros HH xx; rewrite Epc; apply (J1 HH xx)].
Qed.

Lemma step2_reg g s t :
  Inv2 g s -> Inv2 (g_step g (Step (Reg t)) (snd (step_reg s t))) (fst (step_reg s t)).
Proof.
  intros J. unfold step_reg.
  destruct (regs s t) eqn:Er; try exact J.
  - destruct (lock s); [exact J|]. destruct J as [J1 J2 J3 J4].
    cbn [fst snd]; unfold g_step; simpl. constructor; simpl; auto.
    intros r x H. apply added_set_reg; [rewrite Er; intros []|eauto].
  - destruct J as [J1 J2 J3 J4]. cbn [fst snd]; unfold g_step; simpl. constructor; simpl; auto.
    intros r x H. apply added_set_reg; [rewrite Er; intros []|eauto].
  - destruct J as [J1 J2 J3 J4]. cbn [fst snd]; unfold g_step; simpl. constructor; simpl; auto.
    intros r' x H. apply In_obj_add in H. destruct H as [H|(-> & _)].
    + apply added_set_reg; [intros _; exact Logic.I|eauto].
    + rewrite set_reg_eq. exact Logic.I.
  - destruct J as [J1 J2 J3 J4]. cbn [fst snd]; unfold g_step; simpl. constructor; simpl; auto.
    intros r x H. apply added_set_reg; [intros _; exact Logic.I|eauto].
Qed.

Lemma step2_closer g s :
  Inv2 g s -> Inv2 (g_step g (Step Closer) (snd (step_closer s))) (fst (step_closer s)).
Proof.
  intros J. unfold step_closer.
  destruct (closer s) eqn:Ec; try exact J; destruct J as [J1 J2 J3 J4]; rewrite Ec in *.
  - cbn [fst snd]; unfold g_step; simpl. constructor; simpl; auto; try discriminate.
    all: try solve [intros [H|[H|[e H]]]; discriminate].
    all: try solve [intros e H; discriminate].
  - cbn [fst snd]; unfold g_step; simpl. constructor; simpl; auto; try discriminate.
    all: try solve [intros [H|[H|[e H]]]; discriminate].
    all: try solve [intros e H; discriminate].
  - cbn [fst snd]; unfold g_step; simpl. constructor; simpl; auto; discriminate.
  - assert (Hc : closed s = true) by (apply J3; left; reflexivity).
    destruct (m_pc s) eqn:Epc; cbn [fst snd]; unfold g_step; simpl; constructor; simpl; auto;
      try discriminate.
    all: try solve [intros _ x; rewrite Epc; discriminate].
    all: try solve [intros x H; injection H as <-; left; reflexivity].
Qed.

Lemma step2 g s l :
  Inv2 g s -> Inv2 (g_step g l (snd (step raises s l))) (fst (step raises s l)).
Proof.
  intros J. destruct l as [t|[| |t]|t|]; simpl.
  - destruct (regs s t) eqn:Er; try exact J. destruct J as [J1 J2 J3 J4].
    cbn [fst snd]; unfold g_step; simpl. constructor; simpl; auto.
    intros r x H. apply added_set_reg; [rewrite Er; intros []|eauto].
  - apply step2_mon; assumption.
  - apply step2_closer; assumption.
  - apply step2_reg; assumption.
  - destruct (regs s t) eqn:Er; try exact J. destruct J as [J1 J2 J3 J4].
    cbn [fst snd]; unfold g_step; simpl. constructor; simpl; auto.
    intros r x H. apply added_set_reg; [intros _; exact Logic.I|eauto].
  - destruct (closer s) eqn:Ec; try exact J. destruct J as [J1 J2 J3 J4]. rewrite Ec in *.
    cbn [fst snd]; unfold g_step; simpl. constructor; simpl; auto; try discriminate.
    all: try solve [intros [H|[H|[e H]]]; discriminate].
    all: try solve [intros e H; discriminate].
Qed.

End Steps2.

Lemma grun_inv2 raises ls : forall g s, Inv2 g s ->
  Inv2 (fst (grun_from raises g s ls)) (snd (grun_from raises g s ls)).
Proof.
  induction ls as [|l r IH]; intros g s J; simpl; [exact J|].
  pose proof (step2 raises g s l J) as J'. destruct (step raises s l) as [s' o]. apply IH. exact J'.
Qed.

Theorem Inv2_run raises ls : Inv2 (ghost_of (history raises ls)) (run raises ls).
Proof.
  pose proof (grun_inv2 raises ls g0 init Inv2_init) as H. rewrite grun_spec in H. exact H.
Qed.

(** ---- no deadlock *)

(** thread [w] of the program has started and not finished its method:
    the monitor thread has not ended; close() was called and has not returned;
    thread t is inside register() *)
Definition unfinished (s : state) (w : who) : Prop :=
  match w with
  | Mon => forall e, m_pc s <> MExited e
  | Closer => match closer s with CNone | CDone _ => False | _ => True end
  | Reg t => is_mid (regs s t) = true
  end.

(** the next access of [w] can be executed now (its step is not a no-op) *)
Definition enabled (raises : nat -> bool) (s : state) (w : who) : Prop :=
  snd (step raises s (Step w)) <> ODisabled.

(** [w] is about to acquire the lock *)
Definition at_acquire (s : state) (w : who) : Prop :=
  match w with
  | Mon => m_pc s = MAcq1 \/ m_pc s = MAcq2
  | Reg t => regs s t = RAcq
  | Closer => False
  end.

Section NoDeadlock.
Variable raises : nat -> bool.

Lemma disabled_unchanged s w :
  snd (step raises s (Step w)) = ODisabled -> fst (step raises s (Step w)) = s.
Proof.
  destruct w as [| |t]; simpl.
  - unfold step_mon, mon_exit. destruct (m_pc s); destruct_matches; simpl; intros H; try discriminate; reflexivity.
  - unfold step_closer. destruct (closer s); destruct_matches; simpl; intros H; try discriminate; reflexivity.
  - unfold step_reg. destruct (regs s t); destruct_matches; simpl; intros H; try discriminate; reflexivity.
Qed.

Lemma mon_locked_enabled s : mon_locked (m_pc s) -> enabled raises s Mon.
Proof.
  unfold enabled. simpl. unfold step_mon, mon_exit.
  destruct (m_pc s); simpl; intros H; try elim H; destruct_matches; simpl; discriminate.
Qed.

Lemma reg_locked_enabled s t : reg_locked (regs s t) -> enabled raises s (Reg t).
Proof.
  unfold enabled. simpl. unfold step_reg. destruct (regs s t); simpl; intros H; try elim H; discriminate.
Qed.

(** every unfinished thread is enabled, or waits for the lock whose holder is inside its
    critical section and enabled, or is close() waiting in join() for the live monitor *)
Theorem no_deadlock_state g s : Inv g s -> Inv2 g s ->
  forall w, unfinished s w ->
    enabled raises s w
    \/ (at_acquire s w /\ exists h, lock s = Some h /\ h <> w /\ unfinished s h /\ enabled raises s h)
    \/ (w = Closer /\ closer s = CJoining /\ unfinished s Mon).
Proof.
  intros I J w Hu.
  assert (Hholder : forall h, lock s = Some h -> unfinished s h /\ enabled raises s h).
  { intros [| |t] Hl.
    - apply (i_lock_mon _ _ I) in Hl. split; [|apply mon_locked_enabled; exact Hl].
      simpl. intros e E. rewrite E in Hl. exact Hl.
    - elim (i_lock_closer _ _ I Hl).
    - apply (i_lock_reg _ _ I) in Hl. split; [|apply reg_locked_enabled; exact Hl].
      simpl. destruct (regs s t); simpl in *; tauto. }
  destruct w as [| |t]; simpl in Hu.
  - (* monitor *)
    destruct (m_pc s) eqn:Epc;
      try (left; apply mon_locked_enabled; rewrite Epc; exact Logic.I).
    + destruct (lock s) as [h|] eqn:El.
      * right; left. split; [simpl; tauto|]. exists h. destruct (Hholder h eq_refl). repeat split; auto.
        intros ->. apply (i_lock_mon _ _ I) in El. rewrite Epc in El. exact El.
      * left. unfold enabled. simpl. unfold step_mon. rewrite Epc, El. simpl. discriminate.
    + left. unfold enabled. simpl. unfold step_mon. rewrite Epc. destruct_matches; simpl; discriminate.
    + destruct (lock s) as [h|] eqn:El.
      * right; left. split; [simpl; tauto|]. exists h. destruct (Hholder h eq_refl). repeat split; auto.
        intros ->. apply (i_lock_mon _ _ I) in El. rewrite Epc in El. exact El.
      * left. unfold enabled. simpl. unfold step_mon. rewrite Epc, El. simpl. discriminate.
    + elim (Hu e). reflexivity.
  - (* close() *)
    destruct (closer s) eqn:Ec; try elim Hu;
      try (left; unfold enabled; simpl; unfold step_closer; rewrite Ec; destruct_matches; simpl; discriminate).
    right; right. split; [reflexivity|]. split; [reflexivity|]. simpl. apply (j_join _ _ J Ec).
  - (* register() in thread t *)
    destruct (regs s t) eqn:Er; try discriminate;
      try (left; apply reg_locked_enabled; rewrite Er; exact Logic.I).
    destruct (lock s) as [h|] eqn:El.
    + right; left. split; [simpl; exact Er|]. exists h. destruct (Hholder h eq_refl). repeat split; auto.
      intros ->. apply (i_lock_reg _ _ I) in El. rewrite Er in El. exact El.
    + left. unfold enabled. simpl. unfold step_reg. rewrite Er, El. simpl. discriminate.
Qed.

(** hence: as long as some thread is unfinished, some unfinished thread can take a step *)
Corollary some_enabled g s : Inv g s -> Inv2 g s ->
  (exists w, unfinished s w) -> exists w, unfinished s w /\ enabled raises s w.
Proof.
  intros I J [w Hu].
  assert (Hone : forall w, unfinished s w -> w <> Closer -> exists w', unfinished s w' /\ enabled raises s w').
  { intros w0 H0 Hn. destruct (no_deadlock_state g s I J w0 H0) as [H|[(_ & h & _ & _ & H1 & H2)|(E & _)]].
    - exists w0. tauto.
    - exists h. tauto.
    - contradiction. }
  destruct (no_deadlock_state g s I J w Hu) as [H|[(_ & h & _ & _ & H1 & H2)|(E & _ & Hm)]].
  - exists w. tauto.
  - exists h. tauto.
  - apply (Hone Mon Hm). discriminate.
Qed.

End NoDeadlock.

(** an enabled step really changes the state *)
Lemma enabled_changes raises s w :
  enabled raises s w -> fst (step raises s (Step w)) <> s.
Proof.
  unfold enabled. destruct w as [| |t]; simpl.
  - unfold step_mon, mon_exit. destruct (m_pc s) eqn:Epc; destruct_matches; simpl; intros Hn H;
      try (elim Hn; reflexivity);
      try (apply (f_equal m_pc) in H; simpl in H; congruence).
    all: try (apply (f_equal m_cbs) in H; simpl in H;
              match goal with E : m_cbs _ = _ |- _ => rewrite E in H end;
              apply (f_equal (@length nat)) in H; simpl in H; lia).
  - unfold step_closer. destruct (closer s) eqn:Ec; destruct_matches; simpl; intros Hn H;
      try (elim Hn; reflexivity); apply (f_equal closer) in H; simpl in H; congruence.
  - unfold step_reg. destruct (regs s t) eqn:Er; destruct_matches; simpl; intros Hn H;
      try (elim Hn; reflexivity);
      apply (f_equal (fun x => regs x t)) in H; simpl in H; rewrite set_reg_eq in H; congruence.
Qed.
