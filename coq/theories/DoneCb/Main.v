(** The C18 statements about the model of the repaired thread.py, in terms of the
    observable history; for EVERY schedule and any number of registering threads. *)
From NL Require Import DoneCb.Model DoneCb.Safety DoneCb.Inv.
From Coq Require Import Lia.

Section Main.
Variable raises : nat -> bool.

(** ---- what a history shows (functions of the history alone, see Inv.ghost_of) *)
Definition called (ls : list label) : list nat := g_cl (ghost_of (history raises ls)).
Definition registered (ls : list label) : list nat := g_rg (ghost_of (history raises ls)).
(** threads whose register() had returned when close() was called *)
Definition registered_before_close (ls : list label) : list nat := g_rgc (ghost_of (history raises ls)).
Definition ended (ls : list label) : list nat := g_dd (ghost_of (history raises ls)).
Definition close_results (ls : list label) : list (option exn) := g_cr (ghost_of (history raises ls)).
Definition monitor_exits (ls : list label) : list (option exn) := g_mx (ghost_of (history raises ls)).
Definition first_raised (ls : list label) : option exn := hd_error (map ExCb (g_rz (ghost_of (history raises ls)))).

(** at any time: never twice, only registered threads, only after the thread ended.
    (The statement holds for every schedule, hence for the prefix that ends with the
    callback: the [Die t] label precedes the step that invokes the callback.) *)
Theorem thread_at_most_once ls :
  NoDup (called ls) /\ forall t, In t (called ls) -> In t (ended ls) /\ In t (registered ls).
Proof.
  pose proof (Inv_run raises ls) as I. split; [apply (i_cl_nodup _ _ I)|].
  intros t H. apply (i_dead _ _ I). apply (i_cl_dead _ _ I). exact H.
Qed.

(** close() returns only after the monitor thread ended, with the monitor's exception *)
Theorem close_after_monitor ls e : In e (close_results ls) -> In e (monitor_exits ls).
Proof.
  pose proof (Inv_run raises ls) as I. intros H.
  apply (i_mx_rev _ _ I). apply (i_cdone _ _ I). apply (i_cr _ _ I). exact H.
Qed.

(** the monitor thread can only end with the first callback exception (or normally):
    "Set changed size during iteration" is impossible *)
Theorem no_iteration_error ls e :
  In e (monitor_exits ls) -> e = first_raised ls /\ e <> Some ExSetChanged.
Proof.
  pose proof (Inv_run raises ls) as I. intros H.
  destruct (i_exit _ _ I e (i_mx _ _ I e H)) as (He & _). split; [exact He|].
  rewrite He. destruct (g_rz (ghost_of (history raises ls))); simpl; discriminate.
Qed.

(** once close() has returned, every thread registered before close() was called has ended
    and its callback was invoked exactly once *)
Theorem thread_exactly_once ls e :
  In e (close_results ls) ->
  forall t, In t (registered_before_close ls) ->
    count_occ Nat.eq_dec (called ls) t = 1 /\ In t (ended ls).
Proof.
  intros Hc t Hr. pose proof (Inv_run raises ls) as I.
  assert (Hx : m_pc (run raises ls) = MExited e).
  { apply (i_cdone _ _ I). apply (i_cr _ _ I). exact Hc. }
  destruct (i_exit _ _ I e Hx) as (_ & Hall & _). specialize (Hall t Hr). split.
  - apply NoDup_count_occ'; [apply (i_cl_nodup _ _ I)|exact Hall].
  - apply (i_dead _ _ I). apply (i_cl_dead _ _ I). exact Hall.
Qed.

Theorem close_waits ls e :
  In e (close_results ls) ->
  forall t, In t (registered_before_close ls) -> In t (called ls) /\ In t (ended ls).
Proof.
  intros Hc t Hr. destruct (thread_exactly_once ls e Hc t Hr) as (H1 & H2). split; [|exact H2].
  apply (count_occ_In Nat.eq_dec). lia.
Qed.

(** close() re-raises exactly the first callback exception, returns normally if there is none *)
Theorem exception_reraised ls e : In e (close_results ls) -> e = first_raised ls.
Proof.
  intros Hc. pose proof (Inv_run raises ls) as I.
  apply (i_exit _ _ I). apply (i_cdone _ _ I). apply (i_cr _ _ I). exact Hc.
Qed.

(** mutual exclusion: a registering thread inside `with self._lock` excludes the monitor's
    scan / rebuild / exit check, and any other registering thread *)
Theorem lock_excludes ls t :
  let s := run raises ls in
  reg_locked (regs s t) -> ~ mon_locked (m_pc s) /\ forall t', reg_locked (regs s t') -> t' = t.
Proof.
  intros s H. pose proof (Inv_run raises ls) as I. fold s in I.
  apply (i_lock_reg _ _ I) in H. split.
  - intros Hm. apply (i_lock_mon _ _ I) in Hm. congruence.
  - intros t' H'. apply (i_lock_reg _ _ I) in H'. congruence.
Qed.

End Main.

(** ---- concrete schedules: the three schedules on which the unrepaired code lost a callback
    (as executed on the repaired class by the harness, drain included), and the same races
    aimed at the repaired code, where the registering thread now waits for the lock *)
Definition nobody : nat -> bool := fun _ => false.
Definition only1 : nat -> bool := fun t => t =? 1.

Definition w_iteration : list label :=
  [Step Mon; Step Mon; Arrive 1%nat; Step (Reg 1%nat); Step (Reg 1%nat); Step Mon; Step Mon; Step Mon; Step Mon; Step Mon; Step Mon; Step (Reg 1%nat); Step (Reg 1%nat); Step (Reg 1%nat); Step (Reg 1%nat); Die 1%nat; CloseCall; Step Closer; Step Closer; Step Closer; Step Closer; Step Mon; Step Mon; Step Mon; Step Mon; Step Mon; Step Mon; Step Mon; Step Mon; Step Mon; Step Mon; Step Mon; Step Mon; Step Mon; Step Mon; Step Mon; Step Mon; Step Mon; Step Mon; Step Mon; Step Mon].
Definition w_lost_update : list label :=
  [Arrive 1%nat; Step (Reg 1%nat); Step (Reg 1%nat); Die 1%nat; Step Mon; Step Mon; Step Mon; Step Mon; Step Mon; Step Mon; Step Mon; Step Mon; Arrive 2%nat; Step (Reg 2%nat); Step (Reg 2%nat); Step Mon; Step (Reg 1%nat); Step (Reg 1%nat); Step (Reg 2%nat); Step (Reg 2%nat); Step (Reg 2%nat); Step (Reg 2%nat); Die 1%nat; Die 2%nat; CloseCall; Step Closer; Step Closer; Step Closer; Step Closer; Step Mon; Step Mon; Step Mon; Step Mon; Step Mon; Step Mon; Step Mon; Step Mon; Step Mon; Step Mon; Step Mon; Step Mon; Step Mon; Step Mon; Step Mon; Step Mon; Step Mon; Step Mon; Step Mon].
Definition w_exit_race : list label :=
  [Step Mon; Step Mon; Step Mon; Step Mon; Step Mon; Arrive 1%nat; Step (Reg 1%nat); Step (Reg 1%nat); CloseCall; Step Closer; Step Closer; Step Closer; Step Mon; Step Mon; Step Mon; Step (Reg 1%nat); Step (Reg 1%nat); Step (Reg 1%nat); Step (Reg 1%nat); Die 1%nat; Step Closer; Step Mon; Step Mon; Step Mon; Step Mon; Step Mon; Step Mon; Step Mon; Step Mon; Step Mon; Step Mon; Step Mon; Step Mon; Step Mon; Step Mon; Step Mon; Step Mon; Step Mon; Step Mon; Step Mon; Step Mon].
Definition w_iteration_locked : list label :=
  [Step Mon; Step Mon; Step Mon; Arrive 1%nat; Step (Reg 1%nat); Step (Reg 1%nat); Step Mon; Step (Reg 1%nat); Step Mon; Step Mon; Step Mon; Step Mon; Step (Reg 1%nat); Step (Reg 1%nat); Step (Reg 1%nat); Step (Reg 1%nat); Die 1%nat; CloseCall; Step Closer; Step Closer; Step Closer; Step Closer; Step Mon; Step Mon; Step Mon; Step Mon; Step Mon; Step Mon; Step Mon; Step Mon; Step Mon; Step Mon; Step Mon; Step Mon; Step Mon; Step Mon; Step Mon; Step Mon; Step Mon; Step Mon; Step Mon; Step Mon].
Definition w_lost_update_locked : list label :=
  [Arrive 1%nat; Step (Reg 1%nat); Step (Reg 1%nat); Step (Reg 1%nat); Step (Reg 1%nat); Die 1%nat; Step Mon; Step Mon; Step Mon; Step Mon; Step Mon; Step Mon; Step Mon; Step Mon; Arrive 2%nat; Step (Reg 2%nat); Step (Reg 2%nat); Step Mon; Step (Reg 2%nat); Step Mon; Step (Reg 2%nat); Step (Reg 2%nat); Step (Reg 2%nat); Step (Reg 2%nat); Die 2%nat; CloseCall; Step Closer; Step Closer; Step Closer; Step Closer; Step Mon; Step Mon; Step Mon; Step Mon; Step Mon; Step Mon; Step Mon; Step Mon; Step Mon; Step Mon; Step Mon; Step Mon; Step Mon; Step Mon; Step Mon; Step Mon; Step Mon; Step Mon; Step Mon; Step Mon; Step Mon].
Definition w_exit_race_locked : list label :=
  [Step Mon; Step Mon; Step Mon; Step Mon; Step Mon; Step Mon; Step Mon; Step Mon; Step Mon; Step Mon; Step Mon; Arrive 1%nat; Step (Reg 1%nat); Step Mon; Step (Reg 1%nat); Step Mon; Step (Reg 1%nat); Step (Reg 1%nat); Step (Reg 1%nat); Step (Reg 1%nat); CloseCall; Step Closer; Step Closer; Step Closer; Die 1%nat; Step Closer; Step Mon; Step Mon; Step Mon; Step Mon; Step Mon; Step Mon; Step Mon; Step Mon; Step Mon; Step Mon; Step Mon; Step Mon; Step Mon; Step Mon; Step Mon; Step Mon].


Definition blocked_steps (ls : list label) : nat :=
  length (filter (fun lo => match lo with (Step _, ODisabled) => true | _ => false end) (history nobody ls)).

Lemma example_former_witnesses :
  (close_results nobody w_iteration = [None] /\ registered_before_close nobody w_iteration = [1]
   /\ called nobody w_iteration = [1] /\ monitor_exits nobody w_iteration = [None])
  /\ (close_results nobody w_lost_update = [None] /\ registered_before_close nobody w_lost_update = [2; 1]
      /\ called nobody w_lost_update = [2; 1])
  /\ (close_results nobody w_exit_race = [None] /\ registered nobody w_exit_race = [1]
      /\ called nobody w_exit_race = [1]).
Proof. vm_compute. intuition. Qed.

Lemma example_locked :
  (close_results nobody w_iteration_locked = [None] /\ called nobody w_iteration_locked = [1]
   /\ blocked_steps w_iteration_locked = 3)
  /\ (close_results nobody w_lost_update_locked = [None] /\ called nobody w_lost_update_locked = [2; 1]
      /\ blocked_steps w_lost_update_locked = 3)
  /\ (close_results nobody w_exit_race_locked = [None] /\ called nobody w_exit_race_locked = [1]
      /\ registered_before_close nobody w_exit_race_locked = [1] /\ blocked_steps w_exit_race_locked = 2).
Proof. vm_compute. intuition. Qed.

(** a raising callback: close() re-raises it *)
Lemma example_raises :
  close_results only1 w_lost_update = [Some (ExCb 1)] /\ first_raised only1 w_lost_update = Some (ExCb 1)
  /\ called only1 w_lost_update = [2; 1] /\ ended only1 w_lost_update = [2; 1].
Proof. vm_compute. intuition. Qed.
