(** The C18 statements about the model, in terms of the observable history. *)
From NL Require Import DoneCb.Model DoneCb.Safety DoneCb.Inv DoneCb.Partial.
From Coq Require Import Lia.

Section Main.
Variable raises : nat -> bool.

(** ---- what a history shows (functions of the history alone, see Inv.ghost_of) *)
Definition called (ls : list label) : list nat := g_cl (ghost_of (history raises ls)).
Definition registered (ls : list label) : list nat := g_rg (ghost_of (history raises ls)).
Definition ended (ls : list label) : list nat := g_dd (ghost_of (history raises ls)).
Definition close_results (ls : list label) : list (option exn) := g_cr (ghost_of (history raises ls)).
Definition monitor_exits (ls : list label) : list (option exn) := g_mx (ghost_of (history raises ls)).
Definition first_raised (ls : list label) : option exn := hd_error (map ExCb (g_rz (ghost_of (history raises ls)))).

(** safety, every schedule: at most once, only registered threads, only after the thread ended.
    (The statement holds for every schedule, hence for the prefix that ends with the
    callback: the [Die t] label precedes the step that invokes the callback.) *)
Theorem thread_at_most_once ls :
  NoDup (called ls) /\ forall t, In t (called ls) -> In t (ended ls) /\ In t (registered ls).
Proof.
  pose proof (Inv_run raises ls) as I. split; [apply (i_cl_nodup _ _ I)|].
  intros t H. apply (i_dead _ _ I). apply (i_cl_dead _ _ I). exact H.
Qed.

(** every schedule: close() returns only after the monitor thread ended, with the monitor's exception *)
Theorem close_after_monitor ls e : In e (close_results ls) -> In e (monitor_exits ls).
Proof.
  pose proof (Inv_run raises ls) as I. intros H.
  apply (i_mx_rev _ _ I). apply (i_cdone _ _ I). apply (i_cr _ _ I). exact H.
Qed.

(** every schedule: the monitor ends either by the iteration error or with the first callback exception *)
Theorem monitor_exit_kinds ls e :
  In e (monitor_exits ls) -> e = Some ExSetChanged \/ e = first_raised ls.
Proof.
  pose proof (Inv_run raises ls) as I. intros H. apply (i_exit _ _ I). apply (i_mx _ _ I). exact H.
Qed.

(** under no_overlap: when close() returns, every registered thread has ended and has been
    called back exactly once; and close() re-raises exactly the first callback exception *)
Theorem thread_partial ls e :
  no_overlap raises ls = true -> In e (close_results ls) ->
  (forall t, In t (registered ls) -> count_occ Nat.eq_dec (called ls) t = 1 /\ In t (ended ls))
  /\ e = first_raised ls.
Proof.
  intros Hno Hc. pose proof (Inv_run raises ls) as I. pose proof (PInv_run raises ls Hno) as P.
  assert (Hx : m_pc (run raises ls) = MExited e).
  { apply (i_cdone _ _ I). apply (i_cr _ _ I). exact Hc. }
  destruct (p_exit _ _ P e Hx) as (He & Hall). split; [|exact He].
  intros t Hr. specialize (Hall t Hr). split.
  - apply NoDup_count_occ'; [apply (i_cl_nodup _ _ I)|exact Hall].
  - apply (i_dead _ _ I). apply (i_cl_dead _ _ I). exact Hall.
Qed.

Corollary close_waits_partial ls e :
  no_overlap raises ls = true -> In e (close_results ls) ->
  forall t, In t (registered ls) -> In t (called ls) /\ In t (ended ls).
Proof.
  intros Hno Hc t Hr. destruct (thread_partial ls e Hno Hc) as (H & _). destruct (H t Hr) as (Hc1 & Hd).
  split; [|exact Hd]. apply (count_occ_In Nat.eq_dec). lia.
Qed.

Corollary exception_reraised_partial ls e :
  no_overlap raises ls = true -> In e (close_results ls) -> e = first_raised ls.
Proof. intros Hno Hc. apply (thread_partial ls e Hno Hc). Qed.

(** under no_overlap the monitor never dies of the iteration error *)
Theorem no_iteration_error_partial ls e :
  no_overlap raises ls = true -> In e (monitor_exits ls) -> e = first_raised ls.
Proof.
  intros Hno H. pose proof (Inv_run raises ls) as I. pose proof (PInv_run raises ls Hno) as P.
  destruct (p_exit _ _ P e (i_mx _ _ I e H)) as (He & _). exact He.
Qed.

End Main.

(** ---- concrete schedules *)
Definition R (t : nat) := Step (Reg t).
Definition drain_close : list label := [CloseCall; Step Closer; Step Closer; Step Closer; Step Closer].

(** (a) lost update: thread 1 registered and ended; the monitor scans, calls back, computes
    `self._active - done`; thread 2 registers (the add goes to the OLD set object); the monitor
    stores the new set. *)
Definition w_lost_update : list label :=
  [Arrive 1; R 1; R 1; Die 1] ++ repeat (Step Mon) 8 ++ [Arrive 2; R 2; R 2; Step Mon; Die 2]
  ++ drain_close ++ repeat (Step Mon) 3.

(** (b) set changed size during iteration: thread 1 adds itself between GET_ITER and FOR_ITER *)
Definition w_iteration : list label :=
  [Step Mon; Step Mon; Arrive 1; R 1; R 1; Step Mon; Die 1] ++ drain_close.

(** (c) exit race: the monitor saw the set empty; thread 1 registers; close() sets _closed;
    the monitor reads _closed and leaves *)
Definition w_exit_race : list label :=
  repeat (Step Mon) 5 ++ [Arrive 1; R 1; R 1; CloseCall; Step Closer; Step Closer; Step Closer; Step Mon; Die 1; Step Closer].

(** (d) a callback exception is lost when the monitor later dies of the iteration error *)
Definition w_exception_lost : list label :=
  [Arrive 1; R 1; R 1; Die 1] ++ repeat (Step Mon) 14 ++ [Arrive 2; R 2; R 2; Step Mon; Die 2] ++ drain_close.

(** a run with two threads whose registrations interleave with the monitor but never overlap
    a critical window; the callback for thread 1 raises *)
Definition ex_ok : list label :=
  [Step Mon; Arrive 1; R 1; R 1] ++ repeat (Step Mon) 4 ++ [Arrive 2; R 2; Step Mon; R 2; Step Mon; Die 1]
  ++ repeat (Step Mon) 9 ++ [Die 2] ++ repeat (Step Mon) 16 ++ drain_close ++ repeat (Step Mon) 6.

Definition nobody : nat -> bool := fun _ => false.
Definition only1 : nat -> bool := fun t => t =? 1.

(** The full-strength statement of the thread half (FALSE of the faithful model, see below):
    whenever close() has returned, every registered thread has ended and was called back
    exactly once, and close() re-raised exactly the first callback exception. *)
Definition thread_statement : Prop :=
  forall raises ls e, In e (close_results raises ls) ->
    (forall t, In t (registered raises ls) ->
       count_occ Nat.eq_dec (called raises ls) t = 1 /\ In t (ended raises ls))
    /\ e = first_raised raises ls.

Lemma refuted_lost_update :
  exists ls, In None (close_results nobody ls) /\ In 2 (registered nobody ls) /\ In 2 (ended nobody ls)
             /\ count_occ Nat.eq_dec (called nobody ls) 2 = 0
             /\ obj (heap (run nobody ls)) (active (run nobody ls)) = [].
Proof. exists w_lost_update. vm_compute. intuition. Qed.

Lemma refuted_iteration :
  exists ls, close_results nobody ls = [Some ExSetChanged] /\ In 1 (registered nobody ls) /\ In 1 (ended nobody ls)
             /\ count_occ Nat.eq_dec (called nobody ls) 1 = 0 /\ first_raised nobody ls = None.
Proof. exists w_iteration. vm_compute. intuition. Qed.

Lemma refuted_exit_race :
  exists ls, In None (close_results nobody ls) /\ In 1 (registered nobody ls)
             /\ count_occ Nat.eq_dec (called nobody ls) 1 = 0
             /\ obj (heap (run nobody ls)) (active (run nobody ls)) = [1].
Proof. exists w_exit_race. vm_compute. intuition. Qed.

Lemma refuted_exception_lost :
  exists ls, close_results only1 ls = [Some ExSetChanged] /\ first_raised only1 ls = Some (ExCb 1).
Proof. exists w_exception_lost. vm_compute. intuition. Qed.

Lemma thread_statement_false : ~ thread_statement.
Proof.
  intros H. destruct (H nobody w_lost_update None) as (H1 & _); [vm_compute; tauto|].
  destruct (H1 2) as (H2 & _); [vm_compute; tauto|]. vm_compute in H2. discriminate.
Qed.

Lemma example_nonvacuous :
  no_overlap only1 ex_ok = true /\ registered only1 ex_ok = [2; 1] /\ called only1 ex_ok = [2; 1]
  /\ close_results only1 ex_ok = [Some (ExCb 1)] /\ first_raised only1 ex_ok = Some (ExCb 1)
  /\ no_overlap nobody w_lost_update = false /\ no_overlap nobody w_iteration = false
  /\ no_overlap nobody w_exit_race = false.
Proof. vm_compute. intuition. Qed.
