(** C18 tie, asyncio-task half -- semantics of the regenerated method bodies
    (Gen/TaskDoneFuns.v, syntax DoneCb/TaskSyntax.v) and a driver over the SAME operations as the
    hand-written model DoneCb/Task.v ([TReg t], [TComplete t], [TClose]).  Definitions only; the
    obligations are in DoneCb/TaskTie.v.

    What is interpreted and what is primitive:
    * the methods of TaskDoneCallback, ThreadTaskDoneCallback, ExcThread and the function
      current_task_or_thread are looked up BY NAME in the regenerated tables and their bodies are
      executed ([exec]); a call creates a frame (callee object, locals);
    * `time.sleep(..)` SUSPENDS the running call: [exec] returns [QSuspend k] where [k] is the rest
      of the computation (frames included).  The driver resumes it after every operation, which is
      when the real `while self._active: sleep(interval)` can observe a change;
    * asyncio is primitive: `add_done_callback` appends to the task's callback list (or, for a task
      that has ended, to the loop's call_soon queue); when a task ends all its callbacks move to
      the call_soon queue; the queue is run after the operation; a callback's exception goes to
      the loop's exception handler (= is dropped);
    * `done(task t)` logs [ICb t (raises t)] and raises [PXCb t] when [raises t];
    * the ThreadDoneCallback inside the union is primitive (register records the thread, close
      sets a flag, logs [IThrClose] and ends as [thr_exc] says); so is threading.Thread (super()
      of ExcThread). *)
From NL Require Export DoneCb.Task DoneCb.TaskSyntax Gen.TaskDoneFuns.

Inductive curctx :=
| NoLoop              (* no running event loop in the calling thread *)
| LoopNoTask          (* a running loop, but no current task (a plain callback) *)
| InTask (t : nat).   (* inside task t *)

Inductive iev :=
| ICb (t : nat) (raised : bool)      (* `done(task t)` was invoked *)
| ICloseRet (e : option pexn)        (* the close method returned / raised e *)
| IThrClose.                         (* the thread helper's close() was invoked *)

Record istate := mkI {
  i_active : list nat;               (* TaskDoneCallback._active *)
  i_excs : list pexn;                (* TaskDoneCallback._exceptions *)
  i_cbs : list (nat * pval);         (* asyncio: done-callbacks of the tasks that have not ended, oldest first *)
  i_soon : list (pval * nat);        (* asyncio: call_soon queue: (callback, its task argument) *)
  i_finished : list nat;             (* asyncio: tasks that have ended *)
  i_thr_reg : list nat;              (* the thread helper: registered threads, oldest first *)
  i_thr_closed : bool;               (* the thread helper: close() was invoked *)
  i_exc : option pexn;               (* ExcThread.exc *)
  i_log : list iev
}.

Definition iinit : istate := mkI [] [] [] [] [] [] false None [].

Definition with_active st a := mkI a (i_excs st) (i_cbs st) (i_soon st) (i_finished st) (i_thr_reg st) (i_thr_closed st) (i_exc st) (i_log st).
Definition with_excs st a := mkI (i_active st) a (i_cbs st) (i_soon st) (i_finished st) (i_thr_reg st) (i_thr_closed st) (i_exc st) (i_log st).
Definition with_cbs st a := mkI (i_active st) (i_excs st) a (i_soon st) (i_finished st) (i_thr_reg st) (i_thr_closed st) (i_exc st) (i_log st).
Definition with_soon st a := mkI (i_active st) (i_excs st) (i_cbs st) a (i_finished st) (i_thr_reg st) (i_thr_closed st) (i_exc st) (i_log st).
Definition with_finished st a := mkI (i_active st) (i_excs st) (i_cbs st) (i_soon st) a (i_thr_reg st) (i_thr_closed st) (i_exc st) (i_log st).
Definition with_thr st r c := mkI (i_active st) (i_excs st) (i_cbs st) (i_soon st) (i_finished st) r c (i_exc st) (i_log st).
Definition with_exc st a := mkI (i_active st) (i_excs st) (i_cbs st) (i_soon st) (i_finished st) (i_thr_reg st) (i_thr_closed st) a (i_log st).
Definition with_log st a := mkI (i_active st) (i_excs st) (i_cbs st) (i_soon st) (i_finished st) (i_thr_reg st) (i_thr_closed st) (i_exc st) a.
Definition add_log st e := with_log st (i_log st ++ [e]).

Notation locals := (list (string * pval)).

Inductive outcome :=
| QNormal
| QReturn (v : pval)
| QRaise (x : pexn)
| QSuspend (k : stmt)      (* inside a sleep; [k] = what remains to be done *)
| QStuck.                  (* a construct used outside its domain / out of fuel: never reached (TaskTie.v) *)

Inductive eres := EV (v : pval) | EX (x : pexn) | EStuck.

Fixpoint assoc {A} (k : string) (l : list (string * A)) : option A :=
  match l with
  | [] => None
  | (k', v) :: r => if String.eqb k k' then Some v else assoc k r
  end.

Fixpoint set_local (x : string) (v : pval) (l : locals) : locals :=
  match l with
  | [] => [(x, v)]
  | (y, w) :: r => if String.eqb x y then (x, v) :: r else (y, w) :: set_local x v r
  end.

(** the regenerated program: method tables by object *)
Definition prog (o : pobj) (m : string) : option meth :=
  match o with
  | ObTask => assoc m task_methods
  | ObUnion => assoc m union_methods
  | ObExcThread => assoc m excthread_methods
  | ObAio => assoc m aio_methods
  | _ => None
  end.

Definition truthy (v : pval) : option bool :=
  match v with
  | PVNone => Some false
  | PVBool b => Some b
  | PVSet l => Some (match l with [] => false | _ => true end)
  | PVExns l => Some (match l with [] => false | _ => true end)
  | PVOpaque => None
  | _ => Some true
  end.

(** identity *)
Definition pis (a b : pval) : option bool :=
  match a, b with
  | PVNone, PVNone => Some true
  | PVNone, _ => Some false
  | _, PVNone => Some false
  | PVTask x, PVTask y => Some (x =? y)
  | PVThread x, PVThread y => Some (x =? y)
  | PVTask _, PVThread _ => Some false
  | PVThread _, PVTask _ => Some false
  | _, _ => None
  end.

Definition cls_matches (c : pcls) (x : pexn) : bool :=
  match c, x with
  | CBaseException, _ => true
  | CRuntimeError, PXRuntime => true
  | CKeyError, PXKeyError => true
  | _, _ => false
  end.

Definition eval_default (e : expr) : option pval :=
  match e with ENone => Some PVNone | EOpaque => Some PVOpaque | _ => None end.

Fixpoint bind_params (ps : list (string * option expr)) (pos : list pval) (kw : list (string * pval)) : option locals :=
  match ps with
  | [] => match pos with [] => Some [] | _ => None end
  | (p, d) :: ps' =>
      match pos with
      | v :: pos' =>
          match assoc p kw with
          | Some _ => None
          | None => option_map (cons (p, v)) (bind_params ps' pos' kw)
          end
      | [] =>
          match assoc p kw with
          | Some v => option_map (cons (p, v)) (bind_params ps' [] kw)
          | None =>
              match d with
              | Some e => match eval_default e with
                          | Some v => option_map (cons (p, v)) (bind_params ps' [] kw)
                          | None => None
                          end
              | None => None
              end
          end
      end
  end.

Definition bind_args (ps : list (string * option expr)) (pos : list pval) (kw : list (string * pval)) : option locals :=
  if forallb (fun kv => existsb (String.eqb (fst kv)) (map fst ps)) kw then bind_params ps pos kw else None.

Definition set_ret (ret : option string) (v : pval) (l : locals) : locals :=
  match ret with Some x => set_local x v l | None => l end.

(** what the caller sees of a callee *)
Definition finish_call (co : pobj) (ret : option string) (l : locals) (res : locals * istate * outcome)
  : locals * istate * outcome :=
  let '(cl, st, r) := res in
  match r with
  | QNormal => (set_ret ret PVNone l, st, QNormal)
  | QReturn v => (set_ret ret v l, st, QNormal)
  | QRaise x => (l, st, QRaise x)
  | QSuspend k => (l, st, QSuspend (SFrame co cl ret k))
  | QStuck => (l, st, QStuck)
  end.

Section Interp.
Variable raises : nat -> bool.          (* which tasks' `done` raises *)
Variable has_done : bool.               (* a `done` was given *)
Variable cur : curctx.                  (* who is calling *)
Variable cur_thread : nat.
Variable thr_exc : option pexn.         (* how the thread helper's close() ends *)
Variable target_exc : option pexn.      (* how threading.Thread.run (the target) ends *)

Definition get_attr (st : istate) (o : pobj) (f : field) : option pval :=
  match o, f with
  | ObTask, FActive => Some (PVSet (i_active st))
  | ObTask, FExceptions => Some (PVExns (i_excs st))
  | ObTask, FDone => Some (if has_done then PVDone else PVNone)
  | ObUnion, FTaskCb => Some (PVObj ObTask)
  | ObUnion, FThreadCb => Some (PVObj ObThreadHelper)
  | ObExcThread, FExc => Some (match i_exc st with Some x => PVExn x | None => PVNone end)
  | _, _ => None
  end.

Definition ebind (r : eres) (f : pval -> eres) : eres :=
  match r with EV v => f v | _ => r end.

Definition of_obool (b : option bool) : eres :=
  match b with Some b => EV (PVBool b) | None => EStuck end.

Definition pin (x s : pval) : option bool :=
  match s, x with
  | PVSet l, PVTask t => Some (mem t l)
  | PVSet l, PVThread _ => Some false
  | _, _ => None
  end.

Definition pindex (a : pval) (i : Z) : eres :=
  match a with
  | PVExns xs =>
      match (if (0 <=? i)%Z then nth_error xs (Z.to_nat i) else nth_error (rev xs) (Z.to_nat (- i - 1))) with
      | Some x => EV (PVExn x)
      | None => EX PXIndexError
      end
  | _ => EStuck
  end.

Fixpoint eval (o : pobj) (l : locals) (st : istate) (e : expr) : eres :=
  match e with
  | ENone => EV PVNone
  | EOpaque => EV PVOpaque
  | EVar x => match assoc x l with Some v => EV v | None => EStuck end
  | ESelf => EV (PVObj o)
  | EAttr a f =>
      ebind (eval o l st a) (fun v =>
        match v with
        | PVObj o' => match get_attr st o' f with Some w => EV w | None => EStuck end
        | _ => EStuck
        end)
  | EMeth a m =>
      ebind (eval o l st a) (fun v => match v with PVObj o' => EV (PVMeth o' m) | _ => EStuck end)
  | EFun m => EV (PVMeth ObAio m)
  | ESuper m => match o with ObExcThread => EV (PVMeth ObThreadBase m) | _ => EStuck end
  | ECurrentTask =>
      match cur with NoLoop => EX PXRuntime | LoopNoTask => EV PVNone | InTask t => EV (PVTask t) end
  | ECurrentThread => EV (PVThread cur_thread)
  | EIs a b => ebind (eval o l st a) (fun x => ebind (eval o l st b) (fun y => of_obool (pis x y)))
  | EIsNot a b => ebind (eval o l st a) (fun x => ebind (eval o l st b) (fun y => of_obool (option_map negb (pis x y))))
  | EIn a b => ebind (eval o l st a) (fun x => ebind (eval o l st b) (fun y => of_obool (pin x y)))
  | ENotIn a b => ebind (eval o l st a) (fun x => ebind (eval o l st b) (fun y => of_obool (option_map negb (pin x y))))
  | ENot a => ebind (eval o l st a) (fun x => of_obool (option_map negb (truthy x)))
  | EAnd a b =>
      ebind (eval o l st a) (fun x =>
        match truthy x with Some true => eval o l st b | Some false => EV x | None => EStuck end)
  | EOr a b =>
      ebind (eval o l st a) (fun x =>
        match truthy x with Some true => EV x | Some false => eval o l st b | None => EStuck end)
  | EIndex a i => ebind (eval o l st a) (fun x => pindex x i)
  | EIsTask a =>
      ebind (eval o l st a) (fun x =>
        match x with PVTask _ => EV (PVBool true) | PVThread _ => EV (PVBool false) | _ => EStuck end)
  | ENewRuntimeError => EV (PVExn PXRuntime)
  | ENewSet | ENewList | ENew _ _ => EStuck          (* only in __init__ *)
  end.

Fixpoint eval_args (o : pobj) (l : locals) (st : istate) (args : list (option string * expr))
  : option (list pval * list (string * pval)) :=
  match args with
  | [] => Some ([], [])
  | (k, e) :: r =>
      match eval o l st e, eval_args o l st r with
      | EV v, Some (pos, kw) =>
          match k with
          | None => Some (v :: pos, kw)
          | Some x => Some (pos, (x, v) :: kw)
          end
      | _, _ => None
      end
  end.

(** the primitive callees *)
Definition prim (fv : pval) (pos : list pval) (kw : list (string * pval)) (st : istate)
  : option (istate * outcome) :=
  match fv with
  | PVDone =>
      match pos, kw with
      | [PVTask t], [] =>
          Some (add_log st (ICb t (raises t)), if raises t then QRaise (PXCb t) else QReturn PVNone)
      | _, _ => None
      end
  | PVMeth ObThreadHelper m =>
      if String.eqb m "register"%string then
        match pos, kw with
        | [PVThread u], [] => Some (with_thr st (i_thr_reg st ++ [u]) (i_thr_closed st), QReturn (PVThread u))
        | [PVNone], [] | [], [] =>
            Some (with_thr st (i_thr_reg st ++ [cur_thread]) (i_thr_closed st), QReturn (PVThread cur_thread))
        | _, _ => None           (* a Task handed to the thread helper: outside its domain *)
        end
      else if String.eqb m "close"%string then
        match pos, kw with
        | [], [] =>
            Some (add_log (with_thr st (i_thr_reg st) true) IThrClose,
                  match thr_exc with Some x => QRaise x | None => QReturn PVNone end)
        | _, _ => None
        end
      else None
  | PVMeth ObThreadBase m =>
      if String.eqb m "run"%string then
        Some (st, match target_exc with Some x => QRaise x | None => QReturn PVNone end)
      else if String.eqb m "join"%string then Some (st, QReturn PVNone)
      else None
  | _ => None
  end.

Definition stuck (l : locals) (st : istate) : locals * istate * outcome := (l, st, QStuck).

Fixpoint exec (n : nat) (o : pobj) (s : stmt) (l : locals) (st : istate) {struct n}
  : locals * istate * outcome :=
  match n with
  | 0 => stuck l st
  | S n' =>
    match s with
    | SSkip => (l, st, QNormal)
    | SSeq a b =>
        let '(l1, st1, r) := exec n' o a l st in
        match r with
        | QNormal => exec n' o b l1 st1
        | QSuspend k => (l1, st1, QSuspend (SSeq k b))
        | _ => (l1, st1, r)
        end
    | SAssign x e =>
        match eval o l st e with
        | EV v => (set_local x v l, st, QNormal)
        | EX x' => (l, st, QRaise x')
        | EStuck => stuck l st
        end
    | SSetAttr f e =>
        match o, f, eval o l st e with
        | ObExcThread, FExc, EV PVNone => (l, with_exc st None, QNormal)
        | ObExcThread, FExc, EV (PVExn x) => (l, with_exc st (Some x), QNormal)
        | _, _, EX x => (l, st, QRaise x)
        | _, _, _ => stuck l st
        end
    | SCall ret mode f args =>
        match eval o l st f, eval_args o l st args with
        | EV fv, Some (pos, kw) =>
            match prim fv pos kw st with
            | Some (st1, r) => finish_call ObDriver ret l ([], st1, r)
            | None =>
                match fv with
                | PVMeth co m =>
                    match prog co m with
                    | Some me =>
                        match bind_args (m_params me) pos kw with
                        | Some cl => finish_call co ret l (exec n' co (m_body me) cl st)
                        | None => stuck l st
                        end
                    | None => stuck l st
                    end
                | _ => stuck l st
                end
            end
        | EX x, _ => (l, st, QRaise x)
        | _, _ => stuck l st
        end
    | SIf c a b =>
        match eval o l st c with
        | EV v =>
            match truthy v with
            | Some true => exec n' o a l st
            | Some false => exec n' o b l st
            | None => stuck l st
            end
        | EX x => (l, st, QRaise x)
        | EStuck => stuck l st
        end
    | SWhile c b =>
        match eval o l st c with
        | EV v =>
            match truthy v with
            | Some true =>
                let '(l1, st1, r) := exec n' o b l st in
                match r with
                | QNormal => exec n' o (SWhile c b) l1 st1
                | QSuspend k => (l1, st1, QSuspend (SSeq k (SWhile c b)))
                | _ => (l1, st1, r)
                end
            | Some false => (l, st, QNormal)
            | None => stuck l st
            end
        | EX x => (l, st, QRaise x)
        | EStuck => stuck l st
        end
    | SRaise e =>
        match eval o l st e with
        | EV (PVExn x) => (l, st, QRaise x)
        | EX x => (l, st, QRaise x)
        | _ => stuck l st
        end
    | SReturn e =>
        match eval o l st e with
        | EV v => (l, st, QReturn v)
        | EX x => (l, st, QRaise x)
        | EStuck => stuck l st
        end
    | STry b cls x h =>
        let '(l1, st1, r) := exec n' o b l st in
        match r with
        | QRaise e =>
            if cls_matches cls e
            then exec n' o h (match x with Some y => set_local y (PVExn e) l1 | None => l1 end) st1
            else (l1, st1, r)
        | QSuspend k => (l1, st1, QSuspend (STry k cls x h))
        | _ => (l1, st1, r)
        end
    | SFinally b f =>
        let '(l1, st1, r) := exec n' o b l st in
        match r with
        | QSuspend k => (l1, st1, QSuspend (SFinally k f))
        | QStuck => (l1, st1, QStuck)
        | QNormal => exec n' o (SAfter f PNormal) l1 st1
        | QReturn v => exec n' o (SAfter f (PReturn v)) l1 st1
        | QRaise x => exec n' o (SAfter f (PRaise x)) l1 st1
        end
    | SAfter k p =>
        let '(l1, st1, r) := exec n' o k l st in
        match r with
        | QNormal =>
            (l1, st1, match p with PNormal => QNormal | PReturn v => QReturn v | PRaise x => QRaise x end)
        | QSuspend k' => (l1, st1, QSuspend (SAfter k' p))
        | _ => (l1, st1, r)          (* a raise / return of the finally body replaces the pending outcome *)
        end
    | SSetAdd f e =>
        match o, f, eval o l st e with
        | ObTask, FActive, EV (PVTask t) => (l, with_active st (ins t (i_active st)), QNormal)
        | _, _, _ => stuck l st
        end
    | SSetRemove f e =>
        match o, f, eval o l st e with
        | ObTask, FActive, EV (PVTask t) =>
            if mem t (i_active st) then (l, with_active st (Task.remove t (i_active st)), QNormal)
            else (l, st, QRaise PXKeyError)
        | _, _, _ => stuck l st
        end
    | SSetDiscard f e =>
        match o, f, eval o l st e with
        | ObTask, FActive, EV (PVTask t) => (l, with_active st (Task.remove t (i_active st)), QNormal)
        | _, _, _ => stuck l st
        end
    | SAppend f e =>
        match o, f, eval o l st e with
        | ObTask, FExceptions, EV (PVExn x) => (l, with_excs st (i_excs st ++ [x]), QNormal)
        | _, _, _ => stuck l st
        end
    | SAddDoneCallback t f =>
        match eval o l st t, eval o l st f with
        | EV (PVTask t'), EV fv =>
            if mem t' (i_finished st)
            then (l, with_soon st (i_soon st ++ [(fv, t')]), QNormal)      (* Future.add_done_callback: call_soon *)
            else (l, with_cbs st (i_cbs st ++ [(t', fv)]), QNormal)
        | _, _ => stuck l st
        end
    | SSleep => (l, st, QSuspend SSkip)
    | SFrame co cl ret k => finish_call co ret l (exec n' co k cl st)
    end
  end.

(** ---- the driver *)
Definition FUEL : nat := 40.

(** call the value [fv] with (at most four) positional arguments *)
Definition arg_names : list string := ["a0"; "a1"; "a2"; "a3"]%string.
Definition invoke (fv : pval) (args : list pval) (st : istate) : istate * outcome :=
  let names := firstn (List.length args) arg_names in
  let '(_, st', r) :=
    exec FUEL ObDriver (SCall None CallPlain (EVar "f"%string) (map (fun x => (None, EVar x)) names))
         (("f"%string, fv) :: combine names args) st in
  (st', r).

(** continue a suspended call *)
Definition resume (k : stmt) (st : istate) : istate * outcome :=
  let '(_, st', r) := exec FUEL ObDriver k [] st in (st', r).

(** the loop runs its call_soon queue; a callback's exception goes to the loop's exception handler *)
Fixpoint run_soon (q : list (pval * nat)) (st : istate) : option istate :=
  match q with
  | [] => Some st
  | (f, t) :: r =>
      match invoke f [PVTask t] st with
      | (st1, QNormal) => run_soon r st1
      | (st1, QRaise _) => run_soon r st1
      | _ => None
      end
  end.

Definition drain (st : istate) : option istate := run_soon (i_soon st) (with_soon st []).

Definition cbs_for (t : nat) (cbs : list (nat * pval)) : list pval :=
  map snd (filter (fun c => fst c =? t) cbs).
Definition cbs_without (t : nat) (cbs : list (nat * pval)) : list (nat * pval) :=
  filter (fun c => negb (fst c =? t)) cbs.

(** task t ends: Task.__schedule_callbacks *)
Definition complete (t : nat) (st : istate) : istate :=
  mkI (i_active st) (i_excs st) (cbs_without t (i_cbs st))
      (i_soon st ++ map (fun f => (f, t)) (cbs_for t (i_cbs st)))
      (ins t (i_finished st)) (i_thr_reg st) (i_thr_closed st) (i_exc st) (i_log st).

Inductive kstate :=
| KNo                 (* the close method has not been called *)
| KSusp (k : stmt)    (* it is inside a sleep *)
| KDone               (* it has returned / raised *)
| KStuck.

Definition settle (r : istate * outcome) : istate * kstate :=
  let '(st, q) := r in
  match q with
  | QSuspend k => (st, KSusp k)
  | QNormal | QReturn _ => (add_log st (ICloseRet None), KDone)
  | QRaise x => (add_log st (ICloseRet (Some x)), KDone)
  | QStuck => (st, KStuck)
  end.

(** [regf] / [closef]: the register and the close method under test (a bound method) *)
Section Driver.
Variable regf closef : pval.
Variable close_args : list pval.   (* [] for close / aclose, three None for __exit__ / __aexit__ *)

Definition op_part (st : istate) (k : kstate) (o : top) : option (istate * kstate) :=
  match o with
  | TReg t =>
      match invoke regf [PVTask t] st with
      | (st1, QNormal) => option_map (fun s => (s, k)) (drain st1)
      | _ => None
      end
  | TComplete t =>
      if mem t (i_finished st) then Some (st, k)
      else option_map (fun s => (s, k)) (drain (complete t st))
  | TClose =>
      match k with
      | KNo => Some (settle (invoke closef close_args st))
      | _ => Some (st, k)
      end
  end.

Definition istep (sk : istate * kstate) (o : top) : (istate * kstate) * list iev :=
  let '(st, k) := sk in
  match op_part st k o with
  | None => ((st, KStuck), [])
  | Some (st1, k1) =>
      let '(st2, k2) := match k1 with KSusp kk => settle (resume kk st1) | _ => (st1, k1) end in
      ((with_log st2 [], k2), i_log st2)
  end.

Fixpoint irun_from (sk : istate * kstate) (os : list top) : (istate * kstate) * list (list iev) :=
  match os with
  | [] => (sk, [])
  | o :: r => let '(sk', e) := istep sk o in let '(sk'', es) := irun_from sk' r in (sk'', e :: es)
  end.

Definition iouts (os : list top) : list (list iev) := snd (irun_from (iinit, KNo) os).
Definition irun (os : list top) : istate * kstate := fst (irun_from (iinit, KNo) os).

End Driver.
End Interp.
