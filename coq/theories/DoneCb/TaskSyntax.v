(** C18 tie, asyncio-task half -- the fragment of Python into which translate/taskdone_funs.py
    translates the methods of
      nextline/utils/done_callback/task.py   (TaskDoneCallback),
      nextline/utils/done_callback/union.py  (ThreadTaskDoneCallback),
      nextline/utils/thread_exception.py     (ExcThread) and
      nextline/utils/aio.py                  (current_task_or_thread only)
    (Gen/TaskDoneFuns.v, regenerated on every run).  Types only, stdlib only; the semantics is
    DoneCb/TaskInterp.v, the obligations against DoneCb/Task.v are in DoneCb/TaskTie.v. *)
From Coq Require Export List Bool Arith ZArith String.
Export ListNotations.

(** the objects (one instance of each class is enough: the helpers never touch another instance
    of their own class) *)
Inductive pobj :=
| ObTask            (* the TaskDoneCallback *)
| ObUnion           (* the ThreadTaskDoneCallback *)
| ObThreadHelper    (* the ThreadDoneCallback inside the union: PRIMITIVE (its own tie is the
                       bytecode skeleton Gen/DoneCbSkeleton.v + DoneCb/Model.v) *)
| ObExcThread       (* an ExcThread *)
| ObThreadBase      (* super() of ExcThread = threading.Thread: PRIMITIVE *)
| ObAio             (* module nextline.utils.aio (functions) *)
| ObDriver.         (* the caller: asyncio / the user *)

(** tracked attributes.  The translator finds them by what __init__ assigns (the parameter
    `done` / an empty set / an empty list / a ThreadDoneCallback / a TaskDoneCallback), not by name *)
Inductive field :=
| FDone | FActive | FExceptions       (* TaskDoneCallback *)
| FTaskCb | FThreadCb                 (* ThreadTaskDoneCallback *)
| FExc.                               (* ExcThread.exc *)

(** exceptions, by what raised them *)
Inductive pexn :=
| PXCb (t : nat)          (* whatever `done(task t)` raised *)
| PXRuntime               (* RuntimeError(...) *)
| PXKeyError              (* set.remove of an absent element *)
| PXIndexError            (* list index out of range *)
| PXOther (n : nat).      (* exceptions of the primitive parts: the thread helper's close(), a thread's target *)

(** classes an `except` clause may name (anything else: the translator refuses) *)
Inductive pcls := CBaseException | CRuntimeError | CKeyError.

Inductive pval :=
| PVNone
| PVBool (b : bool)
| PVTask (t : nat)
| PVThread (t : nat)
| PVExn (x : pexn)
| PVSet (l : list nat)              (* a set of tasks *)
| PVExns (l : list pexn)            (* a list of exceptions *)
| PVMeth (o : pobj) (m : string)    (* a bound method / a module function *)
| PVDone                            (* the user's `done` *)
| PVObj (o : pobj)
| PVOpaque.                         (* a number (interval, timeout) *)

(** what a `finally` body hands back to when it is done (run-time only) *)
Inductive pending := PNormal | PReturn (v : pval) | PRaise (x : pexn).

Inductive expr :=
| ENone
| EOpaque                              (* a numeric constant *)
| EVar (x : string)                    (* parameter / local *)
| ESelf
| EAttr (e : expr) (f : field)         (* e.<f> *)
| EMeth (e : expr) (m : string)        (* e.m  -- a bound method (callee, or passed as a value) *)
| EFun (m : string)                    (* a function of nextline.utils.aio *)
| ESuper (m : string)                  (* super().m *)
| ECurrentTask                         (* asyncio.current_task(): RuntimeError when no loop is running *)
| ECurrentThread                       (* threading.current_thread() *)
| EIs (a b : expr) | EIsNot (a b : expr)
| EIn (a b : expr) | ENotIn (a b : expr)
| ENot (a : expr)
| EAnd (a b : expr) | EOr (a b : expr) (* Python: the value of an operand *)
| EIndex (a : expr) (i : Z)            (* a[i], i a literal; negative = from the end *)
| EIsTask (a : expr)                   (* isinstance(a, asyncio.Task) *)
| ENewRuntimeError                     (* RuntimeError("...") *)
| ENewSet | ENewList                   (* set[...]() / list[...]() -- only in __init__ *)
| ENew (cls : string) (kw : list (string * expr)).   (* Cls(k=e, ...) -- only in __init__ *)

Inductive callmode :=
| CallPlain        (* f(args) *)
| CallAwait        (* await f(args) *)
| CallToThread.    (* await to_thread(f, args) *)

Inductive stmt :=
| SSkip
| SSeq (a b : stmt)
| SAssign (x : string) (e : expr)                       (* x = e *)
| SSetAttr (f : field) (e : expr)                       (* self.<f> = e *)
| SCall (ret : option string) (mode : callmode) (f : expr) (args : list (option string * expr))
                                                        (* [ret =] [await] f(a, k=b, ...) *)
| SIf (c : expr) (a b : stmt)
| SWhile (c : expr) (b : stmt)
| SRaise (e : expr)
| SReturn (e : expr)
| STry (b : stmt) (cls : pcls) (x : option string) (h : stmt)   (* try: b  except cls [as x]: h *)
| SFinally (b f : stmt)                                 (* try: b  finally: f   (try/except/finally =
                                                           SFinally (STry ..) f).  f runs on every exit of b;
                                                           a raise / return of f replaces the pending one *)
| SSetAdd (f : field) (e : expr)                        (* self.<f>.add(e) *)
| SSetRemove (f : field) (e : expr)                     (* self.<f>.remove(e)   -- KeyError *)
| SSetDiscard (f : field) (e : expr)                    (* self.<f>.discard(e) *)
| SAppend (f : field) (e : expr)                        (* self.<f>.append(e) *)
| SAddDoneCallback (t f : expr)                         (* t.add_done_callback(f) *)
| SSleep                                                (* time.sleep(..): the SUSPENSION POINT *)
(* run-time only (never emitted): a callee that was suspended inside a sleep -- its object, its
   locals, where the caller wants the result, the rest of its body *)
| SFrame (o : pobj) (l : list (string * pval)) (ret : option string) (k : stmt)
(* run-time only: the rest [k] of a `finally` body that was suspended, and what is pending after it *)
| SAfter (k : stmt) (p : pending).

Fixpoint seq (l : list stmt) : stmt :=
  match l with
  | [] => SSkip
  | [s] => s
  | s :: r => SSeq s (seq r)
  end.

(** a method: parameters (after self) with their defaults, and the body *)
Record meth := mkMeth { m_params : list (string * option expr); m_async : bool; m_body : stmt }.
