(** The progress statements of C18 in terms of runs and histories. *)
From NL Require Import DoneCb.Model DoneCb.Safety DoneCb.Inv DoneCb.Live DoneCb.Term DoneCb.Main.
From Coq Require Import Lia.

Section Progress.
Variable raises : nat -> bool.

(** (1) no deadlock, in every reachable state *)
Theorem no_deadlock ls w :
  let s := run raises ls in
  unfinished s w ->
    enabled raises s w
    \/ (at_acquire s w /\ exists h, lock s = Some h /\ h <> w /\ unfinished s h /\ enabled raises s h)
    \/ (w = Closer /\ closer s = CJoining /\ unfinished s Mon).
Proof. intros s. apply (no_deadlock_state raises _ s (Inv_run raises ls) (Inv2_run raises ls)). Qed.

Theorem no_deadlock_some ls :
  let s := run raises ls in
  (exists w, unfinished s w) ->
  exists w, unfinished s w /\ enabled raises s w /\ fst (step raises s (Step w)) <> s.
Proof.
  intros s H. destruct (some_enabled raises _ s (Inv_run raises ls) (Inv2_run raises ls) H) as (w & H1 & H2).
  exists w. split; [exact H1|]. split; [exact H2|]. apply enabled_changes. exact H2.
Qed.

(** Step labels do not change who was registered when close() was called *)
Lemma grun_app ls1 : forall g s ls2,
  grun_from raises g s (ls1 ++ ls2) =
  grun_from raises (fst (grun_from raises g s ls1)) (snd (grun_from raises g s ls1)) ls2.
Proof.
  induction ls1 as [|l r IH]; intros g s ls2; simpl; [reflexivity|].
  destruct (step raises s l) as [s' o]. apply IH.
Qed.

Lemma ev_ghost_rgc evs : forall g, g_rgc (fold_left ev_ghost evs g) = g_rgc g.
Proof.
  induction evs as [|e r IH]; intros g; simpl; [reflexivity|]. rewrite IH. destruct e; reflexivity.
Qed.

Lemma grun_steps_rgc ls' : steps_only ls' -> forall g s,
  g_rgc (fst (grun_from raises g s ls')) = g_rgc g.
Proof.
  induction ls' as [|l r IH]; intros Hs g s; simpl; [reflexivity|].
  destruct (Hs l (or_introl eq_refl)) as [w ->].
  destruct (step raises s (Step w)) as [s' o]. rewrite IH by (intros x Hx; apply Hs; right; exact Hx).
  unfold g_step. rewrite ev_ghost_rgc. reflexivity.
Qed.

Lemma rgc_steps ls ls' : steps_only ls' ->
  registered_before_close raises (ls ++ ls') = registered_before_close raises ls.
Proof.
  intros Hs. unfold registered_before_close.
  pose proof (grun_spec raises (ls ++ ls')) as H1. pose proof (grun_spec raises ls) as H2.
  rewrite grun_app, H2 in H1. simpl in H1.
  pose proof (grun_steps_rgc ls' Hs (ghost_of (history raises ls)) (run raises ls)) as H3.
  rewrite H1 in H3. exact H3.
Qed.

(** (2) close() can always return: from every reachable state in which close() has been called
    and every thread that started has ended, some continuation of Step labels makes close()
    return; every thread registered before close() was called has then been called back
    exactly once *)
Theorem close_can_return ls :
  closer (run raises ls) <> CNone -> all_ended (run raises ls) ->
  exists ls', steps_only ls' /\ close_results raises (ls ++ ls') <> [] /\
    forall t, In t (registered_before_close raises ls) ->
      count_occ Nat.eq_dec (called raises (ls ++ ls')) t = 1 /\ In t (ended raises (ls ++ ls')).
Proof.
  intros Hc Hend. destruct (close_can_finish raises ls Hc Hend) as (ls' & Hs & e & He).
  exists ls'. split; [exact Hs|].
  assert (Hin : In e (close_results raises (ls ++ ls'))).
  { apply (j_cr _ _ (Inv2_run raises (ls ++ ls'))). exact He. }
  split; [intros E; rewrite E in Hin; destruct Hin|].
  intros t Ht. apply (thread_exactly_once raises (ls ++ ls') e Hin). rewrite rgc_steps by exact Hs. exact Ht.
Qed.

(** (3) and no scheduler can avoid it: once `_closed` is set, a continuation of Step labels has
    at most [mu] effective steps, and whenever nothing is enabled any more close() has returned *)
Lemma closer_kept ls' : steps_only ls' -> forall ls,
  closer (run raises ls) <> CNone -> closer (run raises (ls ++ ls')) <> CNone.
Proof.
  induction ls' as [|l r IH]; intros Hs ls Hc; [rewrite app_nil_r; exact Hc|].
  destruct (Hs l (or_introl eq_refl)) as [w ->]. rewrite <- run_app_snoc.
  apply IH; [intros x Hx; apply Hs; right; exact Hx|]. rewrite run_snoc. apply closer_not_reset. exact Hc.
Qed.

Theorem stuck_means_returned ls ls' :
  steps_only ls' -> closer (run raises ls) <> CNone ->
  (forall w, ~ enabled raises (run raises (ls ++ ls')) w) ->
  exists e, closer (run raises (ls ++ ls')) = CDone e.
Proof.
  intros Hs Hc Hstuck. pose proof (closer_kept ls' Hs ls Hc) as Hc'.
  destruct (closer (run raises (ls ++ ls'))) eqn:Ec; try (elim Hc'; reflexivity); eauto.
  all: exfalso; destruct (some_enabled raises _ _ (Inv_run raises (ls ++ ls')) (Inv2_run raises (ls ++ ls')))
         as (w & _ & Hen); [exists Closer; simpl; rewrite Ec; exact Logic.I|exact (Hstuck w Hen)].
Qed.

End Progress.

(** ---- example: the former lost-update schedule, cut where close() is called (both threads
    have ended) and where close() has set `_closed` and waits in join() *)
Definition pre_close : list label := firstn 25 w_lost_update.
Definition pre_closed : list label := firstn 29 w_lost_update.
Definition rest_closed : list label := skipn 29 w_lost_update.

Lemma all_ended_example : all_ended (run nobody pre_close) /\ all_ended (run nobody pre_closed).
Proof.
  split; intros t; destruct t as [|[|[|t]]]; vm_compute; auto.
Qed.

Lemma example_progress :
  closer (run nobody pre_close) = CLoad /\ closed (run nobody pre_close) = false
  /\ closer (run nobody pre_closed) = CJoining /\ closed (run nobody pre_closed) = true
  /\ mu (run nobody pre_closed) = 20
  /\ effective nobody (run nobody pre_closed) rest_closed = 19
  /\ pre_closed ++ rest_closed = w_lost_update
  /\ close_results nobody w_lost_update = [None]
  /\ unfinished (run nobody pre_closed) Closer /\ ~ enabled nobody (run nobody pre_closed) Closer
  /\ enabled nobody (run nobody pre_closed) Mon.
Proof.
  vm_compute. repeat split; try reflexivity; try exact Logic.I; try discriminate.
  intros H. apply H. reflexivity.
Qed.

Lemma steps_only_rest : steps_only rest_closed.
Proof.
  intros l H. vm_compute in H.
  repeat (destruct H as [<-|H]; [eauto|]). destruct H.
Qed.
