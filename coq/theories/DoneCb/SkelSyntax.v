(** C18 tie, thread half -- the fragment of Python into which translate/donecb_skeleton.py
    translates (with `ast`) the methods of nextline/utils/done_callback/thread.py
    (ThreadDoneCallback): __init__, register, close, _monitor, __enter__, __exit__.
    Types only, stdlib only.  The generated file Gen/DoneCbSkeleton.v contains the statement
    trees; DoneCb/SkelFacts.v interprets their leaves over the state of DoneCb/Model.v.

    Identifiers are NOT strings where the translator knows them: attributes of [self], the
    globals and the method names the code may use are constructors (anything else is kept as
    [GOther]/[NmOther] with its name, or refused by the translator); locals and parameters are
    numbered in order of first appearance ([self] excluded), so renaming a local leaves the
    generated term unchanged. *)
From Coq Require Export List Bool Arith ZArith String.
Export ListNotations.

(** attributes of [self] *)
Inductive sattr :=
| FActive | FClosed | FDone | FInterval | FLock | FThread
| FMonitor            (* the bound method self._monitor *)
| FClose.             (* the bound method self.close *)

(** module-level names *)
Inductive glob :=
| GCurrentThread | GRuntimeError | GBaseException | GTime | GSet | GLock | GExcThread
| GOther (s : string).

(** attribute / method names used on anything that is not [self] *)
Inductive mname :=
| NmIsAlive | NmAdd | NmJoin | NmStart | NmAppend | NmSleep
| NmOther (s : string).

Inductive binop := BSub | BOr | BAnd | BXor | BOtherOp (s : string).

Inductive pexpr :=
| PNone
| PBool (b : bool)
| PInt (z : Z)
| PFloat (s : string)               (* the source text of a float literal *)
| PStr                               (* a string literal (messages): content dropped *)
| PSelfObj                           (* self *)
| PLocal (x : nat)
| PGlobal (g : glob)
| PSelf (a : sattr)                  (* self.<a> *)
| PAttr (e : pexpr) (m : mname)      (* e.<m> *)
| PNot (e : pexpr)
| PAndE (a b : pexpr)                (* a and b (short circuit) *)
| POrE (a b : pexpr)                 (* a or b *)
| PIs (a b : pexpr) | PIsNot (a b : pexpr)
| PIn (a b : pexpr) | PNotIn (a b : pexpr)
| PBin (o : binop) (a b : pexpr)
| PCall (f : pexpr) (args : list pexpr) (kw : list (string * pexpr))
| PSetComp (elt : pexpr) (x : nat) (iter : pexpr) (conds : list pexpr)
| PListLit (es : list pexpr)
| PSetLit (es : list pexpr)
| PSubscr (e i : pexpr).

Inductive pstmt :=
| KAssign (x : nat) (e : pexpr)                  (* local = e *)
| KSetAttr (a : sattr) (e : pexpr)               (* self.<a> = e *)
| KExpr (e : pexpr)
| KIf (c : pexpr) (th el : list pstmt)
| KWhile (c : pexpr) (body : list pstmt)         (* no else clause *)
| KFor (x : nat) (it : pexpr) (body : list pstmt)
| KWith (e : pexpr) (body : list pstmt)          (* one item, no `as` *)
| KTry (body : list pstmt) (cls : pexpr) (x : nat) (handler : list pstmt)
                                                 (* one handler `except cls as x`, no else/finally *)
| KRaise (e : pexpr)
| KReturn (e : pexpr)
| KBreak
| KDel (xs : list nat).

(** a method: number of parameters after self, their defaults (None = no default), body *)
Record pmeth := mkMeth { pm_nparams : nat; pm_defaults : list (option pexpr); pm_body : list pstmt }.
