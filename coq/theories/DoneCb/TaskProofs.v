(** Theorems about the sequential model of TaskDoneCallback (DoneCb/Task.v):
    for EVERY operation sequence (= every completion order) in which no task
    is registered again after it has ended. *)
From NL Require Import DoneCb.Model DoneCb.Safety DoneCb.Task.
From Coq Require Import Lia.

(** ---- functions of the history *)
Definition tcb_of (e : tev) : list nat := match e with TCb t _ => [t] | _ => [] end.
Definition traised_of (e : tev) : list nat := match e with TCb t true => [t] | _ => [] end.
Definition tcalled (ess : list (list tev)) : list nat := flat_map tcb_of (concat ess).
Definition traised (ess : list (list tev)) : list nat := flat_map traised_of (concat ess).

(** no task is registered after it ended *)
Fixpoint twf_from (fin : list nat) (os : list top) : Prop :=
  match os with
  | [] => True
  | TReg t :: r => ~ In t fin /\ twf_from fin r
  | TComplete t :: r => twf_from (t :: fin) r
  | TClose :: r => twf_from fin r
  end.
Definition twf (os : list top) : Prop := twf_from [] os.

Lemma NoDup_app_snoc (l : list nat) x : NoDup l -> ~ In x l -> NoDup (l ++ [x]).
Proof.
  induction l as [|a l IH]; simpl; intros H N; [constructor; [tauto|constructor]|].
  inversion H; subst. constructor.
  - rewrite in_app_iff. simpl. intuition.
  - apply IH; tauto.
Qed.

Lemma In_remove x y l : In y (remove x l) <-> In y l /\ y <> x.
Proof.
  unfold remove. rewrite filter_In, negb_true_iff, Nat.eqb_neq. tauto.
Qed.

(** invariant: [rg]/[fin] = tasks registered / ended so far, [cl] = callbacks so far (oldest first),
    [rz] = raising callbacks so far *)
Record TInv (rg fin cl rz : list nat) (s : tstate) : Prop := {
  t_act : forall t, In t (t_active s) <-> In t rg /\ ~ In t fin;
  t_fin : forall t, In t (t_finished s) <-> In t fin;
  t_cl_nodup : NoDup cl;
  t_cl : forall t, In t cl <-> In t rg /\ In t fin;
  t_rz : t_excs s = rz
}.

Section T.
Variable raises : nat -> bool.

Definition trg (o : top) : list nat := match o with TReg t => [t] | _ => [] end.
Definition tfn (o : top) : list nat := match o with TComplete t => [t] | _ => [] end.

Lemma top_step_inv rg fin cl rz s o :
  TInv rg fin cl rz s ->
  (forall t, o = TReg t -> ~ In t fin) ->
  let '(s', evs) := top_step raises s o in
  TInv (trg o ++ rg) (tfn o ++ fin) (cl ++ flat_map tcb_of evs) (rz ++ flat_map traised_of evs) s'
  /\ t_closing s' = (match o, t_closing s with TClose, TCNo => TCWaiting | _, c => c end)
  /\ (forall t, In t (flat_map tcb_of evs) -> o = TComplete t).
Proof.
  intros I Hwf. destruct I. destruct o as [t|t|]; simpl.
  - (* TReg *)
    specialize (Hwf t eq_refl).
    destruct (mem t (t_active s)) eqn:Em.
    + apply mem_In in Em. simpl. rewrite !app_nil_r. split; [|split; [destruct (t_closing s); reflexivity|intros ? []]].
      constructor; simpl; auto.
      * intros x. rewrite t_act0. apply t_act0 in Em. intuition. subst. tauto.
      * intros x. rewrite t_cl0. intuition. subst. tauto.
    + destruct (mem t (t_finished s)) eqn:Ef.
      * apply mem_In in Ef. apply t_fin0 in Ef. tauto.
      * simpl. rewrite !app_nil_r. split; [|split; [destruct (t_closing s); reflexivity|intros ? []]].
        constructor; simpl; auto.
        -- intros x. rewrite In_ins, t_act0. intuition. subst. tauto.
        -- intros x. rewrite t_cl0. intuition. subst. tauto.
  - (* TComplete *)
    destruct (mem t (t_finished s)) eqn:Ef.
    + apply mem_In in Ef. apply t_fin0 in Ef. simpl. rewrite !app_nil_r.
      split; [|split; [destruct (t_closing s); reflexivity|intros ? []]].
      constructor; simpl; auto.
      * intros x. rewrite t_act0. intuition. subst. tauto.
      * intros x. rewrite t_fin0. intuition. subst. assumption.
      * intros x. rewrite t_cl0. intuition. subst. assumption.
    + assert (Hnf : ~ In t fin).
      { intros H. apply t_fin0 in H. apply mem_In in H. congruence. }
      destruct (mem t (t_active s)) eqn:Em.
      * apply mem_In in Em. pose proof Em as Em'. apply t_act0 in Em'. destruct Em' as (Hrg & _).
        unfold callback. simpl.
        split; [|split; [destruct (t_closing s); reflexivity|intros x [<-|[]]; reflexivity]].
        constructor; simpl.
        -- intros x. rewrite In_remove, t_act0. intuition.
        -- intros x. rewrite In_ins, t_fin0. intuition.
        -- apply NoDup_app_snoc; [assumption|]. rewrite t_cl0. tauto.
        -- intros x. rewrite in_app_iff, t_cl0. simpl. intuition; subst; tauto.
        -- destruct (raises t); simpl; [rewrite t_rz0; reflexivity|rewrite app_nil_r; assumption].
      * assert (Hnr : ~ In t rg).
        { intros H. assert (In t (t_active s)) by (apply t_act0; tauto). apply mem_In in H0. congruence. }
        simpl. rewrite !app_nil_r. split; [|split; [destruct (t_closing s); reflexivity|intros ? []]].
        constructor; simpl; auto.
        -- intros x. rewrite t_act0. intuition. subst. tauto.
        -- intros x. rewrite In_ins, t_fin0. intuition.
        -- intros x. rewrite t_cl0. intuition. subst. tauto.
  - (* TClose *)
    destruct (t_closing s) eqn:Ec; simpl; rewrite !app_nil_r;
      (split; [constructor; simpl; auto|split; [rewrite ?Ec; reflexivity|intros ? []]]).
Qed.

End T.

Section Run.
Variable raises : nat -> bool.

Lemma top_step_no_closeret s o e : ~ In (TCloseRet e) (snd (top_step raises s o)).
Proof.
  destruct o as [t|t|]; simpl.
  - destruct (mem t (t_active s)); [simpl; tauto|]. destruct (mem t (t_finished s)); simpl; [|tauto].
    intros [H|[]]. discriminate.
  - destruct (mem t (t_finished s)); [simpl; tauto|]. destruct (mem t (t_active s)); simpl; [|tauto].
    intros [H|[]]. discriminate.
  - destruct (t_closing s); simpl; tauto.
Qed.

Lemma flat_map_app {A B} (f : A -> list B) l1 l2 : flat_map f (l1 ++ l2) = flat_map f l1 ++ flat_map f l2.
Proof. induction l1; simpl; [reflexivity|]. rewrite IHl1, app_assoc. reflexivity. Qed.

(** one full step (operation + the waiting close()) *)
Lemma tstep_inv rg fin cl rz s o :
  TInv rg fin cl rz s ->
  (forall t, o = TReg t -> ~ In t fin) ->
  let '(s', evs) := tstep raises s o in
  TInv (trg o ++ rg) (tfn o ++ fin) (cl ++ flat_map tcb_of evs) (rz ++ flat_map traised_of evs) s'
  /\ (forall t, In t (flat_map tcb_of evs) -> o = TComplete t)
  /\ (forall e, In (TCloseRet e) evs -> t_active s' = [] /\ e = hd_error (t_excs s')).
Proof.
  intros I Hwf. pose proof (top_step_inv raises rg fin cl rz s o I Hwf) as H.
  pose proof (top_step_no_closeret s o) as Hn.
  unfold tstep. destruct (top_step raises s o) as [s1 evs]. simpl in Hn.
  destruct H as (I1 & _ & Hcb).
  destruct (t_closing s1) eqn:Ec; try (split; [exact I1|split; [exact Hcb|intros e He; elim (Hn e He)]]).
  destruct (t_active s1) eqn:Ea; try (split; [exact I1|split; [exact Hcb|intros e He; elim (Hn e He)]]).
  rewrite !flat_map_app. simpl. rewrite !app_nil_r. split; [|split].
  - destruct I1. constructor; simpl; auto. intros t. rewrite <- t_act0, Ea. simpl. tauto.
  - exact Hcb.
  - intros e He. apply in_app_iff in He. destruct He as [He|[He|[]]]; [elim (Hn e He)|].
    injection He as <-. simpl. split; reflexivity.
Qed.

Lemma trun_inv os : forall rg fin cl rz s,
  TInv rg fin cl rz s -> twf_from fin os ->
  exists rg' fin',
    TInv rg' fin' (cl ++ tcalled (snd (trun_from raises s os))) (rz ++ traised (snd (trun_from raises s os)))
         (fst (trun_from raises s os))
    /\ (forall t, In t rg' <-> In t rg \/ In (TReg t) os)
    /\ (forall t, In t fin' <-> In t fin \/ In (TComplete t) os).
Proof.
  induction os as [|o r IH]; intros rg fin cl rz s I W; simpl.
  - exists rg, fin. unfold tcalled, traised. simpl. rewrite !app_nil_r. intuition.
  - assert (Hwf : forall t, o = TReg t -> ~ In t fin) by (intros t ->; simpl in W; tauto).
    assert (W' : twf_from (tfn o ++ fin) r) by (destruct o; simpl in *; tauto).
    pose proof (tstep_inv rg fin cl rz s o I Hwf) as H.
    destruct (tstep raises s o) as [s' evs]. destruct H as (I' & _ & _).
    destruct (IH _ _ _ _ _ I' W') as (rg' & fin' & I'' & Hrg & Hfin).
    destruct (trun_from raises s' r) as [s'' ess]. simpl in *.
    exists rg', fin'. unfold tcalled, traised in *. simpl. rewrite !flat_map_app, !app_assoc.
    split; [exact I''|]. split.
    + intros t. rewrite Hrg, in_app_iff. destruct o as [x|x|]; simpl; intuition (try discriminate; try congruence).
    + intros t. rewrite Hfin, in_app_iff. destruct o as [x|x|]; simpl; intuition (try discriminate; try congruence).
Qed.

Lemma TInv_init : TInv [] [] [] [] tinit.
Proof. constructor; simpl; try tauto; try constructor. Qed.

(** the callback is invoked exactly once for every task that was registered
    and ended, never for another one *)
Theorem task_exactly_once os : twf os ->
  NoDup (tcalled (touts raises os)) /\
  forall t, In t (tcalled (touts raises os)) <-> In (TReg t) os /\ In (TComplete t) os.
Proof.
  intros W. destruct (trun_inv os [] [] [] [] tinit TInv_init W) as (rg & fin & I & Hrg & Hfin).
  simpl in I. destruct I. split; [exact t_cl_nodup0|].
  intros t. unfold touts. rewrite t_cl0, Hrg, Hfin. simpl. tauto.
Qed.

(** step by step: a callback is invoked only in the step in which its task
    ends; close() returns only when every task registered so far has ended
    (hence been called back), with the first exception raised so far *)
Fixpoint steps_ok (rg fin rz : list nat) (os : list top) (ess : list (list tev)) : Prop :=
  match os, ess with
  | o :: r, evs :: er =>
      let rg' := trg o ++ rg in
      let fin' := tfn o ++ fin in
      let rz' := rz ++ flat_map traised_of evs in
      (forall t, In t (flat_map tcb_of evs) -> o = TComplete t) /\
      (forall e, In (TCloseRet e) evs -> (forall t, In t rg' -> In t fin') /\ e = hd_error rz') /\
      steps_ok rg' fin' rz' r er
  | _, _ => True
  end.

Lemma steps_ok_run os : forall rg fin cl rz s,
  TInv rg fin cl rz s -> twf_from fin os -> steps_ok rg fin rz os (snd (trun_from raises s os)).
Proof.
  induction os as [|o r IH]; intros rg fin cl rz s I W; simpl; [exact Logic.I|].
  assert (Hwf : forall t, o = TReg t -> ~ In t fin) by (intros t ->; simpl in W; tauto).
  assert (W' : twf_from (tfn o ++ fin) r) by (destruct o; simpl in *; tauto).
  pose proof (tstep_inv rg fin cl rz s o I Hwf) as H.
  destruct (tstep raises s o) as [s' evs]. destruct H as (I' & Hcb & Hcl).
  specialize (IH _ _ _ _ _ I' W').
  destruct (trun_from raises s' r) as [s'' ess]. simpl in *.
  split; [exact Hcb|]. split; [|exact IH].
  intros e He. destruct (Hcl e He) as (Ha & ->). destruct I'. split.
  - intros t Hr. destruct (in_dec Nat.eq_dec t (tfn o ++ fin)) as [H|H]; [exact H|].
    assert (F : In t (t_active s')) by (apply t_act0; tauto). rewrite Ha in F. destruct F.
  - rewrite t_rz0. reflexivity.
Qed.

Theorem task_steps_ok os : twf os -> steps_ok [] [] [] os (touts raises os).
Proof. intros W. apply (steps_ok_run os [] [] [] [] tinit TInv_init W). Qed.

End Run.
