(** Proofs about the model of [merge_aiters] (Model.v): for EVERY label
    sequence (every schedule of source completions, wake-ups with any
    done-set pop order, consumer resumptions) and every number/length of
    sources. *)
From NL Require Import Aio.Model.
From Coq Require Import Lia.

(** ---- generic list lemmas ---- *)

Lemma nth_error_upd_eq {A} (l : list A) i x a :
  nth_error l i = Some a -> nth_error (upd l i x) i = Some x.
Proof. revert i; induction l; intros [|i]; simpl; intros; try discriminate; auto. Qed.

Lemma nth_error_upd_neq {A} (l : list A) i j x :
  i <> j -> nth_error (upd l i x) j = nth_error l j.
Proof.
  revert i j; induction l; intros [|i] [|j]; simpl; intros; auto; try congruence.
Qed.

Lemma length_upd {A} (l : list A) i x : length (upd l i x) = length l.
Proof. revert i; induction l; intros [|i]; simpl; auto. Qed.

Lemma In_upd {A} (l : list A) i x s : In s (upd l i x) -> s = x \/ In s l.
Proof.
  revert i; induction l; intros [|i]; simpl; intros; auto.
  - destruct H; auto.
  - destruct H; auto. destruct (IHl _ H); auto.
Qed.

Lemma nth_error_In_some {A} (l : list A) i s : nth_error l i = Some s -> In s l.
Proof. apply nth_error_In. Qed.

Lemma nth_error_map_some {A B} (f : A -> B) l i s' :
  nth_error (map f l) i = Some s' -> exists s, nth_error l i = Some s /\ s' = f s.
Proof.
  rewrite nth_error_map. destruct (nth_error l i); simpl; intros; try discriminate.
  inversion H; eauto.
Qed.

(** ---- projections ---- *)

Lemma proj_app i a b : proj i (a ++ b) = proj i a ++ proj i b.
Proof. unfold proj. rewrite filter_app, map_app. reflexivity. Qed.

Lemma proj_single_eq i v : proj i [(i, v)] = [v].
Proof. unfold proj; simpl. rewrite Nat.eqb_refl. reflexivity. Qed.

Lemma proj_single_neq i j v : i <> j -> proj i [(j, v)] = [].
Proof. unfold proj; simpl. intros. destruct (Nat.eqb_spec j i); [congruence | reflexivity]. Qed.

Lemma yields_app a b : yields (a ++ b) = yields a ++ yields b.
Proof. unfold yields. apply flat_map_app. Qed.

(** ---- the invariant ---- *)

(** the item of a source that has left the source but has not been yielded yet *)
Definition inflight (s : srcst) : list V :=
  match snd s with LDone (RItem v) | LBatch (RItem v) => [v] | _ => [] end.

(** accounting: items of source i = yielded with tag i ++ in flight ++ still to produce *)
Definition acct (items : list (list V)) (ys : list (nat * V)) (ss : list srcst) : Prop :=
  length ss = length items /\
  forall i s, nth_error ss i = Some s -> nth i items [] = proj i ys ++ inflight s ++ fst s.

Definition tags_ok (n : nat) (ys : list (nat * V)) : Prop := forall i v, In (i, v) ys -> i < n.

Definition okloc (p : mphase) (l : loc) : Prop :=
  match p, l with
  | MFresh, LIdle => True
  | MWait, (LPend | LDone _ | LDropped) => True
  | MYield, (LPend | LDone _ | LBatch _ | LYielded | LDropped) => True
  | MFin, LDropped => True
  | _, _ => False
  end.

Definition wf (s : srcst) : Prop :=
  match snd s with LDone RStop | LBatch RStop | LDropped => fst s = [] | _ => True end.

Definition covered (ss : list srcst) (order : list nat) : Prop :=
  forall j s r, nth_error ss j = Some s -> snd s = LBatch r -> In j order.

Definition noY (ss : list srcst) : Prop := forall s, In s ss -> snd s <> LYielded.

Record Inv (items : list (list V)) (ys : list (nat * V)) (st : mstate) : Prop := mkInv {
  I_acct : acct items ys (m_srcs st);
  I_tags : tags_ok (length items) ys;
  I_loc : forall s, In s (m_srcs st) -> okloc (m_phase st) (snd s) /\ wf s;
  I_cov : covered (m_srcs st) (m_order st);
  I_wait : m_phase st = MWait -> existsb in_tasks (m_srcs st) = true;
  I_yield : m_phase st = MYield -> exists s, In s (m_srcs st) /\ snd s = LYielded
}.

Definition vy (v : vis) : list (nat * V) := match v with VYield i x => [(i, x)] | _ => [] end.

Lemma tags_ok_app n a b : tags_ok n a -> tags_ok n b -> tags_ok n (a ++ b).
Proof. unfold tags_ok; intros. apply in_app_or in H1. destruct H1; eauto. Qed.

(** ---- process: the `while done:` loop up to the next yield ---- *)

Lemma process_cov order : forall ss ss' order' v,
  process ss order = (ss', order', v) ->
  forall j s' r, nth_error ss' j = Some s' -> snd s' = LBatch r ->
    (exists s, nth_error ss j = Some s /\ snd s = LBatch r) /\ (In j order -> In j order').
Proof.
  induction order as [|i rest IH]; simpl; intros ss ss' order' v H j s' r Hn Hl.
  - inversion H; subst. split; [eauto | tauto].
  - destruct (nth_error ss i) as [[ri li]|] eqn:En.
    + destruct li as [ | |r0|r0| | ];
        try solve [destruct (IH _ _ _ _ H _ _ _ Hn Hl) as [Hex Hin]; split; [exact Hex|];
             intros [->|]; auto; destruct Hex as (s & Hs & Hls); rewrite En in Hs; inversion Hs; subst; simpl in Hls; discriminate].
      destruct r0 as [v0|].
      * inversion H; subst; clear H.
        destruct (Nat.eq_dec i j) as [->|Hne].
        -- rewrite (nth_error_upd_eq _ _ _ _ En) in Hn. inversion Hn; subst. simpl in Hl. discriminate.
        -- rewrite nth_error_upd_neq in Hn by auto. split; [eauto|]. intros [->|]; [congruence | auto].
      * destruct (IH _ _ _ _ H _ _ _ Hn Hl) as [(s & Hs & Hls) Hin].
        destruct (Nat.eq_dec i j) as [->|Hne].
        -- rewrite (nth_error_upd_eq _ _ _ _ En) in Hs. inversion Hs; subst. simpl in Hls. discriminate.
        -- rewrite nth_error_upd_neq in Hs by auto. split; [eauto|]. intros [->|]; [congruence | auto].
    + destruct (IH _ _ _ _ H _ _ _ Hn Hl) as [Hex Hin]. split; [exact Hex|].
      intros [->|]; auto. destruct Hex as (s & Hs & _). rewrite En in Hs. discriminate.
Qed.

Lemma acct_upd_same items ys ss i s s' :
  acct items ys ss -> nth_error ss i = Some s ->
  inflight s' ++ fst s' = inflight s ++ fst s ->
  acct items ys (upd ss i s').
Proof.
  intros [Hl Ha] En He. split; [rewrite length_upd; auto|].
  intros j x Hj. destruct (Nat.eq_dec i j) as [->|Hne].
  - rewrite (nth_error_upd_eq _ _ _ _ En) in Hj. inversion Hj; subst. rewrite He. apply Ha; auto.
  - rewrite nth_error_upd_neq in Hj by auto. auto.
Qed.

Lemma process_inv items order : forall ss ss' order' v ys,
  process ss order = (ss', order', v) ->
  acct items ys ss -> (forall s, In s ss -> okloc MYield (snd s) /\ wf s) -> noY ss ->
  acct items (ys ++ vy v) ss' /\ (forall s, In s ss' -> okloc MYield (snd s) /\ wf s) /\
  (v = VNone -> noY ss') /\ v <> VStop /\ (forall i x, v = VYield i x -> i < length ss).
Proof.
  induction order as [|i rest IH]; simpl; intros ss ss' order' v ys H Ha Hok Hny.
  - inversion H; subst. simpl. rewrite app_nil_r.
    split; [auto|]. split; [auto|]. split; [auto|]. split; [discriminate|]. intros; discriminate.
  - destruct (nth_error ss i) as [[ri li]|] eqn:En; [|eapply IH; eauto].
    destruct li as [ | |r0|r0| | ]; try solve [eapply IH; eauto].
    destruct r0 as [v0|].
    + inversion H; subst; clear H. simpl. split; [|split; [|split; [|split]]].
      * split; [rewrite length_upd; apply Ha|].
        intros j x Hj. destruct Ha as [Hl Ha]. destruct (Nat.eq_dec i j) as [->|Hne].
        -- rewrite (nth_error_upd_eq _ _ _ _ En) in Hj. inversion Hj; subst.
           rewrite proj_app, proj_single_eq. rewrite (Ha _ _ En). unfold inflight; simpl.
           rewrite <- app_assoc. reflexivity.
        -- rewrite nth_error_upd_neq in Hj by auto. rewrite proj_app, proj_single_neq by auto.
           rewrite app_nil_r. auto.
      * intros s Hs. apply In_upd in Hs. destruct Hs as [->|Hs]; [split; simpl; exact I | apply Hok; auto].
      * intros; discriminate.
      * discriminate.
      * intros j x Hv. inversion Hv; subst. apply nth_error_Some. congruence.
    + assert (Hwf : ri = []).
      { destruct (Hok _ (nth_error_In _ _ En)) as [_ Hw]. exact Hw. }
      subst ri.
      destruct (IH (upd ss i ([], LDropped)) ss' order' v ys H) as (A & B & Cc & D & E).
      * eapply acct_upd_same; eauto.
      * intros s Hs. apply In_upd in Hs. destruct Hs as [->|Hs]; [split; [exact I | reflexivity] | apply Hok; auto].
      * intros s Hs. apply In_upd in Hs. destruct Hs as [->|Hs]; [simpl; discriminate | apply Hny; auto].
      * split; [auto|]. split; [auto|]. split; [auto|]. split; [auto|].
        intros j x Hv. rewrite <- (length_upd ss i ([], LDropped)). eauto.
Qed.

Lemma process_yielded order : forall ss ss' order' i x,
  process ss order = (ss', order', VYield i x) -> exists s, In s ss' /\ snd s = LYielded.
Proof.
  induction order as [|a order IH]; simpl; intros; [discriminate|].
  destruct (nth_error ss a) as [[ri li]|] eqn:En; [|eauto].
  destruct li; eauto. destruct r; eauto.
  inversion H; subst. exists (ri, LYielded). split; auto.
  eapply nth_error_In. eapply nth_error_upd_eq; eauto.
Qed.

Lemma in_tasks_false_dropped ss :
  existsb in_tasks ss = false ->
  (forall s, In s ss -> okloc MYield (snd s)) -> noY ss ->
  (forall s r, In s ss -> snd s <> LBatch r) ->
  forall s, In s ss -> okloc MFin (snd s).
Proof.
  intros He Hok Hny Hnb s Hs.
  assert (Hf : in_tasks s = false).
  { destruct (in_tasks s) eqn:E; auto.
    assert (existsb in_tasks ss = true) by (apply existsb_exists; eauto). congruence. }
  specialize (Hok _ Hs). specialize (Hny _ Hs). pose proof (Hnb s) as Hb.
  unfold in_tasks in Hf. destruct (snd s) eqn:El; simpl in *; try discriminate; try tauto.
  exfalso. eapply Hb; eauto.
Qed.

Lemma settle_inv items ss order ys st' v :
  settle ss order = (st', v) ->
  acct items ys ss -> tags_ok (length items) ys ->
  (forall s, In s ss -> okloc MYield (snd s) /\ wf s) -> noY ss -> covered ss order ->
  Inv items (ys ++ vy v) st'.
Proof.
  unfold settle. intros H Ha Ht Hok Hny Hc.
  destruct (process ss order) as [[ss' order'] v0] eqn:Ep.
  destruct (process_inv items _ _ _ _ _ _ Ep Ha Hok Hny) as (A & B & Cc & D & E).
  assert (Hcov : covered ss' order').
  { intros j s r Hj Hl. destruct (process_cov _ _ _ _ _ Ep _ _ _ Hj Hl) as [(s0 & Hs0 & Hl0) Hin].
    apply Hin. eapply Hc; eauto. }
  destruct v0 as [i x| |].
  - inversion H; subst; clear H. constructor; simpl; auto.
    + apply tags_ok_app; auto. intros j y [Hy|[]]. inversion Hy; subst.
      destruct Ha as [<- _]. eapply E; eauto.
    + discriminate.
    + intros _. eapply process_yielded; eauto.
  - congruence.
  - assert (Hnb : forall s r, In s ss' -> snd s <> LBatch r).
    { intros s r Hs Hl. apply In_nth_error in Hs. destruct Hs as [j Hj].
      pose proof (process_cov _ _ _ _ _ Ep _ _ _ Hj Hl) as [(s0 & Hs0 & Hl0) Hin].
      assert (In j order') by (apply Hin; eapply Hc; eauto).
      assert (order' = []).
      { clear - Ep. revert ss Ep. induction order; simpl; intros.
        - inversion Ep; auto.
        - destruct (nth_error ss a) as [[ri li]|]; [|eauto].
          destruct li; eauto. destruct r; eauto. inversion Ep. }
      subst order'. contradiction. }
    assert (Hwait : forall s, In s ss' -> okloc MWait (snd s)).
    { intros s Hs. destruct (B _ Hs) as [Ho _]. pose proof (Cc eq_refl _ Hs). pose proof (Hnb s).
      destruct (snd s) eqn:El; simpl in *; try tauto. exfalso; eapply H1; eauto. }
    simpl in A; rewrite app_nil_r in A.
    destruct (existsb in_tasks ss') eqn:Ee; inversion H; subst; clear H; simpl; rewrite app_nil_r.
    + constructor; simpl; auto.
      * intros s Hs. split; [apply Hwait; auto | apply B; auto].
      * intros j s r Hj Hl. exfalso. eapply Hnb; eauto using nth_error_In.
      * discriminate.
    + constructor; simpl; auto.
      * intros s Hs. split; [|apply B; auto].
        eapply in_tasks_false_dropped; eauto. intros; apply B; auto.
      * intros j s r Hj Hl. exfalso. eapply Hnb; eauto using nth_error_In.
      * discriminate.
      * discriminate.
Qed.

(** ---- one step ---- *)

Lemma acct_map items ys ss f :
  acct items ys ss -> (forall s, In s ss -> inflight (f s) ++ fst (f s) = inflight s ++ fst s) ->
  acct items ys (map f ss).
Proof.
  intros [Hl Ha] Hf. split; [rewrite map_length; auto|].
  intros i s' Hi. apply nth_error_map_some in Hi. destruct Hi as (s & Hs & ->).
  rewrite Hf by eauto using nth_error_In. auto.
Qed.

Lemma step_inv items ys st l st' o :
  Inv items ys st -> mstep st l = (st', o) -> Inv items (ys ++ vy (snd o)) st'.
Proof.
  intros [Ha Ht Hl Hc Hw Hy] H. destruct l as [|i|ord]; simpl in H.
  - (* MNext *)
    destruct (m_phase st) eqn:Ep.
    + (* MFresh *)
      assert (Hall : forall s, In s (map arm (m_srcs st)) -> snd s = LPend).
      { intros s Hs. apply in_map_iff in Hs. destruct Hs as (s0 & <- & _). reflexivity. }
      assert (Ha' : acct items ys (map arm (m_srcs st))).
      { apply acct_map; auto. intros s Hs. destruct (Hl _ Hs) as [Ho _].
        destruct s as [r lc]; simpl in *. destruct lc; simpl in Ho; try tauto; reflexivity. }
      destruct (existsb in_tasks (map arm (m_srcs st))) eqn:Ee; inversion H; subst; clear H; simpl; rewrite app_nil_r.
      * constructor; simpl; auto.
        -- intros s Hs. rewrite (Hall _ Hs). split; simpl; auto. unfold wf. rewrite (Hall _ Hs). exact I.
        -- intros j s r Hj Hlr. rewrite (Hall s) in Hlr by eauto using nth_error_In. discriminate.
        -- discriminate.
      * assert (m_srcs st = []).
        { destruct (m_srcs st) as [|s r]; auto. simpl in Ee. discriminate. }
        rewrite H in *. constructor; simpl; auto.
        -- intros s [].
        -- intros j s r Hj. destruct j; discriminate.
        -- discriminate.
        -- discriminate.
    + (* MWait *) inversion H; subst; simpl. rewrite app_nil_r. constructor; rewrite ?Ep; auto.
    + (* MYield *)
      destruct (settle (map rearm (m_srcs st)) (m_order st)) as [st1 v] eqn:Es.
      inversion H; subst; clear H. simpl.
      eapply settle_inv; eauto.
      * apply acct_map; auto. intros s Hs. unfold rearm. destruct s as [r lc]; destruct lc; reflexivity.
      * intros s Hs. apply in_map_iff in Hs. destruct Hs as (s0 & <- & Hs0).
        destruct (Hl _ Hs0) as [Ho Hwf]. destruct s0 as [r lc]; unfold rearm, wf in *; simpl in *.
        destruct lc; simpl; auto.
      * intros s Hs. apply in_map_iff in Hs. destruct Hs as (s0 & <- & Hs0).
        destruct s0 as [r lc]; unfold rearm; simpl. destruct lc; simpl; discriminate.
      * intros j s r Hj Hlr. apply nth_error_map_some in Hj. destruct Hj as (s0 & Hs0 & ->).
        apply (Hc j s0 r Hs0). destruct s0 as [r0 lc]; unfold rearm in Hlr; simpl in *.
        destruct lc; simpl in Hlr; try discriminate; auto.
    + (* MFin *) inversion H; subst; simpl. rewrite app_nil_r. constructor; rewrite ?Ep; auto.
  - (* MComplete *)
    destruct (nth_error (m_srcs st) i) as [s|] eqn:En; inversion H; subst; clear H; simpl; rewrite app_nil_r;
      [|constructor; auto].
    assert (Hs : In s (m_srcs st)) by eauto using nth_error_In.
    destruct (Hl _ Hs) as [Ho Hwf].
    constructor; simpl; auto.
    + eapply acct_upd_same; eauto. destruct s as [[|v r] lc]; destruct lc; reflexivity.
    + intros s' Hs'. apply In_upd in Hs'. destruct Hs' as [->|Hs']; [|auto].
      destruct s as [[|v r] lc]; destruct lc; simpl in *; unfold wf in *; simpl in *; auto;
        destruct (m_phase st); simpl in *; auto.
    + intros j s' r Hj Hlr. destruct (Nat.eq_dec i j) as [->|Hne].
      * rewrite (nth_error_upd_eq _ _ _ _ En) in Hj. inversion Hj; subst.
        apply (Hc j s r En). destruct s as [[|v r0] lc]; destruct lc; simpl in *; auto; discriminate.
      * rewrite nth_error_upd_neq in Hj by auto. eauto.
    + intros Hp. specialize (Hw Hp). apply existsb_exists in Hw. destruct Hw as (s0 & Hs0 & Hin).
      apply In_nth_error in Hs0. destruct Hs0 as [j Hj].
      apply existsb_exists. destruct (Nat.eq_dec i j) as [->|Hne].
      * exists (complete s). split; [eapply nth_error_In; eapply nth_error_upd_eq; eauto|].
        rewrite En in Hj. inversion Hj; subst. destruct s0 as [[|v r0] lc]; destruct lc; simpl in *; auto.
      * exists s0. split; auto. eapply nth_error_In. rewrite nth_error_upd_neq; eauto.
    + intros Hp. destruct (Hy Hp) as (s0 & Hs0 & Hl0). apply In_nth_error in Hs0. destruct Hs0 as [j Hj].
      destruct (Nat.eq_dec i j) as [->|Hne].
      * rewrite En in Hj. inversion Hj; subst. exists (complete s0). split.
        -- eapply nth_error_In. eapply nth_error_upd_eq; eauto.
        -- destruct s0 as [[|v r0] lc]; simpl in *; subst; reflexivity.
      * exists s0. split; auto. eapply nth_error_In. rewrite nth_error_upd_neq; eauto.
  - (* MWake *)
    destruct (m_phase st) eqn:Ep; try solve [inversion H; subst; simpl; rewrite app_nil_r; constructor; rewrite ?Ep; auto].
    destruct (done_idx 0 (m_srcs st)) as [|d ds] eqn:Ed.
    + inversion H; subst; simpl; rewrite app_nil_r; constructor; rewrite ?Ep; auto.
    + destruct (settle (map to_batch (m_srcs st)) (ord ++ seq 0 (length (m_srcs st)))) as [st1 v] eqn:Es.
      inversion H; subst; clear H. simpl.
      eapply settle_inv; eauto.
      * apply acct_map; auto. intros s Hs. unfold to_batch. destruct s as [r lc]; destruct lc; reflexivity.
      * intros s Hs. apply in_map_iff in Hs. destruct Hs as (s0 & <- & Hs0).
        destruct (Hl _ Hs0) as [Ho Hwf]. destruct s0 as [r lc]; unfold to_batch, wf in *; simpl in *.
        destruct lc; simpl in *; auto.
      * intros s Hs. apply in_map_iff in Hs. destruct Hs as (s0 & <- & Hs0).
        destruct (Hl _ Hs0) as [Ho _].
        destruct s0 as [r lc]; unfold to_batch; simpl in *. destruct lc; simpl in *; try discriminate; tauto.
      * intros j s r Hj Hlr. apply in_or_app. right. apply in_seq.
        assert (j < length (map to_batch (m_srcs st))) by (apply nth_error_Some; congruence).
        rewrite map_length in H. lia.
Qed.

Lemma init_inv items : Inv items [] (minit items).
Proof.
  constructor; simpl.
  - split; [apply map_length|]. intros i s Hs. apply nth_error_map_some in Hs.
    destruct Hs as (l & Hl & ->). simpl. apply nth_error_nth. auto.
  - intros i v [].
  - intros s Hs. apply in_map_iff in Hs. destruct Hs as (l & <- & _). simpl. split; exact I.
  - intros j s r Hj Hl. apply nth_error_map_some in Hj. destruct Hj as (l & _ & ->). discriminate.
  - discriminate.
  - discriminate.
Qed.

Lemma run_from_inv items ls : forall st ys st' os,
  Inv items ys st -> mrun_from st ls = (st', os) -> Inv items (ys ++ yields os) st'.
Proof.
  induction ls as [|l r IH]; simpl; intros st ys st' os HI H.
  - inversion H; subst. simpl. rewrite app_nil_r. auto.
  - destruct (mstep st l) as [st1 o] eqn:E1. destruct (mrun_from st1 r) as [st2 os2] eqn:E2.
    inversion H; subst; clear H.
    pose proof (step_inv _ _ _ _ _ _ HI E1) as HI1.
    pose proof (IH _ _ _ _ HI1 E2) as HI2.
    replace (yields (o :: os2)) with (vy (snd o) ++ yields os2).
    + rewrite app_assoc. exact HI2.
    + unfold yields at 2. simpl. unfold vy. destruct (snd o); reflexivity.
Qed.

Lemma run_inv items ls : Inv items (yields (mouts items ls)) (mrun items ls).
Proof.
  unfold mouts, mrun. destruct (mrun_from (minit items) ls) as [st os] eqn:E.
  simpl. exact (run_from_inv _ _ _ _ _ _ (init_inv items) E).
Qed.

(** ---- the theorems ---- *)

(** Every (tag, item) yielded carries the tag of an existing source, and the
    items yielded with tag i are -- in order, without gap or repetition -- a
    prefix of source i's items; what is missing is exactly what is in flight
    (at most one item) and what the source has not produced yet. *)
Theorem merge_projection items ls i :
  (forall j v, In (j, v) (yields (mouts items ls)) -> j < length items) /\
  exists rest, nth i items [] = proj i (yields (mouts items ls)) ++ rest.
Proof.
  destruct (run_inv items ls) as [[Hl Ha] Ht _ _ _]. split; [exact Ht|].
  destruct (nth_error (m_srcs (mrun items ls)) i) as [s|] eqn:En.
  - exists (inflight s ++ fst s). auto.
  - apply nth_error_None in En. rewrite Hl in En.
    exists []. rewrite app_nil_r. rewrite nth_overflow by auto.
    destruct (proj i (yields (mouts items ls))) as [|v r] eqn:Ep; auto.
    exfalso. assert (In v (proj i (yields (mouts items ls)))) by (rewrite Ep; left; auto).
    unfold proj in H. apply in_map_iff in H. destruct H as ([j w] & _ & Hin).
    apply filter_In in Hin. destruct Hin as [Hin Heq]. simpl in Heq. apply Nat.eqb_eq in Heq. subst j.
    apply Ht in Hin. lia.
Qed.

(** exact accounting at every moment of every run *)
Theorem merge_accounting items ls i s :
  nth_error (m_srcs (mrun items ls)) i = Some s ->
  nth i items [] = proj i (yields (mouts items ls)) ++ inflight s ++ fst s.
Proof. destruct (run_inv items ls) as [[Hl Ha] _ _ _ _]. apply Ha. Qed.

(** The merged iterator is finished exactly when it has started and every source
    has been seen to finish (its StopAsyncIteration consumed); then every item of
    every source has been yielded. *)
Theorem merge_finished_iff items ls :
  m_phase (mrun items ls) = MFin <->
  (m_phase (mrun items ls) <> MFresh /\ forall s, In s (m_srcs (mrun items ls)) -> s = ([], LDropped)).
Proof.
  destruct (run_inv items ls) as [_ _ Hl _ Hw]. split.
  - intros Hp. split; [congruence|]. intros s Hs. destruct (Hl _ Hs) as [Ho Hwf].
    rewrite Hp in Ho. destruct s as [r lc]; unfold wf in Hwf; simpl in *.
    destruct lc; simpl in Ho; try tauto. subst; reflexivity.
  - intros [Hnf Hall]. destruct (m_phase (mrun items ls)) eqn:Ep; auto; try congruence.
    + specialize (Hw eq_refl). apply existsb_exists in Hw. destruct Hw as (s & Hs & Hin).
      rewrite (Hall _ Hs) in Hin. discriminate.
    + (* MYield: impossible, the yielded source is neither dropped nor re-armed *)
      exfalso. revert Ep Hall. unfold mrun.
      assert (G : forall ls st, m_phase (fst (mrun_from st ls)) = MYield ->
                  (m_phase st = MYield -> exists s, In s (m_srcs st) /\ snd s = LYielded) ->
                  exists s, In s (m_srcs (fst (mrun_from st ls))) /\ snd s = LYielded).
      { clear. induction ls as [|l r IH]; simpl; intros st Hp H0; auto.
        destruct (mstep st l) as [st1 o] eqn:E1. destruct (mrun_from st1 r) as [st2 os] eqn:E2.
        simpl in *. specialize (IH st1). rewrite E2 in IH. simpl in IH. apply IH; auto.
        intros Hp1. clear IH E2 Hp.
        assert (Hset : forall ss order st' v, settle ss order = (st', v) -> m_phase st' = MYield ->
                       exists s, In s (m_srcs st') /\ snd s = LYielded).
        { clear. unfold settle. intros ss order st' v H Hp.
          destruct (process ss order) as [[ss' order'] v0] eqn:Epr.
          destruct v0; try (destruct (existsb in_tasks ss'); inversion H; subst; discriminate).
          inversion H; subst; clear H. simpl. clear Hp.
          revert ss Epr. induction order as [|a order IH]; simpl; intros; [discriminate|].
          destruct (nth_error ss a) as [[ri li]|] eqn:En; [|eauto].
          destruct li; eauto. destruct r; eauto.
          inversion Epr; subst. exists (ri, LYielded). split; auto.
          eapply nth_error_In. eapply nth_error_upd_eq; eauto. }
        destruct l as [|i|ord]; simpl in E1.
        - destruct (m_phase st) eqn:Ep.
          + destruct (existsb in_tasks (map arm (m_srcs st))); inversion E1; subst; discriminate.
          + inversion E1; subst. congruence.
          + destruct (settle (map rearm (m_srcs st)) (m_order st)) as [sx v] eqn:Es.
            inversion E1; subst. eauto.
          + inversion E1; subst. congruence.
        - destruct (nth_error (m_srcs st) i) as [s|] eqn:En; inversion E1; subst; clear E1; simpl in *; auto.
          destruct (H0 Hp1) as (s0 & Hs0 & Hl0). apply In_nth_error in Hs0. destruct Hs0 as [j Hj].
          destruct (Nat.eq_dec i j) as [->|Hne].
          + rewrite En in Hj. inversion Hj; subst. exists (complete s0). split.
            * eapply nth_error_In. eapply nth_error_upd_eq; eauto.
            * destruct s0 as [[|v r0] lc]; simpl in *; subst; reflexivity.
          + exists s0. split; auto. eapply nth_error_In. rewrite nth_error_upd_neq; eauto.
        - destruct (m_phase st) eqn:Ep; try solve [inversion E1; subst; first [congruence | auto]].
          destruct (done_idx 0 (m_srcs st)); [inversion E1; subst; congruence|].
          destruct (settle (map to_batch (m_srcs st)) (ord ++ seq 0 (length (m_srcs st)))) as [sx v] eqn:Es.
          inversion E1; subst. eauto. }
      intros Ep Hall. destruct (G ls (minit items) Ep) as (s & Hs & Hly).
      * simpl. discriminate.
      * rewrite (Hall _ Hs) in Hly. discriminate.
Qed.

Theorem merge_complete_when_finished items ls i :
  m_phase (mrun items ls) = MFin -> proj i (yields (mouts items ls)) = nth i items [].
Proof.
  intros Hp. destruct (run_inv items ls) as [[Hlen Ha] Ht Hl _ _].
  destruct (nth_error (m_srcs (mrun items ls)) i) as [s|] eqn:En.
  - rewrite (Ha _ _ En). destruct (Hl _ (nth_error_In _ _ En)) as [Ho Hwf]. rewrite Hp in Ho.
    destruct s as [r lc]; unfold wf, inflight in *; simpl in *. destruct lc; simpl in Ho; try tauto.
    subst. rewrite app_nil_r. reflexivity.
  - destruct (merge_projection items ls i) as [_ [rest Hr]].
    apply nth_error_None in En. rewrite Hlen in En. rewrite nth_overflow in Hr |- * by auto.
    destruct (proj i (yields (mouts items ls))); auto; discriminate.
Qed.

(** ---- liveness: from every reachable state some schedule finishes the merge ---- *)

Definition cw (l : loc) : nat :=
  match l with
  | LIdle => 5 | LPend => 4 | LDone (RItem _) => 7 | LDone RStop => 3
  | LBatch (RItem _) => 6 | LBatch RStop => 2 | LYielded => 5 | LDropped => 0
  end.
Definition w (s : srcst) : nat := 4 * length (fst s) + cw (snd s).
Definition sumw (ss : list srcst) : nat := fold_right (fun s a => w s + a) 0 ss.
Definition mu (st : mstate) : nat :=
  sumw (m_srcs st) + match m_phase st with MFresh => 1 | _ => 0 end.

Lemma sumw_map_le f ss : (forall s, w (f s) <= w s) -> sumw (map f ss) <= sumw ss.
Proof. intros Hf. induction ss; simpl; auto. specialize (Hf a). lia. Qed.

Lemma sumw_map_lt f ss :
  (forall s, w (f s) <= w s) -> (exists s, In s ss /\ w (f s) < w s) -> sumw (map f ss) < sumw ss.
Proof.
  intros Hf (s & Hs & Hlt). induction ss; simpl in *; [contradiction|].
  destruct Hs as [->|Hs].
  - pose proof (sumw_map_le f ss Hf). lia.
  - specialize (IHss Hs). specialize (Hf a). lia.
Qed.

Lemma sumw_upd ss : forall i s s', nth_error ss i = Some s -> sumw (upd ss i s') + w s = sumw ss + w s'.
Proof.
  induction ss; intros [|i] s s' H; simpl in *; try discriminate.
  - inversion H; subst. lia.
  - specialize (IHss _ _ s' H). lia.
Qed.

Lemma process_le order : forall ss ss' o' v, process ss order = (ss', o', v) -> sumw ss' <= sumw ss.
Proof.
  induction order as [|i rest IH]; simpl; intros ss ss' o' v H.
  - inversion H; subst; auto.
  - destruct (nth_error ss i) as [[ri li]|] eqn:En; [|eauto].
    destruct li; eauto. destruct r.
    + inversion H; subst. pose proof (sumw_upd _ _ _ (ri, LYielded) En). unfold w in *; simpl in *. lia.
    + apply IH in H. pose proof (sumw_upd _ _ _ (ri, LDropped) En). unfold w in *; simpl in *. lia.
Qed.

Lemma settle_le ss order st' v : settle ss order = (st', v) -> mu st' <= sumw ss.
Proof.
  unfold settle. destruct (process ss order) as [[ss' o'] v0] eqn:Ep. apply process_le in Ep.
  intros H. destruct v0; [|destruct (existsb in_tasks ss')..]; inversion H; subst; unfold mu; simpl; lia.
Qed.

Lemma done_idx_nil ss : forall n, done_idx n ss = [] -> forall s, In s ss -> is_done s = false.
Proof.
  induction ss; simpl; intros n H s Hs; [contradiction|].
  destruct (is_done a) eqn:Ed; [discriminate|]. destruct Hs as [->|Hs]; eauto.
Qed.

Lemma done_idx_some ss : forall n, done_idx n ss <> [] -> exists s, In s ss /\ is_done s = true.
Proof.
  induction ss; simpl; intros n H; [congruence|].
  destruct (is_done a) eqn:Ed; [eauto|]. destruct (IHss _ H) as (s & Hs & Hd). eauto.
Qed.

Lemma progress items ys st :
  Inv items ys st -> m_phase st <> MFin -> exists l, mu (fst (mstep st l)) < mu st.
Proof.
  intros [Ha Ht Hl Hc Hw Hy] Hnf. destruct (m_phase st) eqn:Ep; try congruence.
  - (* MFresh *) exists MNext. simpl. rewrite Ep.
    assert (Hle : forall s, In s (m_srcs st) -> snd s = LIdle).
    { intros s Hs. destruct (Hl _ Hs) as [Ho _]. destruct (snd s); simpl in Ho; tauto. }
    assert (sumw (map arm (m_srcs st)) <= sumw (m_srcs st)).
    { clear - Hle. induction (m_srcs st) as [|a l IH]; simpl; auto.
      assert (snd a = LIdle) by (apply Hle; left; auto).
      assert (sumw (map arm l) <= sumw l) by (apply IH; intros; apply Hle; right; auto).
      destruct a as [r lc]; simpl in *; subst. unfold w; simpl. lia. }
    destruct (existsb in_tasks (map arm (m_srcs st))); unfold mu; simpl; rewrite Ep; lia.
  - (* MWait *)
    destruct (done_idx 0 (m_srcs st)) as [|d ds] eqn:Ed.
    + pose proof (done_idx_nil _ _ Ed) as Hnd.
      specialize (Hw eq_refl). apply existsb_exists in Hw. destruct Hw as (s & Hs & Hin).
      apply In_nth_error in Hs. destruct Hs as [i Hi].
      exists (MComplete i). simpl. rewrite Hi. unfold mu; simpl. rewrite Ep.
      pose proof (sumw_upd _ _ _ (complete s) Hi).
      assert (w (complete s) < w s).
      { pose proof (Hnd _ (nth_error_In _ _ Hi)). destruct s as [[|v r] lc]; unfold in_tasks, is_done in *; simpl in *;
          destruct lc; try discriminate; unfold w; simpl; lia. }
      lia.
    + exists (MWake []). simpl. rewrite Ep, Ed.
      destruct (settle (map to_batch (m_srcs st)) (seq 0 (length (m_srcs st)))) as [st1 v] eqn:Es.
      simpl. apply settle_le in Es.
      assert (sumw (map to_batch (m_srcs st)) < sumw (m_srcs st)).
      { apply sumw_map_lt.
        - intros [r lc]. unfold w, to_batch; simpl. destruct lc as [| |[|]|[|]| |]; simpl; lia.
        - destruct (done_idx_some (m_srcs st) 0) as (s & Hs & Hd); [congruence|].
          exists s. split; auto. destruct s as [r lc]; unfold is_done, w, to_batch in *; simpl in *.
          destruct lc as [| |[|]|[|]| |]; try discriminate; simpl; lia. }
      unfold mu at 2. rewrite Ep. lia.
  - (* MYield *) exists MNext. simpl. rewrite Ep.
    destruct (settle (map rearm (m_srcs st)) (m_order st)) as [st1 v] eqn:Es.
    simpl. apply settle_le in Es.
    assert (sumw (map rearm (m_srcs st)) < sumw (m_srcs st)).
    { apply sumw_map_lt.
      - intros [r lc]. unfold w, rearm; simpl. destruct lc as [| |[|]|[|]| |]; simpl; lia.
      - destruct (Hy eq_refl) as (s & Hs & Hly). exists s. split; auto.
        destruct s as [r lc]; simpl in *; subst. unfold w, rearm; simpl. lia. }
    unfold mu at 2. rewrite Ep. lia.
Qed.

Lemma mrun_from_cons st l r :
  fst (mrun_from st (l :: r)) = fst (mrun_from (fst (mstep st l)) r).
Proof. simpl. destruct (mstep st l) as [st1 o]. simpl. destruct (mrun_from st1 r). reflexivity. Qed.

Lemma mrun_from_app ls : forall st ls',
  fst (mrun_from st (ls ++ ls')) = fst (mrun_from (fst (mrun_from st ls)) ls').
Proof.
  induction ls as [|l r IH]; intros; [reflexivity|].
  rewrite <- app_comm_cons, !mrun_from_cons. apply IH.
Qed.

Lemma can_finish_from items : forall n st ys,
  Inv items ys st -> mu st < n -> exists ls', m_phase (fst (mrun_from st ls')) = MFin.
Proof.
  induction n; intros st ys HI Hn; [lia|].
  destruct (m_phase st) eqn:Ep; try (exists []; exact Ep);
    (destruct (progress _ _ _ HI) as [l Hl]; [congruence|];
     destruct (mstep st l) as [st1 o] eqn:E1;
     pose proof (step_inv _ _ _ _ _ _ HI E1) as HI1; simpl in Hl;
     destruct (IHn st1 _ HI1) as [ls' Hls]; [lia|];
     exists (l :: ls'); rewrite mrun_from_cons, E1; exact Hls).
Qed.

(** For every run there is a continuation (release the remaining gates, keep
    consuming) after which the merged iterator has finished: it cannot get stuck. *)
Theorem merge_can_finish items ls : exists ls', m_phase (mrun items (ls ++ ls')) = MFin.
Proof.
  destruct (can_finish_from items (S (mu (mrun items ls))) _ _ (run_inv items ls)) as [ls' H]; [lia|].
  exists ls'. unfold mrun in *. rewrite mrun_from_app. exact H.
Qed.

(** finished is absorbing and silent: nothing is yielded afterwards *)
Theorem merge_finished_stays items ls ls' :
  m_phase (mrun items ls) = MFin ->
  m_phase (mrun items (ls ++ ls')) = MFin /\ yields (mouts items (ls ++ ls')) = yields (mouts items ls).
Proof.
  intros Hp.
  assert (G : forall ls' st, m_phase st = MFin ->
              m_phase (fst (mrun_from st ls')) = MFin /\ yields (snd (mrun_from st ls')) = []).
  { clear. induction ls' as [|l r IH]; simpl; intros st Hp; auto.
    destruct (mstep st l) as [st1 o] eqn:E1.
    assert (m_phase st1 = MFin /\ vy (snd o) = []).
    { destruct l; simpl in E1.
      - rewrite Hp in E1. inversion E1; subst; auto.
      - destruct (nth_error (m_srcs st) i); inversion E1; subst; auto.
      - rewrite Hp in E1. inversion E1; subst; auto. }
    destruct H as [Hp1 Hv]. destruct (IH _ Hp1) as [A B].
    destruct (mrun_from st1 r) as [st2 os] eqn:E2. simpl in *. split; auto.
    unfold yields in *. simpl. rewrite B. unfold vy in Hv. destruct (snd o); try discriminate; reflexivity. }
  unfold mrun, mouts in *.
  assert (Hs : forall ls st ls', snd (mrun_from st (ls ++ ls')) = snd (mrun_from st ls) ++ snd (mrun_from (fst (mrun_from st ls)) ls')).
  { clear. induction ls as [|l r IH]; simpl; intros; auto.
    destruct (mstep st l) as [st1 o]. specialize (IH st1 ls').
    destruct (mrun_from st1 (r ++ ls')) as [a b]. destruct (mrun_from st1 r) as [c d]. simpl in *. rewrite IH. reflexivity. }
  rewrite mrun_from_app, Hs, yields_app. destruct (G ls' _ Hp) as [A B]. rewrite B, app_nil_r. auto.
Qed.

Theorem merge_terminates items ls :
  (m_phase (mrun items ls) = MFin <->
   (m_phase (mrun items ls) <> MFresh /\ forall s, In s (m_srcs (mrun items ls)) -> s = ([], LDropped))) /\
  (m_phase (mrun items ls) = MFin -> forall i, proj i (yields (mouts items ls)) = nth i items []).
Proof.
  split; [exact (merge_finished_iff items ls)|].
  intros H i. exact (merge_complete_when_finished items ls i H).
Qed.
