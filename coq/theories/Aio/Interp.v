(** Semantics of the syntax of Aio/Syntax.v (definitions only; the proofs that
    the regenerated bodies of Gen/AioFuns.v behave as Aio/Model.v are in
    Aio/TieMerge.v, TieAgen.v, TieToAiter.v).

    A generator body is run by a small-step continuation machine from one
    suspension point (`await asyncio.wait`, `yield`) to the next.  What the
    machine does NOT decide -- when a source's pending `__anext__` completes,
    when an awaited task ends, when `asyncio.wait` returns, in which order the
    returned set is popped / iterated, when the consumer resumes -- is driven by
    the labels of Aio/Model.v ([mlabel], [glabel], [tlabel]), the SAME labels
    the hand-written model takes.

    World: every task ever created lives in a heap, by id ([w_an]: the
    `ensure_future(a.__anext__())` tasks with the source they were armed on,
    [w_ext]: the tasks the environment creates for agen_with_wait); [w_srcs]:
    what every source has still to produce.  Sets of tasks are the sorted
    duplicate-free lists of Model.v, one list per kind of task.

    A construct used outside what is modelled (reading an unbound or moved
    variable, `result()` of a pending task, a `KeyError`, fuel exhausted ...)
    makes the machine [OStuck]: the tie theorems show this never happens for
    the regenerated bodies. *)
From NL Require Import Aio.Model Aio.Syntax.
Local Notation length := List.length (only parsing).

(** ---- task references and sets ---- *)

Inductive tref := TAn (n : nat) | TExt (n : nat).

Record tset := mkS { s_an : list nat; s_ext : list nat }.

Definition inter (a b : list nat) : list nat := filter (fun x => mem x b) a.

Definition sempty : tset := mkS [] [].
Definition ssingle (t : tref) : tset := match t with TAn n => mkS [n] [] | TExt n => mkS [] [n] end.
Definition sunion (a b : tset) : tset := mkS (union (s_an a) (s_an b)) (union (s_ext a) (s_ext b)).
Definition sinter (a b : tset) : tset := mkS (inter (s_an a) (s_an b)) (inter (s_ext a) (s_ext b)).
Definition sminus (a b : tset) : tset := mkS (minus (s_an a) (s_an b)) (minus (s_ext a) (s_ext b)).
Definition smem (t : tref) (s : tset) : bool := match t with TAn n => mem n (s_an s) | TExt n => mem n (s_ext s) end.
Definition is_nil {A} (l : list A) : bool := match l with [] => true | _ => false end.
Definition sis_empty (s : tset) : bool := is_nil (s_an s) && is_nil (s_ext s).
Definition ssize (s : tset) : nat := length (s_an s) + length (s_ext s).

(** ---- values ---- *)

Inductive val :=
| PyUndef                          (* unbound, or moved away by an aliasing assignment *)
| PyNone
| PyBool (b : bool)
| PyTask (t : tref)
| PySrc (i : nat)                  (* an async iterator (source), by position *)
| PyIdx (i : nat)                  (* an int *)
| PyItem (v : V)                   (* an item produced by a source *)
| PyExc (e : Z)                    (* an exception instance *)
| PySet (s : tset)                 (* a set of tasks; also tuple(<set>): the order of a tuple made of a set is erased *)
| PySrcs (l : list nat)            (* a sequence of sources: `aiters`, `aiter_map.keys()` *)
| PyAns (l : list nat)             (* a sequence of anext tasks: `task_map.keys()` *)
| PyExts (l : list nat)            (* an iterable of awaited tasks sent by the consumer *)
| PySrcMap (m : list (nat * nat))  (* dict source -> int *)
| PyTaskMap (m : list (nat * nat)) (* dict anext task -> source *)
| PyPair (a b : val).

Fixpoint lookup (m : list (nat * nat)) (k : nat) : option nat :=
  match m with [] => None | (k', v) :: r => if k =? k' then Some v else lookup r k end.

(** ---- world ---- *)

Inductive anst := AnPend | AnRes (r : res) | AnCancelled.

Record world := mkW {
  w_srcs : list (list V);
  w_an : list (nat * anst);     (* anext tasks by id: (source, state) *)
  w_ext : list tst
}.

Definition an_done (w : world) (t : nat) : bool :=
  match nth_error (w_an w) t with Some (_, AnPend) | None => false | Some _ => true end.
Definition owner (w : world) (t : nat) : option nat := option_map fst (nth_error (w_an w) t).

(** the two halves of what `asyncio.wait(ws, return_when=FIRST_COMPLETED)` returns *)
Definition done_of (w : world) (s : tset) : tset :=
  mkS (filter (an_done w) (s_an s)) (filter (tdone (w_ext w)) (s_ext s)).
Definition notdone_of (w : world) (s : tset) : tset :=
  mkS (filter (fun t => negb (an_done w t)) (s_an s)) (filter (fun t => negb (tdone (w_ext w) t)) (s_ext s)).

(** `ensure_future(a.__anext__())` for source i: a new pending task *)
Definition arm_world (w : world) (i : nat) : world := mkW (w_srcs w) (w_an w ++ [(i, AnPend)]) (w_ext w).
Definition cancel_world (w : world) (t : nat) : world :=
  match nth_error (w_an w) t with
  | Some (i, AnPend) => mkW (w_srcs w) (upd (w_an w) t (i, AnCancelled)) (w_ext w)
  | _ => w
  end.

Fixpoint find_pending (h : list (nat * anst)) (i : nat) (n : nat) : option nat :=
  match h with
  | [] => None
  | (j, AnPend) :: r => if j =? i then Some n else find_pending r i (S n)
  | _ :: r => find_pending r i (S n)
  end.

(** label [MComplete i] / [GSrc]: the (oldest) pending `__anext__` of source i completes *)
Definition complete_src (w : world) (i : nat) : world :=
  match find_pending (w_an w) i 0 with
  | Some t => let '(rest, r) := src_complete (nth i (w_srcs w) []) in
              mkW (upd (w_srcs w) i rest) (upd (w_an w) t (i, AnRes r)) (w_ext w)
  | None => w
  end.

(** ---- machine ---- *)

Notation env := (list (string * val)).

Fixpoint get (e : env) (x : string) : option val :=
  match e with [] => None | (y, v) :: r => if String.eqb x y then Some v else get r x end.
Fixpoint set (e : env) (x : string) (v : val) : env :=
  match e with
  | [] => [(x, v)]
  | (y, u) :: r => if String.eqb x y then (y, v) :: r else (y, u) :: set r x v
  end.
(** reading a variable: unbound/moved is an error *)
Definition rd (e : env) (x : string) : option val :=
  match get e x with Some PyUndef | None => None | Some v => Some v end.

Record mach := mkMach { i_env : env; i_w : world; i_ord : list nat }.

Definition setv (m : mach) (x : string) (v : val) : mach := mkMach (set (i_env m) x v) (i_w m) (i_ord m).
Definition setw (m : mach) (w : world) : mach := mkMach (i_env m) w (i_ord m).
Definition setord (m : mach) (o : list nat) : mach := mkMach (i_env m) (i_w m) o.

Fixpoint eval (w : world) (e : env) (x : expr) : option val :=
  match x with
  | EVar y => rd e y
  | ENone => Some PyNone
  | ETrue => Some (PyBool true)
  | EEmptySet => Some (PySet sempty)
  | ESingle a => match eval w e a with Some (PyTask t) => Some (PySet (ssingle t)) | _ => None end
  | EUnion a b => match eval w e a, eval w e b with
                  | Some (PySet s), Some (PySet t) => Some (PySet (sunion s t)) | _, _ => None end
  | EInter a b => match eval w e a, eval w e b with
                  | Some (PySet s), Some (PySet t) => Some (PySet (sinter s t)) | _, _ => None end
  | EDiff a b => match eval w e a, eval w e b with
                 | Some (PySet s), Some (PySet t) => Some (PySet (sminus s t)) | _, _ => None end
  | ESetOf a => match eval w e a with
                | Some (PyExts l) => Some (PySet (mkS [] (union [] l)))
                | Some (PyAns l) => Some (PySet (mkS (union [] l) []))
                | Some (PySet s) => Some (PySet s)
                | _ => None end
  | ETupleOf a => match eval w e a with Some (PySet s) => Some (PySet s) | _ => None end
  | EPair a b => match eval w e a, eval w e b with Some u, Some v => Some (PyPair u v) | _, _ => None end
  | EIn a b => match eval w e a, eval w e b with
               | Some (PyTask t), Some (PySet s) => Some (PyBool (smem t s)) | _, _ => None end
  | ENot a => match eval w e a with Some (PyBool b) => Some (PyBool (negb b)) | _ => None end
  | EIsNotNone a => match eval w e a with Some PyNone => Some (PyBool false) | Some _ => Some (PyBool true) | None => None end
  | EIndex m k => match eval w e m, eval w e k with
                  | Some (PyTaskMap tm), Some (PyTask (TAn t)) => option_map PySrc (lookup tm t)
                  | Some (PySrcMap sm), Some (PySrc i) => option_map PyIdx (lookup sm i)
                  | _, _ => None end
  | EKeys m => match eval w e m with
               | Some (PyTaskMap tm) => Some (PyAns (map fst tm))
               | Some (PySrcMap sm) => Some (PySrcs (map fst sm))
               | _ => None end
  | EEnumMap a => match eval w e a with
                  | Some (PySrcs l) => Some (PySrcMap (combine l (seq 0 (length l)))) | _ => None end
  | EDoneOf a => match eval w e a with Some (PySet s) => Some (PySet (done_of w s)) | _ => None end
  end.

(** truth value of a condition *)
Definition truthy (v : val) : option bool :=
  match v with
  | PyBool b => Some b
  | PySet s => Some (negb (sis_empty s))
  | PyNone => Some false
  | PyExc _ => Some true
  | _ => None
  end.
Definition test (w : world) (e : env) (c : expr) : option bool :=
  match eval w e c with Some v => truthy v | None => None end.

(** the order in which a `for` walks a set: the label's order first (without
    repetition), then the rest in canonical order *)
Fixpoint dedup (seen l : list nat) : list nat :=
  match l with
  | [] => []
  | x :: r => if mem x seen then dedup seen r else x :: dedup (x :: seen) r
  end.
Definition iter_order (ord : list nat) (s : tset) : list tref :=
  map TExt (dedup [] (filter (fun t => mem t (s_ext s)) ord ++ s_ext s)) ++ map TAn (s_an s).

(** `s.pop()` on a set of anext tasks: the label's order is an order of SOURCES
    (as in Model.v); the task of the first source in the order that has one in
    the set is popped.  Returns the task and the remaining order. *)
Fixpoint pop_by (w : world) (ord : list nat) (a : list nat) : option (nat * list nat) :=
  match ord with
  | [] => match a with t :: _ => Some (t, []) | [] => None end
  | i :: r => match find (fun t => match owner w t with Some j => j =? i | None => false end) a with
              | Some t => Some (t, r)
              | None => pop_by w r a
              end
  end.

Inductive frame :=
| FSeq (s : stmt)
| FWhile (c : expr) (b : stmt)
| FFor (x : string) (rest : list tref) (b : stmt).

Inductive outcome :=
| ONext (s : stmt) (k : list frame) (m : mach)
| OWait (d p : string) (ws : tset) (k : list frame) (m : mach)      (* suspended in await asyncio.wait(ws) *)
| OYield (x : option string) (v : val) (k : list frame) (m : mach)  (* suspended at [x =] yield v *)
| OFinished (m : mach)                                              (* the body ended: StopAsyncIteration *)
| ORaised (e : val) (m : mach)                                      (* the body raised *)
| OStuck (m : mach).

(** a statement has completed normally *)
Definition next (k : list frame) (m : mach) : outcome :=
  match k with
  | [] => OFinished m
  | FSeq s :: k' => ONext s k' m
  | FWhile c b :: k' => ONext (SWhile c b) k' m
  | FFor x [] b :: k' => ONext SSkip k' m
  | FFor x (t :: r) b :: k' => ONext b (FFor x r b :: k') (setv m x (PyTask t))
  end.

Fixpoint brk (k : list frame) (m : mach) : outcome :=
  match k with
  | [] => OStuck m
  | FSeq _ :: k' => brk k' m
  | _ :: k' => next k' m
  end.

Fixpoint cont (k : list frame) (m : mach) : outcome :=
  match k with
  | [] => OStuck m
  | FSeq _ :: k' => cont k' m
  | _ => next k m
  end.

Definition map_remove (m : list (nat * nat)) (k : nat) : list (nat * nat) := filter (fun p => negb (fst p =? k)) m.

Definition step1 (s : stmt) (k : list frame) (m : mach) : outcome :=
  let w := i_w m in
  let e := i_env m in
  match s with
  | SSkip => next k m
  | SSeq a b => ONext a (FSeq b :: k) m
  | SAssign x ex =>
    match eval w e ex with Some v => next k (setv m x v) | None => OStuck m end
  | SMove x y =>
    match rd e y with Some v => next k (setv (setv m y PyUndef) x v) | None => OStuck m end
  | SAugOr x ex =>
    match rd e x, eval w e ex with
    | Some (PySet a), Some (PySet b) => next k (setv m x (PySet (sunion a b))) | _, _ => OStuck m end
  | SAugAnd x ex =>
    match rd e x, eval w e ex with
    | Some (PySet a), Some (PySet b) => next k (setv m x (PySet (sinter a b))) | _, _ => OStuck m end
  | SAugSub x ex =>
    match rd e x, eval w e ex with
    | Some (PySet a), Some (PySet b) => next k (setv m x (PySet (sminus a b))) | _, _ => OStuck m end
  | SClear x =>
    match rd e x with Some (PySet _) => next k (setv m x (PySet sempty)) | _ => OStuck m end
  | SAdd x ex =>
    match rd e x, eval w e ex with
    | Some (PySet a), Some (PyTask t) => next k (setv m x (PySet (sunion a (ssingle t)))) | _, _ => OStuck m end
  | SRemove x ex =>
    match rd e x, eval w e ex with
    | Some (PySet a), Some (PyTask t) =>
      if smem t a then next k (setv m x (PySet (sminus a (ssingle t)))) else OStuck m   (* KeyError *)
    | _, _ => OStuck m end
  | SDiscard x ex =>
    match rd e x, eval w e ex with
    | Some (PySet a), Some (PyTask t) => next k (setv m x (PySet (sminus a (ssingle t)))) | _, _ => OStuck m end
  | SPop t x =>
    match rd e x with
    | Some (PySet a) =>
      match pop_by w (i_ord m) (s_an a) with
      | Some (n, ord') => next k (setord (setv (setv m x (PySet (sminus a (ssingle (TAn n))))) t (PyTask (TAn n))) ord')
      | None => OStuck m
      end
    | _ => OStuck m end
  | SSetItem mx kx vx =>
    match rd e mx, eval w e kx, eval w e vx with
    | Some (PyTaskMap tm), Some (PyTask (TAn t)), Some (PySrc i) => next k (setv m mx (PyTaskMap ((t, i) :: tm)))
    | _, _, _ => OStuck m end
  | SDelItem mx kx =>
    match rd e mx, eval w e kx with
    | Some (PyTaskMap tm), Some (PyTask (TAn t)) =>
      match lookup tm t with Some _ => next k (setv m mx (PyTaskMap (map_remove tm t))) | None => OStuck m end
    | _, _ => OStuck m end
  | SEnsureAnext t ax =>
    match eval w e ax with
    | Some (PySrc i) => next k (setv (setw m (arm_world w i)) t (PyTask (TAn (length (w_an w)))))
    | _ => OStuck m end
  | SArmAll mx ex =>
    match eval w e ex with
    | Some (PySrcs l) =>
      next k (setv (setw m (mkW (w_srcs w) (w_an w ++ map (fun a => (a, AnPend)) l) (w_ext w)))
                   mx (PyTaskMap (combine (seq (length (w_an w)) (length l)) l)))
    | _ => OStuck m end
  | SWait d p ex =>
    match eval w e ex with
    | Some (PySet ws) => if sis_empty ws then OStuck m (* ValueError: set of tasks is empty *) else OWait d p ws k m
    | _ => OStuck m end
  | SYield x ex =>
    match eval w e ex with Some v => OYield x v k m | None => OStuck m end
  | SResult x tx h =>
    match eval w e tx with
    | Some (PyTask (TAn n)) =>
      match nth_error (w_an w) n with
      | Some (_, AnRes (RItem v)) => next k (setv m x (PyItem v))
      | Some (_, AnRes RStop) => match h with Some hs => ONext hs k m | None => OStuck m end
      | _ => OStuck m          (* pending: InvalidStateError; cancelled: CancelledError *)
      end
    | _ => OStuck m end
  | SIfExc x tx body =>
    match eval w e tx with
    | Some (PyTask (TExt n)) =>
      match nth_error (w_ext w) n with
      | Some (TEnded (TExc ex)) => ONext body k (setv m x (PyExc ex))
      | Some (TEnded TOk) => next k (setv m x PyNone)
      | _ => OStuck m          (* exception() of a running task: InvalidStateError *)
      end
    | Some (PyTask (TAn n)) =>
      match nth_error (w_an w) n with
      | Some (_, AnRes (RItem _)) => next k (setv m x PyNone)
      | _ => OStuck m
      end
    | _ => OStuck m end
  | SCancel tx =>
    match eval w e tx with
    | Some (PyTask (TAn n)) => next k (setw m (cancel_world w n))
    | _ => OStuck m end
  | SRaise ex =>
    match eval w e ex with Some (PyExc z) => ORaised (PyExc z) m | _ => OStuck m end
  | SIf c a b =>
    match test w e c with Some true => ONext a k m | Some false => ONext b k m | None => OStuck m end
  | SWhile c b =>
    match test w e c with Some true => ONext b (FWhile c b :: k) m | Some false => next k m | None => OStuck m end
  | SFor x ex b =>
    match eval w e ex with
    | Some (PySet s) => next (FFor x (iter_order (i_ord m) s) b :: k) m
    | _ => OStuck m end
  | SBreak => brk k m
  | SContinue => cont k m
  end.

Fixpoint run (fuel : nat) (s : stmt) (k : list frame) (m : mach) : outcome :=
  match fuel with
  | O => OStuck m
  | S f => match step1 s k m with ONext s' k' m' => run f s' k' m' | o => o end
  end.

(** fuel: every loop of the fragment consumes an element of a set (or of the
    label's order) per iteration, so a multiple of their total size is enough *)
Definition env_size (e : env) : nat :=
  fold_right (fun xv acc => match snd xv with PySet s => ssize s + acc | _ => acc end) 0 e.
Definition fuel_of (m : mach) : nat := 32 * S (env_size (i_env m) + length (i_ord m)).

(** ---- a generator object ---- *)

Inductive status :=
| StFresh (body : stmt)
| StWait (d p : string) (ws : tset) (k : list frame)
| StYield (x : option string) (k : list frame)
| StFinished
| StRaised
| StStuck.

Record cfg := mkC { c_st : status; c_m : mach }.

Definition cfg_of (o : outcome) : cfg :=
  match o with
  | OWait d p ws k m => mkC (StWait d p ws k) m
  | OYield x _ k m => mkC (StYield x k) m
  | OFinished m => mkC StFinished m
  | ORaised _ m => mkC StRaised m
  | ONext _ _ m | OStuck m => mkC StStuck m
  end.

Definition stuck (c : cfg) : bool := match c_st c with StStuck => true | _ => false end.

Definition init_env (vars : list string) : env := map (fun x => (x, PyUndef)) vars.

Definition go (s : stmt) (k : list frame) (m : mach) : outcome := run (fuel_of m) s k m.

(** resuming at a yield: the sent value is bound to the target, if there is one *)
Definition send (x : option string) (m : mach) (v : val) : mach :=
  match x with Some y => setv m y v | None => m end.

(** `d, p = await asyncio.wait(ws)` returns *)
Definition wake (d p : string) (ws : tset) (m : mach) (ord : list nat) : mach :=
  setord (setv (setv m d (PySet (done_of (i_w m) ws))) p (PySet (notdone_of (i_w m) ws))) ord.

(** ---- merge_aiters under the labels of Model.v ---- *)

Definition minit_cfg (vars : list string) (body : stmt) (items : list (list V)) : cfg :=
  mkC (StFresh body)
      (mkMach (set (init_env vars) (hd ""%string vars) (PySrcs (seq 0 (length items)))) (mkW items [] []) []).

Definition mvis (o : outcome) : vis :=
  match o with
  | OYield _ (PyPair (PyIdx i) (PyItem v)) _ _ => VYield i v
  | OFinished _ => VStop
  | _ => VNone
  end.

(** sources of the tasks in a done-set, as a sorted list *)
Definition srcs_of (w : world) (s : tset) : list nat :=
  union [] (flat_map (fun t => match owner w t with Some i => [i] | None => [] end) (s_an s)).

Definition imstep (c : cfg) (l : mlabel) : cfg * mout :=
  let m := c_m c in
  match l with
  | MNext =>
    match c_st c with
    | StFresh body => let o := go body [] m in (cfg_of o, ([], mvis o))
    | StYield x k => let o := go SSkip k (send x m PyNone) in (cfg_of o, ([], mvis o))
    | StFinished => (c, ([], VStop))
    | _ => (c, ([], VNone))
    end
  | MComplete i => (mkC (c_st c) (setw m (complete_src (i_w m) i)), ([], VNone))
  | MWake ord =>
    match c_st c with
    | StWait d p ws k =>
      let dn := done_of (i_w m) ws in
      if sis_empty dn then (c, ([], VNone))
      else let o := go SSkip k (wake d p ws m (ord ++ seq 0 (length (w_srcs (i_w m))))) in
           (cfg_of o, (srcs_of (i_w m) dn, mvis o))
    | _ => (c, ([], VNone))
    end
  end.

Fixpoint imrun_from (c : cfg) (ls : list mlabel) : cfg * list mout :=
  match ls with
  | [] => (c, [])
  | l :: r => let '(c', o) := imstep c l in
              let '(c'', os) := imrun_from c' r in (c'', o :: os)
  end.

(** ---- agen_with_wait under the labels of Model.v ---- *)

Definition ginit_cfg (vars : list string) (body : stmt) (items : list V) : cfg :=
  mkC (StFresh body)
      (mkMach (set (init_env vars) (hd ""%string vars) (PySrc 0)) (mkW [items] [] []) []).

Definition gvis_of (o : outcome) : gvis :=
  match o with
  | OYield _ (PyItem v) _ _ => GVItem v
  | OYield _ (PyPair (PySet d) (PySet p)) _ _ => GVSets (s_ext d) (s_ext p)
  | OFinished _ => GVStop
  | ORaised (PyExc e) _ => GVRaise e
  | OWait _ _ _ _ _ => GVNone
  | _ => GVErr
  end.

Definition igstep (c : cfg) (l : glabel) : cfg * gout :=
  let m := c_m c in
  let w := i_w m in
  let nothing := ((false, []), GVNone) in
  match l with
  | GSpawn => (mkC (c_st c) (setw m (mkW (w_srcs w) (w_an w) (w_ext w ++ [TRunning]))), nothing)
  | GTaskEnd t r =>
    match nth_error (w_ext w) t with
    | Some TRunning => (mkC (c_st c) (setw m (mkW (w_srcs w) (w_an w) (upd (w_ext w) t (TEnded r)))), nothing)
    | _ => (c, nothing)
    end
  | GSrc => (mkC (c_st c) (setw m (complete_src w 0)), nothing)
  | GSend new =>
    match c_st c with
    | StFresh body =>
      match new with
      | None => let o := go body [] m in (cfg_of o, ((false, []), gvis_of o))
      | Some _ => (c, ((false, []), GVErr))     (* TypeError: non-None sent to a just-started generator *)
      end
    | StYield x k =>
      let o := go SSkip k (send x m (match new with None => PyNone | Some ts => PyExts ts end)) in
      (cfg_of o, ((false, []), gvis_of o))
    | StWait _ _ _ _ => (c, nothing)
    | StFinished | StRaised => (c, ((false, []), GVStop))
    | StStuck => (c, ((false, []), GVErr))
    end
  | GWake ord =>
    match c_st c with
    | StWait d p ws k =>
      let dn := done_of w ws in
      if sis_empty dn then (c, nothing)
      else let o := go SSkip k (wake d p ws m ord) in
           (cfg_of o, ((negb (is_nil (s_an dn)), s_ext dn), gvis_of o))
    | _ => (c, nothing)
    end
  end.

Fixpoint igrun_from (c : cfg) (ls : list glabel) : cfg * list gout :=
  match ls with
  | [] => (c, [])
  | l :: r => let '(c', o) := igstep c l in
              let '(c'', os) := igrun_from c' r in (c'', o :: os)
  end.

(** ---- to_aiter ---- *)

Fixpoint find_meth (ms : list meth) (n : string) : option meth :=
  match ms with [] => None | m :: r => if String.eqb (me_name m) n then Some m else find_meth r n end.

(** `self.<attr>` resolved through the selector set by __init__ *)
Definition resolve (sel : selector) (flag : bool) (n : string) : string :=
  if String.eqb n (sel_attr sel) then (if flag then sel_then sel else sel_else sel) else n.

(** result of a call: a value or an exception *)
Inductive cres := CVal (v : V) | CExn (x : exn).

Definition exn_eqb (a b : exn) : bool :=
  match a, b with
  | XStopIteration, XStopIteration | XStopAsyncIteration, XStopAsyncIteration | XCustomStop, XCustomStop => true
  | _, _ => false
  end.

(** an enclosing `try ... except x: h` through which a result has still to pass *)
Notation handler := (exn * cstmt)%type.

Inductive coutcome :=
| CDone (r : cres) (it : list V) (lg : list res)        (* finished; iterator state; what next(self._it) obtained *)
| CThread (m : string) (hs : list handler) (it : list V) (lg : list res)
                                                        (* suspended in await asyncio.to_thread(self.m) *)
| CStuck.

Section ToAiter.
  Variable ms : list meth.
  Variable sel : selector.
  Variable flag : bool.

  (** [sync]: executing inside a plain function (an `await` is an error) *)
  Fixpoint cexec (fuel : nat) (sync : bool) (s : cstmt) (it : list V) (lg : list res) : coutcome :=
    match fuel with
    | O => CStuck
    | S f =>
      match s with
      | CRaise x => CDone (CExn x) it lg
      | CReturn CNextIt =>
        match it with
        | v :: r => CDone (CVal v) r (lg ++ [RItem v])
        | [] => CDone (CExn XStopIteration) [] (lg ++ [RStop])
        end
      | CReturn (CCall n) =>
        match find_meth ms (resolve sel flag n) with
        | Some me => if me_async me then CStuck else cexec f true (me_body me) it lg
        | None => CStuck
        end
      | CReturn (CAwaitCall n) =>
        if sync then CStuck else
        match find_meth ms (resolve sel flag n) with
        | Some me => if me_async me then cexec f false (me_body me) it lg else CStuck
        | None => CStuck
        end
      | CReturn (CAwaitToThread n) =>
        if sync then CStuck else
        match find_meth ms (resolve sel flag n) with
        | Some me => if me_async me then CStuck else CThread (me_name me) [] it lg
        | None => CStuck
        end
      | CTry body x h =>
        match cexec f sync body it lg with
        | CDone (CExn y) it' lg' => if exn_eqb x y then cexec f sync h it' lg' else CDone (CExn y) it' lg'
        | CThread n hs it' lg' => CThread n (hs ++ [(x, h)]) it' lg'
        | o => o
        end
      end
    end.

  (** a result travels outwards through the pending handlers (all of them in
      coroutines: the awaits are in tail position) *)
  Fixpoint unwind (fuel : nat) (hs : list handler) (r : cres) (it : list V) (lg : list res) : coutcome :=
    match hs with
    | [] => CDone r it lg
    | (x, h) :: rest =>
      match r with
      | CExn y =>
        if exn_eqb x y then
          match cexec fuel false h it lg with
          | CDone r' it' lg' => unwind fuel rest r' it' lg'
          | _ => CStuck
          end
        else unwind fuel rest r it lg
      | CVal _ => unwind fuel rest r it lg
      end
    end.
End ToAiter.

(** what the caller of `__anext__` sees *)
Definition res_of (r : cres) : option res :=
  match r with CVal v => Some (RItem v) | CExn XStopAsyncIteration => Some RStop | CExn _ => None end.

Inductive icall :=
| ISubmitted (m : string) (hs : list handler)
| IRan (r : cres) (hs : list handler)
| IDelivered.

Record itstate := mkIT {
  it_rest : list V;
  it_calls : list icall;
  it_log : list (nat * res);       (* ghost: which call's execution of next(self._it) obtained what *)
  it_stuck : bool
}.

Definition itinit (items : list V) : itstate := mkIT items [] [] false.

Definition tfuel : nat := 16.

Definition tag (c : nat) (lg : list res) : list (nat * res) := map (fun r => (c, r)) lg.

Definition itstep (ms : list meth) (sel : selector) (flag : bool) (st : itstate) (l : tlabel) : itstate * tout :=
  let stuck := (mkIT (it_rest st) (it_calls st) (it_log st) true, TONone) in
  match l with
  | TCall =>
    let c := length (it_calls st) in
    match cexec ms sel flag tfuel false (CReturn (CAwaitCall "__anext__"%string)) (it_rest st) [] with
    | CDone r it lg =>
      match res_of r with
      | Some rr => (mkIT it (it_calls st ++ [IDelivered]) (it_log st ++ tag c lg) (it_stuck st), TORes c rr)
      | None => stuck
      end
    | CThread n hs it lg => (mkIT it (it_calls st ++ [ISubmitted n hs]) (it_log st ++ tag c lg) (it_stuck st), TONone)
    | CStuck => stuck
    end
  | TRun c =>
    match nth_error (it_calls st) c with
    | Some (ISubmitted n hs) =>
      match cexec ms sel flag tfuel true (CReturn (CCall n)) (it_rest st) [] with
      | CDone r it lg => (mkIT it (upd (it_calls st) c (IRan r hs)) (it_log st ++ tag c lg) (it_stuck st), TONone)
      | _ => stuck
      end
    | _ => (st, TONone)
    end
  | TDeliver c =>
    match nth_error (it_calls st) c with
    | Some (IRan r hs) =>
      match unwind ms sel flag tfuel hs r (it_rest st) [] with
      | CDone r' it lg =>
        match res_of r' with
        | Some rr => (mkIT it (upd (it_calls st) c IDelivered) (it_log st ++ tag c lg) (it_stuck st), TORes c rr)
        | None => stuck
        end
      | _ => stuck
      end
    | _ => (st, TONone)
    end
  end.

Fixpoint itrun_from (ms : list meth) (sel : selector) (flag : bool) (st : itstate) (ls : list tlabel) : itstate * list tout :=
  match ls with
  | [] => (st, [])
  | l :: r => let '(st', o) := itstep ms sel flag st l in
              let '(st'', os) := itrun_from ms sel flag st' r in (st'', o :: os)
  end.

(** ---- the consumer closes / is cancelled ---- *)

(** `aclose()` of the generator (or cancellation of the consumer while it awaits `__anext__`): GeneratorExit /
    CancelledError is raised at the suspension point.  The syntax of Aio/Syntax.v has no try/finally and no
    handler around a suspension point (the translator refuses them; the only handler, [SResult]'s, guards a
    `.result()` call), so nothing of the body runs any more: the generator is finished.  Nothing cancels the
    tasks the body has armed or was handed: they stay in the heap as they are and can still complete. *)
Definition iclose (c : cfg) : cfg :=
  match c_st c with
  | StFresh _ | StWait _ _ _ _ | StYield _ _ => mkC StFinished (c_m c)
  | _ => c
  end.

(** labels of the environment alone (they do not look at the generator) *)
Definition glabel_env (l : glabel) : bool :=
  match l with GSpawn | GTaskEnd _ _ | GSrc => true | GSend _ | GWake _ => false end.
