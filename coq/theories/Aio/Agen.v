(** Proofs about the model of [agen_with_wait] (Model.v), for EVERY label
    sequence: source completions, task endings/failures, asend/anext of the
    consumer, wake-ups with any iteration order of the done-set. *)
From NL Require Import Aio.Model.
From Coq Require Import Lia.

(** ---- sets as sorted lists ---- *)

Lemma In_ins x y l : In x (ins y l) <-> x = y \/ In x l.
Proof.
  induction l as [|z r IH]; simpl.
  - intuition.
  - destruct (y <? z); simpl; [intuition|].
    destruct (Nat.eqb_spec y z); simpl.
    + subst. intuition.
    + rewrite IH. intuition.
Qed.

Lemma In_union x b : forall a, In x (union a b) <-> In x a \/ In x b.
Proof.
  unfold union. induction b as [|y r IH]; simpl; intros a.
  - intuition.
  - rewrite IH, In_ins. intuition.
Qed.

Lemma mem_In x l : mem x l = true <-> In x l.
Proof.
  unfold mem. rewrite existsb_exists. split.
  - intros (y & Hy & He). apply Nat.eqb_eq in He. subst; auto.
  - intros H. exists x. split; auto. apply Nat.eqb_refl.
Qed.

Lemma In_minus x a b : In x (minus a b) <-> In x a /\ ~ In x b.
Proof.
  unfold minus. rewrite filter_In, negb_true_iff. split; intros [H1 H2]; split; auto.
  - intros Hb. apply mem_In in Hb. congruence.
  - destruct (mem x b) eqn:E; auto. apply mem_In in E. contradiction.
Qed.

(** ---- first_exc ---- *)

Lemma first_exc_some ts l e : first_exc ts l = Some e -> exists t, In t l /\ texc ts t = Some e.
Proof.
  induction l as [|t r IH]; simpl; [discriminate|].
  destruct (texc ts t) eqn:E.
  - intros H; inversion H; subst. eauto.
  - intros H. destruct (IH H) as (t' & ? & ?). eauto.
Qed.

Lemma first_exc_none ts l : first_exc ts l = None -> forall t, In t l -> texc ts t = None.
Proof.
  induction l as [|t r IH]; simpl; [tauto|].
  destruct (texc ts t) eqn:E; [discriminate|]. intros H t' [<-|Ht']; auto.
Qed.

Lemma texc_tdone ts t e : texc ts t = Some e -> tdone ts t = true.
Proof. unfold texc, tdone. destruct (nth_error ts t) as [[|[|]]|]; simpl; congruence. Qed.

(** ---- runs, from the right ---- *)

Lemma grun_from_app ls : forall st ls',
  grun_from st (ls ++ ls') =
  let '(st1, os1) := grun_from st ls in let '(st2, os2) := grun_from st1 ls' in (st2, os1 ++ os2).
Proof.
  induction ls as [|l r IH]; simpl; intros.
  - destruct (grun_from st ls'); reflexivity.
  - destruct (gstep st l) as [st1 o]. rewrite IH.
    destruct (grun_from st1 r) as [st2 os2]. destruct (grun_from st2 ls'); reflexivity.
Qed.

Lemma grun_snoc items ls l : grun items (ls ++ [l]) = fst (gstep (grun items ls) l).
Proof.
  unfold grun. rewrite grun_from_app. destruct (grun_from (ginit items) ls) as [st os]. simpl.
  destruct (gstep st l); reflexivity.
Qed.

Lemma gouts_snoc items ls l : gouts items (ls ++ [l]) = gouts items ls ++ [snd (gstep (grun items ls) l)].
Proof.
  unfold gouts, grun. rewrite grun_from_app. destruct (grun_from (ginit items) ls) as [st os]. simpl.
  destruct (gstep st l); reflexivity.
Qed.

Lemma gitems_app a b : gitems (a ++ b) = gitems a ++ gitems b.
Proof. unfold gitems. apply flat_map_app. Qed.

(** ---- state invariant: accounting of the wrapped iterator's items ---- *)

Definition ainfl (a : ast) : list V := match a with ADone (RItem v) => [v] | _ => [] end.

Definition idle_phase (p : gphase) : Prop :=
  match p with GFresh | GItem | GSets | GFin => True | _ => False end.

Record SInv (items : list V) (got : list V) (st : gstate) : Prop := mkSInv {
  S_acct : items = got ++ ainfl (g_anext st) ++ g_rest st;
  S_idle : idle_phase (g_phase st) -> g_anext st = ANone;
  S_stop : g_anext st = ADone RStop -> g_rest st = [];
  S_fin : g_phase st = GFin -> g_rest st = []
}.

Definition gv (v : gvis) : list V := match v with GVItem x => [x] | _ => [] end.

Lemma gstep_sinv items got st l st' o :
  SInv items got st -> gstep st l = (st', o) -> SInv items (got ++ gv (snd o)) st'.
Proof.
  intros [Ha Hi Hs Hf] H. destruct l as [|t r| |new|ord]; simpl in H.
  - injection H as <- <-; simpl. rewrite app_nil_r. constructor; auto.
  - destruct (nth_error (g_tasks st) t) as [[|]|]; injection H as <- <-; simpl; rewrite app_nil_r; constructor; auto.
  - destruct (g_anext st) eqn:Ea;
      try solve [injection H as <- <-; simpl; rewrite app_nil_r; constructor; rewrite ?Ea; auto].
    assert (Hni : ~ idle_phase (g_phase st)) by (intros Hp; specialize (Hi Hp); discriminate).
    assert (Hnf : g_phase st <> GFin) by (intros Hp; apply Hni; rewrite Hp; exact I).
    destruct (g_rest st) as [|v rest] eqn:Er; simpl in H; injection H as <- <-; simpl; rewrite app_nil_r;
      constructor; simpl; auto; try discriminate; try tauto.
  - destruct (g_phase st) eqn:Ep.
    + destruct new; injection H as <- <-; simpl; rewrite app_nil_r.
      * constructor; rewrite ?Ep; auto.
      * constructor; simpl; try tauto; try discriminate. rewrite Hi in Ha by exact I. exact Ha.
    + injection H as <- <-; simpl; rewrite app_nil_r. constructor; rewrite ?Ep; auto.
    + destruct new; injection H as <- <-; simpl; rewrite app_nil_r.
      * constructor; simpl; auto; try discriminate.
      * constructor; simpl; try tauto; try discriminate. rewrite Hi in Ha by exact I. exact Ha.
    + injection H as <- <-; simpl; rewrite app_nil_r.
      constructor; simpl; try tauto; try discriminate. rewrite Hi in Ha by exact I. exact Ha.
    + injection H as <- <-; simpl; rewrite app_nil_r. constructor; rewrite ?Ep; auto.
    + injection H as <- <-; simpl; rewrite app_nil_r. constructor; rewrite ?Ep; auto.
  - destruct (g_phase st) eqn:Ep;
      try (injection H as <- <-; simpl; rewrite app_nil_r; constructor; rewrite ?Ep; auto; fail).
    match type of H with (if ?c then _ else _) = _ => destruct c end.
    { injection H as <- <-; simpl; rewrite app_nil_r; constructor; rewrite ?Ep; auto. }
    match type of H with match ?c with _ => _ end = _ => destruct c end.
    { injection H as <- <-; simpl; rewrite app_nil_r. constructor; simpl; try tauto; try discriminate.
      - destruct (g_anext st); auto.
      - destruct (g_anext st); auto; discriminate. }
    destruct (g_anext st) as [| |[v|]|] eqn:Ea; injection H as <- <-; simpl; rewrite ?app_nil_r;
      constructor; simpl; auto; try tauto; try discriminate.
    + simpl in Ha. rewrite <- app_assoc. exact Ha.
Qed.

Lemma run_sinv items ls : SInv items (gitems (gouts items ls)) (grun items ls).
Proof.
  induction ls as [|l ls IH] using rev_ind.
  - unfold gouts, grun; simpl. constructor; simpl; auto; discriminate.
  - rewrite grun_snoc, gouts_snoc, gitems_app.
    destruct (gstep (grun items ls) l) as [st' o] eqn:E.
    assert (Hg : gitems [o] = gv (snd o)) by (unfold gitems, gv; simpl; destruct (snd o); reflexivity).
    cbn [fst snd]. rewrite Hg. eapply gstep_sinv; eauto.
Qed.

(** The items yielded are, in order, a prefix of the wrapped iterator's items:
    nothing foreign, nothing twice, nothing out of order; the rest is what is in
    flight (at most one) and what the iterator has not produced yet. *)
Theorem agen_items items ls :
  items = gitems (gouts items ls) ++ ainfl (g_anext (grun items ls)) ++ g_rest (grun items ls).
Proof. apply (run_sinv items ls). Qed.

(** a normally finished iteration has yielded exactly the wrapped iterator's items *)
Theorem agen_complete_when_finished items ls :
  g_phase (grun items ls) = GFin -> gitems (gouts items ls) = items.
Proof.
  intros Hp. destruct (run_sinv items ls) as [Ha Hi Hs Hf].
  rewrite Hi in Ha by (rewrite Hp; exact I). rewrite (Hf Hp) in Ha. simpl in Ha.
  rewrite app_nil_r in Ha. auto.
Qed.

(** ---- exceptions ---- *)

(** promptness: a wake-up while an awaited task has failed raises (whatever the
    set order), and what it raises is the exception of an awaited failed task *)
Theorem agen_wake_raises st ord t e :
  g_phase st = GWait -> In t (g_pending st) -> texc (g_tasks st) t = Some e ->
  exists e' t', snd (snd (gstep st (GWake ord))) = GVRaise e' /\ g_phase (fst (gstep st (GWake ord))) = GRaised /\
                In t' (g_pending st) /\ texc (g_tasks st) t' = Some e'.
Proof.
  intros Hp Hin He. simpl. rewrite Hp.
  set (dts := filter (tdone (g_tasks st)) (g_pending st)).
  assert (Hd : In t dts) by (apply filter_In; split; auto; eapply texc_tdone; eauto).
  assert (Hne : (negb match g_anext st with ADone _ => true | _ => false end &&
                 match dts with [] => true | _ :: _ => false end) = false).
  { destruct dts; [contradiction|]. apply andb_false_r. }
  rewrite Hne.
  destruct (first_exc (g_tasks st) (filter (fun t0 => mem t0 dts) ord ++ dts)) as [e'|] eqn:Ef.
  - apply first_exc_some in Ef. destruct Ef as (t' & Ht' & He').
    exists e', t'. simpl. repeat split; auto.
    apply in_app_or in Ht'. destruct Ht' as [Ht'|Ht'].
    + apply filter_In in Ht'. destruct Ht' as [_ Hm]. apply mem_In in Hm. apply filter_In in Hm. tauto.
    + apply filter_In in Ht'. tauto.
  - exfalso. pose proof (first_exc_none _ _ Ef t). rewrite H in He; [discriminate|].
    apply in_or_app. right. auto.
Qed.

(** hence: an item or a normal end is only ever produced when no awaited task has failed *)
Theorem agen_no_item_past_failure st ord :
  g_phase st = GWait ->
  (forall v, snd (snd (gstep st (GWake ord))) <> GVItem v) /\ snd (snd (gstep st (GWake ord))) <> GVStop \/
  forall t, In t (g_pending st) -> texc (g_tasks st) t = None.
Proof.
  intros Hp.
  destruct (existsb (fun t => match texc (g_tasks st) t with Some _ => true | None => false end) (g_pending st)) eqn:Ee.
  - left. apply existsb_exists in Ee. destruct Ee as (t & Ht & He).
    destruct (texc (g_tasks st) t) as [e|] eqn:Et; [|discriminate].
    destruct (agen_wake_raises st ord t e Hp Ht Et) as (e' & t' & Ho & _). rewrite Ho.
    split; [intros v|]; discriminate.
  - right. intros t Ht. destruct (texc (g_tasks st) t) eqn:Et; auto.
    assert (existsb (fun t => match texc (g_tasks st) t with Some _ => true | None => false end) (g_pending st) = true).
    { apply existsb_exists. exists t. rewrite Et. auto. }
    congruence.
Qed.

(** awaited tasks stay awaited: a task leaves `pending` only when it has ended
    without an exception *)
Theorem agen_pending_kept st l t :
  In t (g_pending st) -> In t (g_pending (fst (gstep st l))) \/
  (tdone (g_tasks st) t = true /\ texc (g_tasks st) t = None).
Proof.
  intros Hin. destruct l as [|t0 r| |new|ord]; simpl; auto.
  - destruct (nth_error (g_tasks st) t0) as [[|]|]; simpl; auto.
  - destruct (g_anext st); simpl; auto. destruct (src_complete (g_rest st)); simpl; auto.
  - destruct (g_phase st); simpl; auto; destruct new; simpl; auto.
    left. apply In_union. auto.
  - destruct (g_phase st); simpl; auto.
    match goal with |- context [if ?c then _ else _] => destruct c end; simpl; auto.
    set (dts := filter (tdone (g_tasks st)) (g_pending st)).
    destruct (first_exc (g_tasks st) (filter (fun t1 => mem t1 dts) ord ++ dts)) eqn:Ef; simpl; auto.
    destruct (g_anext st) as [| |[v|]|]; simpl; auto.
    destruct (in_dec Nat.eq_dec t dts) as [Hd|Hnd].
    + right. split.
      * apply filter_In in Hd. tauto.
      * eapply first_exc_none; eauto. apply in_or_app; auto.
    + left. apply In_minus. auto.
Qed.

(** identity of the raised exception, in terms of the history alone: whatever is
    raised is the exception with which some task ended that had been handed to
    the generator with asend *)
Record HInv (ls : list glabel) (st : gstate) : Prop := mkHInv {
  H_exc : forall t e, texc (g_tasks st) t = Some e -> In (GTaskEnd t (TExc e)) ls;
  H_sent : forall t, In t (g_pending st) -> exists ts, In (GSend (Some ts)) ls /\ In t ts
}.

Lemma texc_upd ts t0 r t e :
  nth_error ts t0 = Some TRunning -> texc (upd ts t0 (TEnded r)) t = Some e ->
  (t = t0 /\ r = TExc e) \/ texc ts t = Some e.
Proof.
  unfold texc. intros Hn H. destruct (Nat.eq_dec t0 t) as [->|Hne].
  - assert (nth_error (upd ts t (TEnded r)) t = Some (TEnded r)).
    { clear H. revert t Hn. induction ts; intros [|t]; simpl; intros; try discriminate; auto. }
    rewrite H0 in H. destruct r; inversion H; auto.
  - assert (nth_error (upd ts t0 (TEnded r)) t = nth_error ts t).
    { clear - Hne. revert t0 t Hne. induction ts; intros [|a0] [|b0]; simpl; intros; auto; congruence. }
    rewrite H0 in H. auto.
Qed.

Lemma texc_app ts t e : texc (ts ++ [TRunning]) t = Some e -> texc ts t = Some e.
Proof.
  unfold texc. destruct (lt_dec t (length ts)).
  - rewrite nth_error_app1 by auto. auto.
  - rewrite nth_error_app2 by lia. destruct (t - length ts) as [|[|k]]; simpl; discriminate.
Qed.

Lemma run_hinv items ls : HInv ls (grun items ls).
Proof.
  induction ls as [|l ls IH] using rev_ind.
  - constructor; unfold grun; simpl.
    + intros t e. unfold texc. destruct t; discriminate.
    + tauto.
  - rewrite grun_snoc. destruct IH as [He Hs].
    assert (He' : forall t e, texc (g_tasks (grun items ls)) t = Some e -> In (GTaskEnd t (TExc e)) (ls ++ [l]))
      by (intros; apply in_or_app; left; auto).
    assert (Hs' : forall t, In t (g_pending (grun items ls)) -> exists ts, In (GSend (Some ts)) (ls ++ [l]) /\ In t ts).
    { intros t Ht. destruct (Hs t Ht) as (ts & ? & ?). exists ts. split; auto. apply in_or_app; auto. }
    set (st := grun items ls) in *.
    destruct l as [|t0 r| |new|ord]; simpl.
    + constructor; simpl; auto. intros t e Ht. apply texc_app in Ht. auto.
    + destruct (nth_error (g_tasks st) t0) as [[|]|] eqn:En; simpl; try (constructor; auto; fail).
      constructor; simpl; auto. intros t e Ht.
      destruct (texc_upd _ _ _ _ _ En Ht) as [[-> ->]|]; auto.
      apply in_or_app. right. left. reflexivity.
    + destruct (g_anext st); simpl; try (constructor; auto; fail).
      destruct (src_complete (g_rest st)); simpl. constructor; auto.
    + destruct (g_phase st); simpl; try (constructor; auto; fail); destruct new; simpl; try (constructor; auto; fail).
      constructor; simpl; auto. intros t Ht. apply In_union in Ht. destruct Ht as [Ht|Ht]; auto.
      exists l. split; auto. apply in_or_app. right. left. reflexivity.
    + destruct (g_phase st); simpl; try (constructor; auto; fail).
      match goal with |- context [if ?c then _ else _] => destruct c end; simpl; try (constructor; auto; fail).
      match goal with |- context [match ?c with Some _ => _ | None => _ end] => destruct c end; simpl;
        try (constructor; auto; fail).
      destruct (g_anext st) as [| |[v|]|]; simpl; constructor; simpl; auto.
      intros t Ht. apply In_minus in Ht. destruct Ht. auto.
Qed.

Theorem agen_raise_identity items ls x e :
  In (x, GVRaise e) (gouts items ls) ->
  exists t ts, In (GTaskEnd t (TExc e)) ls /\ In (GSend (Some ts)) ls /\ In t ts.
Proof.
  induction ls as [|l ls IH] using rev_ind.
  - unfold gouts; simpl; tauto.
  - rewrite gouts_snoc. intros H. apply in_app_or in H. destruct H as [H|[H|[]]].
    + destruct (IH H) as (t & ts & ? & ? & ?). exists t, ts. repeat split; auto; apply in_or_app; auto.
    + pose proof (run_hinv items ls) as [He Hs]. set (st := grun items ls) in *.
      assert (G : exists t, In t (g_pending st) /\ texc (g_tasks st) t = Some e).
      { destruct l as [|t0 r| |new|ord]; simpl in H;
          repeat match type of H with
                 | snd (match ?c with _ => _ end) = _ => destruct c eqn:?; simpl in H
                 | snd (if ?c then _ else _) = _ => destruct c eqn:?; simpl in H
                 end; try discriminate; try (inversion H; fail).
        inversion H; subst.
        match goal with Hf : first_exc _ _ = Some _ |- _ => apply first_exc_some in Hf; destruct Hf as (t' & Ht' & He') end.
        exists t'. split; auto. apply in_app_or in Ht'. destruct Ht' as [Ht'|Ht'].
        - apply filter_In in Ht'. destruct Ht' as [_ Hm]. apply mem_In in Hm. apply filter_In in Hm. tauto.
        - apply filter_In in Ht'. tauto. }
      destruct G as (t & Hin & Hex). destruct (Hs t Hin) as (ts & ? & ?).
      exists t, ts. repeat split; auto; apply in_or_app; auto.
Qed.

(** without a failing task the iteration never raises *)
Theorem agen_no_failure_no_raise items ls :
  (forall t e, ~ In (GTaskEnd t (TExc e)) ls) ->
  g_phase (grun items ls) <> GRaised /\ forall x e, ~ In (x, GVRaise e) (gouts items ls).
Proof.
  intros Hno. split.
  - induction ls as [|l ls IH] using rev_ind; [unfold grun; simpl; discriminate|].
    assert (Hno' : forall t e, ~ In (GTaskEnd t (TExc e)) ls).
    { intros t e Hi. apply (Hno t e). apply in_or_app; auto. }
    specialize (IH Hno'). rewrite grun_snoc.
    pose proof (run_hinv items ls) as [He _]. set (st := grun items ls) in *.
    destruct l as [|t0 r| |new|ord]; simpl; auto.
    + destruct (nth_error (g_tasks st) t0) as [[|]|]; simpl; auto.
    + destruct (g_anext st); simpl; auto. destruct (src_complete (g_rest st)); simpl; auto.
    + destruct (g_phase st) eqn:Ep; try destruct new; simpl; rewrite ?Ep; congruence.
    + destruct (g_phase st) eqn:Ep; simpl; rewrite ?Ep; auto.
      match goal with |- context [if ?c then _ else _] => destruct c end; simpl; [rewrite Ep; discriminate|].
      match goal with |- context [match ?c with Some _ => _ | None => _ end] => destruct c as [e'|] eqn:Ef end; simpl.
      * exfalso. apply first_exc_some in Ef. destruct Ef as (t' & _ & He'). eapply Hno'; eauto.
      * destruct (g_anext st) as [| |[v|]|]; simpl; discriminate.
  - intros x e Hin. destruct (agen_raise_identity _ _ _ _ Hin) as (t & ts & H1 & _). eapply Hno; eauto.
Qed.

(** when exactly one awaited task has failed, its exception is the one raised *)
Theorem agen_single_failure st ord t e :
  g_phase st = GWait -> In t (g_pending st) -> texc (g_tasks st) t = Some e ->
  (forall t' e', In t' (g_pending st) -> texc (g_tasks st) t' = Some e' -> e' = e) ->
  snd (snd (gstep st (GWake ord))) = GVRaise e.
Proof.
  intros Hp Hin He Hu. destruct (agen_wake_raises st ord t e Hp Hin He) as (e' & t' & Ho & _ & Hin' & He').
  rewrite Ho. f_equal. eauto.
Qed.

Theorem agen_items_full items ls :
  items = gitems (gouts items ls) ++ ainfl (g_anext (grun items ls)) ++ g_rest (grun items ls) /\
  (g_phase (grun items ls) = GFin -> gitems (gouts items ls) = items).
Proof. split; [exact (agen_items items ls) | exact (agen_complete_when_finished items ls)]. Qed.

Theorem agen_first_exception :
  (forall st ord t e, g_phase st = GWait -> In t (g_pending st) -> texc (g_tasks st) t = Some e ->
     exists e' t', snd (snd (gstep st (GWake ord))) = GVRaise e' /\ g_phase (fst (gstep st (GWake ord))) = GRaised /\
                   In t' (g_pending st) /\ texc (g_tasks st) t' = Some e') /\
  (forall st ord, g_phase st = GWait ->
     (forall v, snd (snd (gstep st (GWake ord))) <> GVItem v) /\ snd (snd (gstep st (GWake ord))) <> GVStop \/
     forall t, In t (g_pending st) -> texc (g_tasks st) t = None) /\
  (forall st l t, In t (g_pending st) ->
     In t (g_pending (fst (gstep st l))) \/ (tdone (g_tasks st) t = true /\ texc (g_tasks st) t = None)) /\
  (forall items ls x e, In (x, GVRaise e) (gouts items ls) ->
     exists t ts, In (GTaskEnd t (TExc e)) ls /\ In (GSend (Some ts)) ls /\ In t ts) /\
  (forall items ls, (forall t e, ~ In (GTaskEnd t (TExc e)) ls) ->
     g_phase (grun items ls) <> GRaised /\ forall x e, ~ In (x, GVRaise e) (gouts items ls)).
Proof.
  split; [exact agen_wake_raises|]. split; [exact agen_no_item_past_failure|].
  split; [exact agen_pending_kept|]. split; [exact agen_raise_identity | exact agen_no_failure_no_raise].
Qed.
