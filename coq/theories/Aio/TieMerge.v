(** Tie of the hand-written model of [merge_aiters] (Model.v: [mstep]) to the
    regenerated body (Gen/AioFuns.v: [merge_aiters_body]) under the semantics of
    Interp.v ([imstep]): a simulation relation [MR] between model states and
    machine configurations, preserved by every label, with equal outputs.

    The model keeps, per source, WHERE its current `__anext__` task is ([loc]);
    the machine keeps the Python variables `tasks`, `done`, `task_map`, ... and a
    heap of tasks.  The relation says, with a ghost map [cur] from a source to
    its current task: a source is LPend/LDone exactly when its current task is
    in `tasks` (pending / done in the heap), LBatch exactly when it is in `done`;
    only current tasks can be pending; `task_map` knows the source of every task. *)
(** KIND OF OBLIGATION: pin + simulation of the pinned term.  The program points below are hand-copied;
    [merge_body_shape] pins the regenerated body to them by [reflexivity]; the simulation is about the pinned term.
    Any change of the AST of `merge_aiters`, behaviour-preserving or not, breaks the pin. *)
From NL Require Import Aio.Model Aio.Syntax Aio.Interp Gen.AioFuns Aio.Merge Aio.Agen Aio.TieBase.
From Coq Require Import Lia.
Local Notation length := List.length (only parsing).
Local Open Scope string_scope.
Local Open Scope list_scope.
Local Open Scope nat_scope.

(** ---- the program points of the regenerated body ---- *)

Definition m_after_yield : stmt :=
  SSeq (SEnsureAnext "task" (EVar "aiter"))
  (SSeq (SAdd "tasks" (EVar "task"))
        (SSetItem "task_map" (EVar "task") (EVar "aiter"))).

Definition m_inner_body : stmt :=
  SSeq (SPop "task" "done")
  (SSeq (SResult "item" (EVar "task") (Some SContinue))
  (SSeq (SAssign "aiter" (EIndex (EVar "task_map") (EVar "task")))
  (SSeq (SYield None (EPair (EIndex (EVar "aiter_map") (EVar "aiter")) (EVar "item")))
        m_after_yield))).

Definition m_inner : stmt := SWhile (EVar "done") m_inner_body.

Definition m_outer_body : stmt :=
  SSeq (SWait "done" "pending" (EVar "tasks"))
  (SSeq (SMove "tasks" "pending")
        m_inner).

Definition m_outer : stmt := SWhile (EVar "tasks") m_outer_body.

Definition m_body : stmt :=
  SSeq (SAssign "aiter_map" (EEnumMap (EVar "aiters")))
  (SSeq (SArmAll "task_map" (EKeys (EVar "aiter_map")))
  (SSeq (SAssign "tasks" (ESetOf (EKeys (EVar "task_map"))))
        m_outer)).

Lemma merge_body_shape : merge_aiters_body = m_body.
Proof. reflexivity. Qed.
Lemma merge_vars_shape :
  merge_aiters_vars = ["aiters"; "aiter_map"; "task_map"; "tasks"; "done"; "pending"; "task"; "item"; "aiter"].
Proof. reflexivity. Qed.

(** the continuation of the inner loop *)
Definition k_inner : list frame := [FWhile (EVar "tasks") m_outer_body].
(** suspended in `await asyncio.wait(tasks, ...)` *)
Definition k_mwait : list frame := FSeq (SSeq (SMove "tasks" "pending") m_inner) :: k_inner.
(** suspended at `yield aiter_map[aiter], item` *)
Definition k_myield : list frame := FSeq m_after_yield :: FWhile (EVar "done") m_inner_body :: k_inner.

Definition menv (n : nat) (tm : list (nat * nat)) (ts : list nat) (vd vp vt vi va : val) : env :=
  [("aiters", PySrcs (seq 0 n)); ("aiter_map", PySrcMap (combine (seq 0 n) (seq 0 n)));
   ("task_map", PyTaskMap tm); ("tasks", PySet (mkS ts [])); ("done", vd); ("pending", vp);
   ("task", vt); ("item", vi); ("aiter", va)].

(** ---- the invariant on sources, heap and variables ---- *)

Record MI (ss : list srcst) (heap : list (nat * anst)) (tm : list (nat * nat)) (ts ds : list nat)
          (cur : nat -> nat) : Prop := mkMI {
  mi_tm : forall t i s, nth_error heap t = Some (i, s) -> lookup tm t = Some i;
  mi_ts : forall t, In t ts <-> exists i s, nth_error ss i = Some s /\ in_tasks s = true /\ t = cur i;
  mi_ds : forall t, In t ds <-> exists i s r, nth_error ss i = Some s /\ snd s = LBatch r /\ t = cur i;
  mi_cur : forall i s, nth_error ss i = Some s ->
           match snd s with
           | LPend => nth_error heap (cur i) = Some (i, AnPend)
           | LDone r | LBatch r => nth_error heap (cur i) = Some (i, AnRes r)
           | LIdle => False
           | _ => True
           end;
  mi_pend : forall t i, nth_error heap t = Some (i, AnPend) ->
            exists s, nth_error ss i = Some s /\ snd s = LPend /\ t = cur i
}.

Definition mworld (ss : list srcst) (heap : list (nat * anst)) : world := mkW (map fst ss) heap [].

Definition MR (st : mstate) (c : cfg) : Prop :=
  let ss := m_srcs st in
  let n := length ss in
  let m := c_m c in
  match m_phase st with
  | MFresh =>
    c_st c = StFresh m_body /\
    i_env m = set (init_env merge_aiters_vars) "aiters" (PySrcs (seq 0 n)) /\
    i_w m = mworld ss [] /\ (forall s, In s ss -> snd s = LIdle)
  | MWait =>
    exists heap tm ts cur vd vp vt vi va,
      c_st c = StWait "done" "pending" (mkS ts []) k_mwait /\
      i_env m = menv n tm ts vd vp vt vi va /\ i_w m = mworld ss heap /\
      MI ss heap tm ts [] cur /\ noY ss
  | MYield =>
    exists heap tm ts ds cur vp vt vi i0 rest,
      c_st c = StYield None k_myield /\
      i_env m = menv n tm ts (PySet (mkS ds [])) vp vt vi (PySrc i0) /\ i_w m = mworld ss heap /\
      i_ord m = m_order st /\
      MI ss heap tm ts ds cur /\
      nth_error ss i0 = Some (rest, LYielded) /\
      (forall j s, nth_error ss j = Some s -> snd s = LYielded -> j = i0) /\
      covered ss (m_order st)
  | MFin =>
    exists heap,
      c_st c = StFinished /\ i_w m = mworld ss heap /\
      (forall s, In s ss -> snd s <> LPend) /\
      (forall t i, nth_error heap t <> Some (i, AnPend))
  end.

(** ---- facts about the invariant ---- *)

Definition live (l : loc) : bool := match l with LPend | LDone _ | LBatch _ => true | _ => false end.

Lemma MI_heap_cur ss heap tm ts ds cur i s :
  MI ss heap tm ts ds cur -> nth_error ss i = Some s -> live (snd s) = true ->
  exists a, nth_error heap (cur i) = Some (i, a).
Proof.
  intros HI Hs Hl. pose proof (mi_cur _ _ _ _ _ _ HI _ _ Hs) as H.
  destruct (snd s); try discriminate; eauto.
Qed.

Lemma MI_cur_inj ss heap tm ts ds cur i j s s' :
  MI ss heap tm ts ds cur -> nth_error ss i = Some s -> nth_error ss j = Some s' ->
  live (snd s) = true -> live (snd s') = true -> cur i = cur j -> i = j.
Proof.
  intros HI Hs Hs' Hl Hl' He.
  destruct (MI_heap_cur _ _ _ _ _ _ _ _ HI Hs Hl) as [a Ha].
  destruct (MI_heap_cur _ _ _ _ _ _ _ _ HI Hs' Hl') as [b Hb].
  rewrite He in Ha. rewrite Ha in Hb. inversion Hb. auto.
Qed.

Lemma complete_pend rest0 :
  complete (rest0, LPend) = (fst (src_complete rest0), LDone (snd (src_complete rest0))).
Proof. destruct rest0; reflexivity. Qed.

Lemma complete_idle s : snd s <> LPend -> complete s = s.
Proof. destruct s as [[|v r] l]; destruct l; simpl; auto; intros H; contradiction H; reflexivity. Qed.

Lemma MI_complete ss heap tm ts ds cur i rest0 :
  MI ss heap tm ts ds cur -> nth_error ss i = Some (rest0, LPend) ->
  let rest' := fst (src_complete rest0) in
  let r := snd (src_complete rest0) in
  complete_src (mworld ss heap) i = mworld (upd ss i (rest', LDone r)) (upd heap (cur i) (i, AnRes r)) /\
  MI (upd ss i (rest', LDone r)) (upd heap (cur i) (i, AnRes r)) tm ts ds cur.
Proof.
  intros HI Hs rest' r.
  pose proof (mi_cur _ _ _ _ _ _ HI _ _ Hs) as Hc. simpl in Hc.
  split.
  - unfold complete_src, mworld. cbn [w_an w_srcs w_ext].
    rewrite (find_pending_src heap i (cur i) 0 Hc).
    + simpl Nat.add. rewrite (nth_map_fst _ _ _ _ Hs).
      unfold rest', r. destruct (src_complete rest0) as [a b]. simpl. rewrite map_upd. reflexivity.
    + intros t Ht. destruct (mi_pend _ _ _ _ _ _ HI _ _ Ht) as (s & Hs' & _ & ->). reflexivity.
  - destruct HI as [Htm Hts Hds Hcur Hpend]. constructor.
    + intros t j s Ht. destruct (Nat.eq_dec (cur i) t) as [<-|Hne].
      * rewrite (nth_error_upd_eq _ _ _ _ Hc) in Ht. inversion Ht; subst. eapply Htm; eauto.
      * rewrite nth_error_upd_neq in Ht by auto. eapply Htm; eauto.
    + intros t. rewrite Hts. split; intros (j & s & Hj & Hin & ->).
      * destruct (Nat.eq_dec i j) as [<-|Hne].
        -- exists i, (rest', LDone r). rewrite (nth_error_upd_eq _ _ _ _ Hs). auto.
        -- exists j, s. rewrite nth_error_upd_neq by auto. auto.
      * destruct (Nat.eq_dec i j) as [<-|Hne].
        -- exists i, (rest0, LPend). auto.
        -- exists j, s. rewrite nth_error_upd_neq in Hj by auto. auto.
    + intros t. rewrite Hds. split; intros (j & s & r0 & Hj & Hl & ->).
      * destruct (Nat.eq_dec i j) as [<-|Hne]; [rewrite Hs in Hj; inversion Hj; subst; discriminate|].
        exists j, s, r0. rewrite nth_error_upd_neq by auto. auto.
      * destruct (Nat.eq_dec i j) as [<-|Hne].
        -- rewrite (nth_error_upd_eq _ _ _ _ Hs) in Hj. inversion Hj; subst. discriminate.
        -- exists j, s, r0. rewrite nth_error_upd_neq in Hj by auto. auto.
    + intros j s Hj. destruct (Nat.eq_dec i j) as [<-|Hne].
      * rewrite (nth_error_upd_eq _ _ _ _ Hs) in Hj. inversion Hj; subst. simpl.
        eapply nth_error_upd_eq; eauto.
      * rewrite nth_error_upd_neq in Hj by auto.
        pose proof (Hcur _ _ Hj) as Hcj.
        assert (Hd : live (snd s) = true -> cur i <> cur j).
        { intros Hl He. apply Hne.
          eapply (MI_cur_inj ss heap tm ts ds cur i j _ s (mkMI _ _ _ _ _ _ Htm Hts Hds Hcur Hpend) Hs Hj); auto. }
        destruct (snd s); auto; rewrite nth_error_upd_neq by (apply Hd; reflexivity); auto.
    + intros t j Ht. destruct (Nat.eq_dec (cur i) t) as [<-|Hne].
      * rewrite (nth_error_upd_eq _ _ _ _ Hc) in Ht. discriminate.
      * rewrite nth_error_upd_neq in Ht by auto.
        destruct (Hpend _ _ Ht) as (s & Hj & Hl & ->).
        destruct (Nat.eq_dec i j) as [<-|Hne']; [contradiction Hne; reflexivity|].
        exists s. rewrite nth_error_upd_neq by auto. auto.
Qed.

Lemma MI_complete_idle ss heap tm ts ds cur i :
  MI ss heap tm ts ds cur -> (forall s, nth_error ss i = Some s -> snd s <> LPend) ->
  complete_src (mworld ss heap) i = mworld ss heap.
Proof.
  intros HI Hn. unfold complete_src, mworld. cbn [w_an].
  rewrite find_pending_none_src; auto.
  intros t Ht. destruct (mi_pend _ _ _ _ _ _ HI _ _ Ht) as (s & Hs & Hl & _). apply (Hn _ Hs Hl).
Qed.

(** ---- one label ---- *)

Definition MSIM (st : mstate) (c : cfg) (l : mlabel) : Prop :=
  snd (imstep c l) = snd (mstep st l) /\ MR (fst (mstep st l)) (fst (imstep c l)).

Lemma mstep_complete_idle st i :
  (forall s, nth_error (m_srcs st) i = Some s -> snd s <> LPend) -> mstep st (MComplete i) = (st, ([], VNone)).
Proof.
  intros H. simpl. destruct (nth_error (m_srcs st) i) as [s|] eqn:E; auto.
  rewrite (complete_idle s (H s eq_refl)), (upd_same _ _ _ E). destruct st; reflexivity.
Qed.

Lemma setw_same m : setw m (i_w m) = m.
Proof. destruct m; reflexivity. Qed.

Lemma msim_complete_idle st c i :
  MR st c -> (forall s, nth_error (m_srcs st) i = Some s -> snd s <> LPend) -> MSIM st c (MComplete i).
Proof.
  intros H Hn. unfold MSIM.
  rewrite mstep_complete_idle by auto.
  cbn [imstep fst snd]. split; [reflexivity|].
  assert (Hw : complete_src (i_w (c_m c)) i = i_w (c_m c)).
  { unfold MR in H. destruct (m_phase st).
    - destruct H as (_ & _ & -> & _). reflexivity.
    - destruct H as (heap & tm & ts & cur & vd & vp & vt & vi & va & _ & _ & -> & HI & _).
      apply (MI_complete_idle _ _ _ _ _ _ _ HI); auto.
    - destruct H as (heap & tm & ts & ds & cur & vp & vt & vi & i0 & rest & _ & _ & -> & _ & HI & _).
      apply (MI_complete_idle _ _ _ _ _ _ _ HI); auto.
    - destruct H as (heap & _ & -> & _ & Hp). unfold complete_src, mworld. cbn [w_an].
      rewrite find_pending_none_src; auto. }
  rewrite Hw, setw_same. destruct c; exact H.
Qed.

Lemma loc_pend_dec (l : loc) : {l = LPend} + {l <> LPend}.
Proof. destruct l; auto; right; discriminate. Qed.

Lemma msim_complete st c i : MR st c -> MSIM st c (MComplete i).
Proof.
  intros H.
  destruct (nth_error (m_srcs st) i) as [[rest0 l0]|] eqn:Es;
    [|apply msim_complete_idle; auto; intros s Hs; congruence].
  destruct (loc_pend_dec l0) as [->|Hl0];
    [|apply msim_complete_idle; auto; intros s Hs; rewrite Es in Hs; inversion Hs; subst; auto].
  unfold MSIM. cbn [mstep imstep fst snd]. rewrite Es, complete_pend. cbn [fst snd]. split; [reflexivity|].
  destruct st as [ph ss order]. destruct c as [cst [e w o]]. unfold MR in *. cbn [m_phase m_srcs m_order c_m c_st i_env i_w i_ord setw] in *.
  set (rest' := fst (src_complete rest0)). set (r := snd (src_complete rest0)).
  assert (Hnth : forall j, j <> i -> nth_error (upd ss i (rest', LDone r)) j = nth_error ss j)
    by (intros j Hj; apply nth_error_upd_neq; auto).
  destruct ph.
  - destruct H as (_ & _ & _ & Hidle). specialize (Hidle _ (nth_error_In _ _ Es)). discriminate.
  - destruct H as (heap & tm & ts & cur & vd & vp & vt & vi & va & Hst & He & Hw & HI & HnY).
    destruct (MI_complete _ _ _ _ _ _ _ _ HI Es) as [Hc HI']. fold rest' r in Hc, HI'.
    exists (upd heap (cur i) (i, AnRes r)), tm, ts, cur, vd, vp, vt, vi, va.
    rewrite length_upd. subst w. rewrite Hc.
    split; [exact Hst|]. split; [exact He|]. split; [reflexivity|]. split; [exact HI'|].
    intros s Hs. apply In_upd in Hs. destruct Hs as [->|Hs]; [discriminate | apply HnY; auto].
  - destruct H as (heap & tm & ts & ds & cur & vp & vt & vi & i0 & rest & Hst & He & Hw & Ho & HI & Hy & Hyu & Hcov).
    destruct (MI_complete _ _ _ _ _ _ _ _ HI Es) as [Hc HI']. fold rest' r in Hc, HI'.
    assert (Hne : i0 <> i) by (intros ->; rewrite Es in Hy; discriminate).
    exists (upd heap (cur i) (i, AnRes r)), tm, ts, ds, cur, vp, vt, vi, i0, rest.
    rewrite length_upd. subst w. rewrite Hc.
    split; [exact Hst|]. split; [exact He|]. split; [reflexivity|]. split; [exact Ho|]. split; [exact HI'|].
    split; [|split].
    + rewrite Hnth; auto.
    + intros j s Hj Hl. destruct (Nat.eq_dec j i) as [->|Hji].
      * rewrite (nth_error_upd_eq _ _ _ _ Es) in Hj. inversion Hj; subst. discriminate.
      * rewrite Hnth in Hj by auto. eauto.
    + intros j s r0 Hj Hl. destruct (Nat.eq_dec j i) as [->|Hji].
      * rewrite (nth_error_upd_eq _ _ _ _ Es) in Hj. inversion Hj; subst. discriminate.
      * rewrite Hnth in Hj by auto. eapply Hcov; eauto.
  - destruct H as (heap & _ & _ & Hnp & _). exfalso. apply (Hnp _ (nth_error_In _ _ Es)). reflexivity.
Qed.

(** ---- `task = done.pop()` under the label's order ---- *)

Lemma pop_by_found w skipped i r ds c :
  (forall j, In j skipped -> forall t, In t ds -> owner w t <> Some j) ->
  In c ds -> owner w c = Some i -> (forall t, In t ds -> owner w t = Some i -> t = c) ->
  pop_by w (skipped ++ i :: r) ds = Some (c, r).
Proof.
  intros Hsk Hin Hc Hu. induction skipped as [|j sk IH]; simpl.
  - rewrite (find_unique _ ds c); auto.
    + rewrite Hc. apply Nat.eqb_refl.
    + intros t Ht Hf. apply Hu; auto. destruct (owner w t) as [k|]; [|discriminate].
      apply Nat.eqb_eq in Hf. subst; reflexivity.
  - rewrite find_none_all.
    + apply IH. intros j' Hj'. apply Hsk. right; auto.
    + intros t Ht. specialize (Hsk j (or_introl eq_refl) t Ht).
      destruct (owner w t) as [k|]; auto. destruct (Nat.eqb_spec k j); auto. subst. contradiction Hsk; reflexivity.
Qed.

Lemma MI_owner ss heap tm ts ds cur i s :
  MI ss heap tm ts ds cur -> nth_error ss i = Some s -> live (snd s) = true ->
  owner (mworld ss heap) (cur i) = Some i.
Proof.
  intros HI Hs Hl. destruct (MI_heap_cur _ _ _ _ _ _ _ _ HI Hs Hl) as [a Ha].
  unfold owner, mworld. cbn [w_an]. rewrite Ha. reflexivity.
Qed.

Lemma MI_pop ss heap tm ts ds cur i rest r0 l' :
  MI ss heap tm ts ds cur -> nth_error ss i = Some (rest, LBatch r0) -> l' = LDropped \/ l' = LYielded ->
  MI (upd ss i (rest, l')) heap tm ts (minus ds [cur i]) cur.
Proof.
  intros HI Hs Hl'. pose proof HI as [Htm Hts Hds Hcur Hpend].
  assert (Hnl : forall r, l' <> LBatch r) by (intros r; destruct Hl' as [->| ->]; discriminate).
  assert (Hnt : in_tasks (rest, l') = false) by (destruct Hl' as [->| ->]; reflexivity).
  constructor; auto.
  - intros t. rewrite Hts. split; intros (j & s & Hj & Hin & ->).
    + destruct (Nat.eq_dec i j) as [<-|Hne]; [rewrite Hs in Hj; inversion Hj; subst; discriminate|].
      exists j, s. rewrite nth_error_upd_neq by auto. auto.
    + destruct (Nat.eq_dec i j) as [<-|Hne].
      * rewrite (nth_error_upd_eq _ _ _ _ Hs) in Hj. inversion Hj; subst. congruence.
      * exists j, s. rewrite nth_error_upd_neq in Hj by auto. auto.
  - intros t. rewrite In_minus_single, Hds. split.
    + intros [(j & s & r & Hj & Hl & ->) Hne].
      destruct (Nat.eq_dec i j) as [<-|Hij]; [contradiction Hne; reflexivity|].
      exists j, s, r. rewrite nth_error_upd_neq by auto. auto.
    + intros (j & s & r & Hj & Hl & ->).
      destruct (Nat.eq_dec i j) as [<-|Hij].
      * rewrite (nth_error_upd_eq _ _ _ _ Hs) in Hj. inversion Hj; subst. exfalso. eapply Hnl; eauto.
      * rewrite nth_error_upd_neq in Hj by auto. split; [exists j, s, r; auto|].
        intros He. apply Hij. symmetry.
        eapply (MI_cur_inj _ _ _ _ _ _ j i _ _ HI Hj Hs); auto. rewrite Hl; reflexivity.
  - intros j s Hj. destruct (Nat.eq_dec i j) as [<-|Hij].
    + rewrite (nth_error_upd_eq _ _ _ _ Hs) in Hj. inversion Hj; subst. destruct Hl' as [->| ->]; exact I.
    + rewrite nth_error_upd_neq in Hj by auto. apply Hcur; auto.
  - intros t j Ht. destruct (Hpend _ _ Ht) as (s & Hj & Hl & ->).
    destruct (Nat.eq_dec i j) as [<-|Hij]; [rewrite Hs in Hj; inversion Hj; subst; discriminate|].
    exists s. rewrite nth_error_upd_neq by auto. auto.
Qed.

(** ---- the inner loop up to the next suspension = [settle] ---- *)

Lemma MI_tasks_nil ss heap tm ts ds cur :
  MI ss heap tm ts ds cur -> is_nil ts = negb (existsb in_tasks ss).
Proof.
  intros HI. destruct ts as [|t ts'].
  - simpl. destruct (existsb in_tasks ss) eqn:E; auto.
    apply existsb_exists in E. destruct E as (s & Hs & Hin). apply In_nth_error in Hs. destruct Hs as [i Hi].
    exfalso. apply (proj2 (mi_ts _ _ _ _ _ _ HI (cur i))). eauto.
  - simpl. destruct (proj1 (mi_ts _ _ _ _ _ _ HI t) (or_introl eq_refl)) as (i & s & Hi & Hin & _).
    assert (E : existsb in_tasks ss = true) by (apply existsb_exists; exists s; split; eauto using nth_error_In).
    rewrite E. reflexivity.
Qed.

Lemma settle_skip ss i r :
  (forall rest r0, nth_error ss i <> Some (rest, LBatch r0)) -> settle ss (i :: r) = settle ss r.
Proof.
  intros H. unfold settle. simpl.
  destruct (nth_error ss i) as [[rest [| | |r0| |]]|] eqn:E; auto.
  exfalso. eapply H; eauto.
Qed.

Lemma settle_sim n : forall order skipped ss heap tm ts ds cur vp vt vi va fuel,
  n = length ss ->
  MI ss heap tm ts ds cur -> noY ss -> covered ss order ->
  (forall j, In j skipped -> forall rest r0, nth_error ss j <> Some (rest, LBatch r0)) ->
  fuel >= 8 * length ds + 12 ->
  mvis (run fuel m_inner k_inner
          (mkMach (menv n tm ts (PySet (mkS ds [])) vp vt vi va) (mworld ss heap) (skipped ++ order))) =
    snd (settle ss order) /\
  MR (fst (settle ss order))
     (cfg_of (run fuel m_inner k_inner
          (mkMach (menv n tm ts (PySet (mkS ds [])) vp vt vi va) (mworld ss heap) (skipped ++ order)))).
Proof.
  induction order as [|i r IH]; intros skipped ss heap tm ts ds cur vp vt vi va fuel Hn HI HnY Hcov Hsk Hf.
  - (* the order is exhausted: `done` is empty *)
    assert (ds = []).
    { destruct ds as [|t ds']; auto. exfalso.
      destruct (proj1 (mi_ds _ _ _ _ _ _ HI t) (or_introl eq_refl)) as (j & s & r0 & Hj & Hl & _).
      apply (Hcov _ _ _ Hj Hl). }
    subst ds. unfold settle. simpl process. cbn [fst snd].
    destruct (fuel_split fuel 5 ltac:(simpl in Hf; lia)) as [f ->]. simpl Nat.add.
    unfold m_inner, k_inner. step. step.
    unfold sis_empty. cbn [s_an s_ext is_nil]. rewrite andb_true_r, (MI_tasks_nil _ _ _ _ _ _ HI), negb_involutive.
    destruct (existsb in_tasks ss) eqn:E; cbn [fst snd].
    + (* tasks left: back to asyncio.wait *)
      unfold m_outer_body. step. step.
      unfold sis_empty. cbn [s_an s_ext is_nil]. rewrite andb_true_r, (MI_tasks_nil _ _ _ _ _ _ HI), E.
      simpl. split; [reflexivity|].
      unfold MR. cbn [m_phase m_srcs c_st c_m i_env i_w]. rewrite <- Hn.
      exists heap, tm, ts, cur, (PySet (mkS [] [])), vp, vt, vi, va. auto.
    + (* no task left: the generator ends *)
      simpl. split; [reflexivity|].
      unfold MR. cbn [m_phase m_srcs c_st c_m i_env i_w].
      exists heap. split; [reflexivity|]. split; [reflexivity|]. split.
      * intros s Hs Hl. assert (existsb in_tasks ss = true); [|congruence].
        apply existsb_exists. exists s. split; auto. unfold in_tasks. rewrite Hl. reflexivity.
      * intros t j Ht. destruct (mi_pend _ _ _ _ _ _ HI _ _ Ht) as (s & Hs & Hl & _).
        assert (existsb in_tasks ss = true); [|congruence].
        apply existsb_exists. exists s. split; [eauto using nth_error_In|]. unfold in_tasks. rewrite Hl. reflexivity.
  - assert (Hdec : (exists rest r0, nth_error ss i = Some (rest, LBatch r0)) \/
                   (forall rest r0, nth_error ss i <> Some (rest, LBatch r0))).
    { destruct (nth_error ss i) as [[rest [| | |r0| |]]|]; try (right; intros; discriminate). left; eauto. }
    destruct Hdec as [(rest & r0 & Ei) | Hnb].
    2: { (* source i has nothing in `done`: the pop order moves on *)
      rewrite settle_skip by auto.
      replace (skipped ++ i :: r) with ((skipped ++ [i]) ++ r) by (rewrite <- app_assoc; reflexivity).
      apply (IH (skipped ++ [i]) ss heap tm ts ds cur vp vt vi va fuel); auto.
      - intros j s r1 Hj Hl. destruct (Hcov j s r1 Hj Hl) as [<-|]; auto.
        exfalso. destruct s as [a b]; simpl in Hl; subst. eapply Hnb; eauto.
      - intros j Hj. apply in_app_or in Hj. destruct Hj as [Hj|[<-|[]]]; auto. }
    (* source i has its task in `done`: it is the one popped *)
    pose proof (mi_cur _ _ _ _ _ _ HI _ _ Ei) as Hci. simpl in Hci.
    assert (Hin : In (cur i) ds) by (apply (mi_ds _ _ _ _ _ _ HI); exists i, (rest, LBatch r0), r0; auto).
    assert (Hpop : pop_by (mworld ss heap) (skipped ++ i :: r) ds = Some (cur i, r)).
    { assert (Hown : forall t, In t ds -> exists j s r1, nth_error ss j = Some s /\ snd s = LBatch r1 /\
                                         t = cur j /\ owner (mworld ss heap) t = Some j).
      { intros t Ht. destruct (proj1 (mi_ds _ _ _ _ _ _ HI t) Ht) as (j & s & r1 & Hj & Hl & ->).
        exists j, s, r1. repeat split; auto. eapply MI_owner; eauto. rewrite Hl; reflexivity. }
      apply pop_by_found; auto.
      - intros j Hj t Ht Ho. destruct (Hown t Ht) as (j' & s & r1 & Hj' & Hl & -> & Ho').
        rewrite Ho' in Ho. inversion Ho; subst j'. destruct s as [a b]; simpl in Hl; subst.
        eapply Hsk; eauto.
      - eapply MI_owner; eauto.
      - intros t Ht Ho. destruct (Hown t Ht) as (j' & s & r1 & Hj' & Hl & -> & Ho').
        rewrite Ho' in Ho. inversion Ho; subst j'. reflexivity. }
    assert (Hlen : length ds >= 1) by (destruct ds; [contradiction | simpl; lia]).
    assert (Hnil : is_nil ds = false) by (destruct ds; [contradiction | reflexivity]).
    destruct (fuel_split fuel 5 ltac:(lia)) as [f Hfe]. rewrite Hfe. simpl Nat.add.
    unfold m_inner, k_inner. step.
    unfold sis_empty. cbn [s_an s_ext is_nil]. rewrite Hnil. cbn [andb negb]. simpl runo.
    unfold m_inner_body at 1 3. step. step. rewrite Hpop. simpl runo. step. step.
    rewrite Hci.
    assert (Hw2 : forall l', mworld (upd ss i (rest, l')) heap = mworld ss heap).
    { intros l'. unfold mworld. rewrite map_upd. simpl fst.
      rewrite (upd_same (map fst ss) i rest); auto. rewrite nth_error_map, Ei. reflexivity. }
    unfold settle. simpl process. rewrite Ei.
    destruct r0 as [v|].
    + (* an item: up to the yield *)
      pose proof (mi_tm _ _ _ _ _ _ HI _ _ _ Hci) as Htm_i.
      assert (Hi_lt : i < n) by (subst n; apply nth_error_Some; congruence).
      pose proof (lookup_enum n 0 i Hi_lt) as Henum. simpl in Henum.
      destruct (fuel_split f 4 ltac:(lia)) as [f2 ->]. simpl Nat.add.
      step. step. rewrite Htm_i. simpl runo. step. step. rewrite Henum. simpl.
      split; [reflexivity|].
      unfold MR. cbn [m_phase m_srcs m_order c_st c_m]. rewrite length_upd, <- Hn.
      exists heap, tm, ts, (minus ds [cur i]), cur, vp, (PyTask (TAn (cur i))), (PyItem v), i, rest.
      split; [reflexivity|]. split; [reflexivity|]. split; [simpl; rewrite Hw2; reflexivity|]. split; [reflexivity|].
      split; [eapply MI_pop; eauto|].
      split; [eapply nth_error_upd_eq; eauto|]. split.
      * intros j s Hj Hl. destruct (Nat.eq_dec i j) as [<-|Hne]; auto. rewrite nth_error_upd_neq in Hj by auto.
        exfalso. eapply HnY; eauto using nth_error_In.
      * intros j s r1 Hj Hl. destruct (Nat.eq_dec i j) as [<-|Hne].
        -- rewrite (nth_error_upd_eq _ _ _ _ Ei) in Hj. inversion Hj; subst; discriminate.
        -- rewrite nth_error_upd_neq in Hj by auto. destruct (Hcov _ _ _ Hj Hl) as [<-|]; auto.
           contradiction Hne; reflexivity.
    + (* StopAsyncIteration: continue *)
      destruct (fuel_split f 1 ltac:(lia)) as [f2 ->]. simpl Nat.add.
      step.
      pose proof (IH [] (upd ss i (rest, LDropped)) heap tm ts (minus ds [cur i]) cur vp
                     (PyTask (TAn (cur i))) vi va f2) as IH'.
      rewrite Hw2 in IH'.
      pose proof (minus_single_lt _ _ Hin) as Hlt.
      apply IH'.
      * rewrite length_upd. auto.
      * eapply MI_pop; eauto.
      * intros s Hs. apply In_upd in Hs. destruct Hs as [->|Hs]; [discriminate | apply HnY; auto].
      * intros j s r1 Hj Hl. destruct (Nat.eq_dec i j) as [<-|Hne].
        -- rewrite (nth_error_upd_eq _ _ _ _ Ei) in Hj. inversion Hj; subst; discriminate.
        -- rewrite nth_error_upd_neq in Hj by auto. destruct (Hcov _ _ _ Hj Hl) as [<-|]; auto.
           contradiction Hne; reflexivity.
      * intros j [].
      * lia.
Qed.

(** ---- the consumer resumes at the yield: the source is re-armed ---- *)

Lemma nth_error_snoc_cases {A} (l : list A) x t y :
  nth_error (l ++ [x]) t = Some y ->
  (t < length l /\ nth_error l t = Some y) \/ (t = length l /\ y = x).
Proof.
  intros H. destruct (lt_dec t (length l)) as [Hlt|Hge].
  - left. rewrite nth_error_app1 in H by auto. auto.
  - right. rewrite nth_error_app2 in H by lia. destruct (t - length l) as [|k] eqn:E.
    + simpl in H. inversion H. split; auto. lia.
    + destruct k; discriminate.
Qed.

Lemma armed_at_end {A} (l : list A) x : nth_error (l ++ [x]) (length l) = Some x.
Proof. rewrite nth_error_app2 by lia. rewrite Nat.sub_diag. reflexivity. Qed.

Lemma nth_error_app_keep {A} (l l' : list A) t y : nth_error l t = Some y -> nth_error (l ++ l') t = Some y.
Proof. intros H. rewrite nth_error_app1; auto. apply nth_error_Some. congruence. Qed.

Lemma rearm_nth ss i0 rest j :
  nth_error ss i0 = Some (rest, LYielded) ->
  (forall j s, nth_error ss j = Some s -> snd s = LYielded -> j = i0) ->
  nth_error (map rearm ss) j = if j =? i0 then Some (rest, LPend) else nth_error ss j.
Proof.
  intros Hy Hu. rewrite nth_error_map. destruct (Nat.eqb_spec j i0) as [->|Hne].
  - rewrite Hy. reflexivity.
  - destruct (nth_error ss j) as [[a l]|] eqn:E; auto. simpl. unfold rearm. simpl.
    destruct l; auto. exfalso. apply Hne. eapply Hu; eauto.
Qed.

Lemma MI_rearm ss heap tm ts ds cur i0 rest :
  MI ss heap tm ts ds cur -> nth_error ss i0 = Some (rest, LYielded) ->
  (forall j s, nth_error ss j = Some s -> snd s = LYielded -> j = i0) ->
  MI (map rearm ss) (heap ++ [(i0, AnPend)]) ((length heap, i0) :: tm) (union ts [length heap]) ds
     (fun j => if j =? i0 then length heap else cur j).
Proof.
  intros HI Hy Hu. pose proof HI as [Htm Hts Hds Hcur Hpend].
  pose proof (rearm_nth ss i0 rest) as Hnth.
  constructor.
  - intros t j s Ht. simpl. apply nth_error_snoc_cases in Ht. destruct Ht as [[Hlt Ht]|[-> Hx]].
    + destruct (Nat.eqb_spec t (length heap)); [lia|]. eapply Htm; eauto.
    + inversion Hx; subst. rewrite Nat.eqb_refl. reflexivity.
  - intros t. rewrite In_union. split.
    + intros [Ht|[<-|[]]].
      * destruct (proj1 (Hts t) Ht) as (j & s & Hj & Hin & ->).
        assert (j <> i0) by (intros ->; rewrite Hy in Hj; inversion Hj; subst; discriminate).
        exists j, s. rewrite Hnth by auto. destruct (Nat.eqb_spec j i0); [contradiction|]. auto.
      * exists i0, (rest, LPend). rewrite Hnth by auto. rewrite Nat.eqb_refl. auto.
    + intros (j & s & Hj & Hin & ->). rewrite Hnth in Hj by auto.
      destruct (Nat.eqb_spec j i0) as [->|Hne]; [right; left; reflexivity|].
      left. apply Hts. eauto.
  - intros t. rewrite Hds. split; intros (j & s & r & Hj & Hl & ->).
    + assert (j <> i0) by (intros ->; rewrite Hy in Hj; inversion Hj; subst; discriminate).
      exists j, s, r. rewrite Hnth by auto. destruct (Nat.eqb_spec j i0); [contradiction|]. auto.
    + rewrite Hnth in Hj by auto. destruct (Nat.eqb_spec j i0) as [->|Hne].
      * inversion Hj; subst; discriminate.
      * exists j, s, r. auto.
  - intros j s Hj. rewrite Hnth in Hj by auto. destruct (Nat.eqb_spec j i0) as [->|Hne].
    + inversion Hj; subst. simpl. apply armed_at_end.
    + pose proof (Hcur _ _ Hj) as Hc. destruct (snd s); auto; apply nth_error_app_keep; auto.
  - intros t j Ht. apply nth_error_snoc_cases in Ht. destruct Ht as [[Hlt Ht]|[-> Hx]].
    + destruct (Hpend _ _ Ht) as (s & Hj & Hl & ->).
      assert (j <> i0) by (intros ->; rewrite Hy in Hj; inversion Hj; subst; simpl in Hl; discriminate).
      exists s. rewrite Hnth by auto. destruct (Nat.eqb_spec j i0); [contradiction|]. auto.
    + inversion Hx; subst. exists (rest, LPend). rewrite Hnth by auto. rewrite Nat.eqb_refl. auto.
Qed.

(** ---- the first anext: every source is armed ---- *)

Lemma nth_error_seq_some b n t x : nth_error (seq b n) t = Some x -> x = b + t /\ t < n.
Proof.
  revert b t. induction n as [|n IH]; intros b [|t]; simpl; intros H; try discriminate.
  - inversion H. split; lia.
  - destruct (IH _ _ H). split; lia.
Qed.

Lemma nth_error_seq_lt b n t : t < n -> nth_error (seq b n) t = Some (b + t).
Proof.
  revert b t. induction n as [|n IH]; intros b [|t] H; simpl; try lia.
  - f_equal. lia.
  - rewrite IH by lia. f_equal. lia.
Qed.

Definition heap0 (n : nat) : list (nat * anst) := map (fun a => (a, AnPend)) (seq 0 n).

Lemma heap0_nth n t i s : nth_error (heap0 n) t = Some (i, s) -> i = t /\ s = AnPend /\ t < n.
Proof.
  unfold heap0. rewrite nth_error_map. destruct (nth_error (seq 0 n) t) as [x|] eqn:E; simpl; [|discriminate].
  intros H. inversion H; subst. apply nth_error_seq_some in E. simpl in E. destruct E. subst. auto.
Qed.

Lemma heap0_lt n t : t < n -> nth_error (heap0 n) t = Some (t, AnPend).
Proof. intros H. unfold heap0. rewrite nth_error_map, nth_error_seq_lt by auto. reflexivity. Qed.

Lemma MI_start ss :
  MI (map arm ss) (heap0 (length ss)) (combine (seq 0 (length ss)) (seq 0 (length ss))) (seq 0 (length ss)) []
     (fun j => j).
Proof.
  set (n := length ss).
  assert (Harm : forall j s, nth_error (map arm ss) j = Some s -> snd s = LPend /\ in_tasks s = true /\ j < n).
  { intros j s Hj. assert (j < n) by (unfold n; rewrite <- (map_length arm); apply nth_error_Some; congruence).
    rewrite nth_error_map in Hj. destruct (nth_error ss j); inversion Hj; subst. auto. }
  assert (Hex : forall j, j < n -> exists s, nth_error (map arm ss) j = Some s).
  { intros j Hj. destruct (nth_error (map arm ss) j) eqn:E; eauto.
    apply nth_error_None in E. rewrite map_length in E. unfold n in Hj. lia. }
  constructor.
  - intros t i s Ht. apply heap0_nth in Ht. destruct Ht as (-> & _ & Hlt). apply (lookup_enum n 0 t Hlt).
  - intros t. rewrite in_seq. split.
    + intros [_ Hlt]. destruct (Hex t Hlt) as [s Hs]. exists t, s. destruct (Harm _ _ Hs) as (_ & ? & _). auto.
    + intros (j & s & Hj & _ & ->). destruct (Harm _ _ Hj) as (_ & _ & ?). lia.
  - intros t. split; [intros []|]. intros (j & s & r & Hj & Hl & _). destruct (Harm _ _ Hj) as (Hp & _). congruence.
  - intros j s Hj. destruct (Harm _ _ Hj) as (-> & _ & Hlt). apply heap0_lt; auto.
  - intros t i Ht. apply heap0_nth in Ht. destruct Ht as (-> & _ & Hlt).
    destruct (Hex t Hlt) as [s Hs]. exists s. destruct (Harm _ _ Hs) as (? & _). auto.
Qed.

Lemma start_run ss o :
  let n := length ss in
  go m_body [] (mkMach (set (init_env merge_aiters_vars) "aiters" (PySrcs (seq 0 n))) (mworld ss []) o) =
  if is_nil ss then
    OFinished (mkMach (menv n (combine (seq 0 n) (seq 0 n)) (seq 0 n) PyUndef PyUndef PyUndef PyUndef PyUndef)
                      (mworld ss (heap0 n)) o)
  else
    OWait "done" "pending" (mkS (seq 0 n) []) k_mwait
      (mkMach (menv n (combine (seq 0 n) (seq 0 n)) (seq 0 n) PyUndef PyUndef PyUndef PyUndef PyUndef)
              (mworld ss (heap0 n)) o).
Proof.
  intros n. fuel 12. unfold m_body. step. step. rewrite seq_length.
  step. step. rewrite !map_fst_combine, !seq_length. simpl length. simpl app.
  step. step. rewrite !map_fst_combine, (union_nil_sorted _ (seq_sorted n 0)).
  unfold m_outer. step.
  destruct ss as [|s0 ss']; [reflexivity|].
  cbn [is_nil]. subst n. simpl length. simpl seq. unfold sis_empty. cbn [s_an s_ext is_nil andb negb]. simpl runo.
  unfold m_outer_body. step. step. reflexivity.
Qed.

Lemma env_size_menv n tm ts ds vp vt vi va :
  env_size (menv n tm ts (PySet (mkS ds [])) vp vt vi va) >= length ds.
Proof.
  pose proof (env_size_get (menv n tm ts (PySet (mkS ds [])) vp vt vi va) "done" (mkS ds []) eq_refl) as H.
  unfold ssize in H. cbn [s_an s_ext List.length] in H. lia.
Qed.

Lemma resume_run n tm ts ds vp vt vi i0 w o :
  exists f, f >= 8 * length ds + 12 /\
  go SSkip k_myield (mkMach (menv n tm ts (PySet (mkS ds [])) vp vt vi (PySrc i0)) w o) =
  run f m_inner k_inner
    (mkMach (menv n ((length (w_an w), i0) :: tm) (union ts [length (w_an w)]) (PySet (mkS ds []))
                  vp (PyTask (TAn (length (w_an w)))) vi (PySrc i0))
            (arm_world w i0) o).
Proof.
  unfold go.
  pose proof (env_size_menv n tm ts ds vp vt vi (PySrc i0)) as He.
  set (m := mkMach (menv n tm ts (PySet (mkS ds [])) vp vt vi (PySrc i0)) w o).
  assert (Hf : fuel_of m >= 6 + (8 * length ds + 12)) by (unfold fuel_of, m; cbn [i_env i_ord]; lia).
  destruct (fuel_split _ _ Hf) as [f ->]. exists (8 * length ds + 12 + f). split; [lia|].
  replace (6 + (8 * length ds + 12) + f) with (6 + (8 * length ds + 12 + f)) by lia.
  generalize (8 * length ds + 12 + f). intros f'. simpl Nat.add.
  unfold m, k_myield, m_after_yield. step. step. step. step. step. step.
  reflexivity.
Qed.

Lemma map_fst_arm ss : map fst (map arm ss) = map fst ss.
Proof. rewrite map_map. apply map_ext. intros [a l]; reflexivity. Qed.
Lemma map_fst_rearm ss : map fst (map rearm ss) = map fst ss.
Proof. rewrite map_map. apply map_ext. intros [a l]; destruct l; reflexivity. Qed.
Lemma map_fst_to_batch ss : map fst (map to_batch ss) = map fst ss.
Proof. rewrite map_map. apply map_ext. intros [a l]; destruct l; reflexivity. Qed.

Lemma existsb_arm ss : existsb in_tasks (map arm ss) = negb (is_nil ss).
Proof. destruct ss; reflexivity. Qed.

Lemma msim_next st c : MR st c -> MSIM st c MNext.
Proof.
  intros H. unfold MSIM. destruct st as [ph ss order]. destruct c as [cst [e w o]].
  unfold MR in H. cbn [m_phase m_srcs m_order c_m c_st i_env i_w i_ord] in H.
  destruct ph.
  - (* the first anext *)
    destruct H as (Hst & He & Hw & Hidle). subst.
    unfold imstep, mstep. cbn [c_st c_m m_phase m_srcs]. rewrite start_run, existsb_arm.
    destruct ss as [|s0 ss'] eqn:Ess; cbn [is_nil negb].
    + simpl. split; [reflexivity|]. unfold MR. simpl. exists []. repeat split; auto.
      intros [|t] j; discriminate.
    + rewrite <- Ess in *. cbn [fst snd cfg_of mvis]. split; [reflexivity|].
      unfold MR. cbn [m_phase m_srcs c_st c_m i_env i_w]. rewrite map_length.
      exists (heap0 (length ss)), (combine (seq 0 (length ss)) (seq 0 (length ss))), (seq 0 (length ss)), (fun j => j),
             PyUndef, PyUndef, PyUndef, PyUndef, PyUndef.
      split; [reflexivity|]. split; [reflexivity|].
      split; [unfold mworld; rewrite map_fst_arm; reflexivity|]. split; [apply MI_start|].
      intros s Hs. apply in_map_iff in Hs. destruct Hs as (s1 & <- & _). discriminate.
  - (* an anext is already outstanding *)
    pose proof H as (heap & tm & ts & cur & vd & vp & vt & vi & va & Hst & _). subst cst.
    simpl. split; [reflexivity|]. exact H.
  - (* resumed at the yield *)
    destruct H as (heap & tm & ts & ds & cur & vp & vt & vi & i0 & rest & Hst & He & Hw & Ho & HI & Hy & Hyu & Hcov).
    subst cst e w o.
    unfold imstep, mstep. cbn [c_st c_m m_phase m_srcs m_order send].
    destruct (resume_run (length ss) tm ts ds vp vt vi i0 (mworld ss heap) order) as (f & Hf & ->).
    assert (Hw' : arm_world (mworld ss heap) i0 = mworld (map rearm ss) (heap ++ [(i0, AnPend)])).
    { unfold arm_world, mworld. simpl. rewrite map_fst_rearm. reflexivity. }
    rewrite Hw'. cbn [mworld w_an].
    pose proof (settle_sim (length ss) order [] (map rearm ss) (heap ++ [(i0, AnPend)]) ((length heap, i0) :: tm)
                  (union ts [length heap]) ds (fun j => if j =? i0 then length heap else cur j)
                  vp (PyTask (TAn (length heap))) vi (PySrc i0) f) as HS.
    simpl app in HS.
    assert (H1 : length ss = length (map rearm ss)) by (rewrite map_length; reflexivity).
    assert (H2 : MI (map rearm ss) (heap ++ [(i0, AnPend)]) ((length heap, i0) :: tm) (union ts [length heap]) ds
                    (fun j => if j =? i0 then length heap else cur j)) by (eapply MI_rearm; eauto).
    assert (H3 : noY (map rearm ss)).
    { intros s Hs. apply in_map_iff in Hs. destruct Hs as ([a l] & <- & _). destruct l; discriminate. }
    assert (H4 : covered (map rearm ss) order).
    { intros j s r Hj Hl. apply nth_error_map_some in Hj. destruct Hj as ([a l] & Hj & ->).
      apply (Hcov j (a, l) r Hj). destruct l; simpl in *; try discriminate; auto. }
    assert (H5 : forall j, In j [] -> forall (rest : list V) (r0 : res),
                   nth_error (map rearm ss) j <> Some (rest, LBatch r0)) by (intros j []).
    destruct (HS H1 H2 H3 H4 H5 Hf) as [Hv HR].
    destruct (settle (map rearm ss) order) as [st' v]. cbn [fst snd] in *. split; [congruence | exact HR].
  - (* finished *)
    destruct H as (heap & Hst & Hw & Hnp & Hp). subst. simpl. split; [reflexivity|].
    unfold MR. simpl. exists heap. auto.
Qed.

(** ---- `asyncio.wait` returns ---- *)

Lemma In_done_idx ss : forall b i,
  In i (done_idx b ss) <-> b <= i /\ exists s, nth_error ss (i - b) = Some s /\ is_done s = true.
Proof.
  induction ss as [|s r IH]; intros b i; simpl.
  - split; [tauto|]. intros (_ & s & Hs & _). destruct (i - b); discriminate.
  - assert (Hr : In i (done_idx (S b) r) <-> S b <= i /\ exists s', nth_error (s :: r) (i - b) = Some s' /\ is_done s' = true).
    { rewrite IH. split; intros (Hle & s' & Hs' & Hd); (split; [auto|]); exists s'; split; auto.
      - replace (i - b) with (S (i - S b)) by lia. exact Hs'.
      - replace (i - b) with (S (i - S b)) in Hs' by lia. exact Hs'. }
    destruct (is_done s) eqn:Ed.
    + simpl. rewrite Hr. split.
      * intros [<-|(Hle & H)]; [|split; [lia | exact H]].
        split; [lia|]. exists s. rewrite Nat.sub_diag. auto.
      * intros (Hle & s' & Hs' & Hd). destruct (Nat.eq_dec b i) as [->|Hne]; [left; reflexivity|].
        right. split; [lia|]. eauto.
    + rewrite Hr. split.
      * intros (Hle & H). split; [lia | exact H].
      * intros (Hle & s' & Hs' & Hd). destruct (Nat.eq_dec b i) as [->|Hne].
        -- rewrite Nat.sub_diag in Hs'. simpl in Hs'. inversion Hs'; subst. congruence.
        -- split; [lia|]. eauto.
Qed.

Lemma done_idx_sorted ss : forall b, ssorted (done_idx b ss).
Proof.
  induction ss as [|s r IH]; intros b; simpl; auto.
  destruct (is_done s); [|apply IH]. simpl. split; [|apply IH].
  intros y Hy. apply In_done_idx in Hy. lia.
Qed.

Lemma MI_an_done ss heap tm ts ds cur j s :
  MI ss heap tm ts ds cur -> nth_error ss j = Some s -> in_tasks s = true ->
  an_done (mworld ss heap) (cur j) = is_done s.
Proof.
  intros HI Hj Hin. pose proof (mi_cur _ _ _ _ _ _ HI _ _ Hj) as Hc.
  unfold an_done, mworld. cbn [w_an]. unfold in_tasks, is_done in *.
  destruct (snd s); try discriminate; rewrite Hc; reflexivity.
Qed.

Lemma to_batch_nth ss j : nth_error (map to_batch ss) j = option_map to_batch (nth_error ss j).
Proof. apply nth_error_map. Qed.

Lemma MI_wake ss heap tm ts cur :
  MI ss heap tm ts [] cur ->
  MI (map to_batch ss) heap tm
     (filter (fun t => negb (an_done (mworld ss heap) t)) ts) (filter (an_done (mworld ss heap)) ts) cur.
Proof.
  intros HI. pose proof HI as [Htm Hts Hds Hcur Hpend].
  assert (Hnb : forall j s r, nth_error ss j = Some s -> snd s <> LBatch r).
  { intros j s r Hj Hl. apply (proj2 (Hds (cur j))). exists j, s, r. auto. }
  constructor; auto.
  - intros t. rewrite filter_In, Hts. split.
    + intros [(j & s & Hj & Hin & ->) Hnd]. exists j, (to_batch s).
      rewrite to_batch_nth, Hj. split; [reflexivity|]. split; auto.
      rewrite (MI_an_done _ _ _ _ _ _ _ _ HI Hj Hin) in Hnd.
      unfold in_tasks, is_done, to_batch in *. destruct s as [a l]; simpl in *. destruct l; simpl in *; auto; discriminate.
    + intros (j & s' & Hj & Hin & ->). rewrite to_batch_nth in Hj.
      destruct (nth_error ss j) as [s|] eqn:E; [|discriminate]. simpl in Hj. inversion Hj; subst s'.
      assert (Hin0 : in_tasks s = true /\ is_done s = false).
      { unfold in_tasks, is_done, to_batch in *. destruct s as [a l]; simpl in *. destruct l; simpl in *; auto; discriminate. }
      destruct Hin0 as [Hin0 Hd0]. split; [eauto|].
      rewrite (MI_an_done _ _ _ _ _ _ _ _ HI E Hin0), Hd0. reflexivity.
  - intros t. rewrite filter_In, Hts. split.
    + intros [(j & s & Hj & Hin & ->) Hd]. rewrite (MI_an_done _ _ _ _ _ _ _ _ HI Hj Hin) in Hd.
      destruct s as [a l]. unfold is_done in Hd. simpl in Hd. destruct l; try discriminate.
      exists j, (a, LBatch r), r. rewrite to_batch_nth, Hj. auto.
    + intros (j & s' & r & Hj & Hl & ->). rewrite to_batch_nth in Hj.
      destruct (nth_error ss j) as [[a l]|] eqn:E; [|discriminate]. simpl in Hj. inversion Hj; subst s'.
      unfold to_batch in Hl. simpl in Hl. destruct l; simpl in Hl; try discriminate.
      * inversion Hl; subst. split; [exists j, (a, LDone r); auto|].
        rewrite (MI_an_done _ _ _ _ _ _ _ _ HI E eq_refl). reflexivity.
      * exfalso. eapply (Hnb j (a, LBatch r0)); eauto.
  - intros j s' Hj. rewrite to_batch_nth in Hj.
    destruct (nth_error ss j) as [[a l]|] eqn:E; [|discriminate]. simpl in Hj. inversion Hj; subst s'.
    pose proof (Hcur _ _ E) as Hc. unfold to_batch. simpl in *. destruct l; simpl; auto.
  - intros t j Ht. destruct (Hpend _ _ Ht) as ([a l] & Hj & Hl & ->). simpl in Hl. subst l.
    exists (a, LPend). rewrite to_batch_nth, Hj. auto.
Qed.

Lemma srcs_of_done ss heap tm ts cur :
  MI ss heap tm ts [] cur ->
  srcs_of (mworld ss heap) (mkS (filter (an_done (mworld ss heap)) ts) []) = done_idx 0 ss.
Proof.
  intros HI. unfold srcs_of. cbn [s_an].
  apply sorted_ext.
  - apply union_sorted. exact I.
  - apply done_idx_sorted.
  - intros i. rewrite In_union, In_done_idx, in_flat_map. rewrite Nat.sub_0_r. simpl. split.
    + intros [[]|(t & Ht & Hi)]. apply filter_In in Ht. destruct Ht as [Ht Hd].
      destruct (proj1 (mi_ts _ _ _ _ _ _ HI t) Ht) as (j & s & Hj & Hin & ->).
      rewrite (MI_an_done _ _ _ _ _ _ _ _ HI Hj Hin) in Hd.
      assert (Hl : live (snd s) = true) by (unfold in_tasks in Hin; destruct (snd s); auto).
      rewrite (MI_owner _ _ _ _ _ _ _ _ HI Hj Hl) in Hi. destruct Hi as [<-|[]].
      split; [lia|]. eauto.
    + intros (_ & s & Hj & Hd). right.
      assert (Hin : in_tasks s = true) by (unfold is_done, in_tasks in *; destruct (snd s); auto; discriminate).
      assert (Hl : live (snd s) = true) by (unfold in_tasks in Hin; destruct (snd s); auto).
      exists (cur i). split.
      * apply filter_In. split; [apply (mi_ts _ _ _ _ _ _ HI); eauto|].
        rewrite (MI_an_done _ _ _ _ _ _ _ _ HI Hj Hin). exact Hd.
      * rewrite (MI_owner _ _ _ _ _ _ _ _ HI Hj Hl). left; reflexivity.
Qed.

Lemma wake_mrun n tm ts vd vp vt vi va w o ord :
  w_ext w = [] ->
  exists f, f >= 8 * length (filter (an_done w) ts) + 12 /\
  go SSkip k_mwait (wake "done" "pending" (mkS ts []) (mkMach (menv n tm ts vd vp vt vi va) w o) ord) =
  run f m_inner k_inner
    (mkMach (menv n tm (filter (fun t => negb (an_done w t)) ts) (PySet (mkS (filter (an_done w) ts) []))
                  PyUndef vt vi va) w ord).
Proof.
  intros Hext. unfold go, wake. cbn [i_w i_env i_ord]. unfold done_of, notdone_of. cbn [s_an s_ext filter].
  set (ds := filter (an_done w) ts). set (nds := filter (fun t => negb (an_done w t)) ts).
  set (m := setord (setv (setv (mkMach (menv n tm ts vd vp vt vi va) w o) "done" (PySet (mkS ds [])))
                         "pending" (PySet (mkS nds []))) ord).
  pose proof (env_size_menv n tm ts ds (PySet (mkS nds [])) vt vi va) as He.
  assert (Hf : fuel_of m >= 3 + (8 * length ds + 12)).
  { unfold fuel_of, m. cbn [i_env i_ord setord setv]. simpl set. fold (menv n tm ts (PySet (mkS ds [])) (PySet (mkS nds [])) vt vi va). lia. }
  destruct (fuel_split _ _ Hf) as [f ->]. exists (8 * length ds + 12 + f). split; [lia|].
  replace (3 + (8 * length ds + 12) + f) with (3 + (8 * length ds + 12 + f)) by lia.
  generalize (8 * length ds + 12 + f). intros f'. simpl Nat.add.
  unfold m, k_mwait. step. step. step. reflexivity.
Qed.

Lemma msim_wake st c ord : MR st c -> MSIM st c (MWake ord).
Proof.
  intros H. unfold MSIM. destruct st as [ph ss order]. destruct c as [cst [e w o]].
  unfold MR in H. cbn [m_phase m_srcs m_order c_m c_st i_env i_w i_ord] in H.
  destruct ph.
  - destruct H as (Hst & He & Hw & Hidle). subst. simpl. split; [reflexivity|]. unfold MR; simpl. auto.
  - destruct H as (heap & tm & ts & cur & vd & vp & vt & vi & va & Hst & He & Hw & HI & HnY).
    subst cst e w.
    unfold imstep, mstep. cbn [c_st c_m m_phase m_srcs m_order i_w].
    pose proof (srcs_of_done _ _ _ _ _ HI) as Hsrcs.
    unfold done_of. cbn [s_an s_ext filter]. change (w_ext (mworld ss heap)) with (@nil tst). cbn [filter].
    set (w := mworld ss heap) in *. set (ds := filter (an_done w) ts) in *.
    unfold sis_empty. cbn [s_an s_ext is_nil]. rewrite andb_true_r.
    destruct ds as [|t0 ds0] eqn:Eds.
    + (* nothing is done: asyncio.wait keeps waiting *)
      cbn [is_nil]. unfold srcs_of in Hsrcs. simpl in Hsrcs. rewrite <- Hsrcs. simpl.
      split; [reflexivity|]. unfold MR; simpl. exists heap, tm, ts, cur, vd, vp, vt, vi, va. auto.
    + cbn [is_nil]. rewrite <- Eds in *.
      assert (Hne : done_idx 0 ss <> []).
      { intros E. rewrite E in Hsrcs.
        assert (Ht0 : In t0 ds) by (rewrite Eds; left; reflexivity).
        unfold ds in Ht0. apply filter_In in Ht0. destruct Ht0 as [Ht0 Hd].
        destruct (proj1 (mi_ts _ _ _ _ _ _ HI t0) Ht0) as (j & s & Hj & Hin & ->).
        assert (Hl : live (snd s) = true) by (unfold in_tasks in Hin; destruct (snd s); auto).
        assert (Hjin : In j (srcs_of w (mkS ds []))).
        { unfold srcs_of. cbn [s_an]. apply In_union. right. apply in_flat_map. exists (cur j). split.
          - unfold ds. apply filter_In. auto.
          - unfold w. rewrite (MI_owner _ _ _ _ _ _ _ _ HI Hj Hl). left; reflexivity. }
        rewrite Hsrcs in Hjin. contradiction. }
      destruct (done_idx 0 ss) as [|d0 dl] eqn:Edi; [contradiction Hne; reflexivity|].
      assert (Hlen : length (w_srcs w) = length ss) by (unfold w, mworld; simpl; apply map_length).
      rewrite Hlen.
      destruct (wake_mrun (length ss) tm ts vd vp vt vi va w o (ord ++ seq 0 (length ss)) eq_refl) as (f & Hf & ->).
      fold ds.
      assert (Hw' : w = mworld (map to_batch ss) heap) by (unfold w, mworld; rewrite map_fst_to_batch; reflexivity).
      rewrite Hw' at 2 4.
      pose proof (settle_sim (length ss) (ord ++ seq 0 (length ss)) [] (map to_batch ss) heap tm
                    (filter (fun t => negb (an_done w t)) ts) ds cur PyUndef vt vi va f) as HS.
      simpl app in HS.
      assert (H1 : length ss = length (map to_batch ss)) by (rewrite map_length; reflexivity).
      assert (H2 : MI (map to_batch ss) heap tm (filter (fun t => negb (an_done w t)) ts) ds cur)
        by (apply MI_wake; auto).
      assert (H3 : noY (map to_batch ss)).
      { intros s Hs. apply in_map_iff in Hs. destruct Hs as ([a l] & <- & Hs). specialize (HnY _ Hs).
        destruct l; simpl in *; auto; discriminate. }
      assert (H4 : covered (map to_batch ss) (ord ++ seq 0 (length ss))).
      { intros j s r Hj Hl. apply in_or_app. right. apply in_seq.
        assert (Hjl : j < length (map to_batch ss)) by (apply nth_error_Some; congruence).
        rewrite map_length in Hjl. lia. }
      assert (H5 : forall j, In j [] -> forall (rest : list V) (r0 : res),
                     nth_error (map to_batch ss) j <> Some (rest, LBatch r0)) by (intros j []).
      destruct (HS H1 H2 H3 H4 H5 Hf) as [Hv HR].
      destruct (settle (map to_batch ss) (ord ++ seq 0 (length ss))) as [st' v]. cbn [fst snd] in *.
      split; [congruence | exact HR].
  - pose proof H as (heap & tm & ts & ds & cur & vp & vt & vi & i0 & rest & Hst & _). subst cst.
    simpl. split; [reflexivity|]. exact H.
  - pose proof H as (heap & Hst & _). subst cst. simpl. split; [reflexivity|]. exact H.
Qed.

(** ---- all label sequences ---- *)

Lemma mstep_sim st c l : MR st c -> MSIM st c l.
Proof. destruct l; [apply msim_next | apply msim_complete | apply msim_wake]. Qed.

Lemma mrun_sim ls : forall st c,
  MR st c ->
  snd (imrun_from c ls) = snd (mrun_from st ls) /\ MR (fst (mrun_from st ls)) (fst (imrun_from c ls)).
Proof.
  induction ls as [|l r IH]; simpl; intros st c H; [split; auto|].
  destruct (mstep_sim st c l H) as [Ho H'].
  destruct (mstep st l) as [st1 o1]. destruct (imstep c l) as [c1 io1]. simpl in *.
  destruct (IH _ _ H') as [Hos H''].
  destruct (mrun_from st1 r) as [st2 os2]. destruct (imrun_from c1 r) as [c2 ios2]. simpl in *.
  subst. split; auto.
Qed.

Definition imouts (items : list (list V)) (ls : list mlabel) : list mout :=
  snd (imrun_from (minit_cfg merge_aiters_vars merge_aiters_body items) ls).
Definition imrun (items : list (list V)) (ls : list mlabel) : cfg :=
  fst (imrun_from (minit_cfg merge_aiters_vars merge_aiters_body items) ls).

Lemma MR_init items : MR (minit items) (minit_cfg merge_aiters_vars merge_aiters_body items).
Proof.
  unfold MR, minit, minit_cfg. cbn [m_phase m_srcs c_st c_m i_env i_w]. rewrite map_length.
  split; [reflexivity|]. split; [reflexivity|]. split.
  - unfold mworld. rewrite map_map. simpl. rewrite map_id. reflexivity.
  - intros s Hs. apply in_map_iff in Hs. destruct Hs as (l & <- & _). reflexivity.
Qed.

(** (b) the machine on the regenerated body of merge_aiters = the model, for
    every label sequence: same outputs (done-sets and what the consumer sees),
    related states *)
Theorem merge_tie items ls :
  imouts items ls = mouts items ls /\ MR (mrun items ls) (imrun items ls).
Proof. unfold imouts, mouts, imrun, mrun. apply mrun_sim. apply MR_init. Qed.

Lemma MR_not_stuck st c : MR st c -> stuck c = false.
Proof.
  unfold MR, stuck. destruct (m_phase st).
  - intros (-> & _). reflexivity.
  - intros (heap & tm & ts & cur & vd & vp & vt & vi & va & -> & _). reflexivity.
  - intros (heap & tm & ts & ds & cur & vp & vt & vi & i0 & rest & -> & _). reflexivity.
  - intros (heap & -> & _). reflexivity.
Qed.

(** what the relation says about the phase and the sources *)
Lemma MR_state st c :
  MR st c ->
  w_srcs (i_w (c_m c)) = map fst (m_srcs st) /\
  match m_phase st, c_st c with
  | MFresh, StFresh _ | MWait, StWait _ _ _ _ | MYield, StYield _ _ | MFin, StFinished => True
  | _, _ => False
  end.
Proof.
  unfold MR. destruct (m_phase st).
  - intros (-> & _ & -> & _). auto.
  - intros (heap & tm & ts & cur & vd & vp & vt & vi & va & -> & _ & -> & _). auto.
  - intros (heap & tm & ts & ds & cur & vp & vt & vi & i0 & rest & -> & _ & -> & _). auto.
  - intros (heap & -> & -> & _). auto.
Qed.

(** ---- the consumer stops early: what is lost ---- *)

(** There is NO close label in Model.v; this states, on the machine, what `aclose()` / cancellation of the
    consumer at ANY moment costs.  [iclose] ends the generator at its suspension point (no try/finally in the
    source: nothing cancels the armed `__anext__` tasks); afterwards the sources' pending anexts may still
    complete ([MComplete] in any number and order).  Then, for every source: its items = what was yielded with
    its tag before the close ++ AT MOST ONE item that was consumed from the source and is never yielded ++
    what the source still holds. *)

Lemma imrun_from_app ls : forall c ls',
  fst (imrun_from c (ls ++ ls')) = fst (imrun_from (fst (imrun_from c ls)) ls').
Proof.
  induction ls as [|l r IH]; intros c ls'; [reflexivity|].
  simpl. destruct (imstep c l) as [c1 o]. specialize (IH c1 ls').
  destruct (imrun_from c1 (r ++ ls')) as [c2 os2]. destruct (imrun_from c1 r) as [c3 os3]. simpl in *.
  destruct (imrun_from c3 ls'). exact IH.
Qed.

Definition completes (ks : list nat) (m : mach) : mach :=
  fold_left (fun m k => setw m (complete_src (i_w m) k)) ks m.

Lemma imrun_completes ks : forall st m,
  fst (imrun_from (mkC st m) (map MComplete ks)) = mkC st (completes ks m).
Proof.
  induction ks as [|k r IH]; intros st m; [reflexivity|].
  simpl. specialize (IH st (setw m (complete_src (i_w m) k))).
  destruct (imrun_from {| c_st := st; c_m := setw m (complete_src (i_w m) k) |} (map MComplete r)) as [c1 o1].
  simpl in *. exact IH.
Qed.

Lemma mouts_completes items ls ks : yields (mouts items (ls ++ map MComplete ks)) = yields (mouts items ls).
Proof.
  unfold mouts. generalize (minit items). induction ls as [|l r IH]; intros st; simpl.
  - induction ks as [|k r IH] in st |- *; [reflexivity|].
    simpl. destruct (nth_error (m_srcs st) k);
      match goal with |- context [mrun_from ?s _] => specialize (IH s); destruct (mrun_from s (map MComplete r)) end;
      simpl in *; exact IH.
  - destruct (mstep st l) as [st1 o]. specialize (IH st1).
    destruct (mrun_from st1 (r ++ map MComplete ks)). destruct (mrun_from st1 r). simpl in *.
    unfold yields in *. simpl. rewrite IH. reflexivity.
Qed.

Theorem merge_close_loss items ls ks i s :
  nth_error (m_srcs (mrun items (ls ++ map MComplete ks))) i = Some s ->
  let c' := fst (imrun_from (iclose (imrun items ls)) (map MComplete ks)) in
  c_st c' = StFinished /\
  nth i items [] = proj i (yields (imouts items ls)) ++ inflight s ++ nth i (w_srcs (i_w (c_m c'))) [] /\
  length (inflight s) <= 1.
Proof.
  intros Hs c'.
  destruct (merge_tie items ls) as [Ho HR]. destruct (merge_tie items (ls ++ map MComplete ks)) as [_ HR2].
  assert (Hc : c' = mkC StFinished (completes ks (c_m (imrun items ls)))).
  { unfold c', iclose. destruct (MR_state _ _ HR) as [_ Hph].
    destruct (imrun items ls) as [st m]. simpl in *.
    destruct st; try (destruct (m_phase (mrun items ls)); contradiction); rewrite imrun_completes; reflexivity. }
  assert (Hm : c_m (imrun items (ls ++ map MComplete ks)) = completes ks (c_m (imrun items ls))).
  { unfold imrun at 1. rewrite imrun_from_app. fold (imrun items ls).
    destruct (imrun items ls) as [st m]. rewrite imrun_completes. reflexivity. }
  destruct (MR_state _ _ HR2) as [Hsrcs _]. rewrite Hm in Hsrcs.
  rewrite Hc. simpl. split; [reflexivity|]. split.
  - rewrite Hsrcs, Ho, <- (mouts_completes items ls ks).
    destruct s as [rest l]. rewrite (nth_map_fst _ _ _ _ Hs).
    apply (merge_accounting items (ls ++ map MComplete ks) i (rest, l) Hs).
  - unfold inflight. destruct (snd s) as [| |[v|]|[v|]| |]; simpl; lia.
Qed.
