(** Tie of the hand-written model of [agen_with_wait] (Model.v: [gstep]) to the
    regenerated body (Gen/AioFuns.v: [agen_with_wait_body]) under the semantics
    of Interp.v ([igstep]): a simulation relation [GR] between model states and
    machine configurations, preserved by every label, with equal outputs. *)
(** KIND OF OBLIGATION: pin + simulation of the pinned term.  The program points below are hand-copied;
    [agen_body_shape] pins the regenerated body to them by [reflexivity]; the simulation is about the pinned term.
    Any change of the AST of `agen_with_wait`, behaviour-preserving or not, breaks the pin. *)
From NL Require Import Aio.Model Aio.Syntax Aio.Interp Gen.AioFuns Aio.Merge Aio.Agen Aio.TieBase.
From Coq Require Import Lia.
Local Notation length := List.length (only parsing).
Local Open Scope string_scope.
Local Open Scope list_scope.
Local Open Scope nat_scope.

(** ---- the program points of the regenerated body ---- *)

Definition g_ifexc : stmt :=
  SIfExc "exc" (EVar "t") (SSeq (SCancel (EVar "anext")) (SRaise (EVar "exc"))).

Definition g_after_yield : stmt :=
  SSeq (SIf (EIsNotNone (EVar "new"))
          (SSeq (SAugOr "pending" (ESetOf (EVar "new")))
          (SSeq (SYield None (EPair (ETupleOf (EVar "done")) (ETupleOf (EVar "pending"))))
                (SClear "done")))
          SSkip)
       (SEnsureAnext "anext" (EVar "agen")).

Definition g_tail : stmt :=
  SSeq (SIf (EIn (EVar "anext") (EVar "done_"))
          (SSeq (SResult "item" (EVar "anext") (Some SBreak))
          (SSeq (SRemove "done_" (EVar "anext"))
                (SAugOr "done" (EVar "done_"))))
          (SSeq (SAugOr "done" (EVar "done_")) SContinue))
  (SSeq (SAugAnd "pending" (EVar "pending_"))
  (SSeq (SYield (Some "new") (EVar "item"))
        g_after_yield)).

Definition g_loop_body : stmt :=
  SSeq (SWait "done_" "pending_" (EUnion (EVar "pending") (ESingle (EVar "anext"))))
  (SSeq (SFor "t" (EDiff (EVar "done_") (ESingle (EVar "anext"))) g_ifexc)
        g_tail).

Definition g_body : stmt :=
  SSeq (SAssign "done" EEmptySet)
  (SSeq (SAssign "pending" EEmptySet)
  (SSeq (SEnsureAnext "anext" (EVar "agen"))
        (SWhile ETrue g_loop_body))).

(** the regenerated body is the program the points above are taken from *)
Lemma agen_body_shape : agen_with_wait_body = g_body.
Proof. reflexivity. Qed.
Lemma agen_vars_shape :
  agen_with_wait_vars = ["agen"; "done"; "pending"; "anext"; "done_"; "pending_"; "t"; "exc"; "item"; "new"].
Proof. reflexivity. Qed.

Definition k_loop : list frame := [FWhile ETrue g_loop_body].
(** suspended in `await asyncio.wait(...)` *)
Definition k_wait : list frame :=
  FSeq (SSeq (SFor "t" (EDiff (EVar "done_") (ESingle (EVar "anext"))) g_ifexc) g_tail) :: k_loop.
(** suspended at `new = yield item` *)
Definition k_item : list frame := FSeq g_after_yield :: k_loop.
(** suspended at `yield tuple(done), tuple(pending)` *)
Definition k_sets : list frame := FSeq (SClear "done") :: FSeq (SEnsureAnext "anext" (EVar "agen")) :: k_loop.

(** the local variables at a suspension point: [a] the current anext task,
    [p], [d] the sets `pending`, `done`; the rest is dead *)
Definition genv (a : nat) (p d : list nat) (v1 v2 v3 v4 v5 v6 : val) : env :=
  [("agen", PySrc 0); ("done", PySet (mkS [] d)); ("pending", PySet (mkS [] p)); ("anext", PyTask (TAn a));
   ("done_", v1); ("pending_", v2); ("t", v3); ("exc", v4); ("item", v5); ("new", v6)].

(** ---- the simulation relation ---- *)

Record GW (st : gstate) (w : world) (a : nat) : Prop := mkGW {
  gw_srcs : w_srcs w = [g_rest st];
  gw_ext : w_ext w = g_tasks st;
  gw_pend : forall t i, nth_error (w_an w) t = Some (i, AnPend) ->
              t = a /\ g_phase st = GWait /\ g_anext st = APend;
  gw_anext : g_phase st = GWait ->
             match g_anext st with
             | APend => nth_error (w_an w) a = Some (0, AnPend)
             | ADone r => nth_error (w_an w) a = Some (0, AnRes r)
             | _ => False
             end;
  gw_idle : g_phase st <> GWait -> g_anext st <> APend;
  gw_sorted : ssorted (g_pending st)
}.

Definition GR (st : gstate) (c : cfg) : Prop :=
  let m := c_m c in
  match g_phase st with
  | GFresh =>
    c_st c = StFresh g_body /\
    i_env m = set (init_env agen_with_wait_vars) "agen" (PySrc 0) /\
    i_w m = mkW [g_rest st] [] (g_tasks st) /\
    g_pending st = [] /\ g_done st = [] /\ g_anext st = ANone
  | GWait =>
    exists a v1 v2 v3 v4 v5 v6,
      c_st c = StWait "done_" "pending_" (mkS [a] (g_pending st)) k_wait /\
      i_env m = genv a (g_pending st) (g_done st) v1 v2 v3 v4 v5 v6 /\ GW st (i_w m) a
  | GItem =>
    exists a v1 v2 v3 v4 v5 v6,
      c_st c = StYield (Some "new") k_item /\
      i_env m = genv a (g_pending st) (g_done st) v1 v2 v3 v4 v5 v6 /\ GW st (i_w m) a
  | GSets =>
    exists a v1 v2 v3 v4 v5 v6,
      c_st c = StYield None k_sets /\
      i_env m = genv a (g_pending st) (g_done st) v1 v2 v3 v4 v5 v6 /\ GW st (i_w m) a
  | GRaised => c_st c = StRaised /\ exists a, GW st (i_w m) a
  | GFin => c_st c = StFinished /\ exists a, GW st (i_w m) a
  end.

(** ---- running the machine ---- *)



Lemma env_size_genv a p d v1 v2 v3 v4 v5 v6 :
  env_size (genv a p d v1 v2 v3 v4 v5 v6) >= length p.
Proof. apply (env_size_get _ "pending" (mkS [] p)). reflexivity. Qed.

(** ---- `for t in done_ - {anext}: if exc := t.exception(): anext.cancel(); raise exc` ---- *)

Lemma tdone_ended ts t : tdone ts t = true -> exists r, nth_error ts t = Some (TEnded r).
Proof. unfold tdone. destruct (nth_error ts t) as [[|r]|]; try discriminate. eauto. Qed.

Lemma for_loop w a p d v1 v2 v5 v6 ord k l : forall v3 v4 fuel,
  (forall t, In t l -> tdone (w_ext w) t = true) ->
  fuel >= length l + 4 ->
  match first_exc (w_ext w) l with
  | Some e => exists m',
      runo fuel (next (FFor "t" (map TExt l) g_ifexc :: k) (mkMach (genv a p d v1 v2 v3 v4 v5 v6) w ord)) =
      ORaised (PyExc e) m' /\ i_w m' = cancel_world w a
  | None => exists v3' v4',
      runo fuel (next (FFor "t" (map TExt l) g_ifexc :: k) (mkMach (genv a p d v1 v2 v3 v4 v5 v6) w ord)) =
      run (fuel - length l) SSkip k (mkMach (genv a p d v1 v2 v3' v4' v5 v6) w ord)
  end.
Proof.
  induction l as [|t r IH]; intros v3 v4 fuel Hd Hf.
  - simpl. exists v3, v4. rewrite Nat.sub_0_r. reflexivity.
  - destruct (tdone_ended _ _ (Hd t (or_introl eq_refl))) as [res Hres].
    destruct fuel as [|f]; [simpl in Hf; lia|].
    simpl map. simpl next. simpl runo. step. rewrite Hres.
    simpl first_exc. unfold texc at 1. rewrite Hres.
    destruct res as [|e].
    + (* no exception: next element *)
      specialize (IH (PyTask (TExt t)) PyNone f (fun t' Ht' => Hd t' (or_intror Ht')) ltac:(simpl in Hf; lia)).
      exact IH.
    + (* the task failed: anext.cancel(); raise exc *)
      destruct f as [|[|[|f]]]; try (simpl in Hf; lia).
      step. step. step. eexists. split; reflexivity.
Qed.

(** ---- one label ---- *)

Definition SIM (st : gstate) (c : cfg) (l : glabel) : Prop :=
  snd (igstep c l) = snd (gstep st l) /\ GR (fst (gstep st l)) (fst (igstep c l)).

Lemma minus_self a : minus [a] [a] = [].
Proof. unfold minus. simpl. rewrite Nat.eqb_refl. reflexivity. Qed.

Lemma mem_self a : mem a [a] = true.
Proof. simpl. rewrite Nat.eqb_refl. reflexivity. Qed.

Lemma find_pending_none h i : forall n,
  (forall t j, nth_error h t <> Some (j, AnPend)) -> find_pending h i n = None.
Proof.
  induction h as [|[j s] r IH]; simpl; intros n H; auto.
  destruct s; try (apply IH; intros t j'; apply (H (S t) j')).
  exfalso. apply (H 0 j). reflexivity.
Qed.

Lemma find_pending_unique h i : forall a n,
  nth_error h a = Some (i, AnPend) ->
  (forall t j, nth_error h t = Some (j, AnPend) -> t = a) ->
  find_pending h i n = Some (n + a).
Proof.
  induction h as [|[j s] r IH]; intros a n Ha Hu; [destruct a; discriminate|].
  destruct a as [|a].
  - simpl in Ha. inversion Ha; subst. simpl. rewrite Nat.eqb_refl. f_equal. lia.
  - simpl in Ha. assert (Hs : s <> AnPend).
    { intros ->. specialize (Hu 0 j eq_refl). discriminate. }
    assert (IH' := IH a (S n) Ha (fun t j' Ht => f_equal pred (Hu (S t) j' Ht))).
    simpl. destruct s; try contradiction; rewrite IH'; f_equal; lia.
Qed.


Lemma iter_order_ext ord (b : bool) a dts :
  iter_order ord (sminus (mkS (if b then [a] else []) dts) (ssingle (TAn a))) =
  map TExt (dedup [] (filter (fun t => mem t dts) ord ++ dts)).
Proof.
  unfold iter_order, sminus, ssingle. cbn [s_an s_ext]. rewrite minus_nil.
  replace (minus (if b then [a] else []) [a]) with (@nil nat) by (destruct b; [rewrite minus_self|]; reflexivity).
  simpl. rewrite app_nil_r. reflexivity.
Qed.

Lemma wake_run rest (heap : list (nat * anst)) tasks a p d v1 v2 v3 v4 v5 v6 (o : list nat) ord (sa : anst) :
  nth_error heap a = Some (0, sa) ->
  let w := mkW [rest] heap tasks in
  let dts := filter (tdone tasks) p in
  let out := go SSkip k_wait (wake "done_" "pending_" (mkS [a] p)
                                (mkMach (genv a p d v1 v2 v3 v4 v5 v6) w o) ord) in
  match first_exc tasks (filter (fun t => mem t dts) ord ++ dts) with
  | Some e => exists m', out = ORaised (PyExc e) m' /\ i_w m' = cancel_world w a
  | None =>
    match sa with
    | AnPend => exists u1 u2 u3 u4 u5 u6,
        out = OWait "done_" "pending_" (mkS [a] p) k_wait (mkMach (genv a p (union d dts) u1 u2 u3 u4 u5 u6) w ord)
    | AnRes RStop => exists m', out = OFinished m' /\ i_w m' = w
    | AnRes (RItem v) => exists u1 u2 u3 u4 u5 u6,
        out = OYield (Some "new") (PyItem v) k_item
                (mkMach (genv a (minus p dts) (union d dts) u1 u2 u3 u4 u5 u6) w ord)
    | AnCancelled => True
    end
  end.
Proof.
  intros Ha w dts out. subst out. unfold go, wake.
  cbn [i_w i_env i_ord setv setord]. unfold done_of, notdone_of. cbn [s_an s_ext w_ext filter].
  assert (Hdone : an_done w a = match sa with AnPend => false | _ => true end).
  { unfold an_done. subst w. simpl. rewrite Ha. destruct sa; reflexivity. }
  rewrite Hdone. change (w_ext w) with tasks. fold dts.
  set (b := match sa with AnPend => false | _ => true end) in *.
  set (dn := mkS (if b then [a] else []) dts).
  set (nd := mkS (if negb b then [a] else []) (filter (fun t => negb (tdone tasks t)) p)).
  set (l := dedup [] (filter (fun t => mem t dts) ord ++ dts)).
  set (m0 := mkMach (genv a p d (PySet dn) (PySet nd) v3 v4 v5 v6) w ord).
  change (setord (setv (setv (mkMach (genv a p d v1 v2 v3 v4 v5 v6) w o) "done_" (PySet dn)) "pending_" (PySet nd)) ord)
    with m0.
  assert (HF : fuel_of m0 >= length l + 24).
  { unfold fuel_of, m0. cbn [i_env i_ord].
    pose proof (env_size_genv a p d (PySet dn) (PySet nd) v3 v4 v5 v6).
    assert (length l <= length ord + length p).
    { unfold l. etransitivity; [apply dedup_length|]. rewrite app_length.
      pose proof (filter_length_le (fun t => mem t dts) ord).
      pose proof (filter_length_le (tdone tasks) p). fold dts in H1. lia. }
    lia. }
  generalize dependent (fuel_of m0). intros F HF.
  destruct (fuel_split F 3 ltac:(lia)) as [f ->]. simpl Nat.add.
  unfold m0, k_wait. step. step. step.
  change (sminus dn {| s_an := [a]; s_ext := [] |}) with (sminus (mkS (if b then [a] else []) dts) (ssingle (TAn a))).
  rewrite iter_order_ext. fold l.
  assert (Hl : forall t, In t l -> tdone (w_ext w) t = true).
  { intros t Ht. apply dedup_In in Ht. apply in_app_or in Ht. destruct Ht as [Ht|Ht].
    - apply filter_In in Ht. destruct Ht as [_ Ht]. apply mem_In in Ht. apply filter_In in Ht. tauto.
    - apply filter_In in Ht; tauto. }
  pose proof (for_loop w a p d (PySet dn) (PySet nd) v5 v6 ord (FSeq g_tail :: k_loop) l v3 v4 f Hl ltac:(lia)) as HL.
  unfold l in HL at 1. rewrite first_exc_dedup in HL by (intros ? []). change (w_ext w) with tasks in HL.
  destruct (first_exc tasks (filter (fun t => mem t dts) ord ++ dts)) as [e|].
  - destruct HL as (m' & -> & Hw). eauto.
  - destruct HL as (u3 & u4 & ->).
    destruct (fuel_split (f - length l) 12 ltac:(lia)) as [f2 ->]. simpl Nat.add.
    destruct sa as [|[v|]|]; [| | |exact I].
    + (* the anext is still pending: done |= done_; continue *)
      subst b dn nd. unfold g_tail. step. step. step. step. step. step. step. step. step.
      do 6 eexists. reflexivity.
    + (* an item: the then-branch up to `new = yield item` *)
      subst b dn nd. unfold g_tail. step. step. step. rewrite Nat.eqb_refl. cbn [orb]. simpl runo.
      step. step. rewrite Ha. simpl runo. step. step. rewrite Nat.eqb_refl. cbn [orb]. simpl runo.
      unfold sminus. cbn [s_an s_ext]. rewrite minus_self, minus_nil.
      step. step. step. step. step.
      unfold sinter. cbn [s_an s_ext]. rewrite inter_notdone. fold dts.
      do 6 eexists. reflexivity.
    + (* StopAsyncIteration: break *)
      subst b dn nd. unfold g_tail. step. step. step. rewrite Nat.eqb_refl. cbn [orb]. simpl runo.
      step. step. rewrite Ha. simpl runo. step.
      eexists. split; reflexivity.
Qed.

Lemma GW_idle ph rest an tasks p d heap a :
  ph <> GWait -> an <> APend -> ssorted p -> (forall t i, nth_error heap t <> Some (i, AnPend)) ->
  GW (mkG ph rest an tasks p d) (mkW [rest] heap tasks) a.
Proof.
  intros Hph Han Hs Hn. constructor; simpl; auto.
  - intros t i Ht. exfalso. eapply Hn; eauto.
  - intros; contradiction.
Qed.

Lemma GW_wait rest an tasks p d heap a :
  ssorted p ->
  (forall t i, nth_error heap t = Some (i, AnPend) -> t = a /\ an = APend) ->
  match an with
  | APend => nth_error heap a = Some (0, AnPend)
  | ADone r => nth_error heap a = Some (0, AnRes r)
  | _ => False
  end ->
  GW (mkG GWait rest an tasks p d) (mkW [rest] heap tasks) a.
Proof.
  intros Hs Hp Ha. constructor; simpl; auto.
  intros t i Ht. destruct (Hp _ _ Ht). auto.
Qed.

Lemma GW_inv st w a : GW st w a -> w = mkW [g_rest st] (w_an w) (g_tasks st).
Proof. intros [H1 H2 _ _ _ _]. destruct w; simpl in *. subst. reflexivity. Qed.



Lemma sim_wake st c ord : GR st c -> SIM st c (GWake ord).
Proof.
  intros H. unfold GR in H. unfold SIM.
  destruct st as [ph rest an tasks p d]. destruct c as [cst [e w o]]. simpl in H.
  destruct ph.
  - destruct H as (Hst & He & Hw & Hp & Hd & Ha). simpl in *. subst. split; [reflexivity | unfold GR; simpl; repeat split; auto].
  - destruct H as (a & v1 & v2 & v3 & v4 & v5 & v6 & Hst & He & HW). simpl in Hst, He, HW. subst cst e.
    destruct HW as [Hsrcs Hext Hpend Han Hidle Hsorted]. simpl in *.
    specialize (Han eq_refl).
    destruct w as [wsrcs heap wext]. simpl in *. subst wsrcs wext.
    unfold igstep, gstep. cbn [c_st c_m i_w g_phase g_tasks g_pending g_anext g_rest g_done].
    unfold done_of. cbn [s_an s_ext w_ext filter].
    set (w := mkW [rest] heap tasks). set (dts := filter (tdone tasks) p).
    destruct an as [| |r|]; try contradiction.
    + (* the anext is pending *)
      pose proof (wake_run rest heap tasks a p d v1 v2 v3 v4 v5 v6 o ord AnPend Han) as HR.
      cbv zeta in HR. fold w dts in HR.
      assert (Hd : an_done w a = false) by (unfold an_done, w; simpl; rewrite Han; reflexivity).
      rewrite Hd. unfold sis_empty. cbn [s_an s_ext is_nil andb negb].
      change (match dts with [] => true | _ :: _ => false end) with (is_nil dts).
      destruct (is_nil dts) eqn:En.
      * simpl. split; [reflexivity|]. unfold GR; simpl. do 7 eexists. split; [reflexivity|]. split; [reflexivity|].
        apply GW_wait; auto. intros t i Ht. destruct (Hpend _ _ Ht) as (? & _ & ?); auto.
      * destruct (first_exc tasks (filter (fun t => mem t dts) ord ++ dts)) as [e|].
        -- destruct HR as (m' & -> & Hw'). simpl. split; [reflexivity|].
           unfold GR; simpl. split; [reflexivity|]. exists a. rewrite Hw'.
           unfold cancel_world, w. simpl. rewrite Han.
           apply GW_idle; auto; try discriminate.
           intros t i Ht. destruct (Nat.eq_dec a t) as [<-|Hne].
           ++ rewrite (nth_error_upd_eq _ _ _ _ Han) in Ht. discriminate.
           ++ rewrite nth_error_upd_neq in Ht by auto. destruct (Hpend _ _ Ht). congruence.
        -- destruct HR as (u1 & u2 & u3 & u4 & u5 & u6 & ->). simpl. split; [reflexivity|].
           unfold GR; simpl. do 7 eexists. split; [reflexivity|]. split; [reflexivity|].
           apply GW_wait; auto. intros t i Ht. destruct (Hpend _ _ Ht) as (? & _ & ?); auto.
    + (* the anext is done *)
      pose proof (wake_run rest heap tasks a p d v1 v2 v3 v4 v5 v6 o ord (AnRes r) Han) as HR.
      cbv zeta in HR. fold w dts in HR.
      assert (Hd : an_done w a = true) by (unfold an_done, w; simpl; rewrite Han; reflexivity).
      rewrite Hd. unfold sis_empty. cbn [s_an s_ext is_nil andb negb].
      assert (Hnp : forall t i, nth_error heap t <> Some (i, AnPend)).
      { intros t i Ht. destruct (Hpend _ _ Ht) as (_ & _ & ?). discriminate. }
      destruct (first_exc tasks (filter (fun t => mem t dts) ord ++ dts)) as [e|].
      * destruct HR as (m' & -> & Hw'). simpl. split; [reflexivity|].
        unfold GR; simpl. split; [reflexivity|]. exists a. rewrite Hw'.
        unfold cancel_world, w. simpl. rewrite Han.
        apply GW_idle; auto; discriminate.
      * destruct r as [v|].
        -- destruct HR as (u1 & u2 & u3 & u4 & u5 & u6 & ->). simpl. split; [reflexivity|].
           unfold GR; simpl. do 7 eexists. split; [reflexivity|]. split; [reflexivity|].
           apply GW_idle; auto; try discriminate. apply filter_sorted; auto.
        -- destruct HR as (m' & -> & Hw'). simpl. split; [reflexivity|].
           unfold GR; simpl. split; [reflexivity|]. exists a. rewrite Hw'.
           apply GW_idle; auto; discriminate.
  - destruct H as (a & v1 & v2 & v3 & v4 & v5 & v6 & Hst & He & HW). simpl in *. subst.
    split; [reflexivity | unfold GR; simpl; eauto 14].
  - destruct H as (a & v1 & v2 & v3 & v4 & v5 & v6 & Hst & He & HW). simpl in *. subst.
    split; [reflexivity | unfold GR; simpl; eauto 14].
  - destruct H as (Hst & a & HW). simpl in *. subst. split; [reflexivity | unfold GR; simpl; eauto].
  - destruct H as (Hst & a & HW). simpl in *. subst. split; [reflexivity | unfold GR; simpl; eauto].
Qed.

(** ---- the environment's labels ---- *)

Lemma GW_ext st w a tasks' :
  GW st w a ->
  GW (mkG (g_phase st) (g_rest st) (g_anext st) tasks' (g_pending st) (g_done st))
     (mkW (w_srcs w) (w_an w) tasks') a.
Proof. intros [H1 H2 H3 H4 H5 H6]. constructor; simpl; auto. Qed.

Lemma GR_ext st c tasks' :
  GR st c ->
  GR (mkG (g_phase st) (g_rest st) (g_anext st) tasks' (g_pending st) (g_done st))
     (mkC (c_st c) (setw (c_m c) (mkW (w_srcs (i_w (c_m c))) (w_an (i_w (c_m c))) tasks'))).
Proof.
  unfold GR. destruct st as [ph rest an tasks p d]. destruct c as [cst [e w o]]. simpl.
  destruct ph.
  - intros (Hst & He & Hw & Hp & Hd & Ha). subst. simpl. repeat split; auto.
  - intros (a & v1 & v2 & v3 & v4 & v5 & v6 & Hst & He & HW). do 7 eexists. split; [eauto|]. split; [eauto|].
    apply (GW_ext _ _ _ tasks' HW).
  - intros (a & v1 & v2 & v3 & v4 & v5 & v6 & Hst & He & HW). do 7 eexists. split; [eauto|]. split; [eauto|].
    apply (GW_ext _ _ _ tasks' HW).
  - intros (a & v1 & v2 & v3 & v4 & v5 & v6 & Hst & He & HW). do 7 eexists. split; [eauto|]. split; [eauto|].
    apply (GW_ext _ _ _ tasks' HW).
  - intros (Hst & a & HW). split; auto. exists a. apply (GW_ext _ _ _ tasks' HW).
  - intros (Hst & a & HW). split; auto. exists a. apply (GW_ext _ _ _ tasks' HW).
Qed.

Lemma GR_w_ext st c : GR st c -> w_ext (i_w (c_m c)) = g_tasks st.
Proof.
  unfold GR. destruct (g_phase st).
  - intros (_ & _ & Hw & _). rewrite Hw. reflexivity.
  - intros (a & v1 & v2 & v3 & v4 & v5 & v6 & _ & _ & HW). apply HW.
  - intros (a & v1 & v2 & v3 & v4 & v5 & v6 & _ & _ & HW). apply HW.
  - intros (a & v1 & v2 & v3 & v4 & v5 & v6 & _ & _ & HW). apply HW.
  - intros (_ & a & HW). apply HW.
  - intros (_ & a & HW). apply HW.
Qed.

Lemma sim_spawn st c : GR st c -> SIM st c GSpawn.
Proof.
  intros H. unfold SIM. simpl. split; [reflexivity|].
  rewrite (GR_w_ext _ _ H). apply (GR_ext _ _ _ H).
Qed.

Lemma sim_taskend st c t r : GR st c -> SIM st c (GTaskEnd t r).
Proof.
  intros H. unfold SIM. simpl. rewrite (GR_w_ext _ _ H).
  destruct (nth_error (g_tasks st) t) as [[|]|]; simpl; try (split; [reflexivity | exact H]).
  split; [reflexivity|]. apply (GR_ext _ _ _ H).
Qed.

Lemma complete_none w i :
  (forall t j, nth_error (w_an w) t <> Some (j, AnPend)) -> complete_src w i = w.
Proof. intros H. unfold complete_src. rewrite find_pending_none; auto. Qed.

Lemma setw_same m : setw m (i_w m) = m.
Proof. destruct m; reflexivity. Qed.

Lemma GW_nopend st w a : GW st w a -> g_anext st <> APend -> forall t j, nth_error (w_an w) t <> Some (j, AnPend).
Proof. intros HW Hn t j Ht. destruct (gw_pend _ _ _ HW _ _ Ht) as (_ & _ & ?). contradiction. Qed.

Lemma sim_src st c : GR st c -> SIM st c GSrc.
Proof.
  intros H. unfold SIM.
  destruct st as [ph rest an tasks p d]. destruct c as [cst m].
  assert (Hidle : an <> APend -> SIM (mkG ph rest an tasks p d) (mkC cst m) GSrc).
  { intros Hn. unfold SIM. simpl.
    assert (Hw : complete_src (i_w m) 0 = i_w m).
    { apply complete_none. unfold GR in H; simpl in H. destruct ph.
      - destruct H as (_ & _ & Hw & _). rewrite Hw. intros [|t] j; discriminate.
      - destruct H as (a & v1 & v2 & v3 & v4 & v5 & v6 & _ & _ & HW). apply (GW_nopend _ _ _ HW Hn).
      - destruct H as (a & v1 & v2 & v3 & v4 & v5 & v6 & _ & _ & HW). apply (GW_nopend _ _ _ HW Hn).
      - destruct H as (a & v1 & v2 & v3 & v4 & v5 & v6 & _ & _ & HW). apply (GW_nopend _ _ _ HW Hn).
      - destruct H as (_ & a & HW). apply (GW_nopend _ _ _ HW Hn).
      - destruct H as (_ & a & HW). apply (GW_nopend _ _ _ HW Hn). }
    rewrite Hw, setw_same. destruct an; try contradiction; (split; [reflexivity | exact H]). }
  destruct an; try (apply Hidle; discriminate).
  (* the anext is pending: only in GWait *)
  unfold GR in H; simpl in H. destruct ph.
  - destruct H as (_ & _ & _ & _ & _ & Ha). discriminate.
  - destruct H as (a & v1 & v2 & v3 & v4 & v5 & v6 & Hst & He & HW). simpl in *.
    pose proof (GW_inv _ _ _ HW) as Hw. simpl in Hw.
    destruct HW as [_ _ Hpend Han _ Hsorted]. simpl in *. specialize (Han eq_refl).
    destruct m as [e w o]. simpl in *. subst cst e. rewrite Hw. unfold complete_src. cbn [w_an w_srcs w_ext].
    rewrite (find_pending_unique _ 0 a 0 Han) by (intros t j Ht; destruct (Hpend _ _ Ht); auto).
    simpl nth. destruct (src_complete rest) as [rest' r]. simpl.
    split; [reflexivity|]. unfold GR; simpl. do 7 eexists. split; [reflexivity|]. split; [reflexivity|].
    apply GW_wait; auto.
    + intros t j Ht. destruct (Nat.eq_dec a t) as [<-|Hne].
      * rewrite (nth_error_upd_eq _ _ _ _ Han) in Ht. discriminate.
      * rewrite nth_error_upd_neq in Ht by auto. destruct (Hpend _ _ Ht). congruence.
    + eapply nth_error_upd_eq; eauto.
  - destruct H as (a & v1 & v2 & v3 & v4 & v5 & v6 & _ & _ & HW). exfalso. apply (gw_idle _ _ _ HW); simpl; [discriminate | reflexivity].
  - destruct H as (a & v1 & v2 & v3 & v4 & v5 & v6 & _ & _ & HW). exfalso. apply (gw_idle _ _ _ HW); simpl; [discriminate | reflexivity].
  - destruct H as (_ & a & HW). exfalso. apply (gw_idle _ _ _ HW); simpl; [discriminate | reflexivity].
  - destruct H as (_ & a & HW). exfalso. apply (gw_idle _ _ _ HW); simpl; [discriminate | reflexivity].
Qed.

(** ---- the consumer's label ---- *)


Lemma start_run rest tasks o :
  go g_body [] (mkMach (set (init_env agen_with_wait_vars) "agen" (PySrc 0)) (mkW [rest] [] tasks) o) =
  OWait "done_" "pending_" (mkS [0] []) k_wait
    (mkMach (genv 0 [] [] PyUndef PyUndef PyUndef PyUndef PyUndef PyUndef) (mkW [rest] [(0, AnPend)] tasks) o).
Proof.
  fuel 12. unfold g_body. do 9 step. reflexivity.
Qed.

Lemma resume_none a p d v1 v2 v3 v4 v5 v6 w o :
  go SSkip k_item (send (Some "new") (mkMach (genv a p d v1 v2 v3 v4 v5 v6) w o) PyNone) =
  OWait "done_" "pending_" (mkS [length (w_an w)] p) k_wait
    (mkMach (genv (length (w_an w)) p d v1 v2 v3 v4 v5 PyNone) (arm_world w 0) o).
Proof.
  fuel 12. unfold k_item, g_after_yield. repeat step. reflexivity.
Qed.

Lemma resume_some a p d v1 v2 v3 v4 v5 v6 w o ts :
  go SSkip k_item (send (Some "new") (mkMach (genv a p d v1 v2 v3 v4 v5 v6) w o) (PyExts ts)) =
  OYield None (PyPair (PySet (mkS [] d)) (PySet (mkS [] (union p (union [] ts))))) k_sets
    (mkMach (genv a (union p (union [] ts)) d v1 v2 v3 v4 v5 (PyExts ts)) w o).
Proof.
  fuel 12. unfold k_item, g_after_yield. repeat step. reflexivity.
Qed.

Lemma resume_sets a p d v1 v2 v3 v4 v5 v6 w o :
  go SSkip k_sets (mkMach (genv a p d v1 v2 v3 v4 v5 v6) w o) =
  OWait "done_" "pending_" (mkS [length (w_an w)] p) k_wait
    (mkMach (genv (length (w_an w)) p [] v1 v2 v3 v4 v5 v6) (arm_world w 0) o).
Proof.
  fuel 12. unfold k_sets. repeat step. reflexivity.
Qed.

Lemma armed_pending (heap : list (nat * anst)) t j :
  (forall t j, nth_error heap t <> Some (j, AnPend)) ->
  nth_error (heap ++ [(0, AnPend)]) t = Some (j, AnPend) -> t = length heap.
Proof.
  intros Hn Ht. destruct (lt_dec t (length heap)) as [Hlt|Hge].
  - rewrite nth_error_app1 in Ht by auto. exfalso. eapply Hn; eauto.
  - rewrite nth_error_app2 in Ht by lia. destruct (t - length heap) as [|k] eqn:E; [lia|].
    destruct k; discriminate.
Qed.

Lemma armed_at {A} (heap : list A) x : nth_error (heap ++ [x]) (length heap) = Some x.
Proof. rewrite nth_error_app2 by lia. rewrite Nat.sub_diag. reflexivity. Qed.

Lemma GW_armed st w a rest tasks p d :
  GW st w a -> g_anext st <> APend -> g_rest st = rest -> g_tasks st = tasks -> ssorted p ->
  GW (mkG GWait rest APend tasks p d) (arm_world w 0) (length (w_an w)).
Proof.
  intros HW Hn <- <- Hs. pose proof (GW_inv _ _ _ HW) as Hw. rewrite Hw. unfold arm_world. simpl.
  apply GW_wait; auto.
  - intros t j Ht. split; auto. eapply armed_pending; eauto. apply (GW_nopend _ _ _ HW Hn).
  - apply armed_at.
Qed.

Lemma sim_send st c new : GR st c -> SIM st c (GSend new).
Proof.
  intros H. unfold SIM.
  destruct st as [ph rest an tasks p d]. destruct c as [cst [e w o]].
  unfold GR in H; simpl in H. destruct ph.
  - (* not started *)
    destruct H as (Hst & He & Hw & Hp & Hd & Ha). subst.
    destruct new as [ts|].
    + simpl. split; [reflexivity|]. unfold GR; simpl. repeat split; auto.
    + unfold igstep, gstep. cbn [c_st c_m g_phase]. rewrite start_run. simpl. split; [reflexivity|].
      unfold GR; simpl. do 7 eexists. split; [reflexivity|]. split; [reflexivity|].
      apply GW_wait; simpl; auto.
      intros [|[|t]] j Ht; simpl in Ht; try discriminate. auto.
  - (* waiting: an anext is already outstanding *)
    destruct H as (a & v1 & v2 & v3 & v4 & v5 & v6 & Hst & He & HW). simpl in *. subst.
    split; [reflexivity | unfold GR; simpl; eauto 14].
  - (* at `new = yield item` *)
    destruct H as (a & v1 & v2 & v3 & v4 & v5 & v6 & Hst & He & HW). simpl in *. subst.
    assert (Hn : an <> APend) by (apply (gw_idle _ _ _ HW); simpl; discriminate).
    pose proof (gw_sorted _ _ _ HW) as Hs. simpl in Hs.
    destruct new as [ts|]; unfold igstep, gstep; cbn [c_st c_m g_phase].
    + rewrite resume_some. rewrite union_set_of by auto. simpl. split; [reflexivity|].
      unfold GR; simpl. do 7 eexists. split; [reflexivity|]. split; [reflexivity|].
      pose proof (GW_inv _ _ _ HW) as Hw. simpl in Hw. rewrite Hw.
      apply GW_idle; auto; try discriminate.
      * apply union_sorted; auto.
      * apply (GW_nopend _ _ _ HW Hn).
    + rewrite resume_none. simpl. split; [reflexivity|].
      unfold GR; simpl. do 7 eexists. split; [reflexivity|]. split; [reflexivity|].
      apply (GW_armed _ _ _ rest tasks p d HW); auto.
  - (* at `yield tuple(done), tuple(pending)`: the sent value is discarded *)
    destruct H as (a & v1 & v2 & v3 & v4 & v5 & v6 & Hst & He & HW). simpl in *. subst.
    assert (Hn : an <> APend) by (apply (gw_idle _ _ _ HW); simpl; discriminate).
    pose proof (gw_sorted _ _ _ HW) as Hs. simpl in Hs.
    unfold igstep, gstep; cbn [c_st c_m g_phase send]. rewrite resume_sets. simpl. split; [reflexivity|].
    unfold GR; simpl. do 7 eexists. split; [reflexivity|]. split; [reflexivity|].
    apply (GW_armed _ _ _ rest tasks p [] HW); auto.
  - destruct H as (Hst & a & HW). simpl in *. subst. split; [reflexivity | unfold GR; simpl; eauto].
  - destruct H as (Hst & a & HW). simpl in *. subst. split; [reflexivity | unfold GR; simpl; eauto].
Qed.

(** ---- all label sequences ---- *)

Lemma gstep_sim st c l : GR st c -> SIM st c l.
Proof.
  destruct l; [apply sim_spawn | apply sim_taskend | apply sim_src | apply sim_send | apply sim_wake].
Qed.

Lemma grun_sim ls : forall st c,
  GR st c ->
  snd (igrun_from c ls) = snd (grun_from st ls) /\ GR (fst (grun_from st ls)) (fst (igrun_from c ls)).
Proof.
  induction ls as [|l r IH]; simpl; intros st c H; [split; auto|].
  destruct (gstep_sim st c l H) as [Ho H'].
  destruct (gstep st l) as [st1 o1]. destruct (igstep c l) as [c1 io1]. simpl in *.
  destruct (IH _ _ H') as [Hos H''].
  destruct (grun_from st1 r) as [st2 os2]. destruct (igrun_from c1 r) as [c2 ios2]. simpl in *.
  subst. split; auto.
Qed.

Definition igouts (items : list V) (ls : list glabel) : list gout :=
  snd (igrun_from (ginit_cfg agen_with_wait_vars agen_with_wait_body items) ls).
Definition igrun (items : list V) (ls : list glabel) : cfg :=
  fst (igrun_from (ginit_cfg agen_with_wait_vars agen_with_wait_body items) ls).

Lemma GR_init items : GR (ginit items) (ginit_cfg agen_with_wait_vars agen_with_wait_body items).
Proof. unfold GR. simpl. repeat split; reflexivity. Qed.

(** (b) the machine on the regenerated body of agen_with_wait = the model, for
    every label sequence: same outputs, related states *)
Theorem agen_tie items ls :
  igouts items ls = gouts items ls /\ GR (grun items ls) (igrun items ls).
Proof. unfold igouts, gouts, igrun, grun. apply grun_sim. apply GR_init. Qed.

Lemma GR_not_stuck st c : GR st c -> stuck c = false.
Proof.
  unfold GR, stuck. destruct (g_phase st).
  - intros (-> & _). reflexivity.
  - intros (a & v1 & v2 & v3 & v4 & v5 & v6 & -> & _). reflexivity.
  - intros (a & v1 & v2 & v3 & v4 & v5 & v6 & -> & _). reflexivity.
  - intros (a & v1 & v2 & v3 & v4 & v5 & v6 & -> & _). reflexivity.
  - intros (-> & _). reflexivity.
  - intros (-> & _). reflexivity.
Qed.

(** what the relation says about the state: the sets `pending` and `done` of the
    machine are the model's, the environment's tasks and the wrapped iterator too *)
Lemma GR_state st c :
  GR st c -> g_phase st <> GFresh -> g_phase st <> GRaised -> g_phase st <> GFin ->
  get (i_env (c_m c)) "pending" = Some (PySet (mkS [] (g_pending st))) /\
  get (i_env (c_m c)) "done" = Some (PySet (mkS [] (g_done st))) /\
  w_ext (i_w (c_m c)) = g_tasks st /\ w_srcs (i_w (c_m c)) = [g_rest st].
Proof.
  unfold GR. destruct (g_phase st); try contradiction; intros (a & v1 & v2 & v3 & v4 & v5 & v6 & _ & -> & HW) _ _ _;
    (split; [reflexivity|]; split; [reflexivity|]; split; [apply (gw_ext _ _ _ HW) | apply (gw_srcs _ _ _ HW)]).
Qed.

(** ---- the consumer stops early: what is lost ---- *)

(** No close label in Model.v; on the machine: [iclose] ends the generator at its suspension point (no
    try/finally in the source: neither the pending `__anext__` of the wrapped iterator nor the awaited tasks
    are cancelled); afterwards the environment goes on (the anext may complete, tasks may end).  Then the
    wrapped iterator's items = what was yielded before the close ++ AT MOST ONE item consumed from it and
    never yielded ++ what it still holds.  (Exceptions of awaited tasks that end after the close are not
    surfaced to anybody.) *)

Definition envstep (m : mach) (l : glabel) : mach :=
  let w := i_w m in
  match l with
  | GSpawn => setw m (mkW (w_srcs w) (w_an w) (w_ext w ++ [TRunning]))
  | GTaskEnd t r =>
    match nth_error (w_ext w) t with
    | Some TRunning => setw m (mkW (w_srcs w) (w_an w) (upd (w_ext w) t (TEnded r)))
    | _ => m
    end
  | GSrc => setw m (complete_src w 0)
  | _ => m
  end.

Lemma igstep_env st m l :
  glabel_env l = true -> igstep (mkC st m) l = (mkC st (envstep m l), ((false, []), GVNone)).
Proof.
  destruct l; try discriminate; intros _; simpl; auto.
  destruct (nth_error (w_ext (i_w m)) t) as [[|]|]; reflexivity.
Qed.

Lemma igrun_env es : forall st m,
  Forall (fun l => glabel_env l = true) es ->
  fst (igrun_from (mkC st m) es) = mkC st (fold_left envstep es m).
Proof.
  induction es as [|l r IH]; intros st m H; [reflexivity|].
  inversion H; subst. simpl. rewrite igstep_env by auto.
  specialize (IH st (envstep m l) H3). destruct (igrun_from {| c_st := st; c_m := envstep m l |} r). exact IH.
Qed.

Lemma igrun_from_app ls : forall c ls',
  fst (igrun_from c (ls ++ ls')) = fst (igrun_from (fst (igrun_from c ls)) ls').
Proof.
  induction ls as [|l r IH]; intros c ls'; [reflexivity|].
  simpl. destruct (igstep c l) as [c1 o]. specialize (IH c1 ls').
  destruct (igrun_from c1 (r ++ ls')) as [c2 os2]. destruct (igrun_from c1 r) as [c3 os3]. simpl in *.
  destruct (igrun_from c3 ls'). exact IH.
Qed.

Lemma gstep_env_out st l : glabel_env l = true -> snd (gstep st l) = ((false, []), GVNone).
Proof.
  destruct l; try discriminate; intros _; simpl; auto.
  - destruct (nth_error (g_tasks st) t) as [[|]|]; reflexivity.
  - destruct (g_anext st); try reflexivity. destruct (src_complete (g_rest st)); reflexivity.
Qed.

Lemma gitems_env es : forall st,
  Forall (fun l => glabel_env l = true) es -> gitems (snd (grun_from st es)) = [].
Proof.
  induction es as [|l r IH]; intros st H; [reflexivity|]. inversion H; subst.
  simpl. pose proof (gstep_env_out st l H2) as Ho. destruct (gstep st l) as [st1 o]. simpl in Ho. subst o.
  specialize (IH st1 H3). destruct (grun_from st1 r). simpl in *. exact IH.
Qed.

Lemma GR_srcs st c : GR st c -> w_srcs (i_w (c_m c)) = [g_rest st].
Proof.
  unfold GR. destruct (g_phase st).
  - intros (_ & _ & -> & _). reflexivity.
  - intros (a & v1 & v2 & v3 & v4 & v5 & v6 & _ & _ & HW). apply HW.
  - intros (a & v1 & v2 & v3 & v4 & v5 & v6 & _ & _ & HW). apply HW.
  - intros (a & v1 & v2 & v3 & v4 & v5 & v6 & _ & _ & HW). apply HW.
  - intros (_ & a & HW). apply HW.
  - intros (_ & a & HW). apply HW.
Qed.

Theorem agen_close_loss items ls es :
  Forall (fun l => glabel_env l = true) es ->
  let c' := fst (igrun_from (iclose (igrun items ls)) es) in
  let lost := ainfl (g_anext (grun items (ls ++ es))) in
  (c_st c' = StFinished \/ c_st c' = StRaised) /\
  items = gitems (igouts items ls) ++ lost ++ nth 0 (w_srcs (i_w (c_m c'))) [] /\
  length lost <= 1.
Proof.
  intros Hes c' lost.
  destruct (agen_tie items ls) as [Ho HR]. destruct (agen_tie items (ls ++ es)) as [_ HR2].
  assert (Hc : c_m c' = fold_left envstep es (c_m (igrun items ls)) /\ (c_st c' = StFinished \/ c_st c' = StRaised)).
  { unfold c', iclose. pose proof (GR_not_stuck _ _ HR) as Hns. unfold stuck in Hns.
    destruct (igrun items ls) as [st m]. simpl in *.
    destruct st; try discriminate; rewrite igrun_env by auto; simpl; auto. }
  destruct Hc as [Hm Hst].
  assert (Hm2 : c_m (igrun items (ls ++ es)) = fold_left envstep es (c_m (igrun items ls))).
  { unfold igrun at 1. rewrite igrun_from_app. fold (igrun items ls).
    destruct (igrun items ls) as [st m]. rewrite igrun_env by auto. reflexivity. }
  pose proof (GR_srcs _ _ HR2) as Hsrcs. rewrite Hm2, <- Hm in Hsrcs.
  split; [exact Hst|]. split.
  - rewrite Hsrcs, Ho. simpl nth.
    destruct (agen_items_full items (ls ++ es)) as [Hacc _].
    assert (Hg : gitems (gouts items (ls ++ es)) = gitems (gouts items ls)).
    { unfold gouts. rewrite grun_from_app. destruct (grun_from (ginit items) ls) as [st1 os1] eqn:E1.
      pose proof (gitems_env es st1 Hes) as He. destruct (grun_from st1 es) as [st2 os2]. simpl in *.
      rewrite gitems_app, He, app_nil_r. reflexivity. }
    rewrite Hg in Hacc. exact Hacc.
  - unfold lost, ainfl. destruct (g_anext (grun items (ls ++ es))) as [| |[v|]|]; simpl; lia.
Qed.
