(** Proofs about the model of [to_aiter] (Model.v): for every interleaving of
    anext calls, worker-thread executions and deliveries. *)
From NL Require Import Aio.Model Aio.Merge.
From Coq Require Import Lia.

(** what the n-th execution of `next(self._it)` must return *)
Definition res_at (items : list V) (n : nat) : res :=
  match nth_error items n with Some v => RItem v | None => RStop end.

Lemma src_complete_skipn items n :
  src_complete (skipn n items) = (skipn (S n) items, res_at items n).
Proof.
  unfold res_at. revert n. induction items as [|v r IH]; intros [|n]; simpl; auto.
  - rewrite IH. reflexivity.
Qed.

Record TInv (items : list V) (st : tstate) : Prop := mkTInv {
  T_rest : t_rest st = skipn (length (t_log st)) items;
  T_log : map snd (t_log st) = map (res_at items) (seq 0 (length (t_log st)));
  T_ran : forall c r, nth_error (t_calls st) c = Some (CRan r) -> In (c, r) (t_log st)
}.

Lemma log_snoc items (lg : list (nat * res)) c :
  map snd lg = map (res_at items) (seq 0 (length lg)) ->
  map snd (lg ++ [(c, res_at items (length lg))]) = map (res_at items) (seq 0 (length (lg ++ [(c, res_at items (length lg))]))).
Proof.
  intros H. rewrite app_length; simpl. rewrite Nat.add_1_r, seq_S, !map_app, H. reflexivity.
Qed.

Lemma nth_error_snoc_ran (cs : list cst) x c r :
  x <> CRan r -> nth_error (cs ++ [x]) c = Some (CRan r) -> nth_error cs c = Some (CRan r).
Proof.
  intros Hx H. destruct (lt_dec c (length cs)).
  - rewrite nth_error_app1 in H by auto. auto.
  - rewrite nth_error_app2 in H by lia. destruct (c - length cs) as [|[|k]]; simpl in H; congruence.
Qed.

Lemma tstep_inv thread items st l st' o :
  TInv items st -> tstep thread st l = (st', o) ->
  TInv items st' /\ (exists ext, t_log st' = t_log st ++ ext) /\
  (forall c r, o = TORes c r -> In (c, r) (t_log st')).
Proof.
  intros [Hr Hl Hc] H. destruct l as [|c|c]; simpl in H.
  - destruct thread.
    + injection H as <- <-. simpl. split; [|split; [exists []; rewrite app_nil_r; auto | discriminate]].
      constructor; simpl; auto. intros c r Hn. apply nth_error_snoc_ran in Hn; [auto | discriminate].
    + rewrite Hr, src_complete_skipn in H. injection H as <- <-. simpl.
      split; [|split; [eauto|]].
      * constructor; simpl.
        -- rewrite app_length; simpl. rewrite Nat.add_1_r. reflexivity.
        -- apply log_snoc; auto.
        -- intros c r Hn. apply nth_error_snoc_ran in Hn; [|discriminate]. apply in_or_app; auto.
      * intros c r Ho. inversion Ho; subst. apply in_or_app. right. left. reflexivity.
  - destruct (nth_error (t_calls st) c) as [[| |]|] eqn:En;
      try (injection H as <- <-; split; [constructor; auto | split; [exists []; rewrite app_nil_r; auto | discriminate]]).
    rewrite Hr, src_complete_skipn in H. injection H as <- <-. simpl.
    split; [|split; [eauto | discriminate]].
    constructor; simpl.
    + rewrite app_length; simpl. rewrite Nat.add_1_r. reflexivity.
    + apply log_snoc; auto.
    + intros c' r Hn. destruct (Nat.eq_dec c c') as [->|Hne].
      * rewrite (nth_error_upd_eq _ _ _ _ En) in Hn. inversion Hn; subst. apply in_or_app. right. left. reflexivity.
      * rewrite nth_error_upd_neq in Hn by auto. apply in_or_app; auto.
  - destruct (nth_error (t_calls st) c) as [[|r|]|] eqn:En;
      try (injection H as <- <-; split; [constructor; auto | split; [exists []; rewrite app_nil_r; auto | discriminate]]).
    injection H as <- <-. simpl. split; [|split; [exists []; rewrite app_nil_r; auto|]].
    + constructor; simpl; auto. intros c' r' Hn. destruct (Nat.eq_dec c c') as [->|Hne].
      * rewrite (nth_error_upd_eq _ _ _ _ En) in Hn. discriminate.
      * rewrite nth_error_upd_neq in Hn by auto. auto.
    + intros c' r' Ho. inversion Ho; subst. auto.
Qed.

Lemma trun_from_inv thread items ls : forall st st' os,
  TInv items st -> trun_from thread st ls = (st', os) ->
  TInv items st' /\ (exists ext, t_log st' = t_log st ++ ext) /\
  (forall c r, In (TORes c r) os -> In (c, r) (t_log st')).
Proof.
  induction ls as [|l r IH]; simpl; intros st st' os HI H.
  - injection H as <- <-. split; auto. split; [exists []; rewrite app_nil_r; auto | intros c r []].
  - destruct (tstep thread st l) as [st1 o] eqn:E1. destruct (trun_from thread st1 r) as [st2 os2] eqn:E2.
    injection H as <- <-.
    destruct (tstep_inv _ _ _ _ _ _ HI E1) as (HI1 & (e1 & He1) & Ho1).
    destruct (IH _ _ _ HI1 E2) as (HI2 & (e2 & He2) & Ho2).
    split; auto. split.
    + exists (e1 ++ e2). rewrite He2, He1, app_assoc. reflexivity.
    + intros c r0 [Hin|Hin]; [|auto]. rewrite He2. apply in_or_app. left. apply Ho1. auto.
Qed.

Lemma tinit_inv items : TInv items (tinit items).
Proof. constructor; simpl; auto. intros c r H. destruct c; discriminate. Qed.

(** The successive executions of `next(self._it)` -- whatever call and whatever
    thread performs them, in whatever order -- obtain exactly the iterable's
    items in order, each once, and StopIteration afterwards; and what an anext
    call delivers is what its own execution obtained. *)
Theorem to_aiter_items thread items ls :
  let st := trun thread items ls in
  map snd (t_log st) = map (res_at items) (seq 0 (length (t_log st))) /\
  t_rest st = skipn (length (t_log st)) items /\
  forall c r, In (TORes c r) (touts thread items ls) -> In (c, r) (t_log st).
Proof.
  unfold trun, touts. destruct (trun_from thread (tinit items) ls) as [st os] eqn:E. simpl.
  destruct (trun_from_inv _ _ _ _ _ _ (tinit_inv items) E) as ([Hr Hl _] & _ & Ho). auto.
Qed.

(** a consumer that awaits each anext before the next one (e.g. `async for`) *)
Definition seq_labels (thread : bool) (k : nat) : list tlabel :=
  flat_map (fun c => if thread then [TCall; TRun c; TDeliver c] else [TCall]) (seq 0 k).

Definition delivered (os : list tout) : list res :=
  flat_map (fun o => match o with TORes _ r => [r] | TONone => [] end) os.

Lemma trun_from_app thread ls : forall st ls',
  trun_from thread st (ls ++ ls') =
  let '(st1, os1) := trun_from thread st ls in
  let '(st2, os2) := trun_from thread st1 ls' in (st2, os1 ++ os2).
Proof.
  induction ls as [|l r IH]; simpl; intros.
  - destruct (trun_from thread st ls'); reflexivity.
  - destruct (tstep thread st l) as [st1 o]. rewrite IH.
    destruct (trun_from thread st1 r) as [st2 os2]. destruct (trun_from thread st2 ls'); reflexivity.
Qed.

Lemma rep_nth k (x : cst) : nth_error (repeat CDelivered k ++ [x]) k = Some x.
Proof. rewrite nth_error_app2 by (rewrite repeat_length; lia). rewrite repeat_length, Nat.sub_diag. reflexivity. Qed.

Lemma rep_upd k (x y : cst) : upd (repeat CDelivered k ++ [x]) k y = repeat CDelivered k ++ [y].
Proof. induction k; simpl; intros; auto. f_equal. apply IHk. Qed.

Lemma rep_S k : repeat CDelivered k ++ [CDelivered] = repeat CDelivered (S k).
Proof. induction k; simpl; auto. f_equal. auto. Qed.

Lemma round_thread items k lg :
  trun_from true (mkT (skipn k items) (repeat CDelivered k) lg) [TCall; TRun k; TDeliver k] =
  (mkT (skipn (S k) items) (repeat CDelivered (S k)) (lg ++ [(k, res_at items k)]),
   [TONone; TONone; TORes k (res_at items k)]).
Proof.
  unfold trun_from.
  assert (E1 : tstep true (mkT (skipn k items) (repeat CDelivered k) lg) TCall =
               (mkT (skipn k items) (repeat CDelivered k ++ [CSubmitted]) lg, TONone)) by reflexivity.
  rewrite E1.
  assert (E2 : tstep true (mkT (skipn k items) (repeat CDelivered k ++ [CSubmitted]) lg) (TRun k) =
               (mkT (skipn (S k) items) (repeat CDelivered k ++ [CRan (res_at items k)]) (lg ++ [(k, res_at items k)]), TONone)).
  { unfold tstep. cbn [t_calls t_rest t_log]. rewrite rep_nth, src_complete_skipn, rep_upd. reflexivity. }
  rewrite E2.
  assert (E3 : tstep true (mkT (skipn (S k) items) (repeat CDelivered k ++ [CRan (res_at items k)]) (lg ++ [(k, res_at items k)])) (TDeliver k) =
               (mkT (skipn (S k) items) (repeat CDelivered (S k)) (lg ++ [(k, res_at items k)]), TORes k (res_at items k))).
  { unfold tstep. cbn [t_calls t_rest t_log]. rewrite rep_nth, rep_upd, rep_S. reflexivity. }
  rewrite E3. reflexivity.
Qed.

Lemma round_nothread items k lg :
  trun_from false (mkT (skipn k items) (repeat CDelivered k) lg) [TCall] =
  (mkT (skipn (S k) items) (repeat CDelivered (S k)) (lg ++ [(k, res_at items k)]), [TORes k (res_at items k)]).
Proof.
  unfold trun_from, tstep. cbn [t_calls t_rest t_log]. rewrite src_complete_skipn, repeat_length, rep_S. reflexivity.
Qed.

Lemma seq_run thread items k :
  exists lg,
    fst (trun_from thread (tinit items) (seq_labels thread k)) = mkT (skipn k items) (repeat CDelivered k) lg /\
    delivered (snd (trun_from thread (tinit items) (seq_labels thread k))) = map (res_at items) (seq 0 k).
Proof.
  induction k as [|k IH].
  - simpl. exists []. auto.
  - destruct IH as (lg & Hst & Hd). unfold seq_labels in *. rewrite seq_S, flat_map_app, trun_from_app.
    destruct (trun_from thread (tinit items) (flat_map (fun c : nat => if thread then [TCall; TRun c; TDeliver c] else [TCall]) (seq 0 k)))
      as [st os] eqn:E. cbn [fst snd] in Hst, Hd. subst st. cbn [flat_map app plus].
    destruct thread.
    + rewrite round_thread. cbn [fst snd]. eexists. split; [reflexivity|].
      unfold delivered in *. rewrite map_app, flat_map_app, Hd. reflexivity.
    + rewrite round_nothread. cbn [fst snd]. eexists. split; [reflexivity|].
      unfold delivered in *. rewrite map_app, flat_map_app, Hd. reflexivity.
Qed.

(** sequential iteration yields exactly the iterable's items, then StopAsyncIteration *)
Theorem to_aiter_sequential thread items k :
  delivered (touts thread items (seq_labels thread k)) = map (res_at items) (seq 0 k).
Proof. destruct (seq_run thread items k) as (lg & _ & H). exact H. Qed.
