(** Executable model of nextline/utils/aio.py: [merge_aiters],
    [agen_with_wait], [to_aiter].  Definitions only; proofs are in
    Merge.v, Agen.v, ToAiter.v.

    Scheduler nondeterminism lives in the labels: when the pending
    `__anext__` of a source becomes done ([MComplete i]), when
    `asyncio.wait(..., FIRST_COMPLETED)` returns and in which order the
    returned *set* is popped/iterated ([MWake ord]), when the consumer
    resumes the generator ([MNext]).  "For every schedule" = "for every
    list of labels". *)
From Coq Require Export List ZArith Bool Arith.
Export ListNotations.

Definition V := Z.

(** result of one `__anext__`: an item or StopAsyncIteration *)
Inductive res := RItem (v : V) | RStop.

Fixpoint upd {A} (l : list A) (n : nat) (x : A) : list A :=
  match l, n with
  | [], _ => []
  | _ :: r, O => x :: r
  | a :: r, S n => a :: upd r n x
  end.

(** sorted duplicate-free lists of naturals stand for Python sets of tasks *)
Fixpoint ins (x : nat) (l : list nat) : list nat :=
  match l with
  | [] => [x]
  | y :: r => if x <? y then x :: l else if x =? y then l else y :: ins x r
  end.
Definition union (a b : list nat) : list nat := fold_left (fun acc x => ins x acc) b a.
Definition mem (x : nat) (l : list nat) : bool := existsb (Nat.eqb x) l.
Definition minus (a b : list nat) : list nat := filter (fun x => negb (mem x b)) a.

(** ------------------------------------------------------------------ *)
(** * merge_aiters *)

(** Where the current `__anext__` task of a source is.
    LIdle     generator body not started yet (tasks are created at the first anext)
    LPend     task in `tasks`, not done
    LDone r   task in `tasks`, done with result r (asyncio.wait has not returned yet)
    LBatch r  task in the set `done` returned by asyncio.wait, not popped yet
    LYielded  its item is the one just yielded; re-armed when the consumer resumes
    LDropped  StopAsyncIteration seen: source dropped for good *)
Inductive loc := LIdle | LPend | LDone (r : res) | LBatch (r : res) | LYielded | LDropped.

(** a source = the items it has still to produce + the place of its task *)
Notation srcst := (list V * loc)%type.

(** MFresh: before the first anext; MWait: suspended in `await asyncio.wait`;
    MYield: suspended at `yield`; MFin: `while tasks` left, generator finished *)
Inductive mphase := MFresh | MWait | MYield | MFin.

Record mstate := mkM {
  m_phase : mphase;
  m_srcs : list srcst;
  m_order : list nat       (* remaining pop order of the current `done` set *)
}.

Inductive mlabel :=
| MNext                    (* the consumer calls/resumes `__anext__` of the merged generator *)
| MComplete (i : nat)      (* the pending `__anext__` of source i becomes done *)
| MWake (ord : list nat).  (* asyncio.wait returns; `done.pop()` follows ord, then index order *)

(** what the consumer sees *)
Inductive vis := VYield (i : nat) (v : V) | VStop | VNone.

(** output of a step: the `done` set returned by asyncio.wait (for MWake) and
    the consumer-visible event *)
Notation mout := (list nat * vis)%type.

Definition minit (items : list (list V)) : mstate :=
  mkM MFresh (map (fun l => (l, LIdle)) items) [].

(** `task_map = {ensure_future(a.__anext__()): a ...}` *)
Definition arm (s : srcst) : srcst := (fst s, LPend).
(** `task = ensure_future(aiter.__anext__()); tasks.add(task)` after the yield *)
Definition rearm (s : srcst) : srcst :=
  match snd s with LYielded => (fst s, LPend) | _ => s end.
(** membership in `tasks` *)
Definition in_tasks (s : srcst) : bool :=
  match snd s with LPend | LDone _ => true | _ => false end.
Definition is_done (s : srcst) : bool :=
  match snd s with LDone _ => true | _ => false end.
(** `done, pending = await asyncio.wait(tasks); tasks = pending` *)
Definition to_batch (s : srcst) : srcst :=
  match snd s with LDone r => (fst s, LBatch r) | _ => s end.

Fixpoint done_idx (n : nat) (ss : list srcst) : list nat :=
  match ss with
  | [] => []
  | s :: r => if is_done s then n :: done_idx (S n) r else done_idx (S n) r
  end.

(** the source coroutine finishes its current `__anext__` *)
Definition complete (s : srcst) : srcst :=
  match s with
  | (v :: r, LPend) => (r, LDone (RItem v))
  | ([], LPend) => ([], LDone RStop)
  | _ => s
  end.

(** `while done: task = done.pop(); try: item = task.result()
     except StopAsyncIteration: continue; ...; yield aiter_map[aiter], item`
    -- runs up to the next yield.  Indices that are not in the batch (or
    repeated) are skipped, so any [order] covering all indices is a pop order. *)
Fixpoint process (ss : list srcst) (order : list nat) : list srcst * list nat * vis :=
  match order with
  | [] => (ss, [], VNone)
  | i :: r =>
    match nth_error ss i with
    | Some (rest, LBatch RStop) => process (upd ss i (rest, LDropped)) r
    | Some (rest, LBatch (RItem v)) => (upd ss i (rest, LYielded), r, VYield i v)
    | _ => process ss r
    end
  end.

(** continue the inner loop; when `done` is empty evaluate `while tasks:` *)
Definition settle (ss : list srcst) (order : list nat) : mstate * vis :=
  let '(ss', order', v) := process ss order in
  match v with
  | VYield _ _ => (mkM MYield ss' order', v)
  | _ => if existsb in_tasks ss' then (mkM MWait ss' [], VNone)
         else (mkM MFin ss' [], VStop)
  end.

Definition mstep (st : mstate) (l : mlabel) : mstate * mout :=
  match l with
  | MNext =>
    match m_phase st with
    | MFresh =>
      let ss := map arm (m_srcs st) in
      if existsb in_tasks ss then (mkM MWait ss [], ([], VNone))
      else (mkM MFin ss [], ([], VStop))
    | MYield =>
      let '(st', v) := settle (map rearm (m_srcs st)) (m_order st) in (st', ([], v))
    | MWait => (st, ([], VNone))   (* an anext is already outstanding *)
    | MFin => (st, ([], VStop))
    end
  | MComplete i =>
    match nth_error (m_srcs st) i with
    | Some s => (mkM (m_phase st) (upd (m_srcs st) i (complete s)) (m_order st), ([], VNone))
    | None => (st, ([], VNone))
    end
  | MWake ord =>
    match m_phase st with
    | MWait =>
      match done_idx 0 (m_srcs st) with
      | [] => (st, ([], VNone))    (* nothing done: asyncio.wait keeps waiting *)
      | ds =>
        let '(st', v) := settle (map to_batch (m_srcs st))
                                (ord ++ seq 0 (length (m_srcs st))) in
        (st', (ds, v))
      end
    | _ => (st, ([], VNone))
    end
  end.

Fixpoint mrun_from (st : mstate) (ls : list mlabel) : mstate * list mout :=
  match ls with
  | [] => (st, [])
  | l :: r => let '(st', o) := mstep st l in
              let '(st'', os) := mrun_from st' r in (st'', o :: os)
  end.

Definition mrun (items : list (list V)) (ls : list mlabel) : mstate := fst (mrun_from (minit items) ls).
Definition mouts (items : list (list V)) (ls : list mlabel) : list mout := snd (mrun_from (minit items) ls).

(** the (tag, item) pairs yielded to the consumer *)
Definition yields (os : list mout) : list (nat * V) :=
  flat_map (fun o => match snd o with VYield i v => [(i, v)] | _ => [] end) os.
(** projection of the output on tag i *)
Definition proj (i : nat) (ys : list (nat * V)) : list V :=
  map snd (filter (fun p => Nat.eqb (fst p) i) ys).

(** ------------------------------------------------------------------ *)
(** * agen_with_wait *)

(** outcome of a task handed to the generator with `asend` *)
Inductive tres := TOk | TExc (e : Z).
Inductive tst := TRunning | TEnded (r : tres).

(** the `anext` task on the wrapped iterator *)
Inductive ast := ANone | APend | ADone (r : res) | ACancelled.

(** GFresh: not started; GWait: in `await asyncio.wait`; GItem: at `new = yield item`;
    GSets: at `yield tuple(done), tuple(pending)`; GRaised: left by `raise exc`;
    GFin: left by `break` *)
Inductive gphase := GFresh | GWait | GItem | GSets | GRaised | GFin.

Record gstate := mkG {
  g_phase : gphase;
  g_rest : list V;           (* items the wrapped iterator has still to produce *)
  g_anext : ast;
  g_tasks : list tst;        (* every task the environment created, by id *)
  g_pending : list nat;      (* the set `pending` *)
  g_done : list nat          (* the set `done` *)
}.

Inductive glabel :=
| GSpawn                          (* the environment creates a task (id = number so far) *)
| GTaskEnd (t : nat) (r : tres)   (* task t finishes / raises *)
| GSrc                            (* the wrapped iterator's pending anext becomes done *)
| GSend (new : option (list nat)) (* consumer: anext() = asend(None), or asend(tasks) *)
| GWake (ord : list nat).         (* asyncio.wait returns; `for t in done_ - {anext}` follows ord *)

Inductive gvis :=
| GVItem (v : V) | GVSets (d p : list nat) | GVStop | GVRaise (e : Z) | GVErr | GVNone.

(** output: (anext in done_, done_ - {anext}) for a wake, and the visible event *)
Notation gout := ((bool * list nat) * gvis)%type.

Definition ginit (items : list V) : gstate := mkG GFresh items ANone [] [] [].

Definition tdone (ts : list tst) (t : nat) : bool :=
  match nth_error ts t with Some (TEnded _) => true | _ => false end.
Definition texc (ts : list tst) (t : nat) : option Z :=
  match nth_error ts t with Some (TEnded (TExc e)) => Some e | _ => None end.

(** `for t in done_ - {anext}: if exc := t.exception(): ... raise exc` *)
Fixpoint first_exc (ts : list tst) (scan : list nat) : option Z :=
  match scan with
  | [] => None
  | t :: r => match texc ts t with Some e => Some e | None => first_exc ts r end
  end.

Definition src_complete (rest : list V) : list V * res :=
  match rest with v :: r => (r, RItem v) | [] => ([], RStop) end.

Definition gset_phase (st : gstate) (p : gphase) : gstate :=
  mkG p (g_rest st) (g_anext st) (g_tasks st) (g_pending st) (g_done st).

Definition gstep (st : gstate) (l : glabel) : gstate * gout :=
  let nothing := ((false, []), GVNone) in
  match l with
  | GSpawn => (mkG (g_phase st) (g_rest st) (g_anext st) (g_tasks st ++ [TRunning]) (g_pending st) (g_done st), nothing)
  | GTaskEnd t r =>
    match nth_error (g_tasks st) t with
    | Some TRunning => (mkG (g_phase st) (g_rest st) (g_anext st) (upd (g_tasks st) t (TEnded r)) (g_pending st) (g_done st), nothing)
    | _ => (st, nothing)
    end
  | GSrc =>
    match g_anext st with
    | APend => let '(rest, r) := src_complete (g_rest st) in
               (mkG (g_phase st) rest (ADone r) (g_tasks st) (g_pending st) (g_done st), nothing)
    | _ => (st, nothing)
    end
  | GSend new =>
    match g_phase st with
    | GFresh =>
      match new with
      | None => (* `done = set(); pending = set()` (empty since [ginit]); anext = ensure_future(...) *)
                (mkG GWait (g_rest st) APend (g_tasks st) (g_pending st) (g_done st), nothing)
      | Some _ => (st, ((false, []), GVErr))    (* TypeError: non-None to a just-started generator *)
      end
    | GItem =>
      match new with
      | None => (mkG GWait (g_rest st) APend (g_tasks st) (g_pending st) (g_done st), nothing)
      | Some ts =>
        let p := union (g_pending st) ts in
        (mkG GSets (g_rest st) (g_anext st) (g_tasks st) p (g_done st), ((false, []), GVSets (g_done st) p))
      end
    | GSets =>   (* the value sent into the second yield is discarded; `done.clear()` *)
      (mkG GWait (g_rest st) APend (g_tasks st) (g_pending st) [], nothing)
    | GWait => (st, nothing)            (* an anext is already outstanding *)
    | GRaised | GFin => (st, ((false, []), GVStop))
    end
  | GWake ord =>
    match g_phase st with
    | GWait =>
      let dts := filter (tdone (g_tasks st)) (g_pending st) in      (* done_ - {anext} *)
      let adone := match g_anext st with ADone _ => true | _ => false end in
      if negb adone && match dts with [] => true | _ => false end then (st, nothing)
      else
        match first_exc (g_tasks st) (filter (fun t => mem t dts) ord ++ dts) with
        | Some e =>
          let a := match g_anext st with APend => ACancelled | a => a end in    (* anext.cancel() *)
          (mkG GRaised (g_rest st) a (g_tasks st) (g_pending st) (g_done st), ((adone, dts), GVRaise e))
        | None =>
          match g_anext st with
          | ADone RStop => (mkG GFin (g_rest st) ANone (g_tasks st) (g_pending st) (g_done st), ((adone, dts), GVStop))
          | ADone (RItem v) =>
            (mkG GItem (g_rest st) ANone (g_tasks st) (minus (g_pending st) dts) (union (g_done st) dts),
             ((adone, dts), GVItem v))
          | _ =>   (* `done |= done_; continue` -- `pending` is NOT pruned here *)
            (mkG GWait (g_rest st) (g_anext st) (g_tasks st) (g_pending st) (union (g_done st) dts),
             ((adone, dts), GVNone))
          end
        end
    | _ => (st, nothing)
    end
  end.

Fixpoint grun_from (st : gstate) (ls : list glabel) : gstate * list gout :=
  match ls with
  | [] => (st, [])
  | l :: r => let '(st', o) := gstep st l in
              let '(st'', os) := grun_from st' r in (st'', o :: os)
  end.

Definition grun (items : list V) (ls : list glabel) : gstate := fst (grun_from (ginit items) ls).
Definition gouts (items : list V) (ls : list glabel) : list gout := snd (grun_from (ginit items) ls).

Definition gitems (os : list gout) : list V :=
  flat_map (fun o => match snd o with GVItem v => [v] | _ => [] end) os.

(** ------------------------------------------------------------------ *)
(** * to_aiter *)

(** one `__anext__` call: submitted to a thread, `next(self._it)` executed, delivered *)
Inductive cst := CSubmitted | CRan (r : res) | CDelivered.

Record tstate := mkT {
  t_rest : list V;               (* what `self._it` has still to produce *)
  t_calls : list cst;            (* every `__anext__` call, by id *)
  t_log : list (nat * res)       (* ghost: order in which `next(self._it)` was executed *)
}.

Inductive tlabel :=
| TCall            (* a consumer calls `__anext__` (id = number of calls so far) *)
| TRun (c : nat)   (* thread=True: the worker thread of call c executes `self._next()` *)
| TDeliver (c : nat). (* thread=True: `await asyncio.to_thread(...)` of call c returns *)

Inductive tout := TORes (c : nat) (r : res) | TONone.

Definition tinit (items : list V) : tstate := mkT items [] [].

Definition tstep (thread : bool) (st : tstate) (l : tlabel) : tstate * tout :=
  match l with
  | TCall =>
    let c := length (t_calls st) in
    if thread then (mkT (t_rest st) (t_calls st ++ [CSubmitted]) (t_log st), TONone)
    else (* `_not_to_thread`: no suspension point between the call and its result *)
      let '(rest, r) := src_complete (t_rest st) in
      (mkT rest (t_calls st ++ [CDelivered]) (t_log st ++ [(c, r)]), TORes c r)
  | TRun c =>
    match nth_error (t_calls st) c with
    | Some CSubmitted =>
      let '(rest, r) := src_complete (t_rest st) in
      (mkT rest (upd (t_calls st) c (CRan r)) (t_log st ++ [(c, r)]), TONone)
    | _ => (st, TONone)
    end
  | TDeliver c =>
    match nth_error (t_calls st) c with
    | Some (CRan r) => (mkT (t_rest st) (upd (t_calls st) c CDelivered) (t_log st), TORes c r)
    | _ => (st, TONone)
    end
  end.

Fixpoint trun_from (thread : bool) (st : tstate) (ls : list tlabel) : tstate * list tout :=
  match ls with
  | [] => (st, [])
  | l :: r => let '(st', o) := tstep thread st l in
              let '(st'', os) := trun_from thread st' r in (st'', o :: os)
  end.

Definition trun (thread : bool) (items : list V) (ls : list tlabel) : tstate := fst (trun_from thread (tinit items) ls).
Definition touts (thread : bool) (items : list V) (ls : list tlabel) : list tout := snd (trun_from thread (tinit items) ls).

(** ------------------------------------------------------------------ *)
(** * decidable comparison with observed outputs (correspondence check) *)

Fixpoint list_eqb {A} (eq : A -> A -> bool) (a b : list A) : bool :=
  match a, b with
  | [], [] => true
  | x :: a, y :: b => eq x y && list_eqb eq a b
  | _, _ => false
  end.

Definition res_eqb (a b : res) : bool :=
  match a, b with RItem x, RItem y => Z.eqb x y | RStop, RStop => true | _, _ => false end.

Definition vis_eqb (a b : vis) : bool :=
  match a, b with
  | VYield i x, VYield j y => Nat.eqb i j && Z.eqb x y
  | VStop, VStop | VNone, VNone => true
  | _, _ => false
  end.
Definition mout_eqb (a b : mout) : bool := list_eqb Nat.eqb (fst a) (fst b) && vis_eqb (snd a) (snd b).

Definition gvis_eqb (a b : gvis) : bool :=
  match a, b with
  | GVItem x, GVItem y => Z.eqb x y
  | GVSets d p, GVSets d' p' => list_eqb Nat.eqb d d' && list_eqb Nat.eqb p p'
  | GVStop, GVStop | GVErr, GVErr | GVNone, GVNone => true
  | GVRaise x, GVRaise y => Z.eqb x y
  | _, _ => false
  end.
Definition gout_eqb (a b : gout) : bool :=
  Bool.eqb (fst (fst a)) (fst (fst b)) && list_eqb Nat.eqb (snd (fst a)) (snd (fst b)) && gvis_eqb (snd a) (snd b).

Definition tout_eqb (a b : tout) : bool :=
  match a, b with
  | TORes c r, TORes c' r' => Nat.eqb c c' && res_eqb r r'
  | TONone, TONone => true
  | _, _ => false
  end.

(** indices of the cases on which [f input] differs from the observed outputs *)
Fixpoint bad_from {A O} (eq : O -> O -> bool) (f : A -> list O) (n : nat) (cases : list (A * list O)) : list nat :=
  match cases with
  | [] => []
  | (i, o) :: r => if list_eqb eq (f i) o then bad_from eq f (S n) r else n :: bad_from eq f (S n) r
  end.
