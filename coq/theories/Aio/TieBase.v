(** Lemmas shared by TieMerge.v and TieAgen.v: sets as strictly sorted lists,
    fuel, the `for` order. *)
From NL Require Import Aio.Model Aio.Syntax Aio.Interp Aio.Merge Aio.Agen.
From Coq Require Import Lia.
Local Notation length := List.length (only parsing).

(** ---- strictly sorted lists are canonical representatives of sets ---- *)

Fixpoint ssorted (l : list nat) : Prop :=
  match l with [] => True | x :: r => (forall y, In y r -> x < y) /\ ssorted r end.

Lemma ins_sorted x l : ssorted l -> ssorted (ins x l).
Proof.
  induction l as [|y r IH]; simpl; intros H.
  - split; [intros ? []|exact I].
  - destruct H as [Hy Hr].
    destruct (Nat.ltb_spec x y).
    + simpl. split; [|split; auto]. intros z [<-|Hz]; auto. specialize (Hy _ Hz). lia.
    + destruct (Nat.eqb_spec x y).
      * simpl; auto.
      * simpl. split; auto. intros z Hz. apply In_ins in Hz. destruct Hz as [->|Hz]; [lia | auto].
Qed.

Lemma union_sorted b : forall a, ssorted a -> ssorted (union a b).
Proof. unfold union. induction b as [|x r IH]; simpl; intros a H; auto. apply IH. apply ins_sorted; auto. Qed.

Lemma filter_sorted f l : ssorted l -> ssorted (filter f l).
Proof.
  induction l as [|x r IH]; simpl; auto. intros [Hx Hr].
  destruct (f x); simpl; auto. split; auto. intros y Hy. apply filter_In in Hy. apply Hx. tauto.
Qed.

Lemma sorted_ext a : forall b, ssorted a -> ssorted b -> (forall x, In x a <-> In x b) -> a = b.
Proof.
  induction a as [|x r IH]; intros [|y s] Ha Hb He; auto.
  - exfalso. apply (He y). left; auto.
  - exfalso. apply (He x). left; auto.
  - destruct Ha as [Hx Hr], Hb as [Hy Hs].
    assert (x = y).
    { destruct (proj1 (He x) (or_introl eq_refl)) as [->|H1]; auto.
      destruct (proj2 (He y) (or_introl eq_refl)) as [->|H2]; auto.
      specialize (Hx _ H2). specialize (Hy _ H1). lia. }
    subst y. f_equal. apply IH; auto. intros z. split; intros Hz.
    + destruct (proj1 (He z) (or_intror Hz)) as [->|]; auto. specialize (Hx _ Hz). lia.
    + destruct (proj2 (He z) (or_intror Hz)) as [->|]; auto. specialize (Hy _ Hz). lia.
Qed.

(** `x |= set(l)`: building the set first changes nothing *)
Lemma union_set_of a l : ssorted a -> union a (union [] l) = union a l.
Proof.
  intros Ha. apply sorted_ext.
  - apply union_sorted; auto.
  - apply union_sorted; auto.
  - intros x. rewrite !In_union. simpl. tauto.
Qed.

Lemma minus_nil l : minus l [] = l.
Proof. unfold minus. induction l; simpl; auto. simpl in IHl. rewrite IHl. reflexivity. Qed.

Lemma mem_false_nIn x l : mem x l = false <-> ~ In x l.
Proof. rewrite <- mem_In. destruct (mem x l); intuition congruence. Qed.

Lemma mem_filter x f l : mem x (filter f l) = mem x l && f x.
Proof.
  destruct (mem x (filter f l)) eqn:E.
  - apply mem_In in E. apply filter_In in E. destruct E as [E1 E2]. apply mem_In in E1. rewrite E1, E2. reflexivity.
  - destruct (mem x l) eqn:E1; auto. destruct (f x) eqn:E2; auto.
    apply mem_false_nIn in E. exfalso. apply E. apply filter_In. split; auto. apply mem_In; auto.
Qed.

(** `pending &= pending_` where pending_ is the not-done half of pending = dropping the done half *)
Lemma inter_notdone f l : inter l (filter (fun t => negb (f t)) l) = minus l (filter f l).
Proof.
  unfold inter, minus. apply filter_ext_in. intros x Hx. rewrite !mem_filter.
  apply mem_In in Hx. rewrite Hx. reflexivity.
Qed.

Lemma filter_length_le {A} (f : A -> bool) l : length (filter f l) <= length l.
Proof. induction l; simpl; auto. destruct (f a); simpl; lia. Qed.

(** ---- fuel ---- *)

Lemma fuel_split fuel n : fuel >= n -> exists f, fuel = n + f.
Proof. intros. exists (fuel - n). lia. Qed.

(** ---- the order of a `for` over a set and [first_exc] ---- *)

Lemma first_exc_dedup ts l : forall seen,
  (forall x, In x seen -> texc ts x = None) ->
  first_exc ts (dedup seen l) = first_exc ts l.
Proof.
  induction l as [|x r IH]; simpl; intros seen Hs; auto.
  destruct (mem x seen) eqn:E.
  - apply mem_In in E. rewrite (Hs _ E). apply IH; auto.
  - simpl. destruct (texc ts x) eqn:Ex; auto. apply IH. intros y [<-|Hy]; auto.
Qed.

Lemma dedup_In seen l x : In x (dedup seen l) -> In x l.
Proof.
  revert seen. induction l as [|y r IH]; simpl; intros seen H; auto.
  destruct (mem y seen); [right; eauto|]. destruct H as [->|H]; [auto | right; eauto].
Qed.

Lemma dedup_length l : forall seen, length (dedup seen l) <= length l.
Proof.
  induction l as [|y r IH]; simpl; intros seen; auto.
  destruct (mem y seen); simpl; [specialize (IH seen) | specialize (IH (y :: seen))]; lia.
Qed.

(** ---- environments ---- *)

Lemma length_seq_combine n : length (combine (seq 0 n) (seq 0 n)) = n.
Proof. rewrite combine_length, seq_length. lia. Qed.

Lemma lookup_enum n : forall b i, i < n -> lookup (combine (seq b n) (seq b n)) (b + i) = Some (b + i).
Proof.
  induction n as [|n IH]; intros b i Hi; [lia|]. simpl.
  destruct i as [|i].
  - rewrite Nat.add_0_r, Nat.eqb_refl. reflexivity.
  - destruct (Nat.eqb_spec (b + S i) b); [lia|].
    replace (b + S i) with (S b + i) by lia. apply IH. lia.
Qed.

(** ---- more list facts ---- *)

Lemma upd_same {A} (l : list A) i x : nth_error l i = Some x -> upd l i x = l.
Proof. revert i; induction l; intros [|i]; simpl; intros H; try discriminate; [inversion H; auto | rewrite IHl; auto]. Qed.

Lemma map_upd {A B} (f : A -> B) l i x : map f (upd l i x) = upd (map f l) i (f x).
Proof. revert i; induction l; intros [|i]; simpl; auto. rewrite IHl. reflexivity. Qed.

Lemma nth_map_fst {A B} (l : list (list A * B)) i a b : nth_error l i = Some (a, b) -> nth i (map fst l) [] = a.
Proof. revert i; induction l; intros [|i]; simpl; intros H; try discriminate; [inversion H; auto | eauto]. Qed.

Lemma find_unique {A} (f : A -> bool) l c :
  In c l -> f c = true -> (forall t, In t l -> f t = true -> t = c) -> find f l = Some c.
Proof.
  induction l as [|x r IH]; simpl; intros Hin Hc Hu; [contradiction|].
  destruct (f x) eqn:E.
  - f_equal. apply Hu; auto.
  - destruct Hin as [->|Hin]; [congruence|]. apply IH; auto.
Qed.

Lemma find_none_all {A} (f : A -> bool) l : (forall t, In t l -> f t = false) -> find f l = None.
Proof. induction l as [|x r IH]; simpl; intros H; auto. rewrite (H x (or_introl eq_refl)). apply IH; auto. Qed.

Lemma minus_single_lt x l : In x l -> length (minus l [x]) < length l.
Proof.
  unfold minus. induction l as [|y r IH]; simpl; [tauto|].
  intros [->|H].
  - rewrite Nat.eqb_refl. simpl. pose proof (filter_length_le (fun x0 => negb ((x0 =? x) || false)) r). lia.
  - specialize (IH H). simpl in IH. destruct (negb ((y =? x) || false)); simpl; lia.
Qed.

Lemma In_minus_single t x l : In t (minus l [x]) <-> In t l /\ t <> x.
Proof. rewrite In_minus. simpl. intuition. Qed.

(** ---- the pending `__anext__` of one source ---- *)

Lemma find_pending_none_src h i : forall n,
  (forall t, nth_error h t <> Some (i, AnPend)) -> find_pending h i n = None.
Proof.
  induction h as [|[j s] r IH]; simpl; intros n H; auto.
  destruct s; try (apply IH; intros t; apply (H (S t))).
  destruct (Nat.eqb_spec j i) as [->|Hne].
  - exfalso. apply (H 0). reflexivity.
  - apply IH. intros t. apply (H (S t)).
Qed.

Lemma find_pending_src h i : forall a n,
  nth_error h a = Some (i, AnPend) ->
  (forall t, nth_error h t = Some (i, AnPend) -> t = a) ->
  find_pending h i n = Some (n + a).
Proof.
  induction h as [|[j s] r IH]; intros a n Ha Hu; [destruct a; discriminate|].
  destruct a as [|a].
  - simpl in Ha. inversion Ha; subst. simpl. rewrite Nat.eqb_refl. f_equal. lia.
  - simpl in Ha.
    assert (IH' := IH a (S n) Ha (fun t Ht => f_equal pred (Hu (S t) Ht))).
    simpl. destruct s; try (rewrite IH'; f_equal; lia).
    destruct (Nat.eqb_spec j i) as [->|Hne]; [|rewrite IH'; f_equal; lia].
    specialize (Hu 0 eq_refl). discriminate.
Qed.

(** ---- [seq] as a set ---- *)

Lemma seq_sorted n : forall b, ssorted (seq b n).
Proof.
  induction n as [|n IH]; simpl; intros b; auto. split; auto.
  intros y Hy. apply in_seq in Hy. lia.
Qed.

Lemma union_nil_sorted l : ssorted l -> union [] l = l.
Proof.
  intros H. apply sorted_ext; auto.
  - apply union_sorted. exact I.
  - intros x. rewrite In_union. simpl. tauto.
Qed.

Lemma map_fst_combine {A} (l : list A) : map fst (combine l l) = l.
Proof. induction l; simpl; auto. rewrite IHl. reflexivity. Qed.

(** ---- running the machine symbolically ---- *)

Arguments next k m : simpl nomatch.
Arguments run : simpl never.
Arguments iter_order : simpl never.

Definition runo (fuel : nat) (o : outcome) : outcome :=
  match o with ONext s k m => run fuel s k m | o => o end.

Lemma run_S f s k m : run (S f) s k m = runo f (step1 s k m).
Proof. unfold run; fold run. destruct (step1 s k m); reflexivity. Qed.

Ltac step := simpl runo; rewrite run_S; simpl step1; simpl runo.

Lemma env_size_get e x s : get e x = Some (PySet s) -> env_size e >= ssize s.
Proof.
  unfold env_size. induction e as [|[y v] r IH]; simpl; [discriminate|].
  destruct (String.eqb x y).
  - intros H; inversion H; subst. lia.
  - intros H. specialize (IH H). destruct v; lia.
Qed.

Ltac fuel n :=
  unfold go;
  match goal with
  | |- context [run (fuel_of ?m)] =>
    let H := fresh in
    assert (H : fuel_of m >= n) by (unfold fuel_of; lia);
    destruct (fuel_split _ n H) as [? ->]; clear H; simpl Nat.add
  end.
