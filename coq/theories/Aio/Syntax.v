(** Abstract syntax of the fragment of Python in which
    nextline/utils/aio.py writes [merge_aiters], [agen_with_wait] and
    [to_aiter].  Types only; stdlib only.  translate/aio_funs.py emits terms of
    these types into Gen/AioFuns.v, Aio/Interp.v gives them a semantics, and
    Aio/Tie*.v prove that the semantics of the regenerated terms is the
    hand-written model Aio/Model.v.

    The translation keeps apart what Python keeps apart:
    [x = e] / [x |= e] / [x &= e] / [x.add(e)] / [x.remove(e)] / [x.clear()] /
    [x = y] (aliasing) are different constructors. *)
From Coq Require Export List String.
Export ListNotations.

(** ---- generators over sets of tasks ([merge_aiters], [agen_with_wait]) ---- *)

Inductive expr :=
| EVar (x : string)
| ENone
| ETrue
| EEmptySet                     (* set() / set[T]() *)
| ESingle (e : expr)            (* {e} *)
| EUnion (a b : expr)           (* a | b *)
| EInter (a b : expr)           (* a & b *)
| EDiff (a b : expr)            (* a - b *)
| ESetOf (e : expr)             (* set(e) *)
| ETupleOf (e : expr)           (* tuple(e) *)
| EPair (a b : expr)            (* a, b *)
| EIn (a b : expr)              (* a in b *)
| ENot (a : expr)               (* not a   (a not in b = ENot (EIn a b)) *)
| EIsNotNone (a : expr)         (* a is not None *)
| EIndex (m k : expr)           (* m[k] *)
| EKeys (m : expr)              (* m.keys() *)
| EEnumMap (e : expr)           (* {a: i for i, a in enumerate(e)} *)
| EDoneOf (e : expr).           (* {t for t in e if t.done()} *)

Inductive stmt :=
| SSkip
| SSeq (a b : stmt)
| SAssign (x : string) (e : expr)                 (* x = e   (e builds a new value) *)
| SMove (x y : string)                            (* x = y   (x aliases the object of y; y may not be read afterwards) *)
| SAugOr (x : string) (e : expr)                  (* x |= e *)
| SAugAnd (x : string) (e : expr)                 (* x &= e *)
| SAugSub (x : string) (e : expr)                 (* x -= e *)
| SClear (x : string)                             (* x.clear() *)
| SAdd (x : string) (e : expr)                    (* x.add(e) *)
| SRemove (x : string) (e : expr)                 (* x.remove(e)   (KeyError when absent) *)
| SDiscard (x : string) (e : expr)                (* x.discard(e) *)
| SPop (t x : string)                             (* t = x.pop() *)
| SSetItem (m : string) (k v : expr)              (* m[k] = v *)
| SDelItem (m : string) (k : expr)                (* del m[k] *)
| SEnsureAnext (t : string) (a : expr)            (* t = asyncio.ensure_future(a.__anext__()) *)
| SArmAll (m : string) (e : expr)                 (* m = {asyncio.ensure_future(a.__anext__()): a for a in e} *)
| SWait (d p : string) (e : expr)                 (* d, p = await asyncio.wait(e, return_when=asyncio.FIRST_COMPLETED) *)
| SYield (x : option string) (e : expr)           (* [x =] yield e *)
| SResult (x : string) (t : expr) (h : option stmt)
                                                  (* try: x = t.result() / except StopAsyncIteration: h
                                                     (None: no try around it) *)
| SIfExc (x : string) (t : expr) (body : stmt)    (* if x := t.exception(): body *)
| SCancel (t : expr)                              (* t.cancel() *)
| SRaise (e : expr)                               (* raise e *)
| SIf (c : expr) (a b : stmt)
| SWhile (c : expr) (b : stmt)
| SFor (x : string) (e : expr) (b : stmt)
| SBreak
| SContinue.

(** ---- the methods of the class [to_aiter] ---- *)

Inductive exn := XStopIteration | XStopAsyncIteration | XCustomStop (* to_aiter._StopIteration *).

Inductive cexpr :=
| CNextIt                        (* next(self._it) *)
| CCall (m : string)             (* self.m() *)
| CAwaitCall (m : string)        (* await self.m() *)
| CAwaitToThread (m : string).   (* await asyncio.to_thread(self.m) *)

Inductive cstmt :=
| CReturn (e : cexpr)                           (* return e *)
| CRaise (x : exn)                              (* raise x *)
| CTry (body : cstmt) (x : exn) (h : cstmt).    (* try: body / except x: h *)

(** a method: name, [async def]?, body *)
Record meth := mkMeth { me_name : string; me_async : bool; me_body : cstmt }.

(** [self.attr = self.a if flag else self.b] of __init__ *)
Record selector := mkSel { sel_attr : string; sel_flag : string; sel_then : string; sel_else : string }.
