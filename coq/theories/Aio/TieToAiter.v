(** Tie of the hand-written model of [to_aiter] (Model.v: [tstep]) to the
    regenerated methods of the class (Gen/AioFuns.v: [to_aiter_methods],
    [to_aiter_selector]) under the semantics of Interp.v ([itstep]):
    for EVERY label sequence and both values of `thread`, the interpreter on the
    regenerated methods produces the same outputs, leaves the iterator in the
    same state, executes `next(self._it)` for the same calls with the same
    results, and never gets stuck. *)
From NL Require Import Aio.Model Aio.Syntax Aio.Interp Gen.AioFuns Aio.Merge.
From Coq Require Import Lia.

(** the handler a result passes on its way out of `__anext__` *)
Definition hs0 : list (exn * cstmt) := [(XCustomStop, CRaise XStopAsyncIteration)].

Definition abs_call (c : icall) : cst :=
  match c with
  | ISubmitted _ _ => CSubmitted
  | IRan (CVal v) _ => CRan (RItem v)
  | IRan (CExn _) _ => CRan RStop
  | IDelivered => CDelivered
  end.

Definition ok_call (c : icall) : Prop :=
  match c with
  | ISubmitted n hs => n = "_next"%string /\ hs = hs0
  | IRan r hs => hs = hs0 /\ ((exists v, r = CVal v) \/ r = CExn XCustomStop)
  | IDelivered => True
  end.

Record TR (st : tstate) (ist : itstate) : Prop := mkTR {
  tr_rest : it_rest ist = t_rest st;
  tr_log : it_log ist = t_log st;
  tr_stuck : it_stuck ist = false;
  tr_calls : map abs_call (it_calls ist) = t_calls st;
  tr_ok : Forall ok_call (it_calls ist)
}.

Lemma map_upd {A B} (f : A -> B) l i x : map f (upd l i x) = upd (map f l) i (f x).
Proof. revert i; induction l; intros [|i]; simpl; auto. rewrite IHl. reflexivity. Qed.

Lemma Forall_upd {A} (P : A -> Prop) l i x : Forall P l -> P x -> Forall P (upd l i x).
Proof.
  intros H Hx. revert i. induction H; intros [|i]; simpl; auto.
Qed.

Lemma Forall_nth_error {A} (P : A -> Prop) l i x : Forall P l -> nth_error l i = Some x -> P x.
Proof. intros H Hn. rewrite Forall_forall in H. apply H. eapply nth_error_In; eauto. Qed.

Notation MS := to_aiter_methods.
Notation SEL := to_aiter_selector.

(** symbolic execution of the regenerated methods *)
Lemma call_thread rest :
  cexec MS SEL true tfuel false (CReturn (CAwaitCall "__anext__"%string)) rest [] = CThread "_next"%string hs0 rest [].
Proof. reflexivity. Qed.
Lemma call_nothread_cons v r :
  cexec MS SEL false tfuel false (CReturn (CAwaitCall "__anext__"%string)) (v :: r) [] = CDone (CVal v) r [RItem v].
Proof. reflexivity. Qed.
Lemma call_nothread_nil :
  cexec MS SEL false tfuel false (CReturn (CAwaitCall "__anext__"%string)) [] [] = CDone (CExn XStopAsyncIteration) [] [RStop].
Proof. reflexivity. Qed.
Lemma worker_cons flag v r :
  cexec MS SEL flag tfuel true (CReturn (CCall "_next"%string)) (v :: r) [] = CDone (CVal v) r [RItem v].
Proof. destruct flag; reflexivity. Qed.
Lemma worker_nil flag :
  cexec MS SEL flag tfuel true (CReturn (CCall "_next"%string)) [] [] = CDone (CExn XCustomStop) [] [RStop].
Proof. destruct flag; reflexivity. Qed.
Lemma deliver_val flag v rest : unwind MS SEL flag tfuel hs0 (CVal v) rest [] = CDone (CVal v) rest [].
Proof. reflexivity. Qed.
Lemma deliver_stop flag rest :
  unwind MS SEL flag tfuel hs0 (CExn XCustomStop) rest [] = CDone (CExn XStopAsyncIteration) rest [].
Proof. reflexivity. Qed.

Local Opaque cexec unwind.

Lemma tie_step thread st ist l :
  TR st ist ->
  snd (itstep MS SEL thread ist l) = snd (tstep thread st l) /\
  TR (fst (tstep thread st l)) (fst (itstep MS SEL thread ist l)).
Proof.
  intros [Hr Hl Hs Hc Hok].
  destruct ist as [irest icalls ilog istuck]. destruct st as [rest calls log]. simpl in *. subst rest calls log istuck.
  destruct l as [|c|c].
  - (* TCall *)
    unfold tstep, itstep. simpl it_rest. simpl it_calls. simpl it_log. simpl it_stuck.
    simpl t_rest. simpl t_calls. simpl t_log. rewrite map_length.
    destruct thread.
    + (* a thread is used: the call is suspended in to_thread(self._next) *)
      rewrite call_thread. simpl. split; [reflexivity|]. constructor; simpl; auto.
      * rewrite app_nil_r. reflexivity.
      * rewrite map_app. reflexivity.
      * apply Forall_app. split; auto. constructor; [|constructor]. split; reflexivity.
    + destruct irest as [|v r]; [rewrite call_nothread_nil | rewrite call_nothread_cons]; simpl;
        (split; [reflexivity|]); constructor; simpl; auto; try (rewrite map_app; reflexivity);
        apply Forall_app; split; auto; constructor; simpl; auto.
  - (* TRun *)
    unfold tstep, itstep. simpl t_calls. simpl it_calls. rewrite nth_error_map.
    destruct (nth_error icalls c) as [ic|] eqn:En; simpl; [|split; [reflexivity | constructor; auto]].
    pose proof (Forall_nth_error _ _ _ _ Hok En) as Hic.
    destruct ic as [n hs|r hs|]; simpl.
    + destruct Hic as [-> ->].
      destruct irest as [|v r]; [rewrite worker_nil | rewrite worker_cons]; simpl;
        (split; [reflexivity|]); constructor; simpl; auto;
        try (rewrite map_upd; reflexivity); apply Forall_upd; auto; simpl; split; auto.
      left; eauto.
    + destruct r; simpl; split; try reflexivity; constructor; auto.
    + split; [reflexivity | constructor; auto].
  - (* TDeliver *)
    unfold tstep, itstep. simpl t_calls. simpl it_calls. rewrite nth_error_map.
    destruct (nth_error icalls c) as [ic|] eqn:En; simpl; [|split; [reflexivity | constructor; auto]].
    pose proof (Forall_nth_error _ _ _ _ Hok En) as Hic.
    destruct ic as [n hs|r hs|]; simpl.
    + split; [reflexivity | constructor; auto].
    + destruct Hic as [-> [[v ->] | ->]]; [rewrite deliver_val | rewrite deliver_stop]; simpl;
        (split; [reflexivity|]); constructor; simpl; auto;
        try (rewrite app_nil_r; reflexivity); try (rewrite map_upd; reflexivity); apply Forall_upd; simpl; auto.
    + split; [reflexivity | constructor; auto].
Qed.

Lemma tie_run_from thread ls : forall st ist,
  TR st ist ->
  snd (itrun_from to_aiter_methods to_aiter_selector thread ist ls) = snd (trun_from thread st ls) /\
  TR (fst (trun_from thread st ls)) (fst (itrun_from to_aiter_methods to_aiter_selector thread ist ls)).
Proof.
  induction ls as [|l r IH]; simpl; intros st ist H; [split; auto|].
  destruct (tie_step thread st ist l H) as [Ho H'].
  destruct (tstep thread st l) as [st1 o1]. destruct (itstep _ _ thread ist l) as [ist1 io1]. simpl in *.
  destruct (IH _ _ H') as [Hos H''].
  destruct (trun_from thread st1 r) as [st2 os2]. destruct (itrun_from _ _ thread ist1 r) as [ist2 ios2]. simpl in *.
  subst. split; auto.
Qed.

Definition itouts (thread : bool) (items : list V) (ls : list tlabel) : list tout :=
  snd (itrun_from to_aiter_methods to_aiter_selector thread (itinit items) ls).
Definition itrun (thread : bool) (items : list V) (ls : list tlabel) : itstate :=
  fst (itrun_from to_aiter_methods to_aiter_selector thread (itinit items) ls).

(** (b) the interpreter on the regenerated class = the model, for all label sequences *)
Theorem to_aiter_tie thread items ls :
  itouts thread items ls = touts thread items ls /\
  it_rest (itrun thread items ls) = t_rest (trun thread items ls) /\
  it_log (itrun thread items ls) = t_log (trun thread items ls) /\
  map abs_call (it_calls (itrun thread items ls)) = t_calls (trun thread items ls) /\
  it_stuck (itrun thread items ls) = false.
Proof.
  assert (H0 : TR (tinit items) (itinit items)) by (constructor; simpl; auto).
  destruct (tie_run_from thread ls _ _ H0) as [Ho [Hr Hl Hs Hc _]].
  unfold itouts, touts, itrun, trun. auto.
Qed.

(** the selector's default is the thread variant, as the model's docstring says *)
Lemma to_aiter_default_thread : to_aiter_flag_default = true.
Proof. reflexivity. Qed.

(** ---- the facts about the class and its alias the translator emits ---- *)

(** `async for` works on a to_aiter: its only base is AsyncIterator[T] (checked by the translator, which fails
    otherwise) and `__aiter__` is the inherited one *)
Lemma to_aiter_async_iterable : to_aiter_aiter_inherited = true.
Proof. reflexivity. Qed.

(** the flag a call site ends up with *)
Definition flag_of (o : option bool) : bool := match o with Some b => b | None => to_aiter_flag_default end.

(** `aiterable(it)` = `to_aiter(it, thread=False)`: the iterable is passed unchanged (translator), the flag is False *)
Theorem aiterable_tie items ls :
  snd (itrun_from to_aiter_methods to_aiter_selector (flag_of aiterable_thread) (itinit items) ls) = touts false items ls.
Proof. change (flag_of aiterable_thread) with false. apply to_aiter_tie. Qed.

(** `to_aiter(it)` without `thread=`: the default of the regenerated __init__ *)
Theorem to_aiter_default_tie items ls :
  itouts (flag_of None) items ls = touts true items ls.
Proof. change (flag_of None) with true. apply to_aiter_tie. Qed.
