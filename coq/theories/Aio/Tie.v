(** The tie of Aio/Model.v to nextline/utils/aio.py, second kind (TIE_TASK):
    translate/aio_funs.py regenerates Gen/AioFuns.v (the bodies of
    merge_aiters / agen_with_wait / to_aiter as terms of Aio/Syntax.v) from the
    source on every run; Aio/Interp.v interprets those terms under the labels of
    the hand-written model; TieMerge.v / TieAgen.v / TieToAiter.v prove, by a
    simulation relation and induction over the label list, that for ALL label
    sequences the interpreter on the regenerated bodies produces exactly the
    outputs of the model's step functions and stays in a related state (never
    stuck).  Here: the three results side by side, and the property theorems of
    Props/C19.v transferred to the outputs of the regenerated code.

    HONEST LABEL.  merge_aiters and agen_with_wait: "PIN + SIMULATION OF THE PINNED TERM".  TieMerge.v / TieAgen.v
    contain hand-copied program points ([m_body], [g_body] and their sub-terms); [merge_body_shape] /
    [agen_body_shape] pin the regenerated bodies to them by [reflexivity], and the simulation is proved for the
    pinned term.  So ANY change of the AST of these two functions -- also a behaviour-preserving one -- breaks the
    obligation (the check then reports a broken tie, and `no-failing-input-found` if the behaviour is unchanged);
    what the pin buys over a text pin is that the pinned term has a proved meaning.  to_aiter is different: its
    lemmas are symbolic executions of the regenerated [to_aiter_methods] themselves and survive rewrites that
    keep the behaviour under the semantics of Interp.v.
    Scope (not covered by any label of Model.v): sources that raise something else than StopAsyncIteration,
    cancelled awaited tasks, athrow().  Early stop of the consumer (aclose / cancellation) is covered on the
    machine only, by [merge_close_loss] / [agen_close_loss]. *)
From NL Require Export Aio.Model Aio.Syntax Aio.Interp Gen.AioFuns.
From NL Require Export Aio.Merge Aio.Agen Aio.ToAiter.
From NL Require Export Aio.TieMerge Aio.TieAgen Aio.TieToAiter.

(** ---- merge_aiters ---- *)

Theorem tie_merge_outputs items ls : imouts items ls = mouts items ls.
Proof. apply merge_tie. Qed.

Theorem tie_merge_never_stuck items ls : stuck (imrun items ls) = false.
Proof. eapply MR_not_stuck. apply merge_tie. Qed.

(** the projection property, stated on what the regenerated body yields *)
Corollary tie_merge_projection (items : list (list V)) ls i :
  (forall j v, In (j, v) (yields (imouts items ls)) -> j < List.length items) /\
  exists rest, nth i items [] = proj i (yields (imouts items ls)) ++ rest.
Proof. rewrite tie_merge_outputs. apply merge_projection. Qed.

(** when the regenerated body has run off its end, every source was yielded completely *)
Corollary tie_merge_complete items ls i :
  c_st (imrun items ls) = StFinished -> proj i (yields (imouts items ls)) = nth i items [].
Proof.
  intros Hf. rewrite tie_merge_outputs.
  apply (proj2 (merge_terminates items ls)).
  destruct (MR_state _ _ (proj2 (merge_tie items ls))) as [_ H]. rewrite Hf in H.
  destruct (m_phase (mrun items ls)); auto; contradiction.
Qed.

(** ---- agen_with_wait ---- *)

Theorem tie_agen_outputs items ls : igouts items ls = gouts items ls.
Proof. apply agen_tie. Qed.

Theorem tie_agen_never_stuck items ls : stuck (igrun items ls) = false.
Proof. eapply GR_not_stuck. apply agen_tie. Qed.

(** the items yielded by the regenerated body are a prefix of the wrapped iterator's *)
Corollary tie_agen_items items ls : exists rest, items = gitems (igouts items ls) ++ rest.
Proof.
  rewrite tie_agen_outputs. destruct (agen_items_full items ls) as [H _].
  eexists. exact H.
Qed.

(** whatever the regenerated body raises is the exception of a task handed over by asend *)
Corollary tie_agen_raise_identity items ls x e :
  In (x, GVRaise e) (igouts items ls) ->
  exists t ts, In (GTaskEnd t (TExc e)) ls /\ In (GSend (Some ts)) ls /\ In t ts.
Proof. rewrite tie_agen_outputs. apply agen_raise_identity. Qed.

(** ---- to_aiter ---- *)

Theorem tie_to_aiter_outputs thread items ls : itouts thread items ls = touts thread items ls.
Proof. apply to_aiter_tie. Qed.

Corollary tie_to_aiter_sequential thread items k :
  delivered (itouts thread items (seq_labels thread k)) = map (res_at items) (seq 0 k).
Proof. rewrite tie_to_aiter_outputs. apply to_aiter_sequential. Qed.

Corollary tie_aiterable_sequential items k :
  delivered (snd (itrun_from to_aiter_methods to_aiter_selector (flag_of aiterable_thread) (itinit items)
                             (seq_labels false k))) = map (res_at items) (seq 0 k).
Proof. rewrite aiterable_tie. apply to_aiter_sequential. Qed.

Corollary tie_to_aiter_default_sequential items k :
  delivered (itouts (flag_of None) items (seq_labels true k)) = map (res_at items) (seq 0 k).
Proof. rewrite to_aiter_default_tie. apply to_aiter_sequential. Qed.
