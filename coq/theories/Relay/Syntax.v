(** Abstract syntax of the fragments of /repo that the event relay (C10) consists of.
    Hand-written; the TERMS of these types are regenerated from the source at every check
    by translate/relay_skeleton.py into Gen/RelaySkel.v, and Relay/Tie.v interprets them.

    Sources: nextline/plugin/plugins/session/session.py (RunSession.run, _on_start_run,
    _on_end_run, relay_events and its inner coroutine _monitor), nextline/utils/timer.py
    (Timer), nextline/utils/queue.py (wait_until_queue_empty), nextline/spawned/__init__.py
    (set_queues, main).  Statements the relay does not depend on (logging, asserts, typing,
    bookkeeping of the result object) have no constructor: the translator drops them. *)
From Coq Require Import List Bool Arith String.
Import ListNotations.

(** the hooks of the main process the relay awaits *)
Inductive hook := HOnStartRun | HOnEndRun | HOnEventInProcess.

(** values: an event or None *)
Inductive vexp :=
| VGetEvent        (* event := await asyncio.to_thread(queue.get)   (assigns the variable `event`) *)
| VEvent.          (* event *)

Inductive bexp :=
| BIsNotNone (v : vexp)     (* <v> is not None *)
| BIsNone (v : vexp)        (* <v> is None *)
| BNot (b : bexp)           (* not <b> *)
| BQueueEmpty               (* queue.empty() *)
| BTimerIsTimeout           (* timer.is_timeout() *)
| BInFinally                (* in_finally *)
| BConst (b : bool).        (* True / False *)

(** the argument of Timer(...) *)
Inductive tmo :=
| TmoNone                   (* None: never times out *)
| TmoSecs (n : nat)         (* a literal number of seconds *)
| TmoArg.                   (* the parameter `timeout` of the enclosing function *)

Inductive stmt :=
| SSkip
| SSeq (a b : stmt)
| SWhile (c : bexp) (body : stmt)
| SIf (c : bexp) (a b : stmt)
| SBreak
| STry (body fin : stmt)           (* try: body finally: fin *)
| SYield                           (* the `yield` of an asynccontextmanager *)
| SWithRelay (body : stmt)         (* async with relay_events(context, queue_out): body *)
| SAssignEvent (v : vexp)          (* event = <v> *)
| SAwaitHook (h : hook)            (* await context.hook.ahook.<h>(context=context, event=event) *)
| SAwaitSleep0                     (* await asyncio.sleep(0) *)
| SSetInFinally (b : bool)         (* in_finally = <b> *)
| STimerNew (t : tmo)              (* timer = Timer(timeout=<t>) *)
| STimerRestart                    (* timer.restart() *)
| SCreateMonitor                   (* task = asyncio.create_task(_monitor()) *)
| SAwaitPutNone                    (* await asyncio.to_thread(queue.put, None) *)
| SAwaitMonitor                    (* await task *)
| SNewQueueOut                     (* queue_out = mp_context.Queue() *)
| SAwaitSpawn                      (* context.running_process = await run_in_process(func=partial(spawned.main, ..),
                                      initializer=partial(spawned.set_queues, queue_in, queue_out), ..) *)
| SAwaitProcess                    (* context.exited_process = await context.running_process *)
| SSetRunningNone                  (* context.running_process = None *)
| SCallStartRun                    (* await _on_start_run(context, context.running_process) *)
| SCallEndRun                      (* await _on_end_run(context, context.exited_process) *)
| SAssert                          (* assert <call-free test>: passes or raises *)
| SRaise                           (* raise ... *)
| SSleepInterval.                  (* time.sleep(interval) *)

(** ---- nextline/utils/timer.py *)
Inductive cmp := CGt | CGe | CLt | CLe.

Inductive texp :=
| TNow                      (* time.perf_counter() *)
| TStart                    (* self._start *)
| TTimeout                  (* self._timeout *)
| TSub (a b : texp)         (* a - b *)
| TElapsed.                 (* self.elapsed() *)

Inductive tstmt :=
| TSetTimeoutArg                        (* self._timeout = timeout *)
| TSetStart (e : texp)                  (* self._start = <e> *)
| TIfTimeoutNoneReturn (b : bool)       (* if self._timeout is None: return <b> *)
| TReturnCmp (c : cmp) (a b : texp)     (* return <a> <c> <b> *)
| TReturnExp (e : texp).                (* return <e> *)

(** ---- nextline/spawned/__init__.py: main *)
Inductive cstmt :=
| CAssert                    (* assert <call-free test> *)
| CRunScript                 (* ret = run(run_arg, _queue_in, _queue_out): the script runs, every event is `_queue_out.put(event)` *)
| CWaitQueueEmpty (t : tmo)  (* wait_until_queue_empty(queue=_queue_out[, timeout=<t>]) *)
| CReturn.                   (* return ret *)

(** ---- nextline/plugin/plugins/session/monitor.py: the body of one `case events.X():` of
    OnEvent.on_event_in_process (every statement of a case is translated) *)
Inductive dstmt :=
| DOpenAdd                   (* context.open_prompts.add((event.trace_no, event.prompt_no)) *)
| DOpenDiscard               (* context.open_prompts.discard((event.trace_no, event.prompt_no)) *)
| DAwaitHook (name : string). (* await ahook.<name>(context=context, event=event) *)
