(** Two further tie obligations on Gen/RelaySkel.v:

    (1) AGREEMENT OF THE TWO TRANSLATORS.  translate/callback_skeleton.py regenerates a coarser
    skeleton of the same two functions (Gen/CallbackSkeleton.v: [session_skeleton],
    [relay_skeleton], used by Life/FailStart.v for "what happens when an await raises", C12).
    Erasing the detail of the statement trees of Gen/RelaySkel.v (the drain loop becomes one
    await, the timer and `in_finally = False` disappear) must give exactly those skeletons, so
    the exception analysis of C12 and the relay analysis of C10 are about the same code.

    (2) OnEvent.on_event_in_process (monitor.py) awaits, for every event class, the hook of the
    same name (CamelCase -> snake_case): the delivery of an event has completed only when the
    hook of its own kind has. *)
From Coq Require Import List String Ascii Arith Bool.
From NL Require Import Relay.Syntax Gen.RelaySkel.
From NL Require Gen.CallbackSkeleton.
Import ListNotations.
Module CS := NL.Gen.CallbackSkeleton.

Fixpoint mkseq (l : list CS.stmt) : CS.stmt :=
  match l with
  | [] => CS.Skip
  | [x] => x
  | x :: r => CS.Seq x (mkseq r)
  end.

Fixpoint erase (s : stmt) : list CS.stmt :=
  match s with
  | SSkip => []
  | SSeq a b => erase a ++ erase b
  | STry a b => [CS.TryFinally (mkseq (erase a)) (mkseq (erase b))]
  | SYield => [CS.Yield]
  | SWithRelay b => [CS.WithCtx CS.RelayEvents (mkseq (erase b))]
  | SNewQueueOut => [CS.Act CS.InitSession]
  | SAwaitSpawn => [CS.AwaitAct CS.Spawn]
  | SCallStartRun => [CS.AwaitAct CS.StartRunHook]
  | SAwaitProcess => [CS.AwaitAct CS.AwaitProcess]
  | SSetRunningNone => [CS.Act CS.SetExited]
  | SCallEndRun => [CS.AwaitAct CS.EndRunHook]
  | SSetInFinally true => [CS.Act CS.MarkInFinally]
  | SSetInFinally false => []
  | STimerNew _ => []
  | STimerRestart => []
  | SCreateMonitor => [CS.Act CS.MonitorStart]
  | SWhile _ _ => [CS.AwaitAct CS.MonitorDrain]        (* the drain loop, as one await *)
  | SAwaitPutNone => [CS.AwaitAct CS.Sentinel]
  | SAwaitMonitor => [CS.AwaitAct CS.AwaitMonitor]
  | _ => [CS.CallFinish]                               (* nothing else may occur at this level *)
  end.

Lemma skeletons_agree :
  mkseq (erase session_prog) = CS.session_skeleton /\ mkseq (erase relay_prog) = CS.relay_skeleton.
Proof. split; reflexivity. Qed.

(** ---- dispatch *)
Definition is_upper (a : ascii) : bool := Nat.leb 65 (nat_of_ascii a) && Nat.leb (nat_of_ascii a) 90.
Definition to_lower (a : ascii) : ascii := if is_upper a then ascii_of_nat (nat_of_ascii a + 32) else a.

Fixpoint snake_tail (s : string) : string :=
  match s with
  | EmptyString => EmptyString
  | String a r => if is_upper a then String "_"%char (String (to_lower a) (snake_tail r)) else String a (snake_tail r)
  end.

Definition snake (s : string) : string :=
  match s with EmptyString => EmptyString | String a r => String (to_lower a) (snake_tail r) end.

Fixpoint nodupb (l : list string) : bool :=
  match l with [] => true | x :: r => negb (existsb (String.eqb x) r) && nodupb r end.

(** every event class has one case, which awaits the hook of its own name *)
Lemma dispatch_awaits_own_hook :
  forallb (fun p => String.eqb (snake (fst p)) (snd p)) dispatch = true /\ nodupb (map fst dispatch) = true /\
  negb (Nat.eqb (List.length dispatch) 0) = true.
Proof. repeat split; vm_compute; reflexivity. Qed.
