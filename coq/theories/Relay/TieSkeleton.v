(** Two further tie obligations on Gen/RelaySkel.v:

    (1) AGREEMENT OF THE TWO TRANSLATORS (a PIN BETWEEN TWO REGENERATED FILES: both sides change when
    the source changes; it says the two translators read the same structure, it is not a property of
    the code -- those are in Relay/Tie.v and Relay/TieExn.v).  translate/callback_skeleton.py regenerates a coarser
    skeleton of the same two functions (Gen/CallbackSkeleton.v: [session_skeleton],
    [relay_skeleton], used by Life/FailStart.v for "what happens when an await raises", C12).
    Erasing the detail of the statement trees of Gen/RelaySkel.v (the drain loop becomes one
    await, the timer and `in_finally = False` disappear) must give exactly those skeletons, so
    the exception analysis of C12 and the relay analysis of C10 are about the same code.

    (2) OnEvent.on_event_in_process (monitor.py; EVERY statement of it is translated, anything else
    is refused by the translator: `ahook = context.hook.ahook; match event:` and per case the
    open_prompts update and the awaited hook).  Against nextline/events.py: every subclass of Event the
    child constructs has a case; every case is a subclass of Event; a class without a case is one the
    main process constructs itself; each case awaits exactly one hook, the one of its own name
    (CamelCase -> snake_case), as its last statement. *)
From Coq Require Import List String Ascii Arith Bool.
From NL Require Import Relay.Syntax Gen.RelaySkel.
From NL Require Gen.CallbackSkeleton.
Import ListNotations.
Module CS := NL.Gen.CallbackSkeleton.

Fixpoint mkseq (l : list CS.stmt) : CS.stmt :=
  match l with
  | [] => CS.Skip
  | [x] => x
  | x :: r => CS.Seq x (mkseq r)
  end.

Fixpoint erase (s : stmt) : list CS.stmt :=
  match s with
  | SSkip => []
  | SAssert => []
  | SSeq a b => erase a ++ erase b
  | STry a b => [CS.TryFinally (mkseq (erase a)) (mkseq (erase b))]
  | SYield => [CS.Yield]
  | SWithRelay b => [CS.WithCtx CS.RelayEvents (mkseq (erase b))]
  | SNewQueueOut => [CS.Act CS.InitSession]
  | SAwaitSpawn => [CS.AwaitAct CS.Spawn]
  | SCallStartRun => [CS.AwaitAct CS.StartRunHook]
  | SAwaitProcess => [CS.AwaitAct CS.AwaitProcess]
  | SSetRunningNone => [CS.Act CS.SetExited]
  | SCallEndRun => [CS.AwaitAct CS.EndRunHook]
  | SSetInFinally true => [CS.Act CS.MarkInFinally]
  | SSetInFinally false => []
  | STimerNew _ => []
  | STimerRestart => []
  | SCreateMonitor => [CS.Act CS.MonitorStart]
  | SWhile _ _ => [CS.AwaitAct CS.MonitorDrain]        (* the drain loop, as one await *)
  | SAwaitPutNone => [CS.AwaitAct CS.Sentinel]
  | SAwaitMonitor => [CS.AwaitAct CS.AwaitMonitor]
  | _ => [CS.CallFinish]                               (* nothing else may occur at this level *)
  end.

Lemma skeletons_agree :
  mkseq (erase session_prog) = CS.session_skeleton /\ mkseq (erase relay_prog) = CS.relay_skeleton.
Proof. split; reflexivity. Qed.

(** ---- dispatch *)
Definition is_upper (a : ascii) : bool := Nat.leb 65 (nat_of_ascii a) && Nat.leb (nat_of_ascii a) 90.
Definition to_lower (a : ascii) : ascii := if is_upper a then ascii_of_nat (nat_of_ascii a + 32) else a.

Fixpoint snake_tail (s : string) : string :=
  match s with
  | EmptyString => EmptyString
  | String a r => if is_upper a then String "_"%char (String (to_lower a) (snake_tail r)) else String a (snake_tail r)
  end.

Definition snake (s : string) : string :=
  match s with EmptyString => EmptyString | String a r => String (to_lower a) (snake_tail r) end.

Fixpoint nodupb (l : list string) : bool :=
  match l with [] => true | x :: r => negb (existsb (String.eqb x) r) && nodupb r end.

Definition mem (x : string) (l : list string) : bool := existsb (String.eqb x) l.

(** the body of a case: [open_prompts update;] await of the hook of its own name *)
Definition case_ok (p : string * list dstmt) : bool :=
  match snd p with
  | [DAwaitHook h] | [DOpenAdd; DAwaitHook h] | [DOpenDiscard; DAwaitHook h] => String.eqb (snake (fst p)) h
  | _ => false
  end.

Lemma dispatch_complete :
  forallb case_ok dispatch = true /\ nodupb (map fst dispatch) = true /\
  forallb (fun c => mem c (map fst dispatch)) child_event_classes = true /\
  forallb (fun c => mem c event_classes) (map fst dispatch) = true /\
  forallb (fun c => mem c (map fst dispatch) || mem c main_event_classes) event_classes = true /\
  forallb (fun c => negb (mem c (map fst dispatch))) main_event_classes = true /\
  negb (Nat.eqb (List.length child_event_classes) 0) = true.
Proof. repeat split; vm_compute; reflexivity. Qed.
