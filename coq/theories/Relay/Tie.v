(** TIE of the hand-written relay model (Relay/Model.v) to the code of /repo.

    Gen/RelaySkel.v holds the statement trees of RunSession.run, _on_start_run, _on_end_run,
    relay_events, relay_events._monitor, Timer, wait_until_queue_empty and spawned.main,
    REGENERATED from the source at every check (translate/relay_skeleton.py, fail closed).
    This file gives those trees a small-step semantics (two tasks with continuations: the main
    task and the monitor task; the child; the same data as the model: script, child-side buffer,
    pipe, histories) driven by the SAME labels as Relay/Model.v, and proves that for EVERY list of
    labels the interpreter of the regenerated code and the model are in lock step
    ([sim]: same pipe, same histories, same plugin log, corresponding control points).
    Every theorem of Relay/Proofs.v therefore holds of the regenerated code ([tie_*]).

    What a label means for the code (the only place where the granularity of the model is
    chosen; everything else is computed from the regenerated trees):
      a label completes the await the task is blocked at (a "micro-step"), after which the task
      runs on through statements that cannot block ([settle]) up to its next await;
      StartProc        run_in_process(...) has returned: the child exists
      StartRun         ahook.on_start_run is called (logged) and returns
      ProcExitSeen     `await context.running_process` returns (enabled when the child is dead)
      DrainTick/Timeout one pass of the loop the main task is at, entered at its condition, with a
                       clock reading at which no time / more than the timeout has elapsed since the
                       timer was restarted (`await asyncio.sleep(0)` inside the pass only lets other
                       labels happen before or after: the pass reads shared state once, in its condition)
      PutSentinel      `await asyncio.to_thread(queue.put, None)` returns
      EndRun           `await task` returns (enabled when the monitor coroutine has run to its end)
                       and the main task runs on to the call of ahook.on_end_run (logged)
      MonTake          `queue.get` returns an event and the monitor runs on to the call of
                       ahook.on_event_in_process (logged = the delivery)
      MonDeliver       that hook call returns
      MonSeesSentinel  `queue.get` returns None
      Emit/Flush/ChildExit/Kill/KillMidWrite   the child and its feeder thread (environment, as in the
                       model; the child's program decides when Emit and ChildExit are enabled).
    Modelled, not verified (as in Relay/Model.v): multiprocessing.Queue, asyncio, the OS. *)
From NL Require Import Relay.Model Relay.Proofs Relay.Syntax Gen.RelaySkel.
From Coq Require Import Lia.
Open Scope Z_scope.

(** ================================================================== Timer (utils/timer.py) *)
Record timer := mkT { t_timeout : option Z; t_start : Z }.

Fixpoint teval0 (tm : timer) (now : Z) (e : texp) : Z :=
  match e with
  | TNow => now
  | TStart => t_start tm
  | TTimeout => match t_timeout tm with Some t => t | None => 0 end
  | TSub a b => teval0 tm now a - teval0 tm now b
  | TElapsed => 0
  end.

(** self.elapsed() *)
Definition elapsed_of (tm : timer) (now : Z) : Z :=
  match timer_elapsed with [TReturnExp e] => teval0 tm now e | _ => 0 end.

Fixpoint teval (tm : timer) (now : Z) (e : texp) : Z :=
  match e with
  | TElapsed => elapsed_of tm now
  | TSub a b => teval tm now a - teval tm now b
  | x => teval0 tm now x
  end.

Definition cmp_eval (c : cmp) (a b : Z) : bool :=
  match c with CGt => a >? b | CGe => a >=? b | CLt => a <? b | CLe => a <=? b end.

Inductive tret := RNone | RBool (b : bool) | RNum (z : Z).

Fixpoint texec (arg : option Z) (now : Z) (body : list tstmt) (tm : timer) : timer * tret :=
  match body with
  | [] => (tm, RNone)
  | TSetTimeoutArg :: r => texec arg now r (mkT arg (t_start tm))
  | TSetStart e :: r => texec arg now r (mkT (t_timeout tm) (teval tm now e))
  | TIfTimeoutNoneReturn b :: r => match t_timeout tm with None => (tm, RBool b) | Some _ => texec arg now r tm end
  | TReturnCmp c a b :: _ => (tm, RBool (cmp_eval c (teval tm now a) (teval tm now b)))
  | TReturnExp e :: _ => (tm, RNum (teval tm now e))
  end.

Definition timer_new (timeout : option Z) (now : Z) : timer := fst (texec timeout now timer_init (mkT None 0)).
Definition timer_restarted (tm : timer) (now : Z) : timer := fst (texec None now timer_restart tm).
Definition timer_fired (tm : timer) (now : Z) : bool :=
  match snd (texec None now timer_is_timeout tm) with RBool b => b | _ => false end.

Lemma timer_new_spec : forall t now, timer_new t now = mkT t now.
Proof. reflexivity. Qed.

Lemma timer_restarted_spec : forall tm now, timer_restarted tm now = mkT (t_timeout tm) now.
Proof. reflexivity. Qed.

(** is_timeout(): never when the timeout is None, else iff MORE than the timeout has elapsed *)
Lemma timer_fired_spec : forall tm now,
  timer_fired tm now = match t_timeout tm with None => false | Some t => now - t_start tm >? t end.
Proof. intros [[t | ] st] now; reflexivity. Qed.

Definition tmo_val (t : tmo) (arg : option Z) : option Z :=
  match t with TmoNone => None | TmoSecs n => Some (Z.of_nat n) | TmoArg => arg end.

(** ================================================================== conditions *)
Record benv := mkBenv {
  e_inf : bool;                 (* in_finally *)
  e_qempty : option bool;       (* queue.empty(), when the step looks at the queue *)
  e_timer : option bool;        (* timer.is_timeout(), when the step has a clock reading *)
  e_got : option (option Z);    (* what a queue.get() that has just returned returned *)
  e_event : option Z            (* the variable `event` (None = Python's None) *)
}.

Definition veval (e : benv) (v : vexp) : option (option Z) :=
  match v with VGetEvent => e_got e | VEvent => Some (e_event e) end.

Fixpoint beval (e : benv) (c : bexp) : option bool :=
  match c with
  | BIsNotNone v => match veval e v with Some (Some _) => Some true | Some None => Some false | None => None end
  | BIsNone v => match veval e v with Some (Some _) => Some false | Some None => Some true | None => None end
  | BNot b => match beval e b with Some x => Some (negb x) | None => None end
  | BQueueEmpty => e_qempty e
  | BTimerIsTimeout => e_timer e
  | BInFinally => Some (e_inf e)
  | BConst b => Some b
  end.

(** ================================================================== tasks: continuations *)
Inductive kitem :=
| KS (s : stmt)                   (* a statement still to be executed *)
| KLoop (c : bexp) (b : stmt)     (* at the condition of `while c: b` *)
| KWait (h : hook).               (* the hook has been called; waiting for it to return *)
Notation cont := (list kitem).

Fixpoint break_out (k : cont) : cont :=
  match k with [] => [] | KLoop _ _ :: r => r | _ :: r => break_out r end.

Inductive eff := ESetInFinally (b : bool) | ECreateMonitor.

Definition env_set_inf (b : bool) (e : benv) : benv := mkBenv b (e_qempty e) (e_timer e) (e_got e) (e_event e).

(** run on through statements that cannot block; stops at the first await (or at a condition
    whose value the step does not know).  try/finally: no exception is modelled here (what the
    session does when an await, an assert or the body at the yield RAISES, or the task is cancelled
    at an await -- try/finally with its real meaning -- is Relay/TieExn.v), so here it is body-then-finally. *)
Fixpoint settle (fuel : nat) (e : benv) (k : cont) (acc : list eff) : cont * list eff :=
  match fuel with
  | O => (k, acc)
  | S f =>
    match k with
    | [] => ([], acc)
    | KS SSkip :: r => settle f e r acc
    | KS (SSeq a b) :: r => settle f e (KS a :: KS b :: r) acc
    | KS (STry a b) :: r => settle f e (KS a :: KS b :: r) acc
    | KS (SWhile c b) :: r => settle f e (KLoop c b :: r) acc
    | KLoop c b :: r =>
        match beval e c with
        | Some true => settle f e (KS b :: KLoop c b :: r) acc
        | Some false => settle f e r acc
        | None => (k, acc)
        end
    | KS (SIf c a b) :: r =>
        match beval e c with
        | Some true => settle f e (KS a :: r) acc
        | Some false => settle f e (KS b :: r) acc
        | None => (k, acc)
        end
    | KS SBreak :: r => settle f e (break_out r) acc
    | KS (SSetInFinally v) :: r => settle f (env_set_inf v e) r (acc ++ [ESetInFinally v])
    | KS SAssert :: r => settle f e r acc          (* passes (that it may raise: Relay/TieExn.v) *)
    | KS SYield :: r => settle f e r acc           (* the body of `async with hook.awith.run()` (Callback._run): does not block *)
    | KS (STimerNew _) :: r => settle f e r acc
    | KS STimerRestart :: r => settle f e r acc
    | KS SNewQueueOut :: r => settle f e r acc
    | KS SSetRunningNone :: r => settle f e r acc
    | KS SCreateMonitor :: r => settle f e r (acc ++ [ECreateMonitor])
    | KS SAwaitSleep0 :: r => match e_timer e with Some _ => settle f e r acc | None => (k, acc) end
    | _ => (k, acc)
    end
  end.

Definition FUEL : nat := 40%nat.

(** ================================================================== the programs *)
Fixpoint subst_yield (g body : stmt) : stmt :=
  match g with
  | SYield => body
  | SSeq a b => SSeq (subst_yield a body) (subst_yield b body)
  | STry a b => STry (subst_yield a body) (subst_yield b body)
  | SWhile c b => SWhile c (subst_yield b body)
  | SIf c a b => SIf c (subst_yield a body) (subst_yield b body)
  | x => x
  end.

(** `async with relay_events(..): b` = relay_events with b at its yield; the calls of
    _on_start_run/_on_end_run are inlined; the yield of RunSession.run itself stays: it is where the
    body of `async with self._hook.awith.run(..)` in Callback._run runs (`started.set()`: no await) *)
Fixpoint inline (s : stmt) : stmt :=
  match s with
  | SSeq a b => SSeq (inline a) (inline b)
  | STry a b => STry (inline a) (inline b)
  | SWhile c b => SWhile c (inline b)
  | SIf c a b => SIf c (inline a) (inline b)
  | SWithRelay b => subst_yield relay_prog (inline b)
  | SCallStartRun => on_start_run_prog
  | SCallEndRun => on_end_run_prog
  | x => x
  end.

Definition main_program : stmt := inline session_prog.

Fixpoint timer_of (s : stmt) : option tmo :=
  match s with
  | STimerNew t => Some t
  | SSeq a b | STry a b | SIf _ a b => match timer_of a with Some t => Some t | None => timer_of b end
  | SWhile _ b | SWithRelay b => timer_of b
  | _ => None
  end.

(** the timeout of the Timer of relay_events *)
Definition relay_timeout : option Z :=
  match timer_of relay_prog with Some t => tmo_val t None | None => None end.

(** the clock reading a label stands for: DrainTick = no time has elapsed since the restart,
    Timeout = more than the timeout has; the answer is Timer.is_timeout()'s own *)
Definition clock_reading (fired : bool) (t : option Z) : Z :=
  if fired then match t with Some x => x + 1 | None => 1 end else 0.
Definition relay_timer_says (fired : bool) : bool :=
  timer_fired (timer_restarted (timer_new relay_timeout 0) 0) (clock_reading fired relay_timeout).

(** ================================================================== state *)
Record dat := mkD {
  d_todo : list Z; d_emitted : list Z; d_buf : list Z; d_pipe : list item;
  d_child : cstate; d_wedged : bool; d_delivered : list Z; d_log : list obs
}.

Record ist := mkI {
  dd : dat;
  r_event : option Z;        (* the monitor's variable `event` *)
  r_inf : bool;              (* in_finally *)
  r_started : bool;          (* ahook.on_start_run has been called (for the boot assumption of the model) *)
  k_main : cont;             (* RunSession.run *)
  k_mon : option cont        (* the monitor task: None = not created, Some [] = run to its end *)
}.

Definition set_dd (d : dat) (s : ist) : ist := mkI d (r_event s) (r_inf s) (r_started s) (k_main s) (k_mon s).
Definition set_event (v : option Z) (s : ist) : ist := mkI (dd s) v (r_inf s) (r_started s) (k_main s) (k_mon s).
Definition set_inf (b : bool) (s : ist) : ist := mkI (dd s) (r_event s) b (r_started s) (k_main s) (k_mon s).
Definition set_started (s : ist) : ist := mkI (dd s) (r_event s) (r_inf s) true (k_main s) (k_mon s).
Definition set_main (k : cont) (s : ist) : ist := mkI (dd s) (r_event s) (r_inf s) (r_started s) k (k_mon s).
Definition set_mon (k : option cont) (s : ist) : ist := mkI (dd s) (r_event s) (r_inf s) (r_started s) (k_main s) k.

Definition d_set_pipe (p : list item) (d : dat) : dat :=
  mkD (d_todo d) (d_emitted d) (d_buf d) p (d_child d) (d_wedged d) (d_delivered d) (d_log d).
Definition d_set_child (c : cstate) (d : dat) : dat :=
  mkD (d_todo d) (d_emitted d) (d_buf d) (d_pipe d) c (d_wedged d) (d_delivered d) (d_log d).
Definition d_add_log (o : obs) (d : dat) : dat :=
  mkD (d_todo d) (d_emitted d) (d_buf d) (d_pipe d) (d_child d) (d_wedged d) (d_delivered d) (d_log d ++ [o]).
Definition d_add_delivered (z : Z) (d : dat) : dat :=
  mkD (d_todo d) (d_emitted d) (d_buf d) (d_pipe d) (d_child d) (d_wedged d) (d_delivered d ++ [z]) (d_log d).

Definition env0 (s : ist) : benv := mkBenv (r_inf s) None None None (r_event s).

(** the monitor coroutine, started: runs to its first await *)
Definition mon_start (inf : bool) : cont :=
  fst (settle FUEL (mkBenv inf None None None None) [KS monitor_prog] []).

Fixpoint apply_effs (effs : list eff) (s : ist) : ist :=
  match effs with
  | [] => s
  | ESetInFinally b :: r => apply_effs r (set_inf b s)
  | ECreateMonitor :: r => apply_effs r (set_mon (Some (mon_start (r_inf s))) s)
  end.

Definition resume_main (e : benv) (k : cont) (s : ist) : ist :=
  apply_effs (snd (settle FUEL e k [])) (set_main (fst (settle FUEL e k [])) s).

Definition resume_mon (e : benv) (k : cont) (s : ist) : ist :=
  set_mon (Some (fst (settle FUEL e k []))) s.

(** ================================================================== micro-steps *)
Definition hook_eqb (a b : hook) : bool :=
  match a, b with
  | HOnStartRun, HOnStartRun | HOnEndRun, HOnEndRun | HOnEventInProcess, HOnEventInProcess => true
  | _, _ => false
  end.

(** -- main task *)
Definition mu_spawned (s : ist) : option ist :=
  match k_main s with
  | KS SAwaitSpawn :: r => Some (resume_main (env0 s) r (set_dd (d_set_child CRunning (dd s)) s))
  | _ => None
  end.

Definition mu_call (h : hook) (s : ist) : option ist :=
  match k_main s with
  | KS (SAwaitHook h') :: r =>
      if hook_eqb h h' then
        match h with
        | HOnStartRun => Some (set_main (KWait h :: r) (set_started (set_dd (d_add_log OStartRun (dd s)) s)))
        | HOnEndRun => Some (set_main (KWait h :: r) (set_dd (d_add_log OEndRun (dd s)) s))
        | HOnEventInProcess => None
        end
      else None
  | _ => None
  end.

Definition mu_ret (h : hook) (s : ist) : option ist :=
  match k_main s with
  | KWait h' :: r => if hook_eqb h h' then Some (resume_main (env0 s) r s) else None
  | _ => None
  end.

Definition mu_proc_awaited (s : ist) : option ist :=
  match k_main s with
  | KS SAwaitProcess :: r => if dead (d_child (dd s)) then Some (resume_main (env0 s) r s) else None
  | _ => None
  end.

Definition mu_loop_pass (fired : bool) (s : ist) : option ist :=
  match k_main s with
  | KLoop c b :: r =>
      match beval (mkBenv (r_inf s) (Some (pipe_empty (d_pipe (dd s)))) None None (r_event s)) c with
      | Some false => Some (resume_main (env0 s) r s)
      | Some true =>
          Some (resume_main (mkBenv (r_inf s) None (Some (relay_timer_says fired)) None (r_event s))
                            (KS b :: KLoop c b :: r) s)
      | None => None
      end
  | _ => None
  end.

Definition mu_put_none (s : ist) : option ist :=
  match k_main s with
  | KS SAwaitPutNone :: r =>
      Some (resume_main (env0 s) r
             (set_dd (d_set_pipe (if d_wedged (dd s) then d_pipe (dd s) else d_pipe (dd s) ++ [Sentinel]) (dd s)) s))
  | _ => None
  end.

Definition mu_monitor_awaited (s : ist) : option ist :=
  match k_main s, k_mon s with
  | KS SAwaitMonitor :: r, Some [] => Some (resume_main (env0 s) r s)
  | _, _ => None
  end.

(** -- monitor task *)
Definition oz_of_item (i : item) : option Z := match i with Ev z => Some z | Sentinel => None end.
Definition is_ev (i : item) : bool := match i with Ev _ => true | Sentinel => false end.

Definition mu_get (want_event : bool) (s : ist) : option ist :=
  match k_mon s, d_pipe (dd s) with
  | Some k, it :: p =>
      if Bool.eqb want_event (is_ev it) then
        let v := oz_of_item it in
        let s1 := set_event v (set_dd (d_set_pipe p (dd s)) s) in
        let e_at := mkBenv (r_inf s) None None (Some v) v in     (* while the condition holding the get is evaluated *)
        let e_on := mkBenv (r_inf s) None None None v in
        match k with
        | KLoop c b :: r =>
            match beval e_on c, beval e_at c with
            | None, Some true => Some (resume_mon e_on (KS b :: KLoop c b :: r) s1)
            | None, Some false => Some (resume_mon e_on r s1)
            | _, _ => None
            end
        | KS (SAssignEvent VGetEvent) :: r => Some (resume_mon e_on r s1)
        | _ => None
        end
      else None
  | _, _ => None
  end.

Definition mu_mon_call (s : ist) : option ist :=
  match k_mon s, r_event s with
  | Some (KS (SAwaitHook HOnEventInProcess) :: r), Some z =>
      Some (set_mon (Some (KWait HOnEventInProcess :: r))
             (set_dd (d_add_log (ODeliver z) (d_add_delivered z (dd s))) s))
  | _, _ => None
  end.

Definition mu_mon_ret (s : ist) : option ist :=
  match k_mon s, r_event s with
  | Some (KWait HOnEventInProcess :: r), Some z =>
      Some (resume_mon (env0 s) r (set_dd (d_add_log (ODone z) (dd s)) s))
  | _, _ => None
  end.

(** -- the child: spawned.main.  The script runs inside CRunScript (each event is a put on
    _queue_out = [Emit]); main returns after its statements; the process then exits, and
    multiprocessing joins the feeder thread of the queue (buffer written out) unless
    cancel_join_thread() was called somewhere.  wait_until_queue_empty is passed without a
    condition here, as in the model, which does not rely on it ([wait_returns_iff_seen_empty]
    below says what it does). *)
Fixpoint child_emits (p : list cstmt) : bool :=
  match p with
  | [] => false
  | CRunScript :: _ => true
  | CReturn :: _ => false
  | _ :: r => child_emits r
  end.

Fixpoint child_exit_ready (p : list cstmt) (script_done : bool) : bool :=
  match p with
  | [] => true
  | CRunScript :: r => script_done && child_exit_ready r script_done
  | CAssert :: r => child_exit_ready r script_done
  | CWaitQueueEmpty _ :: r => child_exit_ready r script_done
  | CReturn :: _ => true
  end.

Definition child_exit_joins_feeder : bool := Nat.eqb child_cancel_join_thread_calls 0.

Definition is_nil {A} (l : list A) : bool := match l with [] => true | _ => false end.

Definition i_emit (boot : bool) (s : ist) : ist :=
  let d := dd s in
  match d_child d, d_todo d with
  | CRunning, z :: r =>
      if child_emits child_main_prog then
        if boot && negb (r_started s) then s
        else set_dd (mkD r (d_emitted d ++ [z]) (d_buf d ++ [z]) (d_pipe d) (d_child d) (d_wedged d) (d_delivered d) (d_log d)) s
      else s
  | _, _ => s
  end.

Definition i_flush (s : ist) : ist :=
  let d := dd s in
  match d_child d, d_buf d with
  | CRunning, z :: r =>
      set_dd (mkD (d_todo d) (d_emitted d) r (d_pipe d ++ [Ev z]) (d_child d) (d_wedged d) (d_delivered d) (d_log d)) s
  | _, _ => s
  end.

Definition i_child_exit (s : ist) : ist :=
  let d := dd s in
  match d_child d with
  | CRunning =>
      if child_exit_ready child_main_prog (is_nil (d_todo d)) && (negb child_exit_joins_feeder || is_nil (d_buf d))
      then set_dd (d_set_child CExited d) s else s
  | _ => s
  end.

Definition i_kill (mid_write : bool) (s : ist) : ist :=
  let d := dd s in
  match d_child d with
  | CRunning =>
      set_dd (mkD (d_todo d) (d_emitted d) [] (d_pipe d) CKilled (if mid_write then true else d_wedged d) (d_delivered d) (d_log d)) s
  | _ => s
  end.

(** ================================================================== labels *)
Definition seq2 (f g : ist -> option ist) (s : ist) : option ist :=
  match f s with Some s1 => g s1 | None => None end.
Definition orelse (o : option ist) (s : ist) : ist := match o with Some x => x | None => s end.

Definition istep (boot : bool) (s : ist) (l : label) : ist :=
  match l with
  | StartProc => orelse (mu_spawned s) s
  | StartRun => orelse (seq2 (mu_call HOnStartRun) (mu_ret HOnStartRun) s) s
  | Emit => i_emit boot s
  | Flush => i_flush s
  | ChildExit => i_child_exit s
  | Kill => i_kill false s
  | KillMidWrite => i_kill true s
  | ProcExitSeen => orelse (mu_proc_awaited s) s
  | DrainTick => orelse (mu_loop_pass false s) s
  | Timeout => orelse (mu_loop_pass true s) s
  | PutSentinel => orelse (mu_put_none s) s
  | MonTake => orelse (seq2 (mu_get true) mu_mon_call s) s
  | MonDeliver => orelse (mu_mon_ret s) s
  | MonSeesSentinel => orelse (mu_get false s) s
  | EndRun => orelse (seq2 mu_monitor_awaited (mu_call HOnEndRun) s) s
  end.

(** RunSession.run is entered: it runs on to its first await (creating the monitor on the way) *)
Definition iinit (script : list Z) : ist :=
  resume_main (mkBenv false None None None None) [KS main_program]
    (mkI (mkD script [] [] [] CNotStarted false [] []) None false false [] None).

Definition irun_from (boot : bool) (s : ist) (ls : list label) : ist := fold_left (istep boot) ls s.
Definition irun (boot : bool) (script : list Z) (ls : list label) : ist := irun_from boot (iinit script) ls.

(** ================================================================== control points *)
(** The continuation of the main task at each [pc] of the model and of the monitor at each
    [mstate], COMPUTED by running the interpreter along one canonical schedule. *)
Definition path_drain : list label := [StartProc; StartRun; ChildExit; ProcExitSeen].

Definition K_init := Eval vm_compute in k_main (irun false [] []).
Definition K_started := Eval vm_compute in k_main (irun false [] [StartProc]).
Definition K_body := Eval vm_compute in k_main (irun false [] [StartProc; StartRun]).
Definition K_drain := Eval vm_compute in k_main (irun false [] path_drain).
Definition K_sentinel := Eval vm_compute in k_main (irun false [] (path_drain ++ [DrainTick])).
Definition K_awaitmon := Eval vm_compute in k_main (irun false [] (path_drain ++ [DrainTick; PutSentinel])).
Definition K_endrun := Eval vm_compute in k_main (irun false [] (path_drain ++ [DrainTick; PutSentinel; MonSeesSentinel; EndRun])).

Definition K (p : pc) : cont :=
  match p with
  | PInit => K_init | PStarted => K_started | PBody => K_body | PDrain => K_drain
  | PSentinel => K_sentinel | PAwaitMon => K_awaitmon | PEndRun => K_endrun
  end.

Definition KM_idle := Eval vm_compute in k_mon (irun false [] []).
Definition KM_busy := Eval vm_compute in k_mon (irun false [0] [StartProc; StartRun; Emit; Flush; MonTake]).
Definition KM_done := Eval vm_compute in k_mon (irun false [] (path_drain ++ [DrainTick; PutSentinel; MonSeesSentinel])).

Definition KM (m : mstate) : option cont :=
  match m with MIdle => KM_idle | MBusy _ => KM_busy | MDone => KM_done end.

(** ================================================================== the simulation *)
Definition R (s : ist) (m : st) : Prop :=
  d_todo (dd s) = todo m /\ d_emitted (dd s) = emitted m /\ d_buf (dd s) = buf m /\ d_pipe (dd s) = pipe m /\
  d_child (dd s) = child m /\ d_wedged (dd s) = wedged m /\ d_delivered (dd s) = delivered m /\ d_log (dd s) = log m /\
  k_main s = K (main m) /\ k_mon s = KM (mon m) /\
  r_started s = negb (before_start_run (main m)) /\
  match mon m with MBusy z => r_event s = Some z | _ => True end.

Lemma R_init : forall script, R (iinit script) (init script).
Proof. intros script. vm_compute. repeat split; reflexivity. Qed.

Ltac stuck :=
  match goal with
  | |- context [match ?x with _ => _ end] => is_var x; destruct x
  end.

Ltac fin := repeat split; try reflexivity; try assumption; try exact I.

Lemma step_sim : forall boot s m l, R s m -> R (istep boot s l) (step boot m l).
Proof.
  intros boot [[td em bf pp ch wd dl lg] ev inf sr km kn] [td' em' bf' pp' ch' wd' mn dl' mp lg'] l HR.
  unfold R in HR; simpl in HR.
  destruct HR as (? & ? & ? & ? & ? & ? & ? & ? & Hk & Hn & Hs & He). subst.
  destruct l; destruct mp; destruct mn; simpl in He; try subst ev;
    unfold R; vm_compute; repeat (stuck; vm_compute); fin.
Qed.

(** THE TIE: for every list of labels, the interpreter of the regenerated code and the model
    are in lock step (induction over the label list; [step_sim] is the one-label case, checked
    for every control point, every label and every shape of the data by computation on the
    regenerated trees). *)
Theorem sim : forall boot script ls, R (irun boot script ls) (run boot script ls).
Proof.
  intros boot script ls. unfold irun, run, irun_from, run_from.
  generalize (R_init script). generalize (iinit script) (init script).
  induction ls as [ | l ls IH]; intros s m H; simpl; auto.
  apply IH. apply step_sim. exact H.
Qed.

Corollary tie_same_histories : forall boot script ls,
  let s := irun boot script ls in
  let m := run boot script ls in
  d_log (dd s) = log m /\ d_delivered (dd s) = delivered m /\ d_emitted (dd s) = emitted m /\
  d_pipe (dd s) = pipe m /\ d_child (dd s) = child m /\ k_main s = K (main m) /\ k_mon s = KM (mon m).
Proof.
  intros boot script ls s m. destruct (sim boot script ls) as (_ & He & _ & Hp & Hc & _ & Hd & Hl & Hk & Hn & _).
  fold s in He, Hp, Hc, Hd, Hl, Hk, Hn. fold m in He, Hp, Hc, Hd, Hl, Hk, Hn. repeat split; assumption.
Qed.

(** ---- a fact about the model that Relay/Proofs.v does not state: on_end_run is in the log only
    once the main task is past it *)
Definition endrun_inv (s : st) : Prop := In OEndRun (log s) -> main s = PEndRun.

Lemma step_endrun_inv : forall boot s l, endrun_inv s -> endrun_inv (step boot s l).
Proof.
  intros boot [td em bf pp ch wd mn dl mp lg] l H. unfold endrun_inv in *. simpl in H.
  destruct l; destruct mp; unfold step, pipe_empty, before_start_run, andb; simpl; try exact H;
    repeat (stuck; simpl; try exact H);
    intros Hin; try reflexivity;
    try (apply in_app_or in Hin; destruct Hin as [Hin | [Hin | []]]; try discriminate Hin);
    try (specialize (H Hin); discriminate H); try exact (H Hin).
Qed.

Lemma run_endrun_inv : forall boot script ls, endrun_inv (run boot script ls).
Proof.
  intros boot script ls. unfold run, run_from.
  assert (H0 : endrun_inv (init script)) by (intros []).
  revert H0. generalize (init script).
  induction ls as [ | l ls IH]; intros s H; simpl; auto. apply IH. apply step_endrun_inv. exact H.
Qed.

(** ---- the theorems of Relay/Proofs.v, about the regenerated code *)

(** normal exit: when the regenerated code has called on_end_run, the hooks have been called for
    exactly the script's events, in order, each once *)
Theorem tie_complete_in_order : forall boot script ls,
  let s := irun boot script ls in
  In OEndRun (d_log (dd s)) -> d_child (dd s) = CExited ->
  d_delivered (dd s) = script /\ d_emitted (dd s) = script /\ deliveries (d_log (dd s)) = script.
Proof.
  intros boot script ls s Hin Hc.
  destruct (tie_same_histories boot script ls) as (Hl & Hd & He & _ & Hch & _). fold s in Hl, Hd, He, Hch.
  rewrite Hl in *. rewrite Hd, He. rewrite Hch in Hc.
  apply complete_in_order; auto. apply run_endrun_inv. exact Hin.
Qed.

(** at every moment, whatever the kill point: delivered is a prefix of emitted, a prefix of the script *)
Theorem tie_prefix_on_kill : forall boot script ls,
  let s := irun boot script ls in
  (exists rest, d_emitted (dd s) = d_delivered (dd s) ++ rest) /\ (exists rest, script = d_emitted (dd s) ++ rest) /\
  deliveries (d_log (dd s)) = d_delivered (dd s).
Proof.
  intros boot script ls s.
  destruct (tie_same_histories boot script ls) as (Hl & Hd & He & _). fold s in Hl, Hd, He.
  rewrite Hl, Hd, He. apply prefix_always.
Qed.

(** every delivery lies between the on_start_run call and the on_end_run call (boot assumption) *)
Theorem tie_bracketed : forall script ls, bracketed (d_log (dd (irun true script ls))) = true.
Proof.
  intros script ls. destruct (tie_same_histories true script ls) as (Hl & _). rewrite Hl. apply bracketed_always.
Qed.

(** and none after: once on_end_run has been called the log of the plugin never changes again *)
Theorem tie_nothing_after_end : forall boot script ls l,
  In OEndRun (d_log (dd (irun boot script ls))) ->
  d_log (dd (irun boot script (ls ++ [l]))) = d_log (dd (irun boot script ls)).
Proof.
  intros boot script ls l Hin.
  destruct (tie_same_histories boot script ls) as (Hl & _).
  destruct (tie_same_histories boot script (ls ++ [l])) as (Hl' & _).
  rewrite Hl in *. rewrite Hl'. apply nothing_after_end. apply run_endrun_inv. exact Hin.
Qed.

(** ---- direct corollaries on the regenerated code *)

(** (1) no second `queue.get` before the hooks of the previous event returned:
    calls and completions of on_event_in_process alternate in every run, *)
Theorem tie_one_event_at_a_time : forall boot script ls,
  alternating None (d_log (dd (irun boot script ls))) = true.
Proof.
  intros boot script ls. destruct (tie_same_histories boot script ls) as (Hl & _). rewrite Hl. apply hooks_never_overlap.
Qed.

(** ... because while a hook call is pending the monitor is not at a `get`: neither MonTake
    nor MonSeesSentinel can take anything from the pipe *)
Lemma get_blocked_while_hook_pending : forall s want, k_mon s = KM_busy -> mu_get want s = None.
Proof.
  intros [d ev inf sr km kn] want H. simpl in H. subst kn. unfold mu_get. simpl.
  destruct (d_pipe d) as [ | it p]; [reflexivity | ]. destruct (Bool.eqb want (is_ev it)); reflexivity.
Qed.

Theorem tie_no_get_before_hook_returned : forall boot script ls z l,
  mon (run boot script ls) = MBusy z -> (l = MonTake \/ l = MonSeesSentinel) ->
  istep boot (irun boot script ls) l = irun boot script ls.
Proof.
  intros boot script ls z l Hm Hl.
  destruct (tie_same_histories boot script ls) as (_ & _ & _ & _ & _ & _ & Hn). rewrite Hm in Hn. simpl in Hn.
  destruct Hl; subst l; unfold istep, seq2; rewrite (get_blocked_while_hook_pending _ _ Hn); reflexivity.
Qed.

(** (2) `_on_end_run` only after `await task`: when on_end_run has been called the monitor
    coroutine has run to its end (which is what `await task` waits for), and the main task is
    past every other statement *)
Theorem tie_end_run_after_await_task : forall boot script ls,
  let s := irun boot script ls in
  In OEndRun (d_log (dd s)) -> k_mon s = Some [] /\ k_main s = K_endrun.
Proof.
  intros boot script ls s Hin.
  destruct (tie_same_histories boot script ls) as (Hl & _ & _ & _ & _ & Hk & Hn). fold s in Hl, Hk, Hn.
  rewrite Hl in Hin. apply run_endrun_inv in Hin.
  pose proof (run_inv boot script ls) as I. destruct I as [_ _ _ _ _ _ _ Hend _ _].
  rewrite (Hend Hin) in Hn. rewrite Hin in Hk. split; assumption.
Qed.

(** (3) the sentinel is put only after the child was awaited: whenever the sentinel is in the pipe
    the child is dead (exited or killed), it is the last item of the pipe (every event the child
    wrote is in front of it), and the main task is at `await task` *)
Theorem tie_sentinel_after_child_awaited : forall boot script ls,
  let s := irun boot script ls in
  nosent (d_pipe (dd s)) = false ->
  dead (d_child (dd s)) = true /\ sent_last (d_pipe (dd s)) = true /\ k_main s = K_awaitmon.
Proof.
  intros boot script ls s Hns.
  destruct (tie_same_histories boot script ls) as (_ & _ & _ & Hp & Hc & Hk & _). fold s in Hp, Hc, Hk.
  rewrite Hp in *. rewrite Hc.
  pose proof (run_inv boot script ls) as I. destruct I as [_ _ _ Hlate _ _ Hpipe _ _ _].
  rewrite Hns in Hpipe. destruct Hpipe as (Hsl & Hm & _).
  rewrite Hm in Hk. repeat split; auto. apply Hlate. rewrite Hm. reflexivity.
Qed.

(** the control points are pairwise different (so [k_main s = K p] identifies [p]) *)
Lemma K_inj : forall p q, K p = K q -> p = q.
Proof. intros p q; destruct p; destruct q; intros H; try reflexivity; discriminate H. Qed.

(** ---- the labels of the drain loop and Timer.is_timeout() *)
Lemma drain_labels_meaning : relay_timer_says false = false /\ relay_timer_says true = true.
Proof. split; reflexivity. Qed.

(** ================================================================== the child's wait *)
Inductive wres := WReturned | WRaised | WWaiting | WStuck.

(** a loop-free statement: Some true = raised, Some false = completed *)
Fixpoint bexec (e : benv) (s : stmt) : option bool :=
  match s with
  | SSkip | SSleepInterval | STimerRestart => Some false
  | SRaise => Some true
  | SSeq a b => match bexec e a with Some false => bexec e b | x => x end
  | SIf c a b => match beval e c with Some true => bexec e a | Some false => bexec e b | None => None end
  | _ => None
  end.

(** one observation (queue.empty(), clock) per evaluation of the loop condition *)
Fixpoint wloop (tm : timer) (c : bexp) (b : stmt) (obs : list (bool * Z)) : wres :=
  match obs with
  | [] => WWaiting
  | (o, now) :: r =>
      let e := mkBenv false (Some o) (Some (timer_fired tm now)) None None in
      match beval e c with
      | Some false => WReturned
      | Some true =>
          match bexec e b with
          | Some false => wloop tm c b r
          | Some true => WRaised
          | None => WStuck
          end
      | None => WStuck
      end
  end.

Definition wait_exec (arg : option Z) (t0 : Z) (obs : list (bool * Z)) : wres :=
  match wait_until_queue_empty_prog with
  | SSeq (STimerNew t) (SWhile c b) => wloop (timer_new (tmo_val t arg) t0) c b obs
  | _ => WStuck
  end.

Fixpoint wait_spec (obs : list (bool * Z)) : wres :=
  match obs with [] => WWaiting | (true, _) :: _ => WReturned | (false, _) :: r => wait_spec r end.

(** without a timeout, wait_until_queue_empty returns exactly at the first moment it sees the
    queue empty and never raises *)
Lemma wait_returns_iff_seen_empty : forall t0 obs, wait_exec None t0 obs = wait_spec obs.
Proof.
  intros t0 obs. unfold wait_exec. cbv beta iota delta [wait_until_queue_empty_prog tmo_val].
  rewrite timer_new_spec.
  induction obs as [ | [[ | ] now] r IH]; simpl; auto.
Qed.

Fixpoint child_wait_tmos (p : list cstmt) : list tmo :=
  match p with [] => [] | CWaitQueueEmpty t :: r => t :: child_wait_tmos r | _ :: r => child_wait_tmos r end.

(** spawned.main calls it without a timeout *)
Lemma child_waits_without_timeout : forallb (fun t => match tmo_val t None with None => true | Some _ => false end)
                                            (child_wait_tmos child_main_prog) = true.
Proof. reflexivity. Qed.

(** put/flush order in spawned.main: the script (all the puts), THEN wait_until_queue_empty on the
    same queue, THEN return; nothing returns earlier *)
Fixpoint child_order (st : nat) (p : list cstmt) : bool :=
  match p with
  | [] => false
  | CRunScript :: r => match st with O => child_order 1 r | _ => false end
  | CWaitQueueEmpty _ :: r => match st with 1%nat => child_order 2 r | _ => false end
  | CReturn :: _ => match st with 2%nat => true | _ => false end
  | CAssert :: r => child_order st r
  end.

Lemma child_flush_order : child_order 0 child_main_prog = true.
Proof. reflexivity. Qed.

(** at exit multiprocessing joins the feeder thread of the queue: nothing cancels that *)
Lemma child_exit_flushes : child_exit_joins_feeder = true.
Proof. reflexivity. Qed.

(** the queue the main process relays from is the one the child's main puts on *)
Lemma queue_wiring : set_queues_out_pos = session_out_pos.
Proof. reflexivity. Qed.

(** non-vacuity: the interpreter of the regenerated code runs the example schedule of Props/C10.v
    to the end, delivering everything *)
Example tie_example :
  let ls := [StartProc; StartRun; Emit; Emit; Flush; MonTake; Emit; Flush; Flush; ChildExit; ProcExitSeen;
             DrainTick; Timeout; PutSentinel; MonSeesSentinel; MonDeliver; MonTake; MonDeliver; MonTake;
             EndRun; MonDeliver; MonSeesSentinel; EndRun; MonTake] in
  let s := irun true [1; 2; 3] ls in
  d_log (dd s) = [OStartRun; ODeliver 1; ODone 1; ODeliver 2; ODone 2; ODeliver 3; ODone 3; OEndRun] /\
  k_main s = K_endrun /\ k_mon s = Some [] /\ d_child (dd s) = CExited.
Proof. vm_compute. repeat split; reflexivity. Qed.
