(** try/finally WITH ITS REAL MEANING on the regenerated code of the relay: what RunSession.run
    (with relay_events, _on_start_run, _on_end_run inlined: [main_program] of Relay/Tie.v) does when
    an await RAISES or the task is CANCELLED at an await.

    [xrun s r t]: big-step semantics of a statement tree.  Every await (run_in_process, a hook,
    the process, sleep(0), the sentinel put, `await task`), every assert and the yield of
    RunSession.run (where the body of Callback._run's `async with` runs: an exception of that body
    is thrown in there) either completes or RAISES; "raises" stands for an exception of the awaited
    thing AND for asyncio.CancelledError delivered at that await (the trees have no `except`
    clause -- the translator refuses handlers -- so both propagate the same way).
    `try: a finally: b` runs b after a WHATEVER a did and re-raises a's exception unless b raises
    itself; loops iterate any number of times (conditions are not interpreted: every branch, every
    number of iterations).  The trace records which await was reached and whether it returned.

    [outcomes s] is the finite list of all (result, trace) a tree can produce (a loop whose body is
    silent when it completes -- the drain loop: only sleep(0) -- contributes "left normally" or
    "an await of the body raised"); [xrun_in_outcomes] proves that every derivation of [xrun] is in
    it, so a property checked on [outcomes main_program] holds for EVERY execution, raise and
    cancellation point.

    NOT covered: exceptions inside the monitor task are seen only as "`await task` raises" (the
    monitor itself has no raising semantics here: a hook that raises kills it and, the sentinel
    never being read, `await task` re-raises after the put); GeneratorExit/aclose of the context
    manager; an exception between the statements of a `finally` that is not an await or assert. *)
From NL Require Import Relay.Model Relay.Syntax Gen.RelaySkel Relay.Tie.
Open Scope Z_scope.

Inductive leaf :=
| LAssert | LSpawn | LHook (h : hook) | LBody | LProc | LSleep | LPut | LMon    (* may raise *)
| LCreate | LInFinally.                                                      (* markers: cannot raise *)

Inductive xres := XNormal | XRaise | XBreak.
Notation xtrace := (list (leaf * bool)).      (* (what, returned?) *)

Inductive skind :=
| KSilent                          (* no effect here, cannot raise *)
| KAtom (l : leaf) (quiet : bool)  (* an await/assert: returns (recorded unless quiet) or raises *)
| KMark (l : leaf)                 (* recorded, cannot raise *)
| KRaises | KBreaks | KCompound | KForeign.

Definition kind (s : stmt) : skind :=
  match s with
  | SSkip | STimerNew _ | STimerRestart | SNewQueueOut | SSetRunningNone | SSetInFinally false => KSilent
  | SAssert => KAtom LAssert true
  | SAwaitSpawn => KAtom LSpawn false
  | SAwaitHook h => KAtom (LHook h) false
  | SYield => KAtom LBody false
  | SAwaitProcess => KAtom LProc false
  | SAwaitSleep0 => KAtom LSleep true
  | SAwaitPutNone => KAtom LPut false
  | SAwaitMonitor => KAtom LMon false
  | SCreateMonitor => KMark LCreate
  | SSetInFinally true => KMark LInFinally
  | SRaise => KRaises
  | SBreak => KBreaks
  | SSeq _ _ | STry _ _ | SIf _ _ _ | SWhile _ _ => KCompound
  | _ => KForeign                  (* SWithRelay, SCall*, SAssignEvent, SSleepInterval: not in an inlined main program *)
  end.

(** the exception that leaves `try: a finally: b` *)
Definition after_finally (ra rb : xres) : xres := match rb with XNormal => ra | _ => rb end.

Inductive xrun : stmt -> xres -> xtrace -> Prop :=
| X_silent : forall s, kind s = KSilent -> xrun s XNormal []
| X_mark : forall s l, kind s = KMark l -> xrun s XNormal [(l, true)]
| X_ret : forall s l q, kind s = KAtom l q -> xrun s XNormal (if q then [] else [(l, true)])
| X_raise : forall s l q, kind s = KAtom l q -> xrun s XRaise [(l, false)]      (* it raises / the task is cancelled here *)
| X_raises : xrun SRaise XRaise []
| X_break : xrun SBreak XBreak []
| X_seq : forall a b t1 r t2, xrun a XNormal t1 -> xrun b r t2 -> xrun (SSeq a b) r (t1 ++ t2)
| X_seq_stop : forall a b r t1, r <> XNormal -> xrun a r t1 -> xrun (SSeq a b) r t1
| X_try : forall a b ra ta rb tb, xrun a ra ta -> xrun b rb tb -> xrun (STry a b) (after_finally ra rb) (ta ++ tb)
| X_if_t : forall c a b r t, xrun a r t -> xrun (SIf c a b) r t
| X_if_f : forall c a b r t, xrun b r t -> xrun (SIf c a b) r t
| X_while_exit : forall c b, xrun (SWhile c b) XNormal []
| X_while_iter : forall c b t1 r t2, xrun b XNormal t1 -> xrun (SWhile c b) r t2 -> xrun (SWhile c b) r (t1 ++ t2)
| X_while_break : forall c b t1, xrun b XBreak t1 -> xrun (SWhile c b) XNormal t1
| X_while_raise : forall c b t1, xrun b XRaise t1 -> xrun (SWhile c b) XRaise t1.

Definition is_normal (r : xres) : bool := match r with XNormal => true | _ => false end.

Fixpoint outcomes (s : stmt) : list (xres * xtrace) :=
  match s with
  | SSeq a b =>
      flat_map (fun x : xres * xtrace =>
                  if is_normal (fst x) then map (fun y : xres * xtrace => (fst y, snd x ++ snd y)) (outcomes b) else [x])
               (outcomes a)
  | STry a b =>
      flat_map (fun x : xres * xtrace => map (fun y : xres * xtrace => (after_finally (fst x) (fst y), snd x ++ snd y)) (outcomes b))
               (outcomes a)
  | SIf _ a b => outcomes a ++ outcomes b
  | SWhile _ b =>
      (XNormal, []) ::
      flat_map (fun x : xres * xtrace =>
                  match fst x with XNormal => [] | XBreak => [(XNormal, snd x)] | XRaise => [x] end)
               (outcomes b)
  | s =>
      match kind s with
      | KSilent => [(XNormal, [])]
      | KMark l => [(XNormal, [(l, true)])]
      | KAtom l q => [(XNormal, if q then [] else [(l, true)]); (XRaise, [(l, false)])]
      | KRaises => [(XRaise, [])]
      | KBreaks => [(XBreak, [])]
      | _ => []
      end
  end.

(** side conditions under which [outcomes] is complete: every loop body is silent when it
    completes, and nothing foreign occurs *)
Fixpoint loops_silent (s : stmt) : bool :=
  match s with
  | SSeq a b | STry a b | SIf _ a b => loops_silent a && loops_silent b
  | SWhile _ b => loops_silent b && forallb (fun x : xres * xtrace => negb (is_normal (fst x)) || is_nil (snd x)) (outcomes b)
  | s => match kind s with KForeign => false | _ => true end
  end.

Lemma outcomes_leaf : forall s, kind s <> KCompound ->
  outcomes s = match kind s with
               | KSilent => [(XNormal, [])]
               | KMark l => [(XNormal, [(l, true)])]
               | KAtom l q => [(XNormal, if q then [] else [(l, true)]); (XRaise, [(l, false)])]
               | KRaises => [(XRaise, [])]
               | KBreaks => [(XBreak, [])]
               | _ => []
               end.
Proof. intros s C. destruct s; simpl in *; try reflexivity; exfalso; apply C; reflexivity. Qed.

Lemma xrun_in_outcomes : forall s r t, xrun s r t -> loops_silent s = true -> In (r, t) (outcomes s).
Proof.
  induction 1; intros LS.
  - rewrite outcomes_leaf by (rewrite H; discriminate). rewrite H. simpl. auto.
  - rewrite outcomes_leaf by (rewrite H; discriminate). rewrite H. simpl. auto.
  - rewrite outcomes_leaf by (rewrite H; discriminate). rewrite H. simpl. auto.
  - rewrite outcomes_leaf by (rewrite H; discriminate). rewrite H. simpl. auto.
  - simpl. auto.
  - simpl. auto.
  - simpl in LS. apply andb_prop in LS. destruct LS as [La Lb].
    simpl. apply in_flat_map. exists (XNormal, t1). split; [apply IHxrun1; exact La | ].
    simpl. apply in_map_iff. exists (r, t2). split; [reflexivity | apply IHxrun2; exact Lb].
  - simpl in LS. apply andb_prop in LS. destruct LS as [La Lb].
    simpl. apply in_flat_map. exists (r, t1). split; [apply IHxrun; exact La | ].
    destruct r; simpl; auto. contradiction.
  - simpl in LS. apply andb_prop in LS. destruct LS as [La Lb].
    simpl. apply in_flat_map. exists (ra, ta). split; [apply IHxrun1; exact La | ].
    apply in_map_iff. exists (rb, tb). split; [reflexivity | apply IHxrun2; exact Lb].
  - simpl in LS. apply andb_prop in LS. destruct LS as [La Lb]. simpl. apply in_or_app. left. apply IHxrun. exact La.
  - simpl in LS. apply andb_prop in LS. destruct LS as [La Lb]. simpl. apply in_or_app. right. apply IHxrun. exact Lb.
  - simpl. auto.
  - (* one more iteration: its trace is empty *)
    pose proof LS as LS'. simpl in LS'. apply andb_prop in LS'. destruct LS' as [Lb Lq].
    specialize (IHxrun1 Lb). specialize (IHxrun2 LS).
    rewrite forallb_forall in Lq. specialize (Lq _ IHxrun1). simpl in Lq.
    destruct t1; [exact IHxrun2 | discriminate Lq].
  - pose proof LS as LS'. simpl in LS'. apply andb_prop in LS'. destruct LS' as [Lb _].
    simpl. right. apply in_flat_map. exists (XBreak, t1). split; [apply IHxrun; exact Lb | simpl; auto].
  - pose proof LS as LS'. simpl in LS'. apply andb_prop in LS'. destruct LS' as [Lb _].
    simpl. right. apply in_flat_map. exists (XRaise, t1). split; [apply IHxrun; exact Lb | simpl; auto].
Qed.

(** ---- reading a trace *)
Definition hook_eq (a b : hook) : bool := hook_eqb a b.
Definition leaf_eqb (a b : leaf) : bool :=
  match a, b with
  | LAssert, LAssert | LSpawn, LSpawn | LBody, LBody | LProc, LProc | LSleep, LSleep | LPut, LPut | LMon, LMon
  | LCreate, LCreate | LInFinally, LInFinally => true
  | LHook x, LHook y => hook_eq x y
  | _, _ => false
  end.

Definition reached (l : leaf) (t : xtrace) : bool := existsb (fun e : leaf * bool => leaf_eqb l (fst e)) t.
Definition returned (l : leaf) (t : xtrace) : bool := existsb (fun e : leaf * bool => leaf_eqb l (fst e) && snd e) t.
Definition failed (l : leaf) (t : xtrace) : bool := existsb (fun e : leaf * bool => leaf_eqb l (fst e) && negb (snd e)) t.

Fixpoint upto (l : leaf) (t : xtrace) : xtrace :=
  match t with [] => [] | e :: r => if leaf_eqb l (fst e) then [] else e :: upto l r end.
Fixpoint from (l : leaf) (t : xtrace) : xtrace :=
  match t with [] => [] | e :: r => if leaf_eqb l (fst e) then r else from l r end.

Definition implb' (a b : bool) : bool := negb a || b.

(** (F1) the `finally` of relay_events is reached from EVERY await of the protected body: once the
    monitor task exists, `in_finally = True` is executed whatever raised or was cancelled after it *)
Definition finally_reached (t : xtrace) : bool := implb' (reached LCreate t) (reached LInFinally t).

(** (F2) and the monitor is shut down: after `in_finally = True` the sentinel put is reached unless
    sleep(0) of the drain loop raised; `await task` is reached iff the put returned *)
Definition monitor_shut_down (t : xtrace) : bool :=
  implb' (reached LInFinally t) (reached LPut (from LInFinally t) || failed LSleep (from LInFinally t))
  && Bool.eqb (reached LMon t) (returned LPut t).

(** (F3) the `finally` of RunSession.run: a spawned process whose on_start_run returned is awaited
    whatever the body at the yield did *)
Definition process_awaited (t : xtrace) : bool :=
  implb' (returned LSpawn t && returned (LHook HOnStartRun) t) (reached LProc t).

(** (F4) on_end_run is called only if NOTHING raised before, in particular `await task` returned;
    and only after on_start_run *)
Definition end_run_guarded (t : xtrace) : bool :=
  implb' (reached (LHook HOnEndRun) t)
         (forallb (fun e : leaf * bool => snd e) (upto (LHook HOnEndRun) t) && returned LMon (upto (LHook HOnEndRun) t)
          && returned (LHook HOnStartRun) (upto (LHook HOnEndRun) t) && returned LProc (upto (LHook HOnEndRun) t)).

(** (F5) the order of the protocol on every path: create < spawn < on_start_run < in_finally < put < await task *)
Definition in_order (t : xtrace) : bool :=
  implb' (reached LSpawn t) (reached LCreate (upto LSpawn t))
  && implb' (reached (LHook HOnStartRun) t) (returned LSpawn (upto (LHook HOnStartRun) t))
  && implb' (reached LProc t) (returned (LHook HOnStartRun) (upto LProc t))
  && implb' (reached LPut t) (reached LInFinally (upto LPut t))
  && implb' (reached LMon t) (returned LPut (upto LMon t)).

Definition xsafe (t : xtrace) : bool :=
  finally_reached t && monitor_shut_down t && process_awaited t && end_run_guarded t && in_order t.

Lemma main_program_closed : loops_silent main_program = true.
Proof. vm_compute. reflexivity. Qed.

Lemma all_outcomes_safe : forallb (fun x : xres * xtrace => xsafe (snd x)) (outcomes main_program) = true.
Proof. vm_compute. reflexivity. Qed.

(** for EVERY execution of the regenerated RunSession.run, every await that raises, every
    cancellation point *)
Theorem finally_semantics : forall r t, xrun main_program r t -> xsafe t = true.
Proof.
  intros r t H. apply xrun_in_outcomes in H; [ | exact main_program_closed].
  pose proof all_outcomes_safe as A. rewrite forallb_forall in A. exact (A _ H).
Qed.

(** non-vacuity: the path on which nothing raises exists, ends normally and is the protocol *)
Example xrun_normal_path :
  In (XNormal, [(LCreate, true); (LSpawn, true); (LHook HOnStartRun, true); (LBody, true); (LProc, true); (LInFinally, true);
                (LPut, true); (LMon, true); (LHook HOnEndRun, true)]) (outcomes main_program)
  /\ (3 <=? length (filter (fun x : xres * xtrace => negb (is_normal (fst x))) (outcomes main_program)))%nat = true.
Proof. vm_compute. split; [ | reflexivity]. auto 20. Qed.

(** e.g.: the process await is cancelled -> the relay still drains, puts the sentinel and awaits the
    monitor; on_end_run is not called; the exception propagates *)
Example xrun_cancel_at_process_await :
  In (XRaise, [(LCreate, true); (LSpawn, true); (LHook HOnStartRun, true); (LBody, true); (LProc, false); (LInFinally, true);
               (LPut, true); (LMon, true)]) (outcomes main_program).
Proof. vm_compute. auto 30. Qed.
