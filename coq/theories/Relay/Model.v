(** Executable model of the event relay between the spawned process and the main
    process: nextline/plugin/plugins/session/session.py (RunSession.run,
    relay_events, _on_start_run, _on_end_run), session/monitor.py (OnEvent),
    nextline/spawned/__init__.py (main: wait_until_queue_empty), utils/queue.py,
    utils/timer.py.   Definitions only; proofs are in Relay/Proofs.v.

    An execution is a list of [label]s chosen by an adversarial scheduler; a label
    whose precondition does not hold is a no-op, so "for every interleaving" =
    "for every list of labels".

    Parties:
    - the CHILD: would emit the events [script] in this order; [Emit] = `queue_out.put(ev)`
      (the event enters the child-side buffer of the multiprocessing.Queue), [Flush] = the
      child's feeder thread writes the oldest buffered event to the pipe.  A normal exit
      ([ChildExit]) happens only when everything has been emitted and flushed
      (spawned.main: wait_until_queue_empty + the feeder thread is joined at interpreter
      exit).  [Kill] can happen at any time: what is still buffered is lost.
      [KillMidWrite]: the child dies inside a pipe write, i.e. holding the queue's
      cross-process write lock: nothing can be written to the pipe any more.
    - the PIPE: one FIFO shared by the events and the `None` sentinel.
    - the MONITOR task (relay_events._monitor): take -> await hooks -> next.
      [MonTake] = `event := await to_thread(queue.get)` returned an event and
      `ahook.on_event_in_process` is CALLED (that is the delivery); [MonDeliver] = the hooks
      have finished (a user plugin may be slow); [MonSeesSentinel] = the get returned None.
    - the MAIN task (RunSession.run): [StartProc] = run_in_process returned;
      [StartRun] = `on_start_run` is called; [ProcExitSeen] = `await running_process`
      returned (the process has exited or was killed); then the drain loop
      `while not queue.empty(): sleep(0); if timer.is_timeout(): break`:
      [DrainTick] leaves the loop iff the pipe is empty, [Timeout] leaves it whatever is in
      the pipe (the 1-second timer, restarted by the monitor: when it fires is left to the
      scheduler); [PutSentinel]; [EndRun] = the monitor task has ended and `on_end_run`
      is called.

    [boot]: environment assumption "the child cannot emit before `on_start_run` is
    called" (the process is started in the same event-loop step that sets the event
    waking up the caller; a spawned interpreter needs tens of ms to boot).  With
    [boot = true], [Emit] is disabled until [StartRun]. *)
From Coq Require Export List ZArith Bool Arith.
Export ListNotations.
Open Scope Z_scope.

Inductive item := Ev (z : Z) | Sentinel.

Inductive cstate := CNotStarted | CRunning | CExited | CKilled.
Inductive mstate := MIdle | MBusy (z : Z) | MDone.
Inductive pc := PInit | PStarted | PBody | PDrain | PSentinel | PAwaitMon | PEndRun.

Inductive obs := OStartRun | ODeliver (z : Z) | ODone (z : Z) | OEndRun.

Inductive label :=
| StartProc | StartRun
| Emit | Flush | ChildExit | Kill | KillMidWrite
| ProcExitSeen | DrainTick | Timeout | PutSentinel
| MonTake | MonDeliver | MonSeesSentinel
| EndRun.

Record st := mkSt {
  todo : list Z;        (* what the script would still emit *)
  emitted : list Z;     (* history: events put on the queue by the child, in order *)
  buf : list Z;         (* child-side buffer of the queue (put, not yet written to the pipe) *)
  pipe : list item;     (* the pipe, oldest first *)
  child : cstate;
  wedged : bool;        (* the write lock of the queue died with the child *)
  mon : mstate;
  delivered : list Z;   (* history: events for which the hooks were called, in order *)
  main : pc;
  log : list obs        (* what a recording plugin in the main process sees, in order *)
}.

Definition init (script : list Z) : st :=
  mkSt script [] [] [] CNotStarted false MIdle [] PInit [].

Definition before_start_run (p : pc) : bool :=
  match p with PInit | PStarted => true | _ => false end.

Definition pipe_empty (p : list item) : bool := match p with [] => true | _ => false end.

Definition step (boot : bool) (s : st) (l : label) : st :=
  match l with
  | StartProc =>
      match main s with
      | PInit => mkSt (todo s) (emitted s) (buf s) (pipe s) CRunning (wedged s) (mon s) (delivered s) PStarted (log s)
      | _ => s
      end
  | StartRun =>
      match main s with
      | PStarted => mkSt (todo s) (emitted s) (buf s) (pipe s) (child s) (wedged s) (mon s) (delivered s) PBody (log s ++ [OStartRun])
      | _ => s
      end
  | Emit =>
      match child s, todo s with
      | CRunning, z :: r =>
          if boot && before_start_run (main s) then s
          else mkSt r (emitted s ++ [z]) (buf s ++ [z]) (pipe s) (child s) (wedged s) (mon s) (delivered s) (main s) (log s)
      | _, _ => s
      end
  | Flush =>
      match child s, buf s with
      | CRunning, z :: r =>
          mkSt (todo s) (emitted s) r (pipe s ++ [Ev z]) (child s) (wedged s) (mon s) (delivered s) (main s) (log s)
      | _, _ => s
      end
  | ChildExit =>
      match child s, todo s, buf s with
      | CRunning, [], [] =>
          mkSt (todo s) (emitted s) (buf s) (pipe s) CExited (wedged s) (mon s) (delivered s) (main s) (log s)
      | _, _, _ => s
      end
  | Kill =>
      match child s with
      | CRunning => mkSt (todo s) (emitted s) [] (pipe s) CKilled (wedged s) (mon s) (delivered s) (main s) (log s)
      | _ => s
      end
  | KillMidWrite =>
      match child s with
      | CRunning => mkSt (todo s) (emitted s) [] (pipe s) CKilled true (mon s) (delivered s) (main s) (log s)
      | _ => s
      end
  | ProcExitSeen =>
      match main s, child s with
      | PBody, CExited | PBody, CKilled =>
          mkSt (todo s) (emitted s) (buf s) (pipe s) (child s) (wedged s) (mon s) (delivered s) PDrain (log s)
      | _, _ => s
      end
  | DrainTick =>
      match main s with
      | PDrain =>
          if pipe_empty (pipe s)
          then mkSt (todo s) (emitted s) (buf s) (pipe s) (child s) (wedged s) (mon s) (delivered s) PSentinel (log s)
          else s       (* `await asyncio.sleep(0)`: let the monitor run *)
      | _ => s
      end
  | Timeout =>
      match main s with
      | PDrain => mkSt (todo s) (emitted s) (buf s) (pipe s) (child s) (wedged s) (mon s) (delivered s) PSentinel (log s)
      | _ => s
      end
  | PutSentinel =>
      match main s with
      | PSentinel =>
          mkSt (todo s) (emitted s) (buf s) (if wedged s then pipe s else pipe s ++ [Sentinel])
               (child s) (wedged s) (mon s) (delivered s) PAwaitMon (log s)
      | _ => s
      end
  | MonTake =>
      match mon s, pipe s with
      | MIdle, Ev z :: r =>
          mkSt (todo s) (emitted s) (buf s) r (child s) (wedged s) (MBusy z) (delivered s ++ [z]) (main s) (log s ++ [ODeliver z])
      | _, _ => s
      end
  | MonDeliver =>
      match mon s with
      | MBusy z => mkSt (todo s) (emitted s) (buf s) (pipe s) (child s) (wedged s) MIdle (delivered s) (main s) (log s ++ [ODone z])
      | _ => s
      end
  | MonSeesSentinel =>
      match mon s, pipe s with
      | MIdle, Sentinel :: r =>
          mkSt (todo s) (emitted s) (buf s) r (child s) (wedged s) MDone (delivered s) (main s) (log s)
      | _, _ => s
      end
  | EndRun =>
      match main s, mon s with
      | PAwaitMon, MDone =>
          mkSt (todo s) (emitted s) (buf s) (pipe s) (child s) (wedged s) (mon s) (delivered s) PEndRun (log s ++ [OEndRun])
      | _, _ => s
      end
  end.

Definition run_from (boot : bool) (s : st) (ls : list label) : st := fold_left (step boot) ls s.
Definition run (boot : bool) (script : list Z) (ls : list label) : st := run_from boot (init script) ls.

(** ---- specifications, as functions of the histories alone *)

Fixpoint prefixb (a b : list Z) : bool :=
  match a, b with
  | [], _ => true
  | x :: a', y :: b' => Z.eqb x y && prefixb a' b'
  | _ :: _, [] => false
  end.

(** the bracket automaton over the plugin's log: 0 = before on_start_run, 1 = inside the
    run, 2 = after on_end_run; a delivery (call or completion) is legal only in phase 1 *)
Fixpoint bracket_from (ph : nat) (l : list obs) : bool :=
  match l with
  | [] => true
  | OStartRun :: r => match ph with O => bracket_from 1 r | _ => false end
  | ODeliver _ :: r | ODone _ :: r => match ph with 1%nat => bracket_from 1 r | _ => false end
  | OEndRun :: r => match ph with 1%nat => bracket_from 2 r | _ => false end
  end.
Definition bracketed (l : list obs) : bool := bracket_from 0 l.

(** hooks of two events never overlap: call, done, call, done ... *)
Fixpoint alternating (open : option Z) (l : list obs) : bool :=
  match l with
  | [] => true
  | ODeliver z :: r => match open with None => alternating (Some z) r | Some _ => false end
  | ODone z :: r => match open with Some y => Z.eqb y z && alternating None r | None => false end
  | _ :: r => alternating open r
  end.

Fixpoint deliveries (l : list obs) : list Z :=
  match l with [] => [] | ODeliver z :: r => z :: deliveries r | _ :: r => deliveries r end.

(** ---- correspondence with real runs (harness/props/c10.py) ----
    From a real run we know: the script's full stream (in-process reference run), the plugin's
    log, whether the child was killed and whether on_end_run was reached.  A case agrees with
    the model iff the canonical schedule below, which reproduces exactly that log, is a legal
    run of the model ending in the observed condition. *)
Definition obs_eqb (a b : obs) : bool :=
  match a, b with
  | OStartRun, OStartRun | OEndRun, OEndRun => true
  | ODeliver x, ODeliver y | ODone x, ODone y => Z.eqb x y
  | _, _ => false
  end.

Fixpoint log_eqb (a b : list obs) : bool :=
  match a, b with
  | [], [] => true
  | x :: a', y :: b' => obs_eqb x y && log_eqb a' b'
  | _, _ => false
  end.

(** schedule: start; emit+flush the first n events; kill or exit; then main and the monitor
    as the log dictates *)
Fixpoint sched_log (l : list obs) : list label :=
  match l with
  | [] => []
  | OStartRun :: r => StartProc :: StartRun :: sched_log r
  | ODeliver _ :: r => Emit :: Flush :: MonTake :: sched_log r
  | ODone _ :: r => MonDeliver :: sched_log r
  | OEndRun :: r => sched_log r
  end.

Definition ends (l : list obs) : bool := existsb (obs_eqb OEndRun) l.

Inductive ending := EndNormal | EndKilled | EndWedged.

Definition schedule (l : list obs) (e : ending) (extra : nat) : list label :=
  sched_log l
  ++ repeat Emit extra                              (* events put after the last delivery, never flushed: lost on kill *)
  ++ match e with EndNormal => [ChildExit] | EndKilled => [Kill] | EndWedged => [KillMidWrite] end
  ++ [ProcExitSeen; DrainTick; Timeout; PutSentinel; MonSeesSentinel; EndRun].

Record rcase := mkCase {
  c_script : list Z;      (* the full stream of the script (reference run) *)
  c_log : list obs;       (* the recording plugin's log *)
  c_end : ending;         (* normal exit / killed / killed and the run never ended *)
  c_extra : nat           (* killed: how many further events the child may have emitted *)
}.

Definition case_ok (c : rcase) : bool :=
  let s := run true (c_script c) (schedule (c_log c) (c_end c) (c_extra c)) in
  log_eqb (log s) (c_log c)
  && bracketed (c_log c)
  && alternating None (c_log c)
  && prefixb (delivered s) (c_script c)
  && match c_end c with
     | EndNormal => match main s with PEndRun => log_eqb (map ODeliver (c_script c)) (map ODeliver (delivered s)) | _ => false end
     | EndKilled => match main s with PEndRun => true | _ => false end
     | EndWedged => match main s with PEndRun => false | _ => negb (ends (c_log c)) end
     end.

Fixpoint bad_from (n : nat) (cases : list rcase) : list nat :=
  match cases with
  | [] => []
  | c :: r => if case_ok c then bad_from (S n) r else n :: bad_from (S n) r
  end.
