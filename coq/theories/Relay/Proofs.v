(** Proofs about Relay/Model.v, for EVERY list of labels (every interleaving). *)
From NL Require Import Relay.Model.
From Coq Require Import Lia.
Open Scope Z_scope.

(** ---- the pipe *)
Fixpoint evs (p : list item) : list Z :=
  match p with [] => [] | Ev z :: r => z :: evs r | Sentinel :: r => evs r end.

Fixpoint nosent (p : list item) : bool :=
  match p with [] => true | Ev _ :: r => nosent r | Sentinel :: _ => false end.

(** exactly one sentinel, at the very end *)
Fixpoint sent_last (p : list item) : bool :=
  match p with
  | [] => false
  | Ev _ :: r => sent_last r
  | Sentinel :: r => match r with [] => true | _ => false end
  end.

Lemma evs_app : forall p q, evs (p ++ q) = evs p ++ evs q.
Proof. induction p as [ | [z | ] p IH]; intros q; simpl; rewrite ?IH; reflexivity. Qed.

Lemma nosent_app_ev : forall p z, nosent (p ++ [Ev z]) = nosent p.
Proof. induction p as [ | [y | ] p IH]; intros z; simpl; auto. Qed.

Lemma nosent_app_sent : forall p, nosent p = true -> nosent (p ++ [Sentinel]) = false /\ sent_last (p ++ [Sentinel]) = true.
Proof. induction p as [ | [y | ] p IH]; simpl; intros H; auto; discriminate. Qed.

Lemma sent_last_app_ev_false : forall p z, nosent p = true -> sent_last (p ++ [Ev z]) = false.
Proof. induction p as [ | [y | ] p IH]; simpl; intros z H; auto; discriminate. Qed.

Lemma sent_last_nosent : forall p, sent_last p = true -> nosent p = false.
Proof. induction p as [ | [y | ] p IH]; simpl; intros H; auto; discriminate. Qed.

(** ---- the invariant (any [boot]) *)
Definition late (p : pc) : bool :=
  match p with PDrain | PSentinel | PAwaitMon | PEndRun => true | _ => false end.
Definition dead (c : cstate) : bool :=
  match c with CExited | CKilled => true | _ => false end.

Record inv (script : list Z) (s : st) : Prop := mkInv {
  i_script : script = emitted s ++ todo s;
  i_cons : exists lost, emitted s = delivered s ++ evs (pipe s) ++ lost /\ (child s <> CKilled -> lost = buf s);
  i_exit : child s = CExited -> todo s = [] /\ buf s = [];
  i_late : late (main s) = true -> dead (child s) = true;
  i_nostart : child s = CNotStarted -> main s = PInit;
  i_init : main s = PInit -> child s = CNotStarted;
  i_pipe : if nosent (pipe s)
           then (mon s = MDone -> pipe s = [] /\ (main s = PAwaitMon \/ main s = PEndRun))
           else (sent_last (pipe s) = true /\ main s = PAwaitMon /\ mon s <> MDone);
  i_end : main s = PEndRun -> mon s = MDone;
  i_busy : forall z, mon s = MBusy z -> exists d, delivered s = d ++ [z];
  i_dl : deliveries (log s) = delivered s
}.

Lemma inv_init : forall script, inv script (init script).
Proof.
  intros script. constructor; simpl; auto; try discriminate.
  all: try (exists []; split; auto); try (intros H; discriminate).
Qed.

Lemma deliveries_app : forall a b, deliveries (a ++ b) = deliveries a ++ deliveries b.
Proof. induction a as [ | [ | z | z | ] a IH]; intros b; simpl; rewrite ?IH; reflexivity. Qed.

Ltac dinv H := destruct H as [Hscr [lost [Hcons Hlost]] Hexit Hlate Hnost Hinit Hpipe Hend Hbusy Hdl].

Ltac fin :=
  try (match goal with Hc : ?em = _ ++ _ ++ ?lost |- exists _, ?em = _ /\ _ => exists lost; split; [exact Hc | auto] end; fail);
  try (match goal with
       | Hp : (if nosent ?p then _ else _) |- if nosent ?p then _ else _ =>
         destruct (nosent p);
         [ let Hm := fresh "Hm" in intros Hm; try discriminate; destruct (Hp Hm) as [_ [E | E]]; discriminate
         | destruct Hp as [? [E ?]]; try discriminate; repeat split; auto; discriminate ] end; fail);
  try (rewrite deliveries_app; simpl; rewrite ?app_nil_r; assumption);
  try (match goal with Hi : ?m = PInit -> _ = CNotStarted |- ?m = PInit -> _ =>
         let X := fresh "X" in intros X; specialize (Hi X); discriminate end);
  try (match goal with Hn : ?c = CNotStarted -> _ = PInit |- ?c = CNotStarted -> _ =>
         let X := fresh "X" in intros X; specialize (Hn X); discriminate end);
  try (intros; discriminate).

Lemma step_inv : forall boot script s l, inv script s -> inv script (step boot s l).
Proof.
  intros boot script s l H.
  destruct s as [td em bf pp ch wd mn dl mp lg].
  destruct l; unfold step; simpl.
  - (* StartProc *)
    destruct mp; try exact H. dinv H; simpl in *.
    constructor; simpl; auto; try discriminate; fin.
    exists lost. split; auto. intros _. apply Hlost. rewrite (Hinit eq_refl). discriminate.
  - (* StartRun *)
    destruct mp; try exact H. dinv H; simpl in *.
    constructor; simpl; auto; try discriminate; fin.
  - (* Emit *)
    destruct ch; try exact H. destruct td as [ | z r]; try exact H.
    destruct (boot && before_start_run mp); try exact H.
    dinv H; simpl in *.
    constructor; simpl; auto; try discriminate.
    + rewrite <- app_assoc. exact Hscr.
    + exists (bf ++ [z]). split; auto.
      rewrite (Hlost ltac:(discriminate)) in Hcons. rewrite Hcons. rewrite <- !app_assoc. reflexivity.
  - (* Flush *)
    destruct ch; try exact H. destruct bf as [ | z r]; try exact H.
    dinv H; simpl in *.
    assert (Hnl : late mp = false).
    { destruct (late mp) eqn:E; auto. specialize (Hlate eq_refl). discriminate. }
    assert (Hns : nosent pp = true).
    { destruct (nosent pp) eqn:E; auto. destruct Hpipe as [_ [E' _]]. subst mp. discriminate. }
    rewrite Hns in Hpipe.
    constructor; simpl; auto; try discriminate.
    + exists r. split; auto. rewrite (Hlost ltac:(discriminate)) in Hcons.
      rewrite Hcons, evs_app. simpl. rewrite <- !app_assoc. reflexivity.
    + rewrite nosent_app_ev, Hns. intros Hm. destruct (Hpipe Hm) as [_ [E | E]]; subst mp; discriminate.
  - (* ChildExit *)
    destruct ch; try exact H. destruct td; try exact H. destruct bf; try exact H.
    dinv H; simpl in *.
    constructor; simpl; auto; try discriminate; fin.
    exists lost. split; auto. intros _. apply Hlost. discriminate.
  - (* Kill *)
    destruct ch; try exact H. dinv H; simpl in *.
    constructor; simpl; auto; try discriminate; fin.
    exists lost. split; auto. intros C; exfalso; apply C; reflexivity.
  - (* KillMidWrite *)
    destruct ch; try exact H. dinv H; simpl in *.
    constructor; simpl; auto; try discriminate; fin.
    exists lost. split; auto. intros C; exfalso; apply C; reflexivity.
  - (* ProcExitSeen *)
    destruct mp; try exact H. destruct ch; try exact H; dinv H; simpl in *;
      constructor; simpl; auto; try discriminate; fin.
  - (* DrainTick *)
    destruct mp; try exact H. destruct (pipe_empty pp); try exact H. dinv H; simpl in *.
    constructor; simpl; auto; try discriminate; fin.
  - (* Timeout *)
    destruct mp; try exact H. dinv H; simpl in *.
    constructor; simpl; auto; try discriminate; fin.
  - (* PutSentinel *)
    destruct mp; try exact H. dinv H; simpl in *.
    assert (Hns : nosent pp = true).
    { destruct (nosent pp) eqn:E; auto. destruct Hpipe as [_ [E' _]]. discriminate. }
    rewrite Hns in Hpipe.
    assert (Hmn : mn <> MDone).
    { intros Hm. destruct (Hpipe Hm) as [_ [E | E]]; discriminate. }
    constructor; simpl; auto; try discriminate; fin.
    + exists lost. split; auto. destruct wd; auto. rewrite evs_app. simpl. rewrite app_nil_r. exact Hcons.
    + destruct wd.
      * rewrite Hns. intros Hm. contradiction.
      * destruct (nosent_app_sent pp Hns) as [E1 E2]. rewrite E1. auto.
  - (* MonTake *)
    destruct mn; try exact H. destruct pp as [ | [z | ] r]; try exact H.
    dinv H; simpl in *.
    constructor; simpl; auto; try discriminate.
    + exists lost. split; auto. rewrite Hcons. rewrite <- !app_assoc. reflexivity.
    + destruct (nosent r).
      * intros Hm; discriminate.
      * destruct Hpipe as [E1 [E2 _]]. repeat split; auto. discriminate.
    + intros Hm. specialize (Hend Hm). discriminate.
    + intros z0 Hz. inversion Hz. eexists. reflexivity.
    + rewrite deliveries_app. simpl. rewrite Hdl. reflexivity.
  - (* MonDeliver *)
    destruct mn; try exact H. dinv H; simpl in *.
    constructor; simpl; auto; try discriminate; fin.
    intros Hm. specialize (Hend Hm). discriminate.
  - (* MonSeesSentinel *)
    destruct mn; try exact H. destruct pp as [ | [z | ] r]; try exact H.
    dinv H; simpl in *.
    destruct Hpipe as [E1 [E2 _]]. destruct r; try discriminate. simpl in Hcons.
    constructor; simpl; auto; try discriminate; fin.
    exists lost. split; auto.
  - (* EndRun *)
    destruct mp; try exact H. destruct mn; try exact H. dinv H; simpl in *.
    destruct (nosent pp) eqn:Hns.
    + destruct (Hpipe eq_refl) as [Ep _]. subst pp.
      constructor; simpl; auto; try discriminate; fin.
    + destruct Hpipe as [_ [_ C]]. exfalso; apply C; reflexivity.
Qed.

Lemma run_from_inv : forall boot script ls s, inv script s -> inv script (run_from boot s ls).
Proof.
  intros boot script ls. induction ls as [ | l ls IH]; intros s H; simpl; auto.
  apply IH. apply step_inv. exact H.
Qed.

Lemma run_inv : forall boot script ls, inv script (run boot script ls).
Proof. intros. apply run_from_inv. apply inv_init. Qed.

(** ---- C10: completeness and order *)
Lemma complete_in_order : forall boot script ls,
  let s := run boot script ls in
  main s = PEndRun -> child s = CExited ->
  delivered s = script /\ emitted s = script /\ deliveries (log s) = script.
Proof.
  intros boot script ls s Hm Hc. pose proof (run_inv boot script ls) as H. fold s in H.
  destruct H as [Hscr [lost [Hcons Hlost]] Hexit Hlate Hnost Hinit Hpipe Hend Hbusy Hdl].
  specialize (Hend Hm). destruct (Hexit Hc) as [Htd Hbf].
  assert (Hp : pipe s = []).
  { destruct (nosent (pipe s)) eqn:E.
    - destruct (Hpipe Hend) as [Ep _]. exact Ep.
    - destruct Hpipe as [_ [_ C]]. contradiction. }
  rewrite Htd, app_nil_r in Hscr.
  rewrite Hp in Hcons. simpl in Hcons.
  rewrite (Hlost ltac:(rewrite Hc; discriminate)), Hbf, app_nil_r in Hcons.
  repeat split; congruence.
Qed.

(** ---- C10: what is delivered is always a prefix of what was emitted (kill at any point),
    which is a prefix of what the script emits *)
Lemma prefix_always : forall boot script ls,
  let s := run boot script ls in
  (exists rest, emitted s = delivered s ++ rest) /\ (exists rest, script = emitted s ++ rest) /\
  deliveries (log s) = delivered s.
Proof.
  intros boot script ls s. pose proof (run_inv boot script ls) as H. fold s in H.
  destruct H as [Hscr [lost [Hcons Hlost]] Hexit Hlate Hnost Hinit Hpipe Hend Hbusy Hdl].
  repeat split.
  - eexists. exact Hcons.
  - eexists. exact Hscr.
  - exact Hdl.
Qed.

(** ---- C10: bracketing (needs the boot assumption) *)
Definition phase_step (ph : nat) (o : obs) : option nat :=
  match o, ph with
  | OStartRun, O => Some 1%nat
  | ODeliver _, 1%nat | ODone _, 1%nat => Some 1%nat
  | OEndRun, 1%nat => Some 2%nat
  | _, _ => None
  end.

Fixpoint phase_from (ph : nat) (l : list obs) : option nat :=
  match l with
  | [] => Some ph
  | o :: r => match phase_step ph o with Some p => phase_from p r | None => None end
  end.

Lemma phase_from_app : forall l ph o,
  phase_from ph (l ++ [o]) = match phase_from ph l with Some p => phase_step p o | None => None end.
Proof.
  induction l as [ | x l IH]; intros ph o; simpl.
  - destruct (phase_step ph o); reflexivity.
  - destruct (phase_step ph x); auto.
Qed.

Lemma bracket_phase : forall l ph, bracket_from ph l = true <-> exists p, phase_from ph l = Some p.
Proof.
  induction l as [ | o l IH]; intros ph; simpl.
  - split; eauto.
  - destruct o; destruct ph as [ | [ | ph]]; simpl; try apply IH;
      split; try discriminate; intros [p Hp]; discriminate.
Qed.

Definition phase_of_pc (p : pc) : nat :=
  match p with PInit | PStarted => 0%nat | PEndRun => 2%nat | _ => 1%nat end.

Record binv (s : st) : Prop := mkBinv {
  b_phase : phase_from 0 (log s) = Some (phase_of_pc (main s));
  b_quiet : before_start_run (main s) = true -> emitted s = []
}.

Ltac same := try (constructor; simpl in *; auto; try (intros; discriminate); fail).

Lemma step_binv : forall script s l, inv script s -> binv s -> binv (step true s l).
Proof.
  intros script s l H B.
  destruct s as [td em bf pp ch wd mn dl mp lg].
  destruct B as [Bph Bq]. simpl in *.
  destruct l; unfold step; simpl.
  - destruct mp; same.
  - destruct mp; same. constructor; simpl.
    + rewrite phase_from_app, Bph. reflexivity.
    + intros; discriminate.
  - destruct ch; same. destruct td; same.
    destruct (before_start_run mp) eqn:E; simpl; same.
    constructor; simpl; auto. intros E'. rewrite E in E'. discriminate.
  - destruct ch; same. destruct bf; same.
  - destruct ch; same. destruct td; same. destruct bf; same.
  - destruct ch; same.
  - destruct ch; same.
  - destruct mp; same. destruct ch; same.
  - destruct mp; same. destruct (pipe_empty pp); same.
  - destruct mp; same.
  - destruct mp; same.
  - (* MonTake *)
    destruct mn; same. destruct pp as [ | [z | ] r]; same.
    dinv H; simpl in *.
    assert (Hnb : before_start_run mp = false).
    { destruct (before_start_run mp) eqn:E; auto. rewrite (Bq eq_refl) in Hcons.
      destruct dl; discriminate. }
    assert (Hne : mp <> PEndRun). { intros E. specialize (Hend E). discriminate. }
    constructor; simpl.
    + rewrite phase_from_app, Bph. destruct mp; simpl in *; try discriminate; try reflexivity. contradiction.
    + rewrite Hnb. intros; discriminate.
  - (* MonDeliver *)
    destruct mn; same.
    dinv H; simpl in *.
    assert (Hnb : before_start_run mp = false).
    { destruct (before_start_run mp) eqn:E; auto. rewrite (Bq eq_refl) in Hcons.
      destruct (Hbusy z eq_refl) as [d Hd]. rewrite Hd in Hcons. destruct d; discriminate. }
    assert (Hne : mp <> PEndRun). { intros E. specialize (Hend E). discriminate. }
    constructor; simpl.
    + rewrite phase_from_app, Bph. destruct mp; simpl in *; try discriminate; try reflexivity. contradiction.
    + rewrite Hnb. intros; discriminate.
  - destruct mn; same. destruct pp as [ | [z | ] r]; same.
  - destruct mp; same. destruct mn; same.
    constructor; simpl.
    + rewrite phase_from_app, Bph. reflexivity.
    + intros; discriminate.
Qed.

Lemma run_from_binv : forall script ls s, inv script s -> binv s -> binv (run_from true s ls).
Proof.
  intros script ls. induction ls as [ | l ls IH]; intros s H B; simpl; auto.
  apply IH. apply step_inv; exact H. eapply step_binv; eauto.
Qed.

Lemma bracketed_always : forall script ls, bracketed (log (run true script ls)) = true.
Proof.
  intros script ls. unfold bracketed. apply bracket_phase.
  pose proof (run_from_binv script ls (init script) (inv_init script)) as B.
  destruct B as [Bph _].
  - constructor; simpl; auto.
  - eexists. exact Bph.
Qed.

(** nothing at all is delivered after on_end_run: the log stops changing *)
Lemma nothing_after_end : forall boot script ls l,
  main (run boot script ls) = PEndRun ->
  log (run boot script (ls ++ [l])) = log (run boot script ls).
Proof.
  intros boot script ls l Hm. unfold run, run_from in *. rewrite fold_left_app. simpl.
  pose proof (run_inv boot script ls) as H. unfold run, run_from in H.
  set (s := fold_left (step boot) ls (init script)) in *.
  destruct H as [_ _ _ _ _ _ _ Hend _ _]. specialize (Hend Hm).
  destruct s as [td em bf pp ch wd mn dl mp lg]. simpl in *. subst mp mn.
  destruct l; simpl; try reflexivity.
  - destruct ch; try reflexivity. destruct td; try reflexivity. destruct (boot && false); reflexivity.
  - destruct ch; try reflexivity. destruct bf; reflexivity.
  - destruct ch; try reflexivity. destruct td; try reflexivity. destruct bf; reflexivity.
  - destruct ch; reflexivity.
  - destruct ch; reflexivity.
Qed.

(** the boot assumption is needed in the model: without it a delivery can precede on_start_run *)
Lemma bracket_needs_boot :
  bracketed (log (run false [5] [StartProc; Emit; Flush; MonTake; StartRun])) = false.
Proof. reflexivity. Qed.

(** ---- hooks of two events never overlap *)
Fixpoint alt_state (open : option Z) (l : list obs) : option (option Z) :=
  match l with
  | [] => Some open
  | ODeliver z :: r => match open with None => alt_state (Some z) r | Some _ => None end
  | ODone z :: r => match open with Some y => if Z.eqb y z then alt_state None r else None | None => None end
  | _ :: r => alt_state open r
  end.

Lemma alt_state_app : forall l open o,
  alt_state open (l ++ [o]) = match alt_state open l with Some op => alt_state op [o] | None => None end.
Proof.
  induction l as [ | x l IH]; intros open o.
  - reflexivity.
  - simpl. destruct x; try apply IH; destruct open; try reflexivity; try apply IH. match goal with |- context [Z.eqb ?a ?b] => destruct (Z.eqb a b) end; [apply IH | reflexivity].
Qed.

Lemma alternating_alt : forall l open, alternating open l = true <-> exists op, alt_state open l = Some op.
Proof.
  induction l as [ | o l IH]; intros open; simpl.
  - split; eauto.
  - destruct o; try apply IH.
    + destruct open; try apply IH. split; try discriminate. intros [op H]; discriminate.
    + destruct open as [y | ].
      * destruct (Z.eqb y z); simpl; try apply IH. split; try discriminate. intros [op H]; discriminate.
      * split; try discriminate. intros [op H]; discriminate.
Qed.

Definition open_of (m : mstate) : option Z := match m with MBusy z => Some z | _ => None end.

Lemma step_alt : forall boot s l,
  alt_state None (log s) = Some (open_of (mon s)) ->
  alt_state None (log (step boot s l)) = Some (open_of (mon (step boot s l))).
Proof.
  intros boot s l H. destruct s as [td em bf pp ch wd mn dl mp lg]. simpl in *.
  destruct l; unfold step; simpl; auto.
  - destruct mp; simpl; auto.
  - destruct mp; simpl; auto. rewrite alt_state_app, H. reflexivity.
  - destruct ch; simpl; auto. destruct td; simpl; auto. destruct (boot && before_start_run mp); simpl; auto.
  - destruct ch; simpl; auto. destruct bf; simpl; auto.
  - destruct ch; simpl; auto. destruct td; simpl; auto. destruct bf; simpl; auto.
  - destruct ch; simpl; auto.
  - destruct ch; simpl; auto.
  - destruct mp; simpl; auto. destruct ch; simpl; auto.
  - destruct mp; simpl; auto. destruct (pipe_empty pp); simpl; auto.
  - destruct mp; simpl; auto.
  - destruct mp; simpl; auto.
  - destruct mn; simpl; auto. destruct pp as [ | [z | ] r]; simpl; auto.
    rewrite alt_state_app, H. reflexivity.
  - destruct mn; simpl; auto. rewrite alt_state_app, H. simpl. rewrite Z.eqb_refl. reflexivity.
  - destruct mn; simpl; auto. destruct pp as [ | [z | ] r]; simpl; auto.
  - destruct mp; simpl; auto. destruct mn; simpl; auto. rewrite alt_state_app, H. reflexivity.
Qed.

Lemma hooks_never_overlap : forall boot script ls, alternating None (log (run boot script ls)) = true.
Proof.
  intros boot script ls. apply alternating_alt.
  assert (G : forall ls s, alt_state None (log s) = Some (open_of (mon s)) ->
              alt_state None (log (run_from boot s ls)) = Some (open_of (mon (run_from boot s ls)))).
  { induction ls0 as [ | l ls0 IH]; intros s H; simpl; auto. apply IH. apply step_alt. exact H. }
  eexists. apply G. reflexivity.
Qed.

(** ---- the run can get stuck for ever: child killed inside a pipe write *)
Record winv (s : st) : Prop := mkWinv {
  w_wedged : wedged s = true;
  w_nosent : nosent (pipe s) = true;
  w_mon : mon s <> MDone;
  w_main : main s <> PEndRun
}.

Ltac wsame := try (constructor; simpl in *; auto; try discriminate; fail).

Lemma step_winv : forall boot s l, winv s -> winv (step boot s l).
Proof.
  intros boot s l [W1 W2 W3 W4]. destruct s as [td em bf pp ch wd mn dl mp lg]. simpl in *. subst wd.
  destruct l; unfold step; simpl.
  - destruct mp; wsame.
  - destruct mp; wsame.
  - destruct ch; wsame. destruct td; wsame. destruct (boot && before_start_run mp); wsame.
  - destruct ch; wsame. destruct bf; wsame. constructor; simpl; auto. rewrite nosent_app_ev. exact W2.
  - destruct ch; wsame. destruct td; wsame. destruct bf; wsame.
  - destruct ch; wsame.
  - destruct ch; wsame.
  - destruct mp; wsame. destruct ch; wsame.
  - destruct mp; wsame. destruct (pipe_empty pp); wsame.
  - destruct mp; wsame.
  - destruct mp; wsame.
  - destruct mn; wsame. destruct pp as [ | [z | ] r]; wsame.
  - destruct mn; wsame.
  - destruct mn; wsame. destruct pp as [ | [z | ] r]; wsame.
  - destruct mp; wsame. destruct mn; wsame.
Qed.

Lemma kill_mid_write_wedges : forall boot script ls1 ls2,
  child (run boot script ls1) = CRunning ->
  main (run boot script (ls1 ++ KillMidWrite :: ls2)) <> PEndRun.
Proof.
  intros boot script ls1 ls2 Hc. unfold run, run_from in *. rewrite fold_left_app. simpl.
  pose proof (run_inv boot script ls1) as H. unfold run, run_from in H.
  set (s := fold_left (step boot) ls1 (init script)) in *.
  assert (W : winv (step boot s KillMidWrite)).
  { destruct H as [_ _ _ Hlate _ _ Hpipe Hend _ _].
    destruct s as [td em bf pp ch wd mn dl mp lg]. simpl in *. subst ch. simpl.
    assert (Hnl : late mp = false).
    { destruct (late mp) eqn:E; auto. specialize (Hlate eq_refl). discriminate. }
    destruct (nosent pp) eqn:Hns.
    - constructor; simpl; auto.
      + intros Hm. destruct (Hpipe Hm) as [_ [E | E]]; subst mp; discriminate.
      + intros E. subst mp. discriminate.
    - destruct Hpipe as [_ [E _]]. subst mp. discriminate. }
  assert (G : forall ls s, winv s -> winv (fold_left (step boot) ls s)).
  { induction ls as [ | l ls IH]; intros s0 W0; simpl; auto. apply IH. apply step_winv. exact W0. }
  destruct (G ls2 _ W) as [_ _ _ Wm]. exact Wm.
Qed.
