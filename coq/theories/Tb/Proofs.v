From NL Require Import Tb.Model.

Lemma cut_wc_entry : forall u e inner, forallb user_frame u = true -> is_wc e = true -> cut_wc (u ++ e :: inner) = u.
Proof.
  induction u as [|f r IH]; intros e inner H E; simpl.
  - rewrite E. reflexivity.
  - simpl in H. apply andb_prop in H. destruct H as [Hf Hr]. destruct f; simpl in *; try discriminate; rewrite IH; auto.
Qed.

Lemma clean_kbd_call_user_prefix : forall f u mid inner, forallb user_frame (f :: u) = true ->
  clean KbdInterrupt (raw_kbd_call (f :: u) mid inner) = f :: u.
Proof.
  intros f u mid inner H. unfold clean, raw_kbd_call. simpl remove_frame. simpl clean_syntax. simpl.
  simpl in H. apply andb_prop in H. destruct H as [_ Hu]. rewrite cut_wc_entry; auto.
Qed.

Lemma cut_wc_user : forall u inner, forallb user_frame u = true -> cut_wc (u ++ WithContextM :: inner) = u.
Proof.
  induction u as [|f r IH]; intros inner H; simpl.
  - reflexivity.
  - simpl in H. apply andb_prop in H. destruct H as [Hf Hr]. destruct f; simpl in *; try discriminate; rewrite IH; auto.
Qed.

Lemma clean_ordinary : forall u, clean Ordinary (raw_ordinary u) = u.
Proof. intros u. unfold clean, raw_ordinary. simpl. reflexivity. Qed.

Lemma clean_syntax_loop_here : forall t orig, t <> [] -> clean_syntax_loop true t orig = [].
Proof.
  induction t as [|f r IH]; intros orig H; [contradiction|]. simpl. destruct r; [reflexivity|]. apply IH. discriminate.
Qed.

Lemma clean_syntax_loop_compose : forall plug comp orig here, clean_syntax_loop here (plug ++ Compose :: comp) orig = [].
Proof.
  induction plug as [|f r IH]; intros comp orig here; simpl.
  - rewrite orb_true_r. destruct comp; [reflexivity|]. apply clean_syntax_loop_here. discriminate.
  - destruct (r ++ Compose :: comp) eqn:E; [destruct r; discriminate|]. rewrite <- E. apply IH.
Qed.

Lemma clean_syntax_compiled_here : forall plug comp, clean SyntaxErr (raw_syntax plug comp) = [].
Proof.
  intros. unfold clean, raw_syntax. simpl remove_frame. unfold clean_syntax. rewrite clean_syntax_loop_compose. reflexivity.
Qed.

Lemma clean_kbd_user_prefix : forall f u inner, forallb user_frame (f :: u) = true ->
  clean KbdInterrupt (raw_kbd (f :: u) inner) = f :: u.
Proof.
  intros f u inner H. unfold clean, raw_kbd. simpl remove_frame. simpl clean_syntax. simpl.
  simpl in H. apply andb_prop in H. destruct H as [_ Hu]. rewrite cut_wc_user; auto.
Qed.

Lemma no_nextline_ordinary : forall u, forallb user_frame u = true -> existsb nextline_frame (clean Ordinary (raw_ordinary u)) = false.
Proof.
  intros u H. rewrite clean_ordinary. induction u as [|f r IH]; [reflexivity|].
  simpl in *. apply andb_prop in H. destruct H as [Hf Hr]. unfold nextline_frame at 1. rewrite Hf. simpl. auto.
Qed.

Lemma no_nextline_kbd : forall f u inner, forallb user_frame (f :: u) = true ->
  existsb nextline_frame (clean KbdInterrupt (raw_kbd (f :: u) inner)) = false.
Proof.
  intros f u inner H. rewrite clean_kbd_user_prefix by exact H.
  generalize dependent (f :: u). induction l as [|g r IH]; intros H; [reflexivity|].
  simpl in *. apply andb_prop in H. destruct H as [Hf Hr]. unfold nextline_frame at 1. rewrite Hf. simpl. auto.
Qed.

(** an exception raised at run time from the user's code -- WHATEVER its class, SyntaxError and KeyboardInterrupt included:
    the raw traceback is the runner frame followed by user frames only (no compose.py frame: nothing was compiled by
    nextline; no WithContext frame: not raised inside a trace call), and the cleaned traceback is exactly the user frames *)
Lemma clean_syntax_loop_user : forall t orig here, forallb user_frame t = true -> here = false ->
  clean_syntax_loop here t orig = orig.
Proof.
  induction t as [|f r IH]; intros orig here H E; subst here; simpl; [reflexivity|].
  simpl in H. apply andb_prop in H. destruct H as [Hf Hr].
  assert (C : is_compose f = false) by (destruct f; simpl in *; try reflexivity; discriminate).
  rewrite C. destruct r; [reflexivity|]. apply IH; auto.
Qed.

Lemma cut_wc_user_only : forall u, forallb user_frame u = true -> cut_wc u = u.
Proof.
  induction u as [|f r IH]; intros H; simpl; [reflexivity|].
  simpl in H. apply andb_prop in H. destruct H as [Hf Hr]. destruct f; simpl in *; try discriminate; rewrite IH; auto.
Qed.

Lemma clean_runtime_any_class : forall k u, forallb user_frame u = true -> clean k (raw_ordinary u) = u.
Proof.
  intros k u H. unfold clean, raw_ordinary. simpl remove_frame.
  assert (S : clean_syntax k u = u).
  { unfold clean_syntax. destruct k; try reflexivity. apply clean_syntax_loop_user; auto. }
  rewrite S. unfold clean_kbd. destruct k; try reflexivity. destruct u as [|f r]; [reflexivity|].
  simpl in H. apply andb_prop in H. destruct H as [_ Hr]. rewrite cut_wc_user_only; auto.
Qed.

Lemma no_nextline_kbd_call : forall f u mid inner, forallb user_frame (f :: u) = true ->
  existsb nextline_frame (clean KbdInterrupt (raw_kbd_call (f :: u) mid inner)) = false.
Proof.
  intros f u mid inner H. rewrite clean_kbd_call_user_prefix by exact H.
  generalize dependent (f :: u). induction l as [|g r IH]; intros H; [reflexivity|].
  simpl in *. apply andb_prop in H. destruct H as [Hf Hr]. unfold nextline_frame at 1. rewrite Hf. simpl. auto.
Qed.
