(** C04, traceback part: what RunResult.fmt_exc can contain.  The three cleaning functions are the
    GENERATED transcriptions in Gen/TbFuns.v; this file only says which raw tracebacks occur. *)
From NL Require Export Gen.TbFuns.
From Coq Require Export List Bool.
Export ListNotations.

(** frames of the user's program: its own code and library code it calls *)
Definition user_frame (f : fclass) : bool := match f with User | Lib => true | _ => false end.
Definition nextline_frame (f : fclass) : bool := negb (user_frame f).

(** raw traceback of an exception that escapes the script: the frame of _compile_and_run, then the program's *)
Definition raw_ordinary (u : tb) : tb := Runner :: u.
(** SyntaxError raised by compile() in compose.py: runner, pluggy frames, compose frames *)
Definition raw_syntax (plug : tb) (comp : tb) : tb := Runner :: plug ++ Compose :: comp.
(** KeyboardInterrupt raised while a trace function waits for a command at a line / return / exception event: runner,
    the program's stack, then WithContext's _local_trace and whatever it called *)
Definition raw_kbd (u : tb) (inner : tb) : tb := Runner :: u ++ WithContextM :: inner.
(** ... at a CALL event: the interpreter calls the global trace function (global_.py), which reaches WithContext through
    pluggy and local_.py *)
Definition raw_kbd_call (u : tb) (mid inner : tb) : tb := Runner :: u ++ GlobalTraceM :: mid ++ WithContextM :: inner.

Fixpoint tb_eqb (a b : tb) : bool :=
  match a, b with
  | [], [] => true
  | x :: r, y :: s => (match x, y with
                       | User, User | Runner, Runner | Compose, Compose | WithContextM, WithContextM
                       | Plugin, Plugin | Lib, Lib | GlobalTraceM, GlobalTraceM => true | _, _ => false end) && tb_eqb r s
  | _, _ => false
  end.

Definition fclass_of (n : nat) : fclass :=
  match n with 0 => User | 1 => Runner | 2 => Compose | 3 => WithContextM | 4 => Plugin | 6 => GlobalTraceM | _ => Lib end.
Definition kind_of (n : nat) : exckind := match n with 0 => Ordinary | 1 => SyntaxErr | _ => KbdInterrupt end.

(** correspondence: (exception kind, raw traceback, observed frame classes of fmt_exc) *)
Fixpoint bad_from (n : nat) (cases : list (nat * list nat * list nat)) : list nat :=
  match cases with
  | [] => []
  | (k, raw, obs) :: r =>
      if tb_eqb (clean (kind_of k) (map fclass_of raw)) (map fclass_of obs) then bad_from (S n) r else n :: bad_from (S n) r
  end.
